/-
  C03 (continued) — alignment and convergence through a WHOLE `UpdateDelta` run.

  `Lmd.Props.C03` section 13 proves what one hosts / services step does; its closing comment lists the composition
  over a run and over consecutive runs as missing.  This file supplies it.  A run (`updateDelta` in `Lmd/Peer.lean`)
  has four parts, named here `runStatus` (status refresh), `runHosts`, `runServices` (the two window steps) and
  `runEntries` (comments and downtimes with the rebuild of the id lists); `updateDelta_parts` is that decomposition.

  14. `query_keeps_rows`, `updateDelta_keeps_backend`: requests only read the backend's object set.
      `updateDelta_preserves_aligned`: a whole successful run keeps the pairing invariant `Aligned` of hosts and services.
  15. `converges_run_partial`: with the scan due for both tables, under the cap and the contracts `ChangeVisible` /
      `StampsTell`, after the run both tables agree with the backend on every delivered dynamic column (`AgreeOn`).
  16. `converges_two_runs`: agreement is a fixed point — ANY further successful run keeps it;
      `converges_run_then_stays_partial`: 15 and 16 composed over two consecutive runs.
  17. `scan_progress_step_partial`, `scan_progress_finite_partial`: progress when the cap of the timestamp filter
      is reached — the number of rows that differ from the backend in a scan column (`scanDiff`) never grows in a
      scanning step and shrinks whenever the scan lists something; so finitely many scanning steps empty the list.

  Helper lemmas live in `Lmd.Lemmas.RunLemmas`.
-/
import Lmd.Props.C03
import Lmd.Lemmas.RunLemmas

namespace Lmd.C03
open Lmd Lmd.PeerL Lmd.RunL

/-! ## 14. the pairing invariant through a whole run -/

/-- A request to the backend (`Peer.Query`: connection attempts, then the reply or a failure) never changes the
    backend's objects: the rows of every table are the same before and after, whatever the outcome. -/
theorem query_keeps_rows (w : World) (now : Int) (p : PeerSt) (b : BackendSt) (handled : Bool) (t : String) :
    (query w now p b handled).2.1.rows t = b.rows t :=
  query_rows w now p b handled t

/-- A whole `UpdateDelta` run — successful or not — leaves the backend's objects as they were: every table of the
    backend has the same rows after the run (the run only sends requests, which count hits and may trip the scripted
    failure mode, nothing else). -/
theorem updateDelta_keeps_backend (w : World) (now : Int) (p : PeerSt) (b : BackendSt) (c : Cache) (fromT : Int)
    (t : String) : (updateDelta w now p b c fromT).b.rows t = b.rows t :=
  rows_of_tables (updateDelta_tables w now p b c fromT) t

/-- A whole successful `UpdateDelta` run (status refresh, hosts step, services step, comments / downtimes diff with
    the rebuild of the id lists) keeps the pairing invariant of the hosts table and of the services table: if the
    cached rows and the backend's objects in primary-key order carried the same distinct keys position by position
    before the run, they do so afterwards, and the backend's objects are unchanged.  Assumptions about the schema
    (both decidable): no key column is fetched as "Dynamic" (`KeyStatic`), and neither id list (`comments`,
    `downtimes`) is a key column or the base of a lower-case shadow key column (`IdListsNotKey`). -/
theorem updateDelta_preserves_aligned (w : World) (now : Int) (p : PeerSt) (b : BackendSt) (c : Cache) (fromT : Int)
    (t : String) (ht : t = "hosts" ∨ t = "services") (hK : KeyStatic (tableOf w t)) (hL : IdListsNotKey (tableOf w t))
    (hA : Aligned w t (b.rows t) (c.get t)) (hok : (updateDelta w now p b c fromT).err = .none) :
    (updateDelta w now p b c fromT).b.rows t = b.rows t ∧
    Aligned w t ((updateDelta w now p b c fromT).b.rows t) ((updateDelta w now p b c fromT).cache.get t) :=
  aligned_run w now p b c fromT t ht hK hL hA hok

/-! ### the running example: the two hosts of section 13 (host `a` acknowledged meanwhile), a peer that is `Up`

  The run is `updateDelta exWorld2 200 exPeer3 exBackend2 exCache2 103`: window `[100, 197)`, scan threshold 100, both
  full scans due (last ones at 10 and 0). -/

/-- the peer of the run example: `Up` with the table set of section 13, last full scan of the hosts at 10 -/
def exPeer3 : PeerSt := { lastFullHostUpdate := 10, cache := some exCache2, status := .up }

/-- the peer of the example talks to its own address and the backend answers every request -/
theorem exHealthy3 : Healthy exPeer3 exBackend2 := ⟨rfl, by decide, rfl, rfl⟩

/-- the (empty) services table of the example is aligned with the backend's (no) services -/
theorem exAlignedS : Aligned exWorld2 "services" (exBackend2.rows "services") (exCache2.get "services") := by
  apply aligned_of_keys
  · have : exBackend2.rows "services" = [] := rfl
    rw [this]; simp [sortedReply]; rfl
  · exact List.nodup_nil

/-- the example run succeeds -/
theorem exRun_ok : (updateDelta exWorld2 200 exPeer3 exBackend2 exCache2 103).err = .none :=
  updateDelta_succeeds exWorld2 200 exPeer3 exBackend2 exCache2 103 exHealthy3 rfl (by decide) exAligned exAlignedS
    (by decide)

/-- non-vacuity of `updateDelta_preserves_aligned`: for the hosts table of the example (two rows) every hypothesis
    holds — the key column `name` is static and no id list, the table is aligned, the run succeeds -/
example : KeyStatic (tableOf exWorld2 "hosts") ∧ IdListsNotKey (tableOf exWorld2 "hosts") ∧
    Aligned exWorld2 "hosts" (exBackend2.rows "hosts") (exCache2.get "hosts") ∧
    (updateDelta exWorld2 200 exPeer3 exBackend2 exCache2 103).err = .none :=
  ⟨by decide, by decide, exAligned, exRun_ok⟩

/-! ## 15. convergence through one run -/

/-- The assumptions of `ScanStep` about one hosts / services step other than the alignment (which a run provides
    itself): the full scan is due, both requests are answered, the scan's list stays under the cap of the timestamp
    filter, the scan columns are dynamic columns, the dynamic columns have distinct names.  All decidable. -/
structure ScanCond (w : World) (now : Int) (p : PeerSt) (b : BackendSt) (c : Cache) (t : String) (threshold : Int) :
    Prop where
  /-- the full scan is due: the last one is at least a minute old -/
  due : ¬ lastFullOf p t > now - 60
  /-- the scan request is answered -/
  scanAnswered : (query w now p b).2.2 = none
  /-- the delta request that follows is answered -/
  deltaAnswered : (query w now (query w now p b).1 (query w now p b).2.1).2.2 = none
  /-- the timestamp filter built from the scan's list stays under the cap of 150 lines -/
  underCap : tsFilterLen (stepMissing w now p b c t threshold) ≤ 150
  /-- every scan column the table has (as int / int64) is one of the dynamic columns refreshed under the flags in force -/
  scanColsDynamic : ScanColsDynamic w t (stepScanCols w now p b) (applyFlags w now p b)
  /-- the dynamic columns have distinct names -/
  namesNodup : ((dynamicCols w.schema (applyFlags w now p b) (tableOf w t).name).map (·.name)).Nodup

/-- `ScanCond` and the alignment together are the assumptions `ScanStep` of section 13. -/
theorem ScanCond.toStep {w : World} {now : Int} {p : PeerSt} {b : BackendSt} {c : Cache} {t : String} {threshold : Int}
    (h : ScanCond w now p b c t threshold) (hA : Aligned w t (b.rows t) (c.get t)) : ScanStep w now p b c t threshold :=
  ⟨hA, h.due, h.scanAnswered, h.deltaAnswered, h.underCap, h.scanColsDynamic, h.namesNodup⟩

/-- The assumptions of `converges_run_partial` about ONE run `updateDelta w now p b c fromT`: at its start hosts and
    services are aligned with the backend's objects, the status refresh succeeds, and `ScanCond` holds for the hosts
    step — which starts from the state the status refresh leaves (`runStatus`) — and for the services step — which
    starts from the state the hosts step leaves (`runHosts`). -/
structure ScanRun (w : World) (now : Int) (p : PeerSt) (b : BackendSt) (c : Cache) (fromT : Int) : Prop where
  /-- the hosts table is aligned with the backend's hosts -/
  alignedHosts : Aligned w "hosts" (b.rows "hosts") (c.get "hosts")
  /-- the services table is aligned with the backend's services -/
  alignedServices : Aligned w "services" (b.rows "services") (c.get "services")
  /-- the status refresh succeeds (no restart seen, request answered) -/
  statusOk : (runStatus w now p b c).err = .none
  /-- the hosts step: scan due, requests answered, under the cap, scan columns dynamic -/
  hosts : ScanCond w now (runStatus w now p b c).p (runStatus w now p b c).b (runStatus w now p b c).cache "hosts"
    (runThreshold w fromT)
  /-- the services step: the same, from the state after the hosts step -/
  services : ScanCond w now (runHosts w now p b c fromT).p (runHosts w now p b c fromT).b
    (runHosts w now p b c fromT).cache "services" (runThreshold w fromT)

/-- Convergence through ONE whole run.  Assume `ScanRun` (both tables aligned, status refresh fine, both full scans
    due, every request of the two steps answered, under the cap) and the backend contracts `ChangeVisible` and
    `StampsTell` for the hosts step and for the services step.  Then the hosts step and the services step succeed,
    the backend's objects are unchanged, and in the tables the run returns — whether or not its comments / downtimes
    part succeeds — hosts and services agree with the backend (`AgreeOn`): as many rows as objects, and the row at
    every position holds, in every dynamic column other than the two id lists that the backend row of the same
    object delivers, the value `UpdateValues` stores for the backend's current value.
    Partial: one run under the listed assumptions — the contracts are assumptions about the monitoring core, the cap
    must not be reached (see section 17 for the progress made when it is), both scans must be due; the id lists
    `comments` / `downtimes` are rebuilt from their own tables (property C12) and excluded here. -/
theorem converges_run_partial (w : World) (now : Int) (p : PeerSt) (b : BackendSt) (c : Cache) (fromT : Int)
    (h : ScanRun w now p b c fromT)
    (hVh : ChangeVisible w now (runStatus w now p b c).p (runStatus w now p b c).b (runStatus w now p b c).cache "hosts"
      (runWindow w now fromT) (runThreshold w fromT))
    (hTh : StampsTell w now (runStatus w now p b c).p (runStatus w now p b c).b (runStatus w now p b c).cache "hosts"
      (runWindow w now fromT) (runThreshold w fromT))
    (hVs : ChangeVisible w now (runHosts w now p b c fromT).p (runHosts w now p b c fromT).b
      (runHosts w now p b c fromT).cache "services" (runWindow w now fromT) (runThreshold w fromT))
    (hTs : StampsTell w now (runHosts w now p b c fromT).p (runHosts w now p b c fromT).b
      (runHosts w now p b c fromT).cache "services" (runWindow w now fromT) (runThreshold w fromT)) :
    (runHosts w now p b c fromT).err = .none ∧ (runServices w now p b c fromT).err = .none ∧
    (∀ t, (updateDelta w now p b c fromT).b.rows t = b.rows t) ∧
    AgreeOn w "hosts" (runCols w (hostsFlags w now p b c) "hosts") (b.rows "hosts")
      ((updateDelta w now p b c fromT).cache.get "hosts") ∧
    AgreeOn w "services" (runCols w (servicesFlags w now p b c fromT) "services") (b.rows "services")
      ((updateDelta w now p b c fromT).cache.get "services") := by
  have aH := runStatus_hosts_aligned w now p b c h.alignedHosts
  have aS := runHosts_services_aligned w now p b c fromT h.alignedServices
  have qH := converges_quiescent_partial w now _ _ _ "hosts" (runWindow w now fromT) (runThreshold w fromT)
    (h.hosts.toStep aH) hVh hTh
  have qS := converges_quiescent_partial w now _ _ _ "services" (runWindow w now fromT) (runThreshold w fromT)
    (h.services.toStep aS) hVs hTs
  have gH := agreeOn_of_quiescent aH h.hosts.due qH
  have gS := agreeOn_of_quiescent aS h.services.due qS
  rw [← runHosts_eq] at qH gH
  rw [← runServices_eq] at qS gS
  rw [rows_of_tables (runStatus_tables ..)] at gH
  rw [rows_of_tables (runHosts_tables ..)] at gS
  exact ⟨qH.1, qS.1, fun t => updateDelta_keeps_backend w now p b c fromT t,
    run_agree_hosts h.statusOk qH.1 qS.1 gH, run_agree_services h.statusOk qH.1 qS.1 gS⟩

/-! ### non-vacuity of `converges_run_partial`: the example run satisfies every assumption -/

/-- the status refresh of the example changes nothing: the example's schema has no status columns to refresh -/
theorem exRun_status : runStatus exWorld2 200 exPeer3 exBackend2 exCache2 =
    { p := exPeer3, b := exBackend2, cache := exCache2, err := .none } := by
  unfold runStatus
  rw [updateFullTable_eq]
  rfl

/-- the scan threshold of the example run: `103 - UpdateOffset = 100` -/
theorem exThreshold : runThreshold exWorld2 103 = 100 := by decide

/-- the window of the example run: `[100, 197)` -/
theorem exWindow : runWindow exWorld2 200 103 = some (100, 197) := by decide

/-- the hosts step of the example satisfies `ScanCond` (the same facts as `exScanStep`, for the peer that is `Up`) -/
theorem exCondHosts : ScanCond exWorld2 200 exPeer3 exBackend2 exCache2 "hosts" 100 where
  due := by decide
  scanAnswered := by decide
  deltaAnswered := by decide
  underCap := stepMissing_under_cap _ _ _ _ _ _ _ (by decide)
  scanColsDynamic := by decide
  namesNodup := by decide

/-- the scan of the example's hosts step lists `last_check = 50` (host `a`) -/
theorem exMissing : stepMissing exWorld2 200 exPeer3 exBackend2 exCache2 "hosts" 100 ≠ [] := by
  have : (50 : Int) ∈ stepMissing exWorld2 200 exPeer3 exBackend2 exCache2 "hosts" 100 := by
    unfold stepMissing
    rw [scanMissing_mem, exSorted]
    exact ⟨(exHostA, exRowA), List.Mem.head _, by decide, by decide, by decide⟩
  intro h
  rw [h] at this
  cases this

/-- peer and backend after the hosts step of the example: the scan time of the hosts is set, two requests were counted -/
theorem exRun_hosts : (runHosts exWorld2 200 exPeer3 exBackend2 exCache2 103).p = { exPeer3 with lastFullHostUpdate := 200 } ∧
    (runHosts exWorld2 200 exPeer3 exBackend2 exCache2 103).b = { exBackend2 with hits := 2 } := by
  rw [runHosts_eq, exRun_status, exThreshold]
  obtain ⟨_, hb, hp, _⟩ := capStep_rows exWorld2 200 exPeer3 exBackend2 exCache2 "hosts" (runWindow exWorld2 200 103) 100
    exAligned exCondHosts.due exCondHosts.scanAnswered exCondHosts.deltaAnswered
  have hne : (stepMissing exWorld2 200 exPeer3 exBackend2 exCache2 "hosts" 100).isEmpty = false := by
    cases hm : stepMissing exWorld2 200 exPeer3 exBackend2 exCache2 "hosts" 100 with
    | nil => exact absurd hm exMissing
    | cons _ _ => rfl
  rw [hne] at hp
  exact ⟨hp.trans rfl, hb.trans rfl⟩

/-- the services step of the example (no services on either side) satisfies `ScanCond` -/
theorem exCondServices : ScanCond exWorld2 200 (runHosts exWorld2 200 exPeer3 exBackend2 exCache2 103).p
    (runHosts exWorld2 200 exPeer3 exBackend2 exCache2 103).b (runHosts exWorld2 200 exPeer3 exBackend2 exCache2 103).cache
    "services" 100 := by
  rw [exRun_hosts.1, exRun_hosts.2]
  exact
    { due := by decide
      scanAnswered := by decide
      deltaAnswered := by decide
      underCap := stepMissing_under_cap _ _ _ _ _ _ _ (by decide)
      scanColsDynamic := by decide
      namesNodup := by decide }

/-- the example run satisfies `ScanRun` -/
theorem exScanRun : ScanRun exWorld2 200 exPeer3 exBackend2 exCache2 103 where
  alignedHosts := exAligned
  alignedServices := exAlignedS
  statusOk := by rw [exRun_status]
  hosts := by rw [exRun_status, exThreshold]; exact exCondHosts
  services := by rw [exThreshold]; exact exCondServices

/-- the dynamic columns of the example's hosts table under the flags of the example run -/
theorem exDyn3 :
    dynamicCols exWorld2.schema (applyFlags exWorld2 200 exPeer3 exBackend2) (tableOf exWorld2 "hosts").name =
      [{ name := "last_check", dtype := .int64, storage := .loc, fetch := "Dynamic" },
       { name := "acknowledged", dtype := .int, storage := .loc, fetch := "Dynamic" },
       { name := "plugin_output", dtype := .str, storage := .loc, fetch := "Dynamic" }] := by decide

/-- the contract `ChangeVisible` holds for the hosts step of the example: the only object that differs (`a`) is
    detected by the scan -/
theorem exVisibleHosts : ChangeVisible exWorld2 200 (runStatus exWorld2 200 exPeer3 exBackend2 exCache2).p
    (runStatus exWorld2 200 exPeer3 exBackend2 exCache2).b (runStatus exWorld2 200 exPeer3 exBackend2 exCache2).cache "hosts"
    (runWindow exWorld2 200 103) (runThreshold exWorld2 103) := by
  rw [exRun_status, exThreshold, exWindow]
  intro i r old hi hold hne
  rcases exPositions hi hold with ⟨rfl, rfl⟩ | ⟨rfl, rfl⟩
  · left; decide
  · exfalso
    apply hne
    rw [exDyn3]
    intro col hc k j hf
    simp only [List.mem_cons, List.not_mem_nil, or_false] at hc
    rcases hc with rfl | rfl | rfl <;> cases hf <;> rfl

/-- the contract `StampsTell` holds for the hosts step of the example: the only delivered row (`a`) is copied in full -/
theorem exStampsHosts : StampsTell exWorld2 200 (runStatus exWorld2 200 exPeer3 exBackend2 exCache2).p
    (runStatus exWorld2 200 exPeer3 exBackend2 exCache2).b (runStatus exWorld2 200 exPeer3 exBackend2 exCache2).cache "hosts"
    (runWindow exWorld2 200 103) (runThreshold exWorld2 103) := by
  rw [exRun_status, exThreshold, exWindow]
  intro i r old hi hold hd
  rcases exPositions hi hold with ⟨rfl, rfl⟩ | ⟨rfl, rfl⟩
  · have : decision exWorld2 (applyFlags exWorld2 200 exPeer3 exBackend2) (tableOf exWorld2 "hosts") exRowA exHostA =
        some true := by decide
    rw [this]
    exact ⟨nofun, nofun⟩
  · have : delivered exWorld2 200 exPeer3 exBackend2 exCache2 "hosts" (some (100, 197)) 100 exHostB = false := by
      unfold delivered
      rw [Bool.or_eq_false_iff]
      refine ⟨by decide, ?_⟩
      rw [← Bool.not_eq_true, List.contains_iff_mem]
      unfold stepMissing
      rw [scanMissing_mem, exSorted]
      decide
    rw [this] at hd; cases hd

/-- there are no services in the example: nothing is paired -/
theorem exNoServices (i : Nat) (r : ReplyRow) :
    (sortedReply exWorld2 "services" ((runHosts exWorld2 200 exPeer3 exBackend2 exCache2 103).b.rows "services"))[i]? ≠
      some r := by
  rw [rows_of_tables (runHosts_tables ..)]
  have : exBackend2.rows "services" = [] := rfl
  rw [this]
  simp [sortedReply]

/-- non-vacuity of `converges_run_partial`: the example run — two hosts, `a` acknowledged on the backend since the last
    fetch without a new check result — satisfies `ScanRun` and the four contracts -/
example : ScanRun exWorld2 200 exPeer3 exBackend2 exCache2 103 ∧
    ChangeVisible exWorld2 200 (runStatus exWorld2 200 exPeer3 exBackend2 exCache2).p
      (runStatus exWorld2 200 exPeer3 exBackend2 exCache2).b (runStatus exWorld2 200 exPeer3 exBackend2 exCache2).cache "hosts"
      (runWindow exWorld2 200 103) (runThreshold exWorld2 103) ∧
    StampsTell exWorld2 200 (runStatus exWorld2 200 exPeer3 exBackend2 exCache2).p
      (runStatus exWorld2 200 exPeer3 exBackend2 exCache2).b (runStatus exWorld2 200 exPeer3 exBackend2 exCache2).cache "hosts"
      (runWindow exWorld2 200 103) (runThreshold exWorld2 103) ∧
    ChangeVisible exWorld2 200 (runHosts exWorld2 200 exPeer3 exBackend2 exCache2 103).p
      (runHosts exWorld2 200 exPeer3 exBackend2 exCache2 103).b (runHosts exWorld2 200 exPeer3 exBackend2 exCache2 103).cache
      "services" (runWindow exWorld2 200 103) (runThreshold exWorld2 103) ∧
    StampsTell exWorld2 200 (runHosts exWorld2 200 exPeer3 exBackend2 exCache2 103).p
      (runHosts exWorld2 200 exPeer3 exBackend2 exCache2 103).b (runHosts exWorld2 200 exPeer3 exBackend2 exCache2 103).cache
      "services" (runWindow exWorld2 200 103) (runThreshold exWorld2 103) :=
  ⟨exScanRun, exVisibleHosts, exStampsHosts, fun i r _ hi => absurd hi (exNoServices i r),
    fun i r _ hi => absurd hi (exNoServices i r)⟩

/-- the tables the example run returns agree with the backend: in particular the acknowledgement of host `a`, which
    lies outside the window, is stored -/
theorem exRun_agrees :
    AgreeOn exWorld2 "hosts" (runCols exWorld2 (hostsFlags exWorld2 200 exPeer3 exBackend2 exCache2) "hosts")
      (exBackend2.rows "hosts") ((updateDelta exWorld2 200 exPeer3 exBackend2 exCache2 103).cache.get "hosts") ∧
    AgreeOn exWorld2 "services"
      (runCols exWorld2 (servicesFlags exWorld2 200 exPeer3 exBackend2 exCache2 103) "services")
      (exBackend2.rows "services") ((updateDelta exWorld2 200 exPeer3 exBackend2 exCache2 103).cache.get "services") :=
  (converges_run_partial exWorld2 200 exPeer3 exBackend2 exCache2 103 exScanRun exVisibleHosts exStampsHosts
    (fun i r _ hi => absurd hi (exNoServices i r)) (fun i r _ hi => absurd hi (exNoServices i r))).2.2.2

/-! ## 16. agreement is a fixed point of the delta update -/

/-- Idempotence at the fixed point.  Let hosts and services be aligned with the backend's objects and agree with them
    (`AgreeOn`) on the dynamic columns — other than the two id lists — that the run refreshes (the flags in force when
    its hosts / services reply is applied: `hostsFlags`, `servicesFlags`).  Then after ANY successful `UpdateDelta` run
    — whatever its window, whether the full scans are due or not, whether the cap is reached or not — they still
    agree on these columns, and the backend's objects are unchanged: nothing differs, so whatever the run refetches
    is rewritten with the values the rows hold already.  No assumption about the monitoring core is needed; the
    schema assumption is that column names are unique within the table. -/
theorem converges_two_runs (w : World) (now : Int) (p : PeerSt) (b : BackendSt) (c : Cache) (fromT : Int)
    (hAh : Aligned w "hosts" (b.rows "hosts") (c.get "hosts"))
    (hAs : Aligned w "services" (b.rows "services") (c.get "services"))
    (hNh : ((tableOf w "hosts").cols.map (·.name)).Nodup) (hNs : ((tableOf w "services").cols.map (·.name)).Nodup)
    (hGh : AgreeOn w "hosts" (runCols w (hostsFlags w now p b c) "hosts") (b.rows "hosts") (c.get "hosts"))
    (hGs : AgreeOn w "services" (runCols w (servicesFlags w now p b c fromT) "services") (b.rows "services")
      (c.get "services"))
    (hok : (updateDelta w now p b c fromT).err = .none) :
    (∀ t, (updateDelta w now p b c fromT).b.rows t = b.rows t) ∧
    AgreeOn w "hosts" (runCols w (hostsFlags w now p b c) "hosts") (b.rows "hosts")
      ((updateDelta w now p b c fromT).cache.get "hosts") ∧
    AgreeOn w "services" (runCols w (servicesFlags w now p b c fromT) "services") (b.rows "services")
      ((updateDelta w now p b c fromT).cache.get "services") := by
  obtain ⟨h0, h1, h2, _⟩ := updateDelta_ok_parts hok
  have kH := run_agree_hosts h0 h1 h2 (runHosts_keeps w now p b c fromT hAh hNh hGh h1)
  have kS := run_agree_services h0 h1 h2 (runServices_keeps w now p b c fromT hAs hNs hGs h2)
  rw [runCols_filter] at kH kS
  exact ⟨fun t => updateDelta_keeps_backend w now p b c fromT t, kH, kS⟩

/-- Two consecutive runs: the first under the assumptions of `converges_run_partial`, the second ANY successful run
    that starts from the tables the first one returned, against a backend with the same objects (`b2.tables =
    b.tables`: nothing happened in between), with an arbitrary peer state `p2` and time.  If the dynamic columns in
    force are the same in both runs (the flags did not change: `hFh`, `hFs`), hosts and services agree with the
    backend after the second run as well.
    Partial: the first run is restricted as in `converges_run_partial`; the stability of the flags between the runs
    is assumed, not derived; schema assumptions `KeyStatic`, `IdListsNotKey`, unique column names. -/
theorem converges_run_then_stays_partial (w : World) (now : Int) (p : PeerSt) (b : BackendSt) (c : Cache) (fromT : Int)
    (now2 : Int) (p2 : PeerSt) (b2 : BackendSt) (fromT2 : Int)
    (h : ScanRun w now p b c fromT)
    (hVh : ChangeVisible w now (runStatus w now p b c).p (runStatus w now p b c).b (runStatus w now p b c).cache "hosts"
      (runWindow w now fromT) (runThreshold w fromT))
    (hTh : StampsTell w now (runStatus w now p b c).p (runStatus w now p b c).b (runStatus w now p b c).cache "hosts"
      (runWindow w now fromT) (runThreshold w fromT))
    (hVs : ChangeVisible w now (runHosts w now p b c fromT).p (runHosts w now p b c fromT).b
      (runHosts w now p b c fromT).cache "services" (runWindow w now fromT) (runThreshold w fromT))
    (hTs : StampsTell w now (runHosts w now p b c fromT).p (runHosts w now p b c fromT).b
      (runHosts w now p b c fromT).cache "services" (runWindow w now fromT) (runThreshold w fromT))
    (hKh : KeyStatic (tableOf w "hosts")) (hKs : KeyStatic (tableOf w "services"))
    (hLh : IdListsNotKey (tableOf w "hosts")) (hLs : IdListsNotKey (tableOf w "services"))
    (hNh : ((tableOf w "hosts").cols.map (·.name)).Nodup) (hNs : ((tableOf w "services").cols.map (·.name)).Nodup)
    (hb2 : b2.tables = b.tables)
    (hFh : runCols w (hostsFlags w now2 p2 b2 (updateDelta w now p b c fromT).cache) "hosts" =
      runCols w (hostsFlags w now p b c) "hosts")
    (hFs : runCols w (servicesFlags w now2 p2 b2 (updateDelta w now p b c fromT).cache fromT2) "services" =
      runCols w (servicesFlags w now p b c fromT) "services")
    (hok2 : (updateDelta w now2 p2 b2 (updateDelta w now p b c fromT).cache fromT2).err = .none) :
    AgreeOn w "hosts" (runCols w (hostsFlags w now p b c) "hosts") (b.rows "hosts")
      ((updateDelta w now2 p2 b2 (updateDelta w now p b c fromT).cache fromT2).cache.get "hosts") ∧
    AgreeOn w "services" (runCols w (servicesFlags w now p b c fromT) "services") (b.rows "services")
      ((updateDelta w now2 p2 b2 (updateDelta w now p b c fromT).cache fromT2).cache.get "services") := by
  obtain ⟨e1, e2, _, gH, gS⟩ := converges_run_partial w now p b c fromT h hVh hTh hVs hTs
  have aH := aligned_run_parts w now p b c fromT "hosts" (.inl rfl) hKh hLh h.alignedHosts h.statusOk e1 e2
  have aS := aligned_run_parts w now p b c fromT "services" (.inr rfl) hKs hLs h.alignedServices h.statusOk e1 e2
  rw [← hFh] at gH
  rw [← hFs] at gS
  have := converges_two_runs w now2 p2 b2 (updateDelta w now p b c fromT).cache fromT2
    (aligned_of_tables aH hb2) (aligned_of_tables aS hb2) hNh hNs (agreeOn_of_tables gH hb2) (agreeOn_of_tables gS hb2) hok2
  rw [hFh, hFs, rows_of_tables hb2, rows_of_tables hb2] at this
  exact this.2

/-! ### non-vacuity of `converges_two_runs` and `converges_run_then_stays_partial`: a second run at 210 -/

/-- the peer of the second run: `Up`, last full scans at 200 (not due again) -/
def exPeer4 : PeerSt := { lastFullHostUpdate := 200, lastFullServiceUpdate := 200, cache := some exCache2, status := .up }

/-- the tables the first run of the example returned -/
def exCache3 : Cache := (updateDelta exWorld2 200 exPeer3 exBackend2 exCache2 103).cache

/-- the tables the first run returned are still aligned with the backend (`updateDelta_preserves_aligned`) -/
theorem exAligned4 : Aligned exWorld2 "hosts" (exBackend2.rows "hosts") (exCache3.get "hosts") ∧
    Aligned exWorld2 "services" (exBackend2.rows "services") (exCache3.get "services") := by
  have h1 := updateDelta_preserves_aligned exWorld2 200 exPeer3 exBackend2 exCache2 103 "hosts" (.inl rfl) (by decide)
    (by decide) exAligned exRun_ok
  have h2 := updateDelta_preserves_aligned exWorld2 200 exPeer3 exBackend2 exCache2 103 "services" (.inr rfl) (by decide)
    (by decide) exAlignedS exRun_ok
  rw [h1.1] at h1; rw [h2.1] at h2
  exact ⟨h1.2, h2.2⟩

/-- the peer of the second run talks to its own address and the backend answers -/
theorem exHealthy4 : Healthy exPeer4 exBackend2 := ⟨rfl, by decide, rfl, rfl⟩

/-- neither side of the example has comments or downtimes, before and after the first run -/
theorem exNoEntries : ∀ t ∈ ["comments", "downtimes"], exCache3.get t = [] ∧ exBackend2.rows t = [] := fun t ht =>
  ⟨updateDelta_entries_empty exWorld2 200 exPeer3 exBackend2 exCache2 103 exHealthy3 (by decide) exAligned exAlignedS
    (by decide) t ht, by
      simp only [List.mem_cons, List.not_mem_nil, or_false] at ht
      rcases ht with rfl | rfl <;> rfl⟩

/-- the second run of the example succeeds -/
theorem exRun2_ok : (updateDelta exWorld2 210 exPeer4 exBackend2 exCache3 200).err = .none :=
  updateDelta_succeeds exWorld2 210 exPeer4 exBackend2 exCache3 200 exHealthy4 rfl (by decide) exAligned4.1 exAligned4.2
    exNoEntries

/-- in both runs of the example no flag is set when the replies are applied -/
theorem exFlags : hostsFlags exWorld2 200 exPeer3 exBackend2 exCache2 = 0 ∧
    servicesFlags exWorld2 200 exPeer3 exBackend2 exCache2 103 = 0 ∧
    hostsFlags exWorld2 210 exPeer4 exBackend2 exCache3 = 0 ∧
    servicesFlags exWorld2 210 exPeer4 exBackend2 exCache3 200 = 0 := by
  obtain ⟨a1, a2⟩ := run_flags_healthy exWorld2 200 exPeer3 exBackend2 exCache2 103 exHealthy3 (by decide) exAligned
  obtain ⟨a3, a4⟩ := run_flags_healthy exWorld2 210 exPeer4 exBackend2 exCache3 200 exHealthy4 (by decide) exAligned4.1
  exact ⟨a1, a2, a3, a4⟩

/-- non-vacuity of `converges_two_runs`: the second run of the example (at 210, from the tables the first run
    returned, full scans not due) satisfies every hypothesis — aligned, unique column names, agreement, success -/
example : Aligned exWorld2 "hosts" (exBackend2.rows "hosts") (exCache3.get "hosts") ∧
    Aligned exWorld2 "services" (exBackend2.rows "services") (exCache3.get "services") ∧
    ((tableOf exWorld2 "hosts").cols.map (·.name)).Nodup ∧ ((tableOf exWorld2 "services").cols.map (·.name)).Nodup ∧
    AgreeOn exWorld2 "hosts" (runCols exWorld2 (hostsFlags exWorld2 210 exPeer4 exBackend2 exCache3) "hosts")
      (exBackend2.rows "hosts") (exCache3.get "hosts") ∧
    AgreeOn exWorld2 "services" (runCols exWorld2 (servicesFlags exWorld2 210 exPeer4 exBackend2 exCache3 200) "services")
      (exBackend2.rows "services") (exCache3.get "services") ∧
    (updateDelta exWorld2 210 exPeer4 exBackend2 exCache3 200).err = .none := by
  obtain ⟨f1, f2, f3, f4⟩ := exFlags
  have g := exRun_agrees
  rw [f1, f2] at g
  rw [f3, f4]
  exact ⟨exAligned4.1, exAligned4.2, by decide, by decide, g.1, g.2, exRun2_ok⟩

/-- non-vacuity of `converges_run_then_stays_partial`: the two runs of the example satisfy the hypotheses that
    `converges_run_partial` does not already ask for — schema facts, same backend, same dynamic columns, success -/
example : KeyStatic (tableOf exWorld2 "hosts") ∧ KeyStatic (tableOf exWorld2 "services") ∧
    IdListsNotKey (tableOf exWorld2 "hosts") ∧ IdListsNotKey (tableOf exWorld2 "services") ∧
    exBackend2.tables = exBackend2.tables ∧
    runCols exWorld2 (hostsFlags exWorld2 210 exPeer4 exBackend2 (updateDelta exWorld2 200 exPeer3 exBackend2 exCache2 103).cache)
      "hosts" = runCols exWorld2 (hostsFlags exWorld2 200 exPeer3 exBackend2 exCache2) "hosts" ∧
    runCols exWorld2
      (servicesFlags exWorld2 210 exPeer4 exBackend2 (updateDelta exWorld2 200 exPeer3 exBackend2 exCache2 103).cache 200)
      "services" = runCols exWorld2 (servicesFlags exWorld2 200 exPeer3 exBackend2 exCache2 103) "services" ∧
    (updateDelta exWorld2 210 exPeer4 exBackend2 (updateDelta exWorld2 200 exPeer3 exBackend2 exCache2 103).cache 200).err =
      .none := by
  obtain ⟨f1, f2, f3, f4⟩ := exFlags
  unfold exCache3 at f3 f4
  exact ⟨by decide, by decide, by decide, by decide, rfl, by rw [f1, f3], by rw [f2, f4], exRun2_ok⟩

/-! ## 17. progress when the cap of the timestamp filter is reached -/

/-- Progress of ONE scanning hosts / services step, the cap of 150 filter lines reached or not (when it is, only the
    first 149 listed `last_check` values are refetched).  Assume the table aligned, the scan due, both requests
    answered, the scan columns dynamic columns (`ScanColsDynamic`), unique column names, and that every backend row
    delivers the scan columns the table stores as numbers (`DeliversScan`).  Then the step succeeds, the table keeps
    its size, and for the measure `scanDiff` — the number of cached rows that differ from the backend row of the same
    object in a scan column —
    * the measure does not grow;
    * it shrinks strictly whenever the scan lists something;
    * the scan lists nothing exactly when no row whose `last_check` lies before the threshold differs in a scan column.
    Partial: one step; rows at or after the threshold are not listed by the scan (they are the window's business),
    and the iteration over runs is `scan_progress_finite_partial`. -/
theorem scan_progress_step_partial (w : World) (now : Int) (p : PeerSt) (b : BackendSt) (c : Cache) (t : String)
    (window : Option (Int × Int)) (threshold : Int)
    (hA : Aligned w t (b.rows t) (c.get t))
    (hdue : ¬ lastFullOf p t > now - 60) (hq1 : (query w now p b).2.2 = none)
    (hq2 : (query w now (query w now p b).1 (query w now p b).2.1).2.2 = none)
    (hS : ScanColsDynamic w t (stepScanCols w now p b) (applyFlags w now p b))
    (hN : ((tableOf w t).cols.map (·.name)).Nodup)
    (hD : ∀ r ∈ b.rows t, DeliversScan w t (stepScanCols w now p b) r) :
    (deltaTable w now p b c t window threshold).err = .none ∧
    ((deltaTable w now p b c t window threshold).cache.get t).length = (c.get t).length ∧
    scanDiff (tableOf w t) (stepScanCols w now p b) (sortedReply w t (b.rows t))
        ((deltaTable w now p b c t window threshold).cache.get t) ≤
      scanDiff (tableOf w t) (stepScanCols w now p b) (sortedReply w t (b.rows t)) (c.get t) ∧
    (stepMissing w now p b c t threshold ≠ [] →
      scanDiff (tableOf w t) (stepScanCols w now p b) (sortedReply w t (b.rows t))
          ((deltaTable w now p b c t window threshold).cache.get t) <
        scanDiff (tableOf w t) (stepScanCols w now p b) (sortedReply w t (b.rows t)) (c.get t)) ∧
    (stepMissing w now p b c t threshold = [] ↔
      ∀ x ∈ (sortedReply w t (b.rows t)).zip (c.get t), replyInt x.1 "last_check" < threshold →
        scanChanged (tableOf w t) (stepScanCols w now p b) x.2 x.1 = false) := by
  obtain ⟨h1, _, _, h4, _⟩ := capStep_rows w now p b c t window threshold hA hdue hq1 hq2
  obtain ⟨h5, h6⟩ := scanDiff_capStep w now p b c t window threshold hA hdue hq1 hq2 hS hN hD
  exact ⟨h1, h4, h5, h6, stepMissing_nil_iff w now p b c t threshold⟩

/-- every backend host of the example delivers the scan columns its table stores as numbers -/
theorem exDelivers : ∀ r ∈ exBackend2.rows "hosts",
    DeliversScan exWorld2 "hosts" (stepScanCols exWorld2 200 exPeer3 exBackend2) r := by
  intro r hr
  have hr' : r = exHostA ∨ r = exHostB := by
    have : exBackend2.rows "hosts" = [exHostA, exHostB] := rfl
    rw [this] at hr
    simpa using hr
  rcases hr' with rfl | rfl <;> decide

/-- non-vacuity of `scan_progress_step_partial`: the hosts step of the example satisfies every hypothesis, and its
    scan lists something (host `a`), so the measure shrinks -/
example : Aligned exWorld2 "hosts" (exBackend2.rows "hosts") (exCache2.get "hosts") ∧
    ¬ lastFullOf exPeer3 "hosts" > (200 : Int) - 60 ∧ (query exWorld2 200 exPeer3 exBackend2).2.2 = none ∧
    (query exWorld2 200 (query exWorld2 200 exPeer3 exBackend2).1 (query exWorld2 200 exPeer3 exBackend2).2.1).2.2 = none ∧
    ScanColsDynamic exWorld2 "hosts" (stepScanCols exWorld2 200 exPeer3 exBackend2) (applyFlags exWorld2 200 exPeer3 exBackend2) ∧
    ((tableOf exWorld2 "hosts").cols.map (·.name)).Nodup ∧
    (∀ r ∈ exBackend2.rows "hosts", DeliversScan exWorld2 "hosts" (stepScanCols exWorld2 200 exPeer3 exBackend2) r) ∧
    stepMissing exWorld2 200 exPeer3 exBackend2 exCache2 "hosts" 100 ≠ [] := by
  exact ⟨exAligned, exCondHosts.due, exCondHosts.scanAnswered, exCondHosts.deltaAnswered, exCondHosts.scanColsDynamic,
    by decide, exDelivers, exMissing⟩

/-- Finitely many scanning steps empty the scan's list.  Consider a sequence of hosts / services steps on table `t`
    (step `k` runs at time `now k` from the peer, backend and tables `p k`, `b k`, `c k`, with any window and
    threshold), such that: the backend's objects `backend` and the scan columns `cols` are the same for every step,
    every step's full scan is due and both its requests are answered, the assumptions of
    `scan_progress_step_partial` hold, the table is aligned at the start, and between a step and the next one the
    table only has its `comments` / `downtimes` cells rewritten (what the remaining parts of a run do to it:
    `updateDelta_preserves_aligned`).  Then there is a step `k` — not later than the number of rows that differed from
    the backend in a scan column at the start — whose scan lists nothing: every row whose `last_check` lies before
    that step's threshold agrees with the backend in all scan columns, although each step refetches at most 149
    listed values.
    Partial: the sequence is a hypothesis (the quiet backend and the stable flags are assumed), and rows at or after
    the threshold are covered by the window, not by this statement. -/
theorem scan_progress_finite_partial (w : World) (t : String) (backend : List ReplyRow) (cols : List String)
    (now : Nat → Int) (p : Nat → PeerSt) (b : Nat → BackendSt) (c : Nat → Cache)
    (window : Nat → Option (Int × Int)) (threshold : Nat → Int)
    (hK : KeyStatic (tableOf w t)) (hL : IdListsNotKey (tableOf w t)) (hN : ((tableOf w t).cols.map (·.name)).Nodup)
    (hD : ∀ r ∈ backend, DeliversScan w t cols r)
    (hA0 : Aligned w t backend ((c 0).get t))
    (hb : ∀ k, (b k).rows t = backend)
    (hcols : ∀ k, stepScanCols w (now k) (p k) (b k) = cols)
    (hdue : ∀ k, ¬ lastFullOf (p k) t > now k - 60)
    (hq1 : ∀ k, (query w (now k) (p k) (b k)).2.2 = none)
    (hq2 : ∀ k, (query w (now k) (query w (now k) (p k) (b k)).1 (query w (now k) (p k) (b k)).2.1).2.2 = none)
    (hS : ∀ k, ScanColsDynamic w t cols (applyFlags w (now k) (p k) (b k)))
    (hnext : ∀ k, IdListsOnly ((deltaTable w (now k) (p k) (b k) (c k) t (window k) (threshold k)).cache.get t)
      ((c (k + 1)).get t)) :
    ∃ k, k ≤ scanDiff (tableOf w t) cols (sortedReply w t backend) ((c 0).get t) ∧
      stepMissing w (now k) (p k) (b k) (c k) t (threshold k) = [] ∧
      ∀ x ∈ (sortedReply w t backend).zip ((c k).get t), replyInt x.1 "last_check" < threshold k →
        scanChanged (tableOf w t) cols x.2 x.1 = false := by
  obtain ⟨k, hk, hm⟩ := scan_descent w t backend cols now p b c window threshold hK hL hN hD hA0 hb hcols hdue hq1 hq2 hS hnext
  have := (stepMissing_nil_iff w (now k) (p k) (b k) (c k) t (threshold k)).1 hm
  rw [hb k, hcols k] at this
  exact ⟨k, hk, hm, this⟩

/-- the tables of the example after `k` scanning hosts steps at 200 (the peer's scan time is kept at 10, so every
    step scans again) -/
def exSeq : Nat → Cache
  | 0 => exCache2
  | k + 1 => (deltaTable exWorld2 200 exPeer3 exBackend2 (exSeq k) "hosts" none 100).cache

/-- non-vacuity of `scan_progress_finite_partial`: the sequence of scanning hosts steps `exSeq` over the example
    satisfies every hypothesis, so after at most as many steps as rows differed the scan lists nothing -/
example : ∃ k, k ≤ scanDiff (tableOf exWorld2 "hosts") (stepScanCols exWorld2 200 exPeer3 exBackend2)
      (sortedReply exWorld2 "hosts" (exBackend2.rows "hosts")) ((exSeq 0).get "hosts") ∧
    stepMissing exWorld2 200 exPeer3 exBackend2 (exSeq k) "hosts" 100 = [] :=
  let ⟨k, h1, h2, _⟩ := scan_progress_finite_partial exWorld2 "hosts" (exBackend2.rows "hosts")
    (stepScanCols exWorld2 200 exPeer3 exBackend2) (fun _ => 200) (fun _ => exPeer3) (fun _ => exBackend2) exSeq
    (fun _ => none) (fun _ => 100) (by decide) (by decide) (by decide) exDelivers exAligned (fun _ => rfl) (fun _ => rfl)
    (fun _ => exCondHosts.due) (fun _ => exCondHosts.scanAnswered) (fun _ => exCondHosts.deltaAnswered)
    (fun _ => exCondHosts.scanColsDynamic) (fun _ => idListsOnly_refl _)
  ⟨k, h1, h2⟩

end Lmd.C03
