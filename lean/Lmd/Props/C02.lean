/- C02 — property theorems (under construction). -/
import Lmd.Sync
namespace Lmd.C02
end Lmd.C02
