/-
  C02 — the initial synchronisation stores the backend's objects faithfully.

  `syncTable` is `CreateObjectByType`: the reply rows are coerced to the column types
  (`coerceRow`, i.e. `NewDataRow` / `UpdateValues`) and sorted by the primary key
  (`ResultSet.SortByPrimaryKey`); `buildIdLists` is `buildDowntimeCommentsList`.
-/
import Lmd.Lemmas.SyncLemmas

namespace Lmd.C02
open Lean (Json JsonNumber)
open Lmd.SyncLemmas

/-! ## 0. concrete tables for the non-vacuity examples -/

/-- a small hosts table: text key, one int8 column, the comments id list -/
def exHosts : Table :=
  { name := "hosts",
    cols := [{ name := "name", dtype := .str, storage := .loc },
             { name := "state", dtype := .int, storage := .loc },
             { name := "comments", dtype := .int64List, storage := .loc },
             { name := "peer_key", dtype := .str, storage := .virt }],
    primaryKey := ["name"] }

def exRowA : ReplyRow := [("name", .str "alpha"), ("state", .num ⟨1, 0⟩)]
def exRowB : ReplyRow := [("name", .str "beta"), ("state", .num ⟨300, 0⟩)]

/-- a small comments table: numeric key -/
def exComments : Table :=
  { name := "comments",
    cols := [{ name := "id", dtype := .int64, storage := .loc },
             { name := "host_name", dtype := .str, storage := .loc },
             { name := "service_description", dtype := .str, storage := .loc }],
    primaryKey := ["id"] }

def exC1 : ReplyRow := [("id", .num ⟨1, 0⟩), ("host_name", .str "alpha"), ("service_description", .str "")]
def exC300 : ReplyRow := [("id", .num ⟨300, 0⟩), ("host_name", .str "alpha"), ("service_description", .str "ping")]

/-! ## 1. the primary-key order on the rows of one table -/

/-- Of two cached rows one may always stand before the other in the primary-key order
    (`SortByPrimaryKey` never calls both "a after b" and "b after a"). -/
theorem keyLe_total (t : Table) (a b : Row) : keyLe t a b = true ∨ keyLe t b a = true :=
  keyLe_total' t a b

/-- The primary-key order is transitive on the rows one table stores for a reply: all of them have
    key tuples of the same length with the same kind (number / text) at every position, because
    the kinds are fixed by the table's columns. -/
theorem keyLe_trans (t : Table) (r₁ r₂ r₃ : ReplyRow)
    (h₁ : keyLe t (coerceRow t r₁) (coerceRow t r₂) = true)
    (h₂ : keyLe t (coerceRow t r₂) (coerceRow t r₃) = true) :
    keyLe t (coerceRow t r₁) (coerceRow t r₃) = true :=
  keyLe_trans' (keyShaped_coerceRow t r₁) (keyShaped_coerceRow t r₂) (keyShaped_coerceRow t r₃) h₁ h₂

/-- Two rows of one table that are each "not after" the other have equal key tuples: the
    comparison says `eq`, and for stored rows the two tuples are then the same list. -/
theorem keyLe_antisymm (t : Table) (r₁ r₂ : ReplyRow)
    (h₁ : keyLe t (coerceRow t r₁) (coerceRow t r₂) = true)
    (h₂ : keyLe t (coerceRow t r₂) (coerceRow t r₁) = true) :
    (coerceRow t r₁).sortKey t = (coerceRow t r₂).sortKey t :=
  (cmpKeyParts_eq_iff ((keyShaped_coerceRow t r₁).compat (keyShaped_coerceRow t r₂))).mp
    (SyncLemmas.keyLe_antisymm h₁ h₂)

example : keyLe exHosts (coerceRow exHosts exRowA) (coerceRow exHosts exRowB) = true ∧
    keyLe exHosts (coerceRow exHosts exRowB) (coerceRow exHosts exRowA) = false := by decide

/-! ## 2. the cache after the initial fetch -/

/-- `store_sorted` and `exactly_once`: after the initial fetch the table holds the coerced reply
    rows ordered by primary key (every earlier row is "not after" every later row), and it holds
    each of them exactly once: the stored list is a permutation of the coerced reply, so it has the
    same length, contains every coerced row and nothing else. -/
theorem syncTable_sorted (t : Table) (reply : List ReplyRow) :
    (syncTable t reply).Pairwise (fun a b => keyLe t a b = true) ∧
    (syncTable t reply).Perm (reply.map (coerceRow t)) ∧
    (syncTable t reply).length = reply.length ∧
    (∀ row, row ∈ syncTable t reply ↔ ∃ r ∈ reply, coerceRow t r = row) := by
  have hp := syncTable_perm_rows t reply
  refine ⟨syncTable_pairwise t reply, hp, by simpa using hp.length_eq, fun row => ?_⟩
  rw [hp.mem_iff, List.mem_map]

/-- The cache does not depend on the order in which the backend delivers the rows: two replies
    that are permutations of each other and whose rows have pairwise different primary keys give
    the same stored table.  (For a table without primary key the rows are kept in reply order; the
    hypothesis then only allows replies with at most one row.) -/
theorem syncTable_perm (t : Table) (r₁ r₂ : List ReplyRow) (hperm : r₁.Perm r₂)
    (hd : (r₁.map (coerceRow t)).Pairwise
      (fun a b => cmpKeyParts (a.sortKey t) (b.sortKey t) ≠ .eq)) :
    syncTable t r₁ = syncTable t r₂ :=
  syncTable_perm_eq t r₁ r₂ hperm hd

/-- two hosts delivered in both orders -/
example : syncTable exHosts [exRowA, exRowB] = syncTable exHosts [exRowB, exRowA] :=
  syncTable_perm exHosts _ _ (List.Perm.swap _ _ _) (by decide)

/-- the comments with ids 1 and 300, delivered in both orders (numeric key) -/
example : syncTable exComments [exC300, exC1] = syncTable exComments [exC1, exC300] :=
  syncTable_perm exComments _ _ (List.Perm.swap _ _ _) (by decide)

/-- The hypothesis on the keys is needed: with equal keys the stable sort keeps the reply order of
    the two rows, so the two deliveries are stored differently. -/
theorem syncTable_perm_needs_distinct_keys :
    ∃ (t : Table) (r₁ r₂ : List ReplyRow), r₁.Perm r₂ ∧
      (syncTable t r₁).map (·.int "state") ≠ (syncTable t r₂).map (·.int "state") :=
  ⟨exHosts, [[("name", .str "a"), ("state", .num ⟨1, 0⟩)], [("name", .str "a"), ("state", .num ⟨2, 0⟩)]],
    [[("name", .str "a"), ("state", .num ⟨2, 0⟩)], [("name", .str "a"), ("state", .num ⟨1, 0⟩)]],
    List.Perm.swap _ _ _, by
      have e : ∀ r, syncTable exHosts r = (r.map (coerceRow exHosts)).mergeSort (keyLe exHosts) :=
        fun _ => rfl
      rw [e, e, List.mergeSort_of_pairwise (by decide), List.mergeSort_of_pairwise (by decide)]
      decide⟩

/-! ## 3. the stored cells -/

/-- `insert_get`, first-occurrence form: if the table has a locally stored column `c` and `j` is
    the first value delivered under that column's name, the cached row holds `coerce c.dtype j`. -/
theorem insert_get_first (t : Table) (r : ReplyRow) (c : Column) (j : Json)
    (hc : t.col? c.name = some c) (hloc : c.storage = .loc)
    (hj : r.find? (·.1 == c.name) = some (c.name, j)) :
    (coerceRow t r).cell? c.name = some (coerce c.dtype j) := by
  rw [coerceRow_cell?, hc]
  simp [hloc, hj]

/-- `insert_get`: for every locally stored column of the table that is delivered in a reply row
    without duplicate column names, the cached row holds the delivered value coerced to the
    column's type. -/
theorem insert_get (t : Table) (r : ReplyRow) (c : Column) (j : Json)
    (hc : t.col? c.name = some c) (hloc : c.storage = .loc)
    (hnodup : (r.map (·.1)).Nodup) (hj : (c.name, j) ∈ r) :
    (coerceRow t r).cell? c.name = some (coerce c.dtype j) := by
  apply insert_get_first t r c j hc hloc
  induction r with
  | nil => cases hj
  | cons p r ih =>
    rw [List.map_cons, List.nodup_cons] at hnodup
    rcases List.mem_cons.mp hj with rfl | hj'
    · simp
    · have hp : ¬ (p.1 == c.name) = true := by
        intro e
        have e' : p.1 = c.name := by simpa using e
        exact hnodup.1 (e' ▸ List.mem_map.mpr ⟨(c.name, j), hj', rfl⟩)
      rw [List.find?_cons_of_neg (p := fun x : String × Json => x.1 == c.name) hp]
      exact ih hnodup.2 hj'

/-- Nothing else is stored: a column that is not delivered, a name the table does not know, and a
    column that is not locally stored (virtual, reference) have no cell in the cached row. -/
theorem insert_get_absent (t : Table) (r : ReplyRow) (n : String)
    (h : r.find? (·.1 == n) = none ∨ t.col? n = none ∨ ∃ c, t.col? n = some c ∧ c.storage ≠ .loc) :
    (coerceRow t r).cell? n = none := by
  rw [coerceRow_cell?]
  rcases h with h | h | ⟨c, hc, hs⟩
  · rw [h]; split
    · split <;> rfl
    · rfl
  · rw [h]
  · rw [hc]; simp [hs]

example : exHosts.col? "state" = some { name := "state", dtype := .int, storage := .loc } ∧
    (exRowA.map (·.1)).Nodup ∧ ("state", Json.num ⟨1, 0⟩) ∈ exRowA := by
  refine ⟨by decide, by decide, by simp [exRowA]⟩

example : (coerceRow exHosts exRowB).int "state" = 0 ∧ (coerceRow exHosts exRowA).int "state" = 1 := by
  decide

/-! ## 4. coercion is the identity inside the column's range -/

/-- A JSON string is stored unchanged in a text column (`StringCol`, `StringLargeCol`, `JSONCol`). -/
theorem coerce_faithful_str (s : String) :
    coerce .str (.str s) = .s s ∧ coerce .strLarge (.str s) = .s s ∧ coerce .json (.str s) = .s s :=
  ⟨rfl, rfl, rfl⟩

/-- An integer JSON number inside lmd's int8 column range -128 … 127 is stored exactly in an
    `IntCol`; outside that range `checkInt8Bounds` stores 0. -/
theorem coerce_faithful_int (n : Int) :
    (-128 ≤ n ∧ n ≤ 127 → coerce .int (.num ⟨n, 0⟩) = .i n) ∧
    (n < -128 ∨ 127 < n → coerce .int (.num ⟨n, 0⟩) = .i 0) := by
  have h : coerce .int (.num ⟨n, 0⟩) = .i (checkInt8 n) := by
    simp only [coerce, jsonToMilli, jsonNumMilli_int, milliTrunc_mul]
  rw [h]
  exact ⟨fun hr => by rw [checkInt8_of_range hr], fun ho => by rw [checkInt8_out ho]⟩

/-- Every integer JSON number is stored exactly in an `Int64Col`. -/
theorem coerce_faithful_int64 (n : Int) : coerce .int64 (.num ⟨n, 0⟩) = .i n := by
  simp only [coerce, jsonToMilli, jsonNumMilli_int, milliTrunc_mul]

/-- A JSON number with at most three fraction digits (`mantissa · 10^-exponent`, exponent ≤ 3) is
    stored exactly in a `FloatCol`: the stored milli value `v` satisfies
    `v / 1000 = mantissa / 10^exponent`. -/
theorem coerce_faithful_float (n : JsonNumber) (h : n.exponent ≤ 3) :
    ∃ v : Int, coerce .float (.num n) = .f v ∧ v * (10 ^ n.exponent : Nat) = n.mantissa * 1000 := by
  refine ⟨n.mantissa * (10 ^ (3 - n.exponent) : Nat), ?_, ?_⟩
  · simp only [coerce, jsonToMilli, jsonNumMilli, h, if_true]
  · rw [Int.mul_assoc]
    congr 1
    rw [← Int.natCast_mul, ← Nat.pow_add, Nat.sub_add_cancel h]
    rfl

/-- A JSON array of strings is stored element by element in a `StringListCol`. -/
theorem coerce_faithful_strList (l : List String) :
    coerce .strList (.arr (l.map Json.str).toArray) = .sl l := by
  show Val.sl ((l.map Json.str).toArray.toList.map jsonToStr) = .sl l
  rw [List.toList_toArray, List.map_map]
  congr 1
  exact (List.map_congr_left (fun _ _ => rfl)).trans (List.map_id l)

/-- A JSON array of integer numbers is stored element by element in an `Int64ListCol`. -/
theorem coerce_faithful_intList (l : List Int) :
    coerce .int64List (.arr (l.map fun n => Json.num ⟨n, 0⟩).toArray) = .il l := by
  show Val.il ((l.map fun n => Json.num ⟨n, 0⟩).toArray.toList.map
    (fun j => milliTrunc (jsonToMilli j))) = .il l
  rw [List.toList_toArray, List.map_map]
  congr 1
  refine (List.map_congr_left (fun n _ => ?_)).trans (List.map_id l)
  simp only [Function.comp, jsonToMilli, jsonNumMilli_int, milliTrunc_mul, id]

/-- `coerce_faithful`: coercion is the identity on values inside the column's range, for every
    scalar type and for the string and integer lists. -/
theorem coerce_faithful :
    (∀ s : String, coerce .str (.str s) = .s s) ∧
    (∀ n : Int, -128 ≤ n ∧ n ≤ 127 → coerce .int (.num ⟨n, 0⟩) = .i n) ∧
    (∀ n : Int, n < -128 ∨ 127 < n → coerce .int (.num ⟨n, 0⟩) = .i 0) ∧
    (∀ n : Int, coerce .int64 (.num ⟨n, 0⟩) = .i n) ∧
    (∀ n : JsonNumber, n.exponent ≤ 3 →
      ∃ v : Int, coerce .float (.num n) = .f v ∧ v * (10 ^ n.exponent : Nat) = n.mantissa * 1000) ∧
    (∀ l : List String, coerce .strList (.arr (l.map Json.str).toArray) = .sl l) ∧
    (∀ l : List Int, coerce .int64List (.arr (l.map fun n => Json.num ⟨n, 0⟩).toArray) = .il l) :=
  ⟨fun _ => rfl, fun n => (coerce_faithful_int n).1, fun n => (coerce_faithful_int n).2,
    coerce_faithful_int64, coerce_faithful_float, coerce_faithful_strList, coerce_faithful_intList⟩

/-- the float 1.25 is stored as 1250 milli -/
example : coerce .float (.num ⟨125, 2⟩) = .f 1250 ∧ (⟨125, 2⟩ : JsonNumber).exponent ≤ 3 := by
  refine ⟨?_, by decide⟩
  simp [coerce, jsonToMilli, jsonNumMilli]

/-- Beyond three fraction digits the value is truncated, not stored exactly. -/
example : coerce .float (.num ⟨12345, 4⟩) = .f 1234 := by
  simp [coerce, jsonToMilli, jsonNumMilli, Int.tdiv]

/-! ## 5. the comment / downtime id lists -/

/-- An id is listed for `(host, service)` iff some entry row carries that id, that host name and
    that service description. -/
theorem attachedIds_exact (entries : List Row) (h s : String) (i : Int) :
    i ∈ attachedIds entries h s ↔
      ∃ e ∈ entries, e.int "id" = i ∧ strCell e "host_name" = h ∧ strCell e "service_description" = s :=
  mem_attachedIds

/-- `idlists_exact`: after `buildIdLists name entries hosts services` the hosts and the services
    are still the same number of rows in the same order; the host row at each position lists under
    `name` exactly the ids of the entries with its host name and an empty service description; the
    service row lists exactly the ids of the entries with its host name and its (non-empty)
    description, and nothing when its description is empty; every other cell of every row is
    unchanged. -/
theorem idlists_exact (name : String) (entries hosts services : List Row) :
    (buildIdLists name entries hosts services).1.length = hosts.length ∧
    (buildIdLists name entries hosts services).2.length = services.length ∧
    (∀ (k : Nat) (h : Row), hosts[k]? = some h →
      ∃ h', (buildIdLists name entries hosts services).1[k]? = some h' ∧
        h'.cell? name = some (.il (attachedIds entries (strCell h "name") "")) ∧
        (∀ i, i ∈ attachedIds entries (strCell h "name") "" ↔
          ∃ e ∈ entries, e.int "id" = i ∧ strCell e "host_name" = strCell h "name" ∧
            strCell e "service_description" = "") ∧
        ∀ n, n ≠ name → h'.cell? n = h.cell? n) ∧
    (∀ (k : Nat) (s : Row), services[k]? = some s →
      ∃ s' l, (buildIdLists name entries hosts services).2[k]? = some s' ∧
        s'.cell? name = some (.il l) ∧
        (∀ i, i ∈ l ↔ strCell s "description" ≠ "" ∧
          ∃ e ∈ entries, e.int "id" = i ∧ strCell e "host_name" = strCell s "host_name" ∧
            strCell e "service_description" = strCell s "description") ∧
        ∀ n, n ≠ name → s'.cell? n = s.cell? n) := by
  rw [buildIdLists_fst, buildIdLists_snd]
  refine ⟨by simp, by simp, ?_, ?_⟩
  · intro k h hk
    refine ⟨_, by rw [List.getElem?_map, hk]; rfl, setCell_cell?_self _ _ _,
      fun i => mem_attachedIds, fun n hn => setCell_cell?_other _ _ _ _ hn⟩
  · intro k s hk
    refine ⟨_, serviceIds entries s, by rw [List.getElem?_map, hk]; rfl, setCell_cell?_self _ _ _,
      fun i => ?_, fun n hn => setCell_cell?_other _ _ _ _ hn⟩
    unfold serviceIds
    by_cases hd : strCell s "description" = ""
    · simp [hd]
    · have hd' : (strCell s "description" == "") = false := by simpa using hd
      simp only [hd', Bool.false_eq_true, if_false, ne_eq, hd, not_false_eq_true, true_and]
      exact mem_attachedIds

/-- the host "alpha" gets the host comment 1, its service "ping" the service comment 300 -/
example :
    let entries := [exC1, exC300].map (coerceRow exComments)
    let hosts := [exRowA, exRowB].map (coerceRow exHosts)
    let svc : Row := { cells := [("host_name", .s "alpha"), ("description", .s "ping")] }
    (buildIdLists "comments" entries hosts [svc]).1.map (fun h => attachedIds entries (strCell h "name") "")
      = [[1], []] ∧
    attachedIds entries "alpha" "ping" = [300] := by decide

end Lmd.C02
