/-
  C19 — export followed by import reproduces the cache: from rows to whole snapshots and to
  query answers.

  The exporter (`Exporter.exportPeers` / `addTable`) writes, for every backend, the line of the
  `sites` table and one file per stored table: a header row with the names of the exportable
  columns (`exportableColumns` / `isExportColumn`) and one line per cached row with the values of
  these columns (`valJson`, as in `Lmd.C19`).  The importer (`importData`) rebuilds a backend from
  its `sites` line and, when the backend is online, reads every line of every table file through
  the header and coerces the values (`coerceRow`).

  A line is modelled as in `Lmd.C19` by the list of (column name, value) pairs: the name stands for
  the position under the header.
-/
import Lmd.Lemmas.SnapshotLemmas

namespace Lmd.C19Snapshot
open Lean (Json JsonNumber)
open Lmd.SyncLemmas Lmd.SnapshotLemmas

/-! ## 1. the snapshot of a cache and its import -/

/-- `isExportColumn`: an optional column the backend lacks is not exported; every other column of
    the `status` table is; elsewhere only locally stored columns that are neither lower-case shadow
    columns nor `custom_variables` -/
def exportable (flags : Nat) (t : Table) (c : Column) : Bool :=
  if c.optional != 0 && !hasFlag flags c.optional then false
  else if t.name == "status" then true
  else c.storage == .loc && !hasSuffix c.name "_lc" && c.name != "custom_variables"

/-- the name is that of an exportable column of the table -/
def exportedName (flags : Nat) (t : Table) (n : String) : Bool :=
  match t.col? n with
  | some c => exportable flags t c
  | none => false

/-- `exportableColumns`: the header row of a table file -/
def header (flags : Nat) (t : Table) : List String := (t.cols.filter (exportable flags t)).map (·.name)

/-- the tables `exportPeers` writes a file for: no virtual and no passthrough-only tables -/
def storedTable (t : Table) : Bool := t.virt == .none && !t.passthrough

/-- what the line of the `sites` file carries of a backend -/
structure SiteLine where
  id : String
  name : String
  flags : Nat
  state : PeerState
  err : String
  section_ : String
  addr : String

/-- one table file: name, header row, lines -/
structure TableSnap where
  name : String
  header : List String
  lines : List ReplyRow

/-- the directory of one backend -/
structure BackendSnap where
  site : SiteLine
  tables : List TableSnap

/-- the whole tarball: one directory per backend, in configuration order -/
abbrev Snapshot := List BackendSnap

def siteLine (b : Backend) : SiteLine :=
  { id := b.id, name := b.name, flags := b.flags, state := b.state, err := b.err,
    section_ := b.section_, addr := b.addr }

/-- one line of a table file: the exported form (`valJson`) of the exportable cells of the row -/
def exportLine (flags : Nat) (t : Table) (r : Row) : ReplyRow :=
  exported (restrictRow (exportedName flags t) r)

def snapshotTable (s : Schema) (flags : Nat) (e : String × List Row) : TableSnap :=
  { name := e.1, header := header flags (tableOf s e.1),
    lines := e.2.map (exportLine flags (tableOf s e.1)) }

def snapshotBackend (s : Schema) (b : Backend) : BackendSnap :=
  { site := siteLine b,
    tables := (b.tables.filter (fun e => storedTable (tableOf s e.1))).map (snapshotTable s b.flags) }

/-- the snapshot of a whole cache -/
def snapshot (s : Schema) (ds : Dataset) : Snapshot := ds.backends.map (snapshotBackend s)

/-- `Peer.isOnline` -/
def online (st : PeerState) : Bool := st == .up || st == .warning

/-- one line read back: the values under the header columns, coerced like a backend reply -/
def readLine (t : Table) (hdr : List String) (line : ReplyRow) : Row :=
  coerceRow t (line.filter (fun p => hdr.contains p.1))

def importTable (s : Schema) (ts : TableSnap) : String × List Row :=
  (ts.name, ts.lines.map (readLine (tableOf s ts.name) ts.header))

/-- `importData`: the backend is restored from its `sites` line; its tables are stored only when it
    is online, otherwise it has no data (`GetDataStore` answers "peer is down") -/
def importBackend (s : Schema) (bs : BackendSnap) : Backend :=
  { id := bs.site.id, name := bs.site.name, flags := bs.site.flags, state := bs.site.state,
    err := bs.site.err, hasData := online bs.site.state,
    tables := if online bs.site.state then bs.tables.map (importTable s) else [],
    section_ := bs.site.section_, addr := bs.site.addr }

/-- the store of the importing instance (its authorisation settings are its own configuration) -/
def importSnapshot (s : Schema) (serviceAuthLoose groupAuthLoose : Bool) (snap : Snapshot) : Dataset :=
  { backends := snap.map (importBackend s), serviceAuthLoose := serviceAuthLoose,
    groupAuthLoose := groupAuthLoose }

/-! ## 2. well-formed caches -/

/-- the cache of a backend as the exporting instance holds it: it has data exactly when it is
    online, an offline backend has no tables, and every cell holds a coerced value of a locally
    stored column of its table (the hypothesis of `C19.row_roundtrip`) -/
structure BackendTyped (s : Schema) (b : Backend) : Prop where
  consistent : b.hasData = online b.state
  noData : online b.state = false → b.tables = []
  typed : ∀ e ∈ b.tables, ∀ r ∈ e.2, RowTyped (tableOf s e.1) r

/-- … and moreover every table entry is a stored table and every cell belongs to an exportable
    column (what the initial synchronisation produces, see `synced_backend_wf`) -/
structure BackendWF (s : Schema) (b : Backend) : Prop extends BackendTyped s b where
  stored : ∀ e ∈ b.tables, storedTable (tableOf s e.1) = true
  exportedCells : ∀ e ∈ b.tables, ∀ r ∈ e.2, RowKept (exportedName b.flags (tableOf s e.1)) r

def CacheTyped (s : Schema) (ds : Dataset) : Prop := ∀ b ∈ ds.backends, BackendTyped s b
def CacheWF (s : Schema) (ds : Dataset) : Prop := ∀ b ∈ ds.backends, BackendWF s b

/-- a well-formed cache is in particular typed -/
theorem CacheWF.typed {s : Schema} {ds : Dataset} (h : CacheWF s ds) : CacheTyped s ds :=
  fun b hb => (h b hb).toBackendTyped

/-- the part of a backend's cache the exporter looks at: the stored tables, every row without its
    non-exportable cells -/
def restrictBackend (s : Schema) (b : Backend) : Backend :=
  { b with
    tables := ((b.tables.filter (fun e => storedTable (tableOf s e.1))).map
      (fun e => (e.1, e.2.map (restrictRow (exportedName b.flags (tableOf s e.1)))))) }

def restrictCache (s : Schema) (ds : Dataset) : Dataset :=
  { ds with backends := ds.backends.map (restrictBackend s) }

/-- the header row lists every name `exportedName` accepts -/
theorem mem_header {flags : Nat} {t : Table} {n : String} (h : exportedName flags t n = true) :
    n ∈ header flags t := by
  unfold exportedName at h
  split at h
  · rename_i c hc
    unfold header
    refine List.mem_map.mpr ⟨c, List.mem_filter.mpr ⟨List.mem_of_find?_eq_some hc, h⟩, col?_name hc⟩
  · cases h

/-- on a well-formed backend the exporter looks at everything -/
theorem restrictBackend_of_wf {s : Schema} {b : Backend} (h : BackendWF s b) : restrictBackend s b = b := by
  have hf : b.tables.filter (fun e => storedTable (tableOf s e.1)) = b.tables :=
    List.filter_eq_self.mpr h.stored
  unfold restrictBackend
  rw [hf, map_eq_self (l := b.tables)]
  intro e he
  rw [map_eq_self (l := e.2) (fun r hr => restrictRow_of_kept (h.exportedCells e he r hr))]

/-! ## 3. the caches the synchronisation produces are well formed -/

/-- the reply row names, among the locally stored columns of the table, only exportable ones (the
    synchronisation asks a backend only for columns it has, never for the shadow columns) -/
def replyExportable (flags : Nat) (t : Table) (rr : ReplyRow) : Bool :=
  rr.all fun q =>
    match t.col? q.1 with
    | some c => c.storage != .loc || exportable flags t c
    | none => true

/-- the table stores `comments` and `downtimes` as exportable integer lists -/
def IdListCols (flags : Nat) (t : Table) : Prop :=
  ∀ m, m = "comments" ∨ m = "downtimes" →
    ∃ c, t.col? m = some c ∧ c.storage = .loc ∧ c.dtype = .int64List ∧ exportable flags t c = true

/-- `replyExportable` spelled out name by name -/
theorem replyExportable_kept {flags : Nat} {t : Table} {rr : ReplyRow}
    (h : replyExportable flags t rr = true) :
    ∀ q ∈ rr, ∀ c, t.col? q.1 = some c → c.storage = .loc → exportedName flags t q.1 = true := by
  intro q hq c hc hl
  have := List.all_eq_true.mp h q hq
  unfold exportedName
  rw [hc] at this ⊢
  simpa [hl] using this

/-- Every backend cache the initial synchronisation (`syncBackend`) builds is typed — including the
    `comments` / `downtimes` id lists written into the hosts and services rows afterwards. -/
theorem synced_backend_typed (s : Schema) (b : Backend) (replies : List (String × List ReplyRow))
    (hb : b.tables = syncBackend s replies) (hon : online b.state = true) (hd : b.hasData = true)
    (hh : IdListCols b.flags (tableOf s "hosts")) (hs : IdListCols b.flags (tableOf s "services")) :
    BackendTyped s b := by
  have hcols : ∀ n, n = "hosts" ∨ n = "services" → IdListCols b.flags (tableOf s n) := by
    rintro n (rfl | rfl) <;> assumption
  refine { consistent := hd.trans hon.symm, noData := fun h => absurd (hon.symm.trans h) (by decide),
           typed := fun e he r hr => ?_ }
  rw [hb] at he
  refine (syncBackend_rows_typed_kept s replies (fun _ _ => true) (fun _ _ _ _ _ _ _ _ _ => rfl)
    (fun n hn m hm => ?_) e he r hr).1
  obtain ⟨c, h1, h2, h3, _⟩ := hcols n hn m hm
  exact ⟨⟨c, h1, h2, h3⟩, rfl⟩

/-- Every backend cache the initial synchronisation builds from replies that name only exportable
    columns of stored tables is well formed in the sense of `snapshot_roundtrip`. -/
theorem synced_backend_wf (s : Schema) (b : Backend) (replies : List (String × List ReplyRow))
    (hb : b.tables = syncBackend s replies) (hon : online b.state = true) (hd : b.hasData = true)
    (hst : ∀ e ∈ replies, storedTable (tableOf s e.1) = true)
    (hrep : ∀ e ∈ replies, ∀ rr ∈ e.2, replyExportable b.flags (tableOf s e.1) rr = true)
    (hh : IdListCols b.flags (tableOf s "hosts")) (hs : IdListCols b.flags (tableOf s "services")) :
    BackendWF s b := by
  have hcols : ∀ n, n = "hosts" ∨ n = "services" → IdListCols b.flags (tableOf s n) := by
    rintro n (rfl | rfl) <;> assumption
  refine { toBackendTyped := synced_backend_typed s b replies hb hon hd hh hs, stored := ?_,
           exportedCells := fun e he r hr => ?_ }
  · intro e he
    rw [hb] at he
    obtain ⟨e', he', hn⟩ := syncBackend_name_mem he
    rw [← hn]; exact hst e' he'
  · rw [hb] at he
    refine (syncBackend_rows_typed_kept s replies (fun n => exportedName b.flags (tableOf s n))
      (fun e he rr hrr => replyExportable_kept (hrep e he rr hrr)) (fun n hn m hm => ?_) e he r hr).2
    obtain ⟨c, h1, h2, h3, h4⟩ := hcols n hn m hm
    exact ⟨⟨c, h1, h2, h3⟩, by unfold exportedName; rw [h1]; exact h4⟩

/-- a backend as the initial synchronisation leaves it: online, with the tables `syncBackend`
    builds from replies for stored tables that name only exportable columns -/
def SyncedBackend (s : Schema) (b : Backend) : Prop :=
  ∃ replies, b.tables = syncBackend s replies ∧ online b.state = true ∧ b.hasData = true ∧
    (∀ e ∈ replies, storedTable (tableOf s e.1) = true) ∧
    (∀ e ∈ replies, ∀ rr ∈ e.2, replyExportable b.flags (tableOf s e.1) rr = true) ∧
    IdListCols b.flags (tableOf s "hosts") ∧ IdListCols b.flags (tableOf s "services")

/-- a backend that could not be synchronised: not online, no data, no tables -/
def DownBackend (b : Backend) : Prop := b.hasData = false ∧ online b.state = false ∧ b.tables = []

/-- a backend without data is trivially well formed -/
theorem down_backend_wf (s : Schema) (b : Backend) (h : DownBackend b) : BackendWF s b := by
  obtain ⟨hd, ho, ht⟩ := h
  exact { consistent := hd.trans ho.symm, noData := fun _ => ht,
          typed := (by rw [ht]; intro e he; cases he),
          stored := (by rw [ht]; intro e he; cases he),
          exportedCells := (by rw [ht]; intro e he; cases he) }

/-! ### a concrete cache for the examples: one synchronised backend, one backend that is down -/

def exHosts : Table :=
  { name := "hosts",
    cols := [{ name := "name", dtype := .str, storage := .loc },
             { name := "name_lc", dtype := .str, storage := .loc },
             { name := "state", dtype := .int, storage := .loc },
             { name := "latency", dtype := .float, storage := .loc },
             { name := "contacts", dtype := .strList, storage := .loc },
             { name := "comments", dtype := .int64List, storage := .loc },
             { name := "downtimes", dtype := .int64List, storage := .loc },
             { name := "shadow_only", dtype := .str, storage := .loc, optional := 4 },
             { name := "peer_key", dtype := .str, storage := .virt }],
    primaryKey := ["name"] }

def exServices : Table :=
  { name := "services",
    cols := [{ name := "host_name", dtype := .str, storage := .loc },
             { name := "description", dtype := .str, storage := .loc },
             { name := "state", dtype := .int, storage := .loc },
             { name := "comments", dtype := .int64List, storage := .loc },
             { name := "downtimes", dtype := .int64List, storage := .loc },
             { name := "host_state", dtype := .int, storage := .ref, refTable := "hosts", refCol := "state" }],
    primaryKey := ["host_name", "description"],
    refs := [{ table := "hosts", cols := ["host_name"] }] }

def exComments : Table :=
  { name := "comments",
    cols := [{ name := "id", dtype := .int64, storage := .loc },
             { name := "host_name", dtype := .str, storage := .loc },
             { name := "service_description", dtype := .str, storage := .loc },
             { name := "author", dtype := .str, storage := .loc }],
    primaryKey := ["id"] }

def exSchema : Schema := { tables := [exHosts, exServices, exComments] }

def exReplies : List (String × List ReplyRow) :=
  [("hosts", [[("name", .str "beta"), ("state", .num ⟨0, 0⟩), ("latency", .num ⟨5, 1⟩),
               ("contacts", .arr #[.str "ops"]), ("peer_key", .str "ignored")],
              [("name", .str "Alpha"), ("state", .num ⟨1, 0⟩), ("latency", .num ⟨125, 2⟩),
               ("contacts", .arr #[.str "admin", .str "ops"])]]),
   ("services", [[("host_name", .str "Alpha"), ("description", .str "ping"), ("state", .num ⟨2, 0⟩)]]),
   ("comments", [[("id", .num ⟨7, 0⟩), ("host_name", .str "Alpha"), ("service_description", .str "ping"),
                  ("author", .str "me")]])]

def exUp : Backend :=
  { id := "a", name := "A", flags := 0, state := .up, hasData := true,
    tables := syncBackend exSchema exReplies, section_ := "north", addr := "a.sock" }

def exDown : Backend :=
  { id := "b", name := "B", state := .down, err := "connection refused", hasData := false, tables := [] }

def exDs : Dataset := { backends := [exUp, exDown] }

/-- the example hosts and services tables store both id lists as exportable integer lists -/
theorem exIdLists (n : String) (hn : n = "hosts" ∨ n = "services") : IdListCols 0 (tableOf exSchema n) := by
  rcases hn with rfl | rfl <;> rintro m (rfl | rfl)
  · exact ⟨{ name := "comments", dtype := .int64List, storage := .loc }, by decide, rfl, rfl, by decide⟩
  · exact ⟨{ name := "downtimes", dtype := .int64List, storage := .loc }, by decide, rfl, rfl, by decide⟩
  · exact ⟨{ name := "comments", dtype := .int64List, storage := .loc }, by decide, rfl, rfl, by decide⟩
  · exact ⟨{ name := "downtimes", dtype := .int64List, storage := .loc }, by decide, rfl, rfl, by decide⟩

/-- the example cache consists of a synchronised backend and a backend that is down -/
theorem exDs_synced : ∀ b ∈ exDs.backends, SyncedBackend exSchema b ∨ DownBackend b := by
  intro b hb
  simp only [exDs, List.mem_cons, List.not_mem_nil, or_false] at hb
  rcases hb with rfl | rfl
  · left
    exact ⟨exReplies, rfl, by decide, rfl, by decide, by decide, exIdLists _ (Or.inl rfl), exIdLists _ (Or.inr rfl)⟩
  · right
    exact ⟨rfl, by decide, rfl⟩

/-- the example cache satisfies the hypothesis of `snapshot_roundtrip` (via `synced_backend_wf`) -/
theorem exDs_wf : CacheWF exSchema exDs := by
  intro b hb
  rcases exDs_synced b hb with ⟨replies, h1, h2, h3, h4, h5, h6, h7⟩ | hd
  · exact synced_backend_wf exSchema b replies h1 h2 h3 h4 h5 h6 h7
  · exact down_backend_wf exSchema b hd

/-- the header of the example hosts file: no shadow column, no optional column the backend lacks,
    no virtual column -/
example : header 0 exHosts = ["name", "state", "latency", "contacts", "comments", "downtimes"] := by decide

/-- the example snapshot: three table files for the synchronised backend, none for the other -/
example : (snapshot exSchema exDs).map (fun bs => (bs.site.id, bs.tables.map (·.name))) =
    [("a", ["hosts", "services", "comments"]), ("b", [])] := by decide

/-- two caches that differ only in non-exported cells (a shadow column and an optional column the
    backend lacks were delivered to the second one) -/
def exRowA : Row := coerceRow exHosts [("name", .str "Alpha"), ("state", .num ⟨1, 0⟩)]
def exRowB : Row :=
  coerceRow exHosts [("name_lc", .str "zzz"), ("name", .str "Alpha"), ("state", .num ⟨1, 0⟩),
    ("shadow_only", .str "x")]
def exDsA : Dataset := { backends := [{ id := "a", name := "A", tables := [("hosts", [exRowA])] }] }
def exDsB : Dataset := { backends := [{ id := "a", name := "A", tables := [("hosts", [exRowB])] }] }

/-- both example caches are typed -/
theorem exDsAB_typed (r : Row) (hr : r = exRowA ∨ r = exRowB) :
    CacheTyped exSchema { backends := [{ id := "a", name := "A", tables := [("hosts", [r])] }] } := by
  intro b hb
  simp only [List.mem_cons, List.not_mem_nil, or_false] at hb
  subst hb
  refine { consistent := rfl, noData := fun h => (by cases h), typed := ?_ }
  intro e he r' hr'
  simp only [List.mem_cons, List.not_mem_nil, or_false] at he
  subst he
  simp only [List.mem_cons, List.not_mem_nil, or_false] at hr'
  subst hr'
  rcases hr with rfl | rfl <;> exact coerceRow_typed exHosts _

/-! ## 4. `snapshot_roundtrip` -/

/-- Every value of an exported line stands under a column of the header row. -/
theorem exportLine_under_header (flags : Nat) (t : Table) (r : Row) :
    ∀ q ∈ exportLine flags t r, q.1 ∈ header flags t := by
  intro q hq
  unfold exportLine exported at hq
  obtain ⟨p, hp, rfl⟩ := List.mem_map.mp hq
  exact mem_header (restrictRow_kept _ r p hp)

/-- One line: reading an exported line of a typed row through the header of its table file gives
    the row with its exportable cells (names, values and order as in the cache). -/
theorem readLine_exportLine (flags : Nat) (t : Table) (r : Row) (h : RowTyped t r) :
    readLine t (header flags t) (exportLine flags t r) = restrictRow (exportedName flags t) r :=
  line_roundtrip t (exportedName flags t) (header flags t) r h (fun _ hk => mem_header hk)

example : RowTyped exHosts exRowB ∧
    (readLine exHosts (header 0 exHosts) (exportLine 0 exHosts exRowB)).cells.map (·.1) = ["name", "state"] :=
  ⟨coerceRow_typed exHosts _, by decide⟩

/-- Importing the exported files of one backend gives back the backend with exactly the part of its
    cache the exporter looks at (`restrictBackend`): same id, name, flags, state, error text, the
    stored tables in the same order, every table with the same rows in the same order, every row
    with its exportable cells — for every backend whose cells are typed. -/
theorem backend_roundtrip_restrict (s : Schema) (b : Backend) (h : BackendTyped s b) :
    importBackend s (snapshotBackend s b) = restrictBackend s b := by
  obtain ⟨hc, hn, ht⟩ := h
  obtain ⟨id, name, flags, state, err, hasData, tables, sec, addr⟩ := b
  simp only at hc hn ht
  subst hc
  show ({ id := id, name := name, flags := flags, state := state, err := err, hasData := online state,
          tables := if online state then
            ((tables.filter (fun e => storedTable (tableOf s e.1))).map (snapshotTable s flags)).map
              (importTable s) else [],
          section_ := sec, addr := addr } : Backend) =
       { id := id, name := name, flags := flags, state := state, err := err, hasData := online state,
         tables := (tables.filter (fun e => storedTable (tableOf s e.1))).map
           (fun e => (e.1, e.2.map (restrictRow (exportedName flags (tableOf s e.1))))),
         section_ := sec, addr := addr }
  simp only [Backend.mk.injEq, true_and, and_true]
  by_cases ho : online state = true
  · rw [if_pos ho, List.map_map]
    apply List.map_congr_left
    intro e he
    have he' := (List.mem_filter.mp he).1
    simp only [Function.comp, importTable, snapshotTable, Prod.mk.injEq, true_and]
    exact lines_roundtrip (tableOf s e.1) (exportedName flags (tableOf s e.1)) _ e.2 (ht e he')
      (fun n hk => mem_header hk)
  · rw [if_neg ho, hn (by simpa using ho)]; rfl

/-- One backend: import of its exported files reproduces the well-formed backend completely. -/
theorem backend_roundtrip (s : Schema) (b : Backend) (h : BackendWF s b) :
    importBackend s (snapshotBackend s b) = b := by
  rw [backend_roundtrip_restrict s b h.toBackendTyped, restrictBackend_of_wf h]

/-- `snapshot_roundtrip`: importing the snapshot of a cache with well-formed rows gives, in an
    instance with the same authorisation settings, exactly the exporting instance's store: the same
    backends in the same order, each with the same id, name, flags, state and error text, the same
    tables, and in every table the same rows with the same cells in the same order. -/
theorem snapshot_roundtrip (s : Schema) (ds : Dataset) (h : CacheWF s ds) :
    importSnapshot s ds.serviceAuthLoose ds.groupAuthLoose (snapshot s ds) = ds := by
  obtain ⟨backends, sal, gal⟩ := ds
  simp only [importSnapshot, snapshot, Dataset.mk.injEq, and_true, List.map_map]
  exact map_eq_self (fun b hb => backend_roundtrip s b (h b hb))

/-- non-vacuity: the example cache (a synchronised backend with three tables, a backend that is
    down) satisfies the hypothesis -/
example : CacheWF exSchema exDs ∧ exDs.backends.length = 2 ∧
    importSnapshot exSchema exDs.serviceAuthLoose exDs.groupAuthLoose (snapshot exSchema exDs) = exDs :=
  ⟨exDs_wf, rfl, snapshot_roundtrip exSchema exDs exDs_wf⟩

/-- `snapshot_roundtrip`, spelled out: the imported store has the same backend ids in the same
    order, and for every position `i` and every table name the backend at position `i` holds the
    same list of rows after the import as before the export. -/
theorem snapshot_roundtrip_rows (s : Schema) (ds : Dataset) (h : CacheWF s ds) (sal gal : Bool) :
    (importSnapshot s sal gal (snapshot s ds)).backends.map (·.id) = ds.backends.map (·.id) ∧
    ∀ (i : Nat) (table : String),
      ((importSnapshot s sal gal (snapshot s ds)).backends[i]?).map (fun b => (b.id, b.rows table)) =
        (ds.backends[i]?).map (fun b => (b.id, b.rows table)) := by
  have hb : (importSnapshot s sal gal (snapshot s ds)).backends = ds.backends := by
    simp only [importSnapshot, snapshot, List.map_map]
    exact map_eq_self (fun b hb => backend_roundtrip s b (h b hb))
  rw [hb]
  exact ⟨rfl, fun _ _ => rfl⟩

/-- Without the assumption that all cells are exportable: the imported store is the exporting
    instance's store restricted to what the exporter looks at (`restrictCache`). -/
theorem snapshot_roundtrip_restrict (s : Schema) (ds : Dataset) (h : CacheTyped s ds) :
    importSnapshot s ds.serviceAuthLoose ds.groupAuthLoose (snapshot s ds) = restrictCache s ds := by
  obtain ⟨backends, sal, gal⟩ := ds
  simp only [importSnapshot, snapshot, restrictCache, Dataset.mk.injEq, and_true, List.map_map]
  exact List.map_congr_left (fun b hb => backend_roundtrip_restrict s b (h b hb))

/-- non-vacuity, and the restriction is a real one: the second example cache holds two non-exported
    cells; what comes back is the first example cache -/
example : CacheTyped exSchema exDsB ∧ restrictCache exSchema exDsB = exDsA ∧
    importSnapshot exSchema exDsB.serviceAuthLoose exDsB.groupAuthLoose (snapshot exSchema exDsB) = exDsA :=
  ⟨exDsAB_typed exRowB (Or.inr rfl), rfl,
    snapshot_roundtrip_restrict exSchema exDsB (exDsAB_typed exRowB (Or.inr rfl))⟩

/-- `synced_snapshot_roundtrip`: the cache of an instance all of whose backends are either
    synchronised or down — what the exporter has after waiting for its backends — is reproduced
    exactly by export followed by import. -/
theorem synced_snapshot_roundtrip (s : Schema) (ds : Dataset)
    (h : ∀ b ∈ ds.backends, SyncedBackend s b ∨ DownBackend b) :
    importSnapshot s ds.serviceAuthLoose ds.groupAuthLoose (snapshot s ds) = ds := by
  apply snapshot_roundtrip
  intro b hb
  rcases h b hb with ⟨replies, h1, h2, h3, h4, h5, h6, h7⟩ | hd
  · exact synced_backend_wf s b replies h1 h2 h3 h4 h5 h6 h7
  · exact down_backend_wf s b hd

example : (∀ b ∈ exDs.backends, SyncedBackend exSchema b ∨ DownBackend b) ∧
    importSnapshot exSchema exDs.serviceAuthLoose exDs.groupAuthLoose (snapshot exSchema exDs) = exDs :=
  ⟨exDs_synced, synced_snapshot_roundtrip exSchema exDs exDs_synced⟩

/-! ## 5. `roundtrip_preserves_answers` -/

/-- `roundtrip_preserves_answers`: on the imported store the query evaluation of the model — data
    requests (`dataQuery`, in every evaluation mode: the optimised code path and the
    specification), Stats requests (`statsQuery`, `statsSpec`) — returns the same result as on the
    exporting instance's store: the same selected rows in the same order, the same row pool, the
    same total count, the same failed-backends list, the same Stats groups and counters. -/
theorem roundtrip_preserves_answers (s : Schema) (ds : Dataset) (h : CacheWF s ds)
    (m : EvalMode) (sm : StatsMode) (t : Table) (req : Request) :
    dataQuery m s (importSnapshot s ds.serviceAuthLoose ds.groupAuthLoose (snapshot s ds)) t req =
      dataQuery m s ds t req ∧
    statsQuery sm s (importSnapshot s ds.serviceAuthLoose ds.groupAuthLoose (snapshot s ds)) t req =
      statsQuery sm s ds t req ∧
    statsSpec s (importSnapshot s ds.serviceAuthLoose ds.groupAuthLoose (snapshot s ds)) t req =
      statsSpec s ds t req := by
  rw [snapshot_roundtrip s ds h]
  exact ⟨rfl, rfl, rfl⟩

/-- non-vacuity: a hosts request on the example cache, evaluated like the code and like the
    specification -/
example :
    dataQuery (EvalMode.code Quirks.none) exSchema
        (importSnapshot exSchema exDs.serviceAuthLoose exDs.groupAuthLoose (snapshot exSchema exDs))
        exHosts { table := "hosts", columns := ["name", "peer_key"] } =
      dataQuery (EvalMode.code Quirks.none) exSchema exDs exHosts
        { table := "hosts", columns := ["name", "peer_key"] } :=
  (roundtrip_preserves_answers exSchema exDs exDs_wf (EvalMode.code Quirks.none)
    { q := Quirks.none, useIndex := true, pushDown := true, grouped := true } exHosts
    { table := "hosts", columns := ["name", "peer_key"] }).1

/-- The answer as it is sent: the rendered cells of every result row (`hitJson` over the response
    columns — local, referenced and virtual columns alike, so also `peer_key` and the other
    per-backend columns), the id of the backend every row is attributed to, the total count and the
    failed-backends list are the same on the imported store. -/
theorem roundtrip_preserves_rendered (s : Schema) (ds : Dataset) (h : CacheWF s ds)
    (m : EvalMode) (t : Table) (req : Request) :
    let ds' := importSnapshot s ds.serviceAuthLoose ds.groupAuthLoose (snapshot s ds)
    (dataQuery m s ds' t req).hits.map (hitJson s ds' t (requestColumns t req)) =
      (dataQuery m s ds t req).hits.map (hitJson s ds t (requestColumns t req)) ∧
    (dataQuery m s ds' t req).hits.map (·.b.id) = (dataQuery m s ds t req).hits.map (·.b.id) ∧
    (dataQuery m s ds' t req).hits.map (·.r.cells) = (dataQuery m s ds t req).hits.map (·.r.cells) ∧
    (dataQuery m s ds' t req).total = (dataQuery m s ds t req).total ∧
    (dataQuery m s ds' t req).failed = (dataQuery m s ds t req).failed := by
  intro ds'
  have : ds' = ds := snapshot_roundtrip s ds h
  rw [this]
  exact ⟨rfl, rfl, rfl, rfl, rfl⟩

/-- Without the assumption that all cells are exportable the importing instance answers like the
    exporting instance would on the part of its cache the exporter looks at. -/
theorem roundtrip_answers_restrict (s : Schema) (ds : Dataset) (h : CacheTyped s ds)
    (m : EvalMode) (sm : StatsMode) (t : Table) (req : Request) :
    dataQuery m s (importSnapshot s ds.serviceAuthLoose ds.groupAuthLoose (snapshot s ds)) t req =
      dataQuery m s (restrictCache s ds) t req ∧
    statsQuery sm s (importSnapshot s ds.serviceAuthLoose ds.groupAuthLoose (snapshot s ds)) t req =
      statsQuery sm s (restrictCache s ds) t req := by
  rw [snapshot_roundtrip_restrict s ds h]
  exact ⟨rfl, rfl⟩

/-! ## 6. what is not exported does not matter, what is exported is determined -/

/-- virtual and referenced columns are never exported (outside the `status` table), nor are the
    lower-case shadow columns, `custom_variables`, and optional columns the backend lacks -/
theorem not_exportable (flags : Nat) (t : Table) (c : Column) (ht : t.name ≠ "status")
    (h : c.storage ≠ .loc ∨ hasSuffix c.name "_lc" = true ∨ c.name = "custom_variables" ∨
      (c.optional ≠ 0 ∧ hasFlag flags c.optional = false)) :
    exportable flags t c = false := by
  unfold exportable
  have ht' : (t.name == "status") = false := by simpa using ht
  rcases h with h | h | h | ⟨h1, h2⟩
  · have : (c.storage == Storage.loc) = false := by simpa using h
    split
    · rfl
    · simp [ht', this]
  · split
    · rfl
    · simp [ht', h]
  · split
    · rfl
    · simp [ht', h]
  · have : (c.optional != 0) = true := by simpa using h1
    simp [this, h2]

/-- the exported files of a backend are those of the part of its cache the exporter looks at -/
theorem snapshotBackend_restrict (s : Schema) (b : Backend) :
    snapshotBackend s (restrictBackend s b) = snapshotBackend s b := by
  unfold snapshotBackend restrictBackend
  simp only [BackendSnap.mk.injEq]
  refine ⟨rfl, ?_⟩
  rw [List.filter_map, List.filter_filter, List.map_map]
  have hf : ∀ e : String × List Row,
      ((((fun e => storedTable (tableOf s e.1)) ∘ fun e : String × List Row =>
        (e.1, e.2.map (restrictRow (exportedName b.flags (tableOf s e.1))))) e) &&
        storedTable (tableOf s e.1)) = storedTable (tableOf s e.1) := by
    intro e; simp [Function.comp]
  rw [List.filter_congr (fun e _ => hf e)]
  apply List.map_congr_left
  intro e _
  simp only [Function.comp, snapshotTable, TableSnap.mk.injEq, true_and, List.map_map]
  apply List.map_congr_left
  intro r _
  simp only [Function.comp, exportLine, restrictRow_idem]

/-- Non-exported cells do not influence the snapshot: two caches that agree on the part the exporter
    looks at — they may differ in any cell that does not belong to an exportable column, and in
    table entries that are not stored tables — have the same snapshot, hence import to the same
    store. -/
theorem snapshot_ignores_unexported (s : Schema) (ds ds' : Dataset)
    (h : restrictCache s ds = restrictCache s ds') : snapshot s ds = snapshot s ds' := by
  have hb : ds.backends.map (restrictBackend s) = ds'.backends.map (restrictBackend s) :=
    congrArg Dataset.backends h
  have e : ∀ d : Dataset, snapshot s d = (d.backends.map (restrictBackend s)).map (snapshotBackend s) := by
    intro d
    unfold snapshot
    rw [List.map_map]
    exact List.map_congr_left (fun b _ => (snapshotBackend_restrict s b).symm)
  rw [e ds, e ds', hb]

/-- non-vacuity: the two example caches differ (two cells against four) and have the same snapshot -/
example : exRowA.cells.length = 2 ∧ exRowB.cells.length = 4 ∧
    restrictCache exSchema exDsA = restrictCache exSchema exDsB ∧
    snapshot exSchema exDsA = snapshot exSchema exDsB :=
  ⟨by decide, by decide, rfl, snapshot_ignores_unexported exSchema exDsA exDsB rfl⟩

/-- … for instance a cell written under the name of a non-exported column (a virtual column, a
    shadow column) does not change the exported line of the row. -/
theorem exportLine_setCell (flags : Nat) (t : Table) (r : Row) (n : String) (v : Val)
    (hn : exportedName flags t n = false) : exportLine flags t (r.setCell n v) = exportLine flags t r := by
  unfold exportLine
  rw [restrictRow_setCell_of_not_kept _ r n v hn]

/-- Conversely the snapshot determines everything the exporter looks at: two typed caches with the
    same snapshot have the same backends with the same stored tables, the same rows and the same
    exportable cells. -/
theorem snapshot_determines_exported (s : Schema) (ds ds' : Dataset)
    (h : CacheTyped s ds) (h' : CacheTyped s ds') (he : snapshot s ds = snapshot s ds') :
    (restrictCache s ds).backends = (restrictCache s ds').backends := by
  have e : ∀ d : Dataset, CacheTyped s d →
      (restrictCache s d).backends = (snapshot s d).map (importBackend s) := by
    intro d hd
    unfold restrictCache snapshot
    rw [List.map_map]
    exact List.map_congr_left (fun b hb => (backend_roundtrip_restrict s b (hd b hb)).symm)
  rw [e ds h, e ds' h', he]

example : CacheTyped exSchema exDsA ∧ CacheTyped exSchema exDsB ∧
    snapshot exSchema exDsA = snapshot exSchema exDsB ∧
    (restrictCache exSchema exDsA).backends = (restrictCache exSchema exDsB).backends :=
  ⟨exDsAB_typed exRowA (Or.inl rfl), exDsAB_typed exRowB (Or.inr rfl), rfl,
    snapshot_determines_exported exSchema exDsA exDsB (exDsAB_typed exRowA (Or.inl rfl))
      (exDsAB_typed exRowB (Or.inr rfl)) rfl⟩

/-- `snapshot_injective`: on well-formed caches of instances with the same authorisation settings
    the snapshot determines the cache completely: equal snapshots, equal stores. -/
theorem snapshot_injective (s : Schema) (ds ds' : Dataset) (h : CacheWF s ds) (h' : CacheWF s ds')
    (ha : ds.serviceAuthLoose = ds'.serviceAuthLoose) (hg : ds.groupAuthLoose = ds'.groupAuthLoose)
    (he : snapshot s ds = snapshot s ds') : ds = ds' := by
  rw [← snapshot_roundtrip s ds h, ← snapshot_roundtrip s ds' h', he, ha, hg]

example : CacheWF exSchema exDs ∧ snapshot exSchema exDs = snapshot exSchema exDs := ⟨exDs_wf, rfl⟩

/-- Cell by cell: two table files with the same content come from tables of the same name with the
    same number of rows, and the rows at the same position agree on every exportable cell. -/
theorem snapshot_determines_cells (s : Schema) (flags : Nat) (e e' : String × List Row)
    (h : ∀ r ∈ e.2, RowTyped (tableOf s e.1) r) (h' : ∀ r ∈ e'.2, RowTyped (tableOf s e'.1) r)
    (he : snapshotTable s flags e = snapshotTable s flags e') :
    e.1 = e'.1 ∧ e.2.length = e'.2.length ∧
      ∀ (i : Nat) (r r' : Row), e.2[i]? = some r → e'.2[i]? = some r' →
        ∀ n, exportedName flags (tableOf s e.1) n = true → r.cell? n = r'.cell? n := by
  have hn : e.1 = e'.1 := congrArg TableSnap.name he
  have hl : e.2.map (exportLine flags (tableOf s e.1)) = e'.2.map (exportLine flags (tableOf s e'.1)) :=
    congrArg TableSnap.lines he
  rw [← hn] at hl h'
  have := lines_determine_cells (t := tableOf s e.1) (exportedName flags (tableOf s e.1)) h h' hl
  exact ⟨hn, this.1, this.2⟩

/-- non-vacuity: the two example rows agree on `name` (exported); they are free to differ on
    `name_lc` (not exported) -/
example : snapshotTable exSchema 0 ("hosts", [exRowA]) = snapshotTable exSchema 0 ("hosts", [exRowB]) ∧
    exRowA.cell? "name" = exRowB.cell? "name" ∧
    (exRowA.cell? "name_lc").isNone = true ∧ (exRowB.cell? "name_lc").isSome = true :=
  ⟨rfl,
   (snapshot_determines_cells exSchema 0 ("hosts", [exRowA]) ("hosts", [exRowB])
      (fun r hr => by
        simp only [List.mem_cons, List.not_mem_nil, or_false] at hr; subst hr
        exact coerceRow_typed exHosts _)
      (fun r hr => by
        simp only [List.mem_cons, List.not_mem_nil, or_false] at hr; subst hr
        exact coerceRow_typed exHosts _) rfl).2.2 0 exRowA exRowB rfl rfl "name" (by decide),
   by decide, by decide⟩

/-! ## 7. a backend without data -/

/-- A backend that is not online comes back without data whatever its directory contains: its
    imported table list is empty and `hasData` is off, so every stored table of it is unavailable
    ("peer is down") to the query evaluation. -/
theorem offline_backend_imported_empty (s : Schema) (bs : BackendSnap) (h : online bs.site.state = false)
    (t : Table) (ht : t.virt = .none) :
    (importBackend s bs).tables = [] ∧ (importBackend s bs).hasData = false ∧
      backendAvailable (importBackend s bs) t = false := by
  unfold backendAvailable importBackend
  simp [h, ht]

/-- `down_backend_roundtrip`: a backend that had no data at export time (down: no tables) is
    reproduced exactly — id, name, flags, state, error text — with an empty table list. -/
theorem down_backend_roundtrip (s : Schema) (b : Backend) (hd : b.hasData = false)
    (ho : online b.state = false) (ht : b.tables = []) :
    importBackend s (snapshotBackend s b) = b ∧ (importBackend s (snapshotBackend s b)).tables = [] := by
  have hwf : BackendWF s b := down_backend_wf s b ⟨hd, ho, ht⟩
  have := backend_roundtrip s b hwf
  exact ⟨this, by rw [this]; exact ht⟩

example : exDown.hasData = false ∧ online exDown.state = false ∧ exDown.tables = [] ∧
    importBackend exSchema (snapshotBackend exSchema exDown) = exDown :=
  ⟨rfl, by decide, rfl, (down_backend_roundtrip exSchema exDown rfl (by decide) rfl).1⟩

/-- A query lists a backend without data the same way after the import as before the export: the
    failed-backends entries (backend id and "peer is down: <error text>") of data and Stats
    requests are the same, and such a backend is in that list for every stored table whenever the
    request selects it. -/
theorem down_backend_listed_same (s : Schema) (ds : Dataset) (h : CacheWF s ds)
    (m : EvalMode) (sm : StatsMode) (t : Table) (req : Request) :
    (dataQuery m s (importSnapshot s ds.serviceAuthLoose ds.groupAuthLoose (snapshot s ds)) t req).failed =
      (dataQuery m s ds t req).failed ∧
    (statsQuery sm s (importSnapshot s ds.serviceAuthLoose ds.groupAuthLoose (snapshot s ds)) t req).failed =
      (statsQuery sm s ds t req).failed ∧
    ∀ b ∈ (selectBackends ds t req).peers, b.hasData = false → t.virt = .none →
      (b.id, s!"peer is down: {b.err}") ∈
        (dataQuery m s (importSnapshot s ds.serviceAuthLoose ds.groupAuthLoose (snapshot s ds)) t req).failed := by
  rw [snapshot_roundtrip s ds h]
  refine ⟨rfl, rfl, ?_⟩
  intro b hb hd ht
  have hmem : (b.id, s!"peer is down: {b.err}") ∈
      (selectBackends ds t req).failed ++
        ((selectBackends ds t req).peers.filter (fun b => !backendAvailable b t)).map
          (fun b => (b.id, s!"peer is down: {b.err}")) := by
    apply List.mem_append_right
    refine List.mem_map.mpr ⟨b, List.mem_filter.mpr ⟨hb, ?_⟩, rfl⟩
    simp [backendAvailable, ht, hd]
  unfold dataQuery
  simp only
  split <;> exact hmem

/-- non-vacuity: the example backend "b" is selected by a hosts request, has no data, and is
    therefore reported as down by the importing instance -/
example : ("b", "peer is down: connection refused") ∈
    (dataQuery EvalMode.spec exSchema
      (importSnapshot exSchema exDs.serviceAuthLoose exDs.groupAuthLoose (snapshot exSchema exDs))
      exHosts { table := "hosts" }).failed := by
  have hsel : (selectBackends exDs exHosts { table := "hosts" }).peers = [exUp, exDown] := rfl
  exact (down_backend_listed_same exSchema exDs exDs_wf EvalMode.spec
    { q := Quirks.none, useIndex := false, pushDown := false, grouped := false } exHosts
    { table := "hosts" }).2.2 exDown (by rw [hsel]; simp) rfl rfl

end Lmd.C19Snapshot
