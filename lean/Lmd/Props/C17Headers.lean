/-
  C17 (header lines) — the plain header lines of a printed request parse back.

  `Request.print` (the model of `Request.String`) writes, besides the filter, stats and sort
  sections covered by `Lmd.Props.C17` and `Lmd.Props.C17Sort`, one line per header field that
  differs from its initial value: `ResponseHeader`, `OutputFormat`, `Columns`, `Backends`, `Limit`,
  `Offset`, `ColumnHeaders`, `KeepAlive`, `WaitTrigger`, `WaitObject`, `WaitTimeout`,
  `WaitConditionNegate`, `AuthUser`, and one `WaitCondition` line per single term.

    1. one theorem per header kind: the printed line sets exactly its field;
    2. `print_parse_headers`: a request without filter, stats and sort section reads back as itself;
    3. `print_parse_request_partial`: the same for a full request, relative to the leaf lines;
    4. the regression `WaitConditionNegate` without colon.

  Well-formedness (`HeaderWF`, decidable) and all string facts live in
  `Lmd.Lemmas.HeaderLemmas` / `Lmd.Lemmas.HeaderLinesLemmas` / `Lmd.Lemmas.HeaderSectionsLemmas`.
-/
import Lmd.Lemmas.HeaderSectionsLemmas
import Lmd.Props.C17

namespace Lmd.C17
open Lmd Lmd.Headers

/-! ## 1. the header lines one by one

Every statement has the form `parseHeaderLine o t req line = .ok { req with field := value }` for
an arbitrary parser state `req`: the line sets exactly that field to the value it was printed
from; all other fields of the state are the ones of `req`. -/

/-- Reading the line `ResponseHeader: fixed16` switches the fixed-size response header on and
    leaves every other field of the request alone. -/
theorem header_fixed16 (o : ParseOpts) (t : Table) (req : Request) :
    parseHeaderLine o t req "ResponseHeader: fixed16" = .ok { req with fixed16 := true } :=
  headerLine_fixed16 o t req

/-- Reading the line `OutputFormat: <name>`, with the name lmd prints for a format other than
    the default one (`json`, `wrapped_json`, `python`, `python3`), selects exactly that format
    and leaves every other field alone.  (The default format is never printed, see
    `print_parse_headers`.) -/
theorem header_outFmt (o : ParseOpts) (t : Table) (req : Request) (f : OutFmt) (hf : f ≠ .dflt) :
    parseHeaderLine o t req ("OutputFormat: " ++ f.text) = .ok { req with outFmt := f } :=
  headerLine_outfmt o t req f hf

/-- Reading the line `Columns: c1 c2 ...` printed from a non-empty list of proper column names
    (non-empty, no white space) appends exactly these names, in order, to the column list and
    leaves every other field alone. -/
theorem header_columns (o : ParseOpts) (t : Table) (req : Request) (cols : List String)
    (hne : cols ≠ []) (h : ∀ x ∈ cols, wordOk x = true) :
    parseHeaderLine o t req ("Columns: " ++ joinWith " " cols)
      = .ok { req with columns := req.columns ++ cols } :=
  headerLine_columns o t req cols hne h

/-- Reading the line `Backends: b1 b2 ...` printed from a non-empty list of proper backend names
    sets the backend list to exactly these names and leaves every other field alone. -/
theorem header_backends (o : ParseOpts) (t : Table) (req : Request) (bs : List String)
    (hne : bs ≠ []) (h : ∀ x ∈ bs, wordOk x = true) :
    parseHeaderLine o t req ("Backends: " ++ joinWith " " bs) = .ok { req with backends := bs } :=
  headerLine_backends o t req bs hne h

/-- Reading the line `Limit: n` sets the limit to `n` — for every number, zero included — and
    leaves every other field alone. -/
theorem header_limit (o : ParseOpts) (t : Table) (req : Request) (n : Nat) :
    parseHeaderLine o t req ("Limit: " ++ toString n) = .ok { req with limit := some n } :=
  headerLine_limit o t req n

/-- Reading the line `Offset: n` sets the offset to `n` and leaves every other field alone. -/
theorem header_offset (o : ParseOpts) (t : Table) (req : Request) (n : Nat) :
    parseHeaderLine o t req ("Offset: " ++ toString n) = .ok { req with offset := n } :=
  headerLine_offset o t req n

/-- Reading the line `ColumnHeaders: on` switches the column header line on and leaves every
    other field alone. -/
theorem header_colHeaders (o : ParseOpts) (t : Table) (req : Request) :
    parseHeaderLine o t req "ColumnHeaders: on" = .ok { req with colHeaders := true } :=
  headerLine_colHeaders o t req

/-- Reading the line `KeepAlive: on` switches keep-alive on and leaves every other field alone. -/
theorem header_keepAlive (o : ParseOpts) (t : Table) (req : Request) :
    parseHeaderLine o t req "KeepAlive: on" = .ok { req with keepAlive := true } :=
  headerLine_keepAlive o t req

/-- Reading the line `AuthUser: <name>` printed from a non-empty user name that does not start
    with a blank sets the authorised user to exactly that name and leaves every other field
    alone. -/
theorem header_authUser (o : ParseOpts) (t : Table) (req : Request) (v : String) (hne : v ≠ "")
    (hv : ∀ c, v.toList.head? = some c → c ≠ ' ') :
    parseHeaderLine o t req ("AuthUser: " ++ v) = .ok { req with authUser := v } :=
  headerLine_authUser o t req v hne hv

/-- Reading the line `WaitTrigger: <text>` printed from a text that does not start with a blank
    sets the wait trigger to exactly that text and leaves every other field alone. -/
theorem header_waitTrigger (o : ParseOpts) (t : Table) (req : Request) (v : String)
    (hv : ∀ c, v.toList.head? = some c → c ≠ ' ') :
    parseHeaderLine o t req ("WaitTrigger: " ++ v) = .ok { req with waitTrigger := v } :=
  headerLine_waitTrigger o t req v hv

/-- Reading the line `WaitObject: <text>` printed from a text that does not start with a blank
    sets the wait object to exactly that text and leaves every other field alone. -/
theorem header_waitObject (o : ParseOpts) (t : Table) (req : Request) (v : String)
    (hv : ∀ c, v.toList.head? = some c → c ≠ ' ') :
    parseHeaderLine o t req ("WaitObject: " ++ v) = .ok { req with waitObject := v } :=
  headerLine_waitObject o t req v hv

/-- Reading the line `WaitTimeout: n` printed from a positive number (zero is not printed) sets
    the wait timeout to `n` and leaves every other field alone. -/
theorem header_waitTimeout (o : ParseOpts) (t : Table) (req : Request) (n : Nat) (hn : 1 ≤ n) :
    parseHeaderLine o t req ("WaitTimeout: " ++ toString n) = .ok { req with waitTimeout := n } :=
  headerLine_waitTimeout o t req n hn

/-- Reading the line `WaitConditionNegate:` — with the colon — sets the negation mark of the wait
    condition and leaves every other field alone. -/
theorem header_waitConditionNegate (o : ParseOpts) (t : Table) (req : Request) :
    parseHeaderLine o t req "WaitConditionNegate:" = .ok { req with waitConditionNegate := true } :=
  headerLine_waitNegate o t req

/-- Reading a line `WaitCondition: <column> <op> <value>` whose text parses to the leaf `l`
    appends the unmarked single term `l` to the wait condition, counts one more filter line and
    leaves every other field alone. -/
theorem header_waitCondition (o : ParseOpts) (t : Table) (req : Request) (v : String) (l : Leaf)
    (h : parseFilterLeaf o t (trimLeftSpaces (" " ++ v)) = .ok l) :
    parseHeaderLine o t req ("WaitCondition: " ++ v)
      = .ok { req with waitCondition := req.waitCondition ++ [.leaf l false],
                       numFilter := req.numFilter + 1 } := by
  rw [headerLine_waitCondition, h]
  rfl

/-- The lines of part 1 are the lines lmd prints: the text of a request is the `GET` line
    followed by the lines of `preLines` (response header, output format, columns, backends, limit,
    offset, column headers, keep-alive — each only when the field differs from its initial value),
    the filter section, the stats section, the lines of `waitLines` (trigger, object, timeout,
    negation mark, user), the wait condition terms, the sort lines and an empty line. -/
theorem print_header_sections (req : Request) :
    req.print
      = unlines (("GET " ++ req.table) :: preLines req)
        ++ Filter.printList false req.filter
        ++ String.join (req.stats.map StatsEntry.print)
        ++ unlines (waitLines req)
        ++ String.join (req.waitCondition.map wcText)
        ++ String.join (req.sort.map sortText)
        ++ "\n" :=
  print_sections req

/-! ## 2. a printed request without filter, stats and sort section -/

/-- A request with single-term wait conditions, without filters, stats and sort keys, whose
    names and texts are well-formed (`HeaderWF`), is printed by lmd to a text that `NewRequest`
    accepts and reads back as the very same request: same table, columns, backends, limit,
    offset, output format, response header, column headers, keep-alive, user, wait trigger, wait
    object, wait timeout, negation mark and wait condition.  Nothing is normalised: the fields
    that are not printed (default output format, no limit, zero offset and timeout, empty texts
    and lists, flags that are off) are exactly the initial values of the parser.  Only the counter
    of filter lines is recomputed: it is the number of wait condition lines.

    Partial: the wait condition terms are covered relative to the hypothesis that each leaf reads
    back from its own text (`LeafReadsBack`: the text `<column> <op> <value>` lmd prints for the
    leaf fits on a line and `ParseFilter` turns it into the same leaf — the leaf-level round trip
    that the filter theorems of C17 also assume); for a request without wait condition see
    `print_parse_headers`. -/
theorem print_parse_headers_waitcond_partial (s : Schema) (o : ParseOpts) (t : Table) (req : Request)
    (wf : HeaderWF s req) (ht : s.table? req.table = some t)
    (hf : req.filter = []) (hs : req.stats = []) (hso : req.sort = [])
    (hwc : ∀ f ∈ req.waitCondition, ∃ l, f = .leaf l false ∧ LeafReadsBack o t l) :
    parseRequest s o req.print = .ok { req with numFilter := req.waitCondition.length } := by
  have hwc' : ∀ f ∈ req.waitCondition, ∃ l, f = .leaf l false ∧
      WaitLeafLine o t l ("WaitCondition: " ++ leafText l) := by
    intro f hf
    obtain ⟨l, e, h⟩ := hwc f hf
    exact ⟨l, e, waitLeafLine_of o t l h⟩
  have h := print_parse_sections s o t req wf.tableName ht wf.fieldsOk [] []
    (wcLines (fun l => "WaitCondition: " ++ leafText l) req.waitCondition) [] 0 0 []
    (by rw [hf]; simp [Filter.printList, unlines_nil])
    (by rw [hs]; simp [unlines_nil])
    (wc_text o t _ _ hwc')
    (by rw [hso]; simp [unlines_nil])
    (sectionActs_nil o t _ (fun r => by rw [hf]; cases r; simp))
    (sectionActs_nil o t _ (fun r => by rw [hs]; cases r; simp))
    (wc_acts o t _ _ hwc')
    (sectionActs_nil o t _ (fun r => by cases r; simp))
    (fun _ => by rw [hf]; rfl)
    (by rw [hso]; rfl)
    (by rw [hso]; simp)
  simpa using h

/-- A request without filters, stats, sort keys and wait condition whose names and texts are
    well-formed (`HeaderWF`: known lower-case table name; column and backend names non-empty and
    free of white space; user, wait trigger and wait object without line break, leading blank and
    trailing white space) is printed by lmd to a text that `NewRequest` accepts and reads back as
    the very same request.  Nothing is normalised; only the counter of filter lines is reset. -/
theorem print_parse_headers (s : Schema) (o : ParseOpts) (req : Request) (wf : HeaderWF s req)
    (hf : req.filter = []) (hs : req.stats = []) (hso : req.sort = []) (hw : req.waitCondition = []) :
    parseRequest s o req.print = .ok { req with numFilter := 0 } := by
  obtain ⟨t, ht⟩ := wf.table
  have h := print_parse_headers_waitcond_partial s o t req wf ht hf hs hso (by rw [hw]; simp)
  rw [h, hw]
  rfl

/-- The same, field by field: the request read back from the printed text agrees with the
    original on the table and on every header field. -/
theorem print_parse_headers_fields (s : Schema) (o : ParseOpts) (req : Request) (wf : HeaderWF s req)
    (hf : req.filter = []) (hs : req.stats = []) (hso : req.sort = []) (hw : req.waitCondition = []) :
    ∃ r, parseRequest s o req.print = .ok r ∧ r.table = req.table ∧ r.limit = req.limit
      ∧ r.offset = req.offset ∧ r.columns = req.columns ∧ r.backends = req.backends
      ∧ r.outFmt = req.outFmt ∧ r.fixed16 = req.fixed16 ∧ r.colHeaders = req.colHeaders
      ∧ r.keepAlive = req.keepAlive ∧ r.authUser = req.authUser ∧ r.waitTrigger = req.waitTrigger
      ∧ r.waitObject = req.waitObject ∧ r.waitTimeout = req.waitTimeout
      ∧ r.waitConditionNegate = req.waitConditionNegate ∧ r.waitCondition = req.waitCondition
      ∧ r.filter = req.filter ∧ r.stats = req.stats ∧ r.sort = req.sort :=
  ⟨_, print_parse_headers s o req wf hf hs hso hw,
    rfl, rfl, rfl, rfl, rfl, rfl, rfl, rfl, rfl, rfl, rfl, rfl, rfl, rfl, rfl, rfl, rfl, rfl⟩

/-! ### non-vacuity -/

private def hNameCol : Column := { name := "name", dtype := .str, storage := .loc }
private def hHosts : Table := { name := "hosts", cols := [hNameCol] }
private def hSchema : Schema := { tables := [hHosts] }
private def hOpts : ParseOpts := { optimize := true, q := Quirks.current }

/-- a request with every plain header set -/
private def fullReq : Request :=
  { table := "hosts", columns := ["name", "state"], backends := ["site_a", "site_b"],
    limit := some 10, offset := 5, outFmt := .wrapped, fixed16 := true, colHeaders := true,
    keepAlive := true, authUser := "admin user", waitTrigger := "check",
    waitObject := "host one;svc", waitTimeout := 2000, waitConditionNegate := true }

/-- the request is well-formed, -/
example : HeaderWF hSchema fullReq := by decide

set_option maxRecDepth 8000 in
/-- this is its text (all thirteen header lines), -/
example : fullReq.print =
    "GET hosts\nResponseHeader: fixed16\nOutputFormat: wrapped_json\nColumns: name state\n"
    ++ "Backends: site_a site_b\nLimit: 10\nOffset: 5\nColumnHeaders: on\nKeepAlive: on\n"
    ++ "WaitTrigger: check\nWaitObject: host one;svc\nWaitTimeout: 2000\nWaitConditionNegate:\n"
    ++ "AuthUser: admin user\n\n" := by decide

/-- and the text reads back as the request. -/
example : parseRequest hSchema hOpts fullReq.print = .ok fullReq :=
  print_parse_headers hSchema hOpts fullReq (by decide) rfl rfl rfl rfl

/-- `Limit: 0` is printed and read back as a limit of zero, not as "no limit" -/
example : parseRequest hSchema hOpts ({ table := "hosts", limit := some 0 } : Request).print
    = .ok { table := "hosts", limit := some 0 } :=
  print_parse_headers hSchema hOpts _ (by decide) rfl rfl rfl rfl

private def hLeaf : Leaf := { col := hNameCol, op := .eq, sval := "a" }

private theorem hLeaf_text : leafText hLeaf = "name = a" := by decide

private theorem hLeaf_back : LeafReadsBack hOpts hHosts hLeaf := by
  refine ⟨?_, ?_⟩
  · rw [hLeaf_text]; exact goodValue_of_valueOk (by decide) (by decide)
  · rw [hLeaf_text]; rfl

/-- non-vacuity of the wait condition hypothesis: a request with a single-term wait condition and
    the other wait headers reads back as itself (one filter line counted) -/
example : parseRequest hSchema hOpts
      ({ table := "hosts", waitTrigger := "all", waitObject := "h1", waitTimeout := 5,
         waitCondition := [.leaf hLeaf false], numFilter := 1 } : Request).print
    = .ok { table := "hosts", waitTrigger := "all", waitObject := "h1", waitTimeout := 5,
            waitCondition := [.leaf hLeaf false], numFilter := 1 } :=
  print_parse_headers_waitcond_partial hSchema hOpts hHosts _ (by decide) rfl rfl rfl rfl
    (by
      intro f hf
      simp only [List.mem_singleton] at hf
      exact ⟨hLeaf, hf, hLeaf_back⟩)

/-! ### the hypotheses are needed -/

/-- a trailing blank of a wait trigger is lost: the line is trimmed before it is read -/
example : parseHeaderLine hOpts hHosts {} (trimSpace "WaitTrigger: check ")
    = .ok { waitTrigger := "check" } := by
  have e : trimSpace "WaitTrigger: check " = "WaitTrigger: " ++ "check" := by decide
  rw [e]
  exact header_waitTrigger hOpts hHosts {} "check" (by decide)

/-- a column name with a blank inside comes back as two columns -/
example : fields (joinWith " " ["host name"]) = ["host", "name"] := by decide

/-- an upper-case table name is refused by the `GET` line -/
example : ∃ e, parseAction "GET Hosts" = .error e := ⟨_, rfl⟩

/-! ## 3. a full request -/

/-- A full request — plain headers, filter trees of any depth, counter and aggregation stats,
    single-term wait conditions, sort fields — is printed by lmd to a text that `NewRequest`
    accepts and reads back as the very same request; only the counter of filter lines is
    recomputed (the number of `Filter:`, `Stats:` and `WaitCondition:` lines of the text).

    Hypotheses: `HeaderWF` for the plain headers; `Negate:` toggles (`negOr = false`, the
    repaired behaviour); every filter and counter tree has no empty group (`WellFormed`); every
    aggregation names a column of the table by a name that fits on a line; every sort field came
    out of `parseSortHeader`, is resolved in the table and fits on a line (`SortOk`); when the
    optimiser is on, the filter stack is not a single unmarked `And` group (the optimiser would
    unwrap it — a request that came out of the optimising parser has been unwrapped already).

    Partial: relative to the leaf-level round trip.  Every `Filter:` / `WaitCondition:` leaf is
    assumed to read back from its own text through `ParseFilter` (`LeafReadsBack`) and every
    counter leaf through `ParseStats` (`StatsLeafReadsBack`); this does not hold for arbitrary
    `Leaf` records (number, compiled regular expression and flags must be the ones the parser
    computes from the text) and is not proved here.  Wait conditions are single unmarked terms
    (groups of them are outside the modelled requests). -/
theorem print_parse_request_partial (s : Schema) (o : ParseOpts) (t : Table) (req : Request)
    (hq : o.q.negOr = false) (wf : HeaderWF s req) (ht : s.table? req.table = some t)
    (hfw : ∀ f ∈ req.filter, WellFormed f)
    (hfl : ∀ l, Tok.leaf l ∈ req.filter.flatMap emit → LeafReadsBack o t l)
    (hst : ∀ e ∈ req.stats, StatsEntryReadsBack o t e)
    (hwc : ∀ f ∈ req.waitCondition, ∃ l, f = .leaf l false ∧ LeafReadsBack o t l)
    (hso : ∀ sf ∈ req.sort, SortOk t sf)
    (hopt : o.optimize = true → ∀ f rest, req.filter ≠ [.grp true (f :: rest) false]) :
    parseRequest s o req.print
      = .ok { req with numFilter := leafCount (req.filter.flatMap emit)
                + (req.stats.map statsEntryCount).sum + req.waitCondition.length } := by
  have wfl := (wellFormedList_iff req.filter).2 hfw
  rw [← emitList_eq_flatMap] at hfl ⊢
  have hfl' : ∀ l, Tok.leaf l ∈ emitList req.filter →
      FilterLeafLine o t l ("Filter: " ++ leafText l) :=
    fun l hl => filterLeafLine_of o t l (hfl l hl)
  have hwc' : ∀ f ∈ req.waitCondition, ∃ l, f = .leaf l false ∧
      WaitLeafLine o t l ("WaitCondition: " ++ leafText l) := by
    intro f hf
    obtain ⟨l, e, h⟩ := hwc f hf
    exact ⟨l, e, waitLeafLine_of o t l h⟩
  have hst' := fun e he => statsEntryOk_of o t e (hst e he)
  exact print_parse_sections s o t req wf.tableName ht wf.fieldsOk _ _ _ _ _ _ _
    (filter_text _ req.filter wfl (fun l hl => (hfl' l hl).1))
    (stats_text o t _ req.stats hst')
    (wc_text o t _ _ hwc')
    (sort_text req.sort)
    (filter_acts o t hq _ req.filter wfl hfl')
    (stats_acts o t hq _ req.stats hst')
    (wc_acts o t _ _ hwc')
    (sort_acts o t req.sort hso)
    (fun ho => optimizeIndentation_id _ _ (hopt ho))
    (sort_resolve t req.sort hso)
    (fun sf hsf => (hso sf hsf).known)

/-! ### non-vacuity -/

private theorem hLeaf_stats : StatsLeafReadsBack hOpts hHosts hLeaf := by
  refine ⟨?_, ?_⟩
  · rw [hLeaf_text]; exact goodValue_of_valueOk (by decide) (by decide)
  · intro st; rw [hLeaf_text]; rfl

private def hSort : SortField := { name := "name", desc := true, col := some hNameCol }

private theorem hSort_ok : SortOk hHosts hSort := by
  refine ⟨⟨"name desc", ?_⟩, rfl, rfl, by decide, by decide, by decide⟩
  rw [SortPrint.parseSort_two (by decide)
    (show splitN ' ' 3 "name desc" = ["name", "desc"] by decide), SortPrint.dirOf_desc]
  rfl

/-- a request with every kind of section: plain headers, a negated `Or` group with a negated
    member as filter, a counter group and a negated aggregation as stats, a wait condition with its
    headers, a sort field -/
private def bigReq : Request :=
  { table := "hosts", columns := ["name"], limit := some 3, outFmt := .json, authUser := "joe",
    filter := [.grp false [.leaf hLeaf true, .leaf hLeaf false] true],
    stats := [.counter (.grp true [.leaf hLeaf false, .leaf hLeaf true] false),
              .agg .max hNameCol true],
    waitTrigger := "all", waitTimeout := 10, waitConditionNegate := true,
    waitCondition := [.leaf hLeaf false],
    sort := [hSort], numFilter := 6 }

set_option maxRecDepth 8000 in
/-- its text -/
example : bigReq.print =
    "GET hosts\nOutputFormat: json\nColumns: name\nLimit: 3\n"
    ++ "Filter: name = a\nNegate:\nFilter: name = a\nOr: 2\nNegate:\n"
    ++ "Stats: name = a\nStats: name = a\nStatsNegate:\nStatsAnd: 2\nStats: Max name\nStatsNegate:\n"
    ++ "WaitTrigger: all\nWaitTimeout: 10\nWaitConditionNegate:\nAuthUser: joe\n"
    ++ "WaitCondition: name = a\nSort: name desc\n\n" := by decide

/-- the hypotheses of `print_parse_request_partial` hold for it, and it reads back as itself
    (with the optimising parser) -/
example : parseRequest hSchema hOpts bigReq.print = .ok bigReq := by
  have h := print_parse_request_partial hSchema hOpts hHosts bigReq rfl (by decide) rfl
    (by simp [bigReq, WellFormed, WellFormedList])
    (by
      intro l hl
      have : l = hLeaf := by
        simp [bigReq, emit, emitList] at hl
        exact hl
      rw [this]; exact hLeaf_back)
    (by
      intro e he
      simp only [bigReq, List.mem_cons, List.mem_nil_iff, or_false] at he
      rcases he with rfl | rfl
      · refine ⟨by simp [WellFormed, WellFormedList], ?_⟩
        intro l hl
        have : l = hLeaf := by
          simp [emit, emitList] at hl
          exact hl
        rw [this]; exact hLeaf_stats
      · exact ⟨rfl, goodValue_of_valueOk (by decide) (by decide)⟩)
    (by
      intro f hf
      simp only [bigReq, List.mem_singleton] at hf
      exact ⟨hLeaf, hf, hLeaf_back⟩)
    (by
      intro sf hsf
      simp only [bigReq, List.mem_singleton] at hsf
      rw [hsf]; exact hSort_ok)
    (by
      intro _ f rest e
      simp [bigReq] at e)
  exact h

/-- the hypothesis on the optimiser is needed: a filter stack that is a single unmarked `And`
    group is unwrapped when the text is read back with the optimiser on -/
example : optimizeIndentation 3 [.grp true [.leaf hLeaf false, .leaf hLeaf true] false]
    = [.leaf hLeaf false, .leaf hLeaf true] := rfl

/-- "Selects the same rows, computes the same stats": under the hypotheses of
    `print_parse_request_partial` the text lmd prints for a request is accepted, and the request
    read back gives the same answer as the original one for every data query and every stats
    query, on every dataset (the recomputed counter of filter lines is not read by queries).
    Partial for the same reason: relative to the leaf-level round trip. -/
theorem print_parse_same_answer_partial (s : Schema) (o : ParseOpts) (t : Table) (req : Request)
    (hq : o.q.negOr = false) (wf : HeaderWF s req) (ht : s.table? req.table = some t)
    (hfw : ∀ f ∈ req.filter, WellFormed f)
    (hfl : ∀ l, Tok.leaf l ∈ req.filter.flatMap emit → LeafReadsBack o t l)
    (hst : ∀ e ∈ req.stats, StatsEntryReadsBack o t e)
    (hwc : ∀ f ∈ req.waitCondition, ∃ l, f = .leaf l false ∧ LeafReadsBack o t l)
    (hso : ∀ sf ∈ req.sort, SortOk t sf)
    (hopt : o.optimize = true → ∀ f rest, req.filter ≠ [.grp true (f :: rest) false]) :
    ∃ r, parseRequest s o req.print = .ok r
      ∧ (∀ (m : EvalMode) (ds : Dataset) (t' : Table),
          dataQuery m s ds t' r = dataQuery m s ds t' req)
      ∧ (∀ (m : StatsMode) (ds : Dataset) (t' : Table),
          statsQuery m s ds t' r = statsQuery m s ds t' req) :=
  ⟨_, print_parse_request_partial s o t req hq wf ht hfw hfl hst hwc hso hopt,
    fun m ds t' => semantics_preserved m s ds t' _ req rfl rfl rfl rfl rfl rfl rfl rfl,
    fun m ds t' => semantics_preserved_stats m s ds t' _ req rfl rfl rfl rfl rfl⟩

/-! ## 4. the regression: `WaitConditionNegate` without colon -/

/-- A header line without colon is a syntax error: the text `WaitConditionNegate` — which the Go
    code printed before it was repaired — is rejected by the header parser in every state. -/
theorem waitConditionNegate_without_colon_rejected (o : ParseOpts) (t : Table) (req : Request) :
    parseHeaderLine o t req "WaitConditionNegate" = .error (.bad "syntax error") :=
  headerLine_waitNegate_nocolon o t req

/-- Consequently a request text that carries the line `WaitConditionNegate` without colon is
    rejected as a whole, for every schema and table, whereas the same text with the colon is
    accepted and sets the mark. -/
theorem waitConditionNegate_request (s : Schema) (o : ParseOpts) (n : String) (t : Table)
    (hn : tableNameOk n = true) (ht : s.table? n = some t) :
    parseRequest s o (unlines ["GET " ++ n, "WaitConditionNegate"] ++ "\n")
        = .error (.bad "syntax error")
    ∧ parseRequest s o (unlines ["GET " ++ n, "WaitConditionNegate:"] ++ "\n")
        = .ok { table := n, waitConditionNegate := true } := by
  constructor
  · rw [parseRequest_lines s o n t ["WaitConditionNegate"] hn ht (by decide)]
    simp only [List.cons_append, List.nil_append]
    rw [parseHeaderLines_cons ⟨by decide, by decide, by decide⟩, headerLine_waitNegate_nocolon]
    rfl
  · rw [parseRequest_lines s o n t ["WaitConditionNegate:"] hn ht (by decide)]
    simp only [List.cons_append, List.nil_append]
    rw [parseHeaderLines_ok goodLine_waitNegate (headerLine_waitNegate o t _),
      parseHeaderLines_stop]
    cases ho : o.optimize <;> simp [Except.bind, finish, ho, optimizeIndentation, pure, Except.pure]

/-- the regression the correspondence check found, on concrete texts: what lmd printed for a
    negated wait condition before the repair is rejected, what it prints now is accepted -/
example : parseRequest hSchema hOpts "GET hosts\nWaitConditionNegate\n\n" = .error (.bad "syntax error") :=
  (waitConditionNegate_request hSchema hOpts "hosts" hHosts (by decide) rfl).1

example : parseRequest hSchema hOpts "GET hosts\nWaitConditionNegate:\n\n"
    = .ok { table := "hosts", waitConditionNegate := true } :=
  (waitConditionNegate_request hSchema hOpts "hosts" hHosts (by decide) rfl).2

/-- and the second text is the one the model of `Request.String` writes -/
example : ({ table := "hosts", waitConditionNegate := true } : Request).print
    = "GET hosts\nWaitConditionNegate:\n\n" := by decide

end Lmd.C17
