/-
  C18 — what the nodes of a cluster believe and how they converge.

  `NodeView.check v backends replies` (Lmd/Distributed.lean, `Nodes.checkNodeAvailability` of pkg/lmd/nodes.go) is one
  round of a node's availability check: `replies` are the partner nodes that answered the ping.  `sharesOf n R bs` is
  the distribution `redistribute` computes for the reachable set `R` of `n` configured nodes, `mapOfShares n R bs` the
  `nodeBackends` map stored with it.

  1. `check_online`                 the reachable set after a check is this node plus the partners that answered.
  2. `check_preserves_inv`,         the invariant `NodeView.Inv`: a node serves the share the distribution for its
     `inv_after_first_check`,       reachable set gives it; it holds for a node that just started and after its first
     `inv_fresh`,                   check, and after every check that distributes
     `inv_after_recompute`          (`check_preserves_own_entry`: what a node notes about itself is what it serves).
  3. `recomputed_when_set_changes`, a changed reachable set - also one of the same size (`replacement_recomputes`) -
     `left_recomputes`,             gives the distribution for the new set.
     `joined_recomputes`
  4. `restart_forces`               a partner answering with a new identifier forces the distribution, whatever the
                                    old `nodeBackends` said.
  5. `converged_partition`          the nodes of a running set that see each other serve a partition of the backends,
     `converged_sizes`,             evenly; `converged_after_checks`: one round answered by exactly the other members
     `converged_after_checks`,      brings every node there (`converged_after_one_round`: end to end).
     `converged_after_one_round`
  6. `mapOfShares_lookup`,          what a node believes about its partners is what they serve
     `views_agree_after_second_round`,
     `believed_is_served`, `cluster_views_agree`

  Helper lemmas live in `Lmd.Lemmas.NodeViewLemmas`; the theorems about `redistribute` they rest on are in
  `Lmd.Props.C18`.
-/
import Lmd.Lemmas.NodeViewLemmas
import Lmd.Props.C18

namespace Lmd.C18Nodes
open Lmd Lmd.ClusterL Lmd.NodeViewL

/-! ## 1. the reachable set after a check -/

/-- After an availability check the node's list of reachable nodes is exactly: itself and the partners that
    answered, in ascending order — whether or not the distribution was computed anew. -/
theorem check_online (v : NodeView) (bs : List String) (rs : List PingReply) :
    (v.check bs rs).online = (v.own :: rs.map (·.pos)).mergeSort (fun a b => a ≤ b) :=
  check_online' v bs rs

/-- A check changes neither the node's own position nor the number of configured nodes, and the node itself is
    always in its reachable set afterwards. -/
theorem check_identity (v : NodeView) (bs : List String) (rs : List PingReply) :
    (v.check bs rs).own = v.own ∧ (v.check bs rs).nNodes = v.nNodes ∧ v.own ∈ (v.check bs rs).online :=
  ⟨check_own v bs rs, check_nNodes v bs rs, by rw [check_online' v bs rs]; exact own_mem_newOnline v rs⟩

/-! ## 2. the invariant -/

/-- A check keeps the invariant: if the node served the share the distribution for its reachable set gave it, it
    does so after the check (for the new reachable set), whoever answered and whatever the answers carried. -/
theorem check_preserves_inv (v : NodeView) (bs : List String) (rs : List PingReply) (h : NodeView.Inv bs v) :
    NodeView.Inv bs (v.check bs rs) := by
  rcases check_cases v rs with hc | ⟨h1, h2⟩
  · rw [check_recomputed v bs rs hc]; exact ⟨rfl⟩
  · rw [check_kept v bs rs h1 h2]; exact ⟨h.assigned_eq⟩

/-- Whenever a check computes the distribution anew the invariant holds afterwards, whatever the view was before. -/
theorem inv_after_recompute (v : NodeView) (bs : List String) (rs : List PingReply)
    (hc : rs.any (restarted v.seen) = true ∨ (v.own :: rs.map (·.pos)).mergeSort (fun a b => a ≤ b) ≠ v.online) :
    NodeView.Inv bs (v.check bs rs) := by
  rw [check_recomputed v bs rs hc]; exact ⟨rfl⟩

/-- A node that just started (it knows its position and the number of nodes, nothing else; its reachable set is
    empty) satisfies the invariant after its first check, whoever answers: the new reachable set contains the node
    itself, so it is not the empty list and the first check always distributes. -/
theorem inv_after_first_check (i n : Nat) (bs : List String) (rs : List PingReply) :
    NodeView.Inv bs (({ own := i, nNodes := n } : NodeView).check bs rs) :=
  inv_after_recompute _ bs rs (.inr (newOnline_ne_nil _ rs))

/-- A node that just started has the invariant already: nobody is reachable in its view, so the distribution gives
    nobody anything, and it serves nothing. -/
theorem inv_fresh (i n : Nat) (bs : List String) : NodeView.Inv bs ({ own := i, nNodes := n } : NodeView) :=
  ⟨(sharesOf_getD_offline n [] bs i (by simp)).symm⟩

/-- What a node has noted about itself in `nodeBackends` stays what it serves, provided no reply claims the node's
    own position (lmd does not ping itself). -/
theorem check_preserves_own_entry (v : NodeView) (bs : List String) (rs : List PingReply)
    (hpos : ∀ r ∈ rs, r.pos ≠ v.own) (h : v.OwnEntry) : (v.check bs rs).OwnEntry := by
  intro l hl
  rcases check_cases v rs with hc | ⟨h1, h2⟩
  · rw [check_recomputed v bs rs hc] at hl ⊢
    exact ((mem_mapOfShares _ _ _ _ _).1 hl).2.2
  · rw [check_kept v bs rs h1 h2] at hl ⊢
    exact h l (mem_dropRestarted_sub _ _ _ _ ((mem_storePeers_other rs _ v.own l hpos).1 hl))

/-! ## 3. a changed reachable set -/

/-- If this node plus the partners that answered is not the reachable set the node had, the check installs the new
    set and the distribution for it: the node's own share and the `nodeBackends` map are those `redistribute` gives
    for the new set. -/
theorem recomputed_when_set_changes (v : NodeView) (bs : List String) (rs : List PingReply)
    (hne : (v.own :: rs.map (·.pos)).mergeSort (fun a b => a ≤ b) ≠ v.online) :
    let R := (v.own :: rs.map (·.pos)).mergeSort (fun a b => a ≤ b)
    (v.check bs rs).online = R ∧
    (v.check bs rs).assigned = (sharesOf v.nNodes R bs).getD v.own [] ∧
    (v.check bs rs).nodeBackends = mapOfShares v.nNodes R bs := by
  rw [check_recomputed v bs rs (.inr hne)]
  exact ⟨rfl, rfl, rfl⟩

/-- A reachable partner that does not answer any more makes the check distribute anew. -/
theorem left_recomputes (v : NodeView) (bs : List String) (rs : List PingReply) (a : Nat)
    (ha : a ∈ v.online) (hown : a ≠ v.own) (hgone : ∀ r ∈ rs, r.pos ≠ a) :
    let R := (v.own :: rs.map (·.pos)).mergeSort (fun a b => a ≤ b)
    (v.check bs rs).online = R ∧
    (v.check bs rs).assigned = (sharesOf v.nNodes R bs).getD v.own [] ∧
    (v.check bs rs).nodeBackends = mapOfShares v.nNodes R bs := by
  apply recomputed_when_set_changes
  intro he
  rw [← he] at ha
  rcases (mem_newOnline v rs a).1 ha with h | ⟨r, hr, h⟩
  · exact hown h
  · exact hgone r hr h

/-- A partner that answers and was not reachable before makes the check distribute anew. -/
theorem joined_recomputes (v : NodeView) (bs : List String) (rs : List PingReply) (r : PingReply)
    (hr : r ∈ rs) (hnew : r.pos ∉ v.online) :
    let R := (v.own :: rs.map (·.pos)).mergeSort (fun a b => a ≤ b)
    (v.check bs rs).online = R ∧
    (v.check bs rs).assigned = (sharesOf v.nNodes R bs).getD v.own [] ∧
    (v.check bs rs).nodeBackends = mapOfShares v.nNodes R bs := by
  apply recomputed_when_set_changes
  intro he
  exact hnew (he ▸ (mem_newOnline v rs r.pos).2 (.inr ⟨r, hr, rfl⟩))

/-- The number of reachable nodes is not what decides: when one partner left and another joined, so that as many
    nodes are reachable as before, the distribution is computed anew all the same. -/
theorem replacement_recomputes (v : NodeView) (bs : List String) (rs : List PingReply) (a : Nat)
    (hlen : rs.length + 1 = v.online.length)
    (ha : a ∈ v.online) (hown : a ≠ v.own) (hgone : ∀ r ∈ rs, r.pos ≠ a) :
    let R := (v.own :: rs.map (·.pos)).mergeSort (fun a b => a ≤ b)
    R.length = v.online.length ∧
    (v.check bs rs).online = R ∧
    (v.check bs rs).assigned = (sharesOf v.nNodes R bs).getD v.own [] ∧
    (v.check bs rs).nodeBackends = mapOfShares v.nNodes R bs :=
  ⟨by rw [← hlen]; exact length_newOnline v rs, left_recomputes v bs rs a ha hown hgone⟩

/-- The equal-length case of `recomputed_when_set_changes` as such: same number of reachable nodes, another set. -/
theorem replacement_recomputes_of_ne (v : NodeView) (bs : List String) (rs : List PingReply)
    (_hlen : ((v.own :: rs.map (·.pos)).mergeSort (fun a b => a ≤ b)).length = v.online.length)
    (hne : (v.own :: rs.map (·.pos)).mergeSort (fun a b => a ≤ b) ≠ v.online) :
    let R := (v.own :: rs.map (·.pos)).mergeSort (fun a b => a ≤ b)
    (v.check bs rs).online = R ∧
    (v.check bs rs).assigned = (sharesOf v.nNodes R bs).getD v.own [] ∧
    (v.check bs rs).nodeBackends = mapOfShares v.nNodes R bs :=
  recomputed_when_set_changes v bs rs hne

/-! ## 4. a restarted partner -/

/-- A partner that answers with another identifier than the one noted for it (it restarted) forces the distribution
    to be computed anew even if the reachable set is the same; and the resulting view is the same whatever the old
    `nodeBackends` map and the old own share were. -/
theorem restart_forces (v : NodeView) (bs : List String) (rs : List PingReply) (r : PingReply)
    (hr : r ∈ rs) (hrest : restarted v.seen r = true) :
    let R := (v.own :: rs.map (·.pos)).mergeSort (fun a b => a ≤ b)
    ((v.check bs rs).online = R ∧
     (v.check bs rs).assigned = (sharesOf v.nNodes R bs).getD v.own [] ∧
     (v.check bs rs).nodeBackends = mapOfShares v.nNodes R bs) ∧
    ∀ (nb : List (Nat × List String)) (as : List String),
      ({ v with nodeBackends := nb, assigned := as } : NodeView).check bs rs = v.check bs rs := by
  have hf : forced v rs = true := List.any_eq_true.2 ⟨r, hr, hrest⟩
  refine ⟨?_, fun nb as => ?_⟩
  · rw [check_recomputed v bs rs (.inl hf)]
    exact ⟨rfl, rfl, rfl⟩
  · have e1 := check_recomputed v bs rs (.inl hf)
    have e2 := check_recomputed ({ v with nodeBackends := nb, assigned := as } : NodeView) bs rs (.inl hf)
    rw [e1, e2]
    rfl

/-! ## 6a. the stored map -/

/-- The `nodeBackends` map stored with a distribution: a reachable (configured) node is mapped to its share, and
    there is no entry for any other node. -/
theorem mapOfShares_lookup (n : Nat) (R : List Nat) (bs : List String) (j : Nat) :
    (j ∈ R → j < n → (mapOfShares n R bs).lookup j = some ((sharesOf n R bs).getD j [])) ∧
    (j ∉ R → (mapOfShares n R bs).lookup j = none) ∧
    (∀ l, (j, l) ∈ mapOfShares n R bs ↔ j < n ∧ j ∈ R ∧ l = (sharesOf n R bs).getD j []) := by
  refine ⟨fun h1 h2 => ?_, fun h => ?_, fun l => mem_mapOfShares n R bs j l⟩
  · rw [lookup_mapOfShares, if_pos ⟨h2, h1⟩]
  · rw [lookup_mapOfShares, if_neg (fun hc => h hc.2)]

/-! ## 5. the running nodes partition the backends -/

/-- The main theorem.  Let `R` be the set of running nodes (ascending positions below the number `n` of configured
    nodes, at least one), and let every running node `i` have a view with the invariant whose reachable set is `R`
    (its last check was answered by exactly the other running nodes).  Then:
    * the lists of backends the running nodes serve, taken in node order, are together exactly the configured
      backends (without empty ids, which lmd skips): nothing is lost, nothing is served twice;
    * if the configured non-empty ids are distinct, every one of them is served by exactly one running node;
    * in the distribution they all computed a node outside `R` has nothing;
    * without empty ids the numbers of backends of two running nodes differ by at most one. -/
theorem converged_partition (n : Nat) (R : List Nat) (bs : List String) (views : Nat → NodeView)
    (hR : R.Pairwise (· < ·)) (hne : R ≠ []) (hlt : ∀ i ∈ R, i < n)
    (hv : ∀ i ∈ R, (views i).own = i ∧ (views i).nNodes = n ∧ (views i).online = R ∧ NodeView.Inv bs (views i)) :
    (R.map fun i => (views i).assigned).flatten = bs.filter (· ≠ "") ∧
    ((bs.filter (· ≠ "")).Nodup → ∀ b ∈ bs, b ≠ "" →
      ∃ i ∈ R, b ∈ (views i).assigned ∧ ∀ j ∈ R, b ∈ (views j).assigned → j = i) ∧
    (∀ j, j ∉ R → (sharesOf n R bs).getD j [] = []) ∧
    ((∀ b ∈ bs, b ≠ "") → ∀ i ∈ R, ∀ j ∈ R,
      (views i).assigned.length ≤ (views j).assigned.length + 1) := by
  have hassigned : ∀ i ∈ R, (views i).assigned = (sharesOf n R bs).getD i [] := by
    intro i hi
    obtain ⟨h1, h2, h3, h4⟩ := hv i hi
    have := h4.assigned_eq
    rwa [h1, h2, h3] at this
  have hex : ∃ j ∈ R, j < n := by
    obtain ⟨j, hj⟩ := List.exists_mem_of_ne_nil R hne
    exact ⟨j, hj, hlt j hj⟩
  have hflat : (R.map fun i => (views i).assigned).flatten = bs.filter (· ≠ "") := by
    rw [List.map_congr_left (g := fun i => (sharesOf n R bs).getD i []) hassigned,
      sharesOf_flatten_online n R bs hR hlt, sharesOf_flatten n R bs hex]
  refine ⟨hflat, fun hd b hb hbne => ?_, fun j hj => sharesOf_getD_offline n R bs j hj, fun hnoempty i hi j hj => ?_⟩
  · apply unique_part R (fun i => (views i).assigned) (hR.imp (fun h => Nat.ne_of_lt h))
    · rw [hflat]; exact hd
    · rw [hflat]; exact List.mem_filter.2 ⟨hb, by simpa using hbne⟩
  · obtain ⟨li, lj, hli, hlj, h1, _⟩ := C18.evenness (onlineFlags n R) bs hnoempty i j
      ((onlineFlags_true_iff n R i).2 ⟨hlt i hi, hi⟩) ((onlineFlags_true_iff n R j).2 ⟨hlt j hj, hj⟩)
    have e1 : (views i).assigned = li := by
      rw [hassigned i hi, List.getD_eq_getElem?_getD]; unfold sharesOf; rw [hli]; rfl
    have e2 : (views j).assigned = lj := by
      rw [hassigned j hj, List.getD_eq_getElem?_getD]; unfold sharesOf; rw [hlj]; rfl
    rw [e1, e2]; exact h1

/-- How many backends a running node serves in the converged cluster (no empty ids), with `B` backends and `N`
    running nodes: for `N < B` it is ⌊B/N⌋, or ⌊B/N⌋ + 1 — the latter only if `N` does not divide `B`; for
    `B ≤ N` at most one. -/
theorem converged_sizes (n : Nat) (R : List Nat) (bs : List String) (views : Nat → NodeView)
    (hR : R.Pairwise (· < ·)) (hlt : ∀ i ∈ R, i < n) (hnoempty : ∀ b ∈ bs, b ≠ "")
    (hv : ∀ i ∈ R, (views i).own = i ∧ (views i).nNodes = n ∧ (views i).online = R ∧ NodeView.Inv bs (views i))
    (i : Nat) (hi : i ∈ R) :
    (R.length < bs.length →
      (views i).assigned.length = bs.length / R.length ∨
      ((views i).assigned.length = bs.length / R.length + 1 ∧ 0 < bs.length % R.length)) ∧
    (bs.length ≤ R.length → (views i).assigned.length ≤ 1) := by
  obtain ⟨h1, h2, h3, h4⟩ := hv i hi
  have ha := h4.assigned_eq
  rw [h1, h2, h3] at ha
  obtain ⟨l, hl, hA, hB⟩ := C18.evenness_quota (onlineFlags n R) bs hnoempty i
    ((onlineFlags_true_iff n R i).2 ⟨hlt i hi, hi⟩)
  have e : (views i).assigned = l := by
    rw [ha, List.getD_eq_getElem?_getD]; unfold sharesOf; rw [hl]; rfl
  rw [nOnline_onlineFlags n R (hR.imp (fun h => Nat.ne_of_lt h)) hlt] at hA hB
  rw [e]
  exact ⟨hA, hB⟩

/-- One round is enough to get there: if every running node `i` (with the invariant, e.g. after any earlier check)
    is answered by exactly the other members of `R`, then afterwards every running node has the reachable set `R`
    and the invariant — the hypotheses of `converged_partition` hold for the views after the round. -/
theorem converged_after_checks (n : Nat) (R : List Nat) (bs : List String) (prev : Nat → NodeView)
    (replies : Nat → List PingReply) (hR : R.Pairwise (· < ·))
    (hprev : ∀ i ∈ R, (prev i).own = i ∧ (prev i).nNodes = n ∧ NodeView.Inv bs (prev i))
    (hrep : ∀ i ∈ R, ((replies i).map (·.pos)).Perm (R.erase i)) :
    ∀ i ∈ R, ((prev i).check bs (replies i)).own = i ∧ ((prev i).check bs (replies i)).nNodes = n ∧
      ((prev i).check bs (replies i)).online = R ∧ NodeView.Inv bs ((prev i).check bs (replies i)) := by
  intro i hi
  obtain ⟨h1, h2, h3⟩ := hprev i hi
  refine ⟨by rw [check_own, h1], by rw [check_nNodes, h2], ?_, check_preserves_inv _ bs _ h3⟩
  rw [check_online']
  exact newOnline_eq_of_perm _ _ R hR (by rw [h1]; exact hi) (by rw [h1]; exact hrep i hi)

/-- One round, end to end: running nodes with the invariant (freshly started ones have it, `inv_fresh`) that are
    each answered by exactly the other running nodes serve, after that round, lists that taken in node order are
    exactly the configured backends without the empty ids. -/
theorem converged_after_one_round (n : Nat) (R : List Nat) (bs : List String) (prev : Nat → NodeView)
    (replies : Nat → List PingReply) (hR : R.Pairwise (· < ·)) (hne : R ≠ []) (hlt : ∀ i ∈ R, i < n)
    (hprev : ∀ i ∈ R, (prev i).own = i ∧ (prev i).nNodes = n ∧ NodeView.Inv bs (prev i))
    (hrep : ∀ i ∈ R, ((replies i).map (·.pos)).Perm (R.erase i)) :
    (R.map fun i => ((prev i).check bs (replies i)).assigned).flatten = bs.filter (· ≠ "") :=
  (converged_partition n R bs (fun i => (prev i).check bs (replies i)) hR hne hlt
    (converged_after_checks n R bs prev replies hR hprev hrep)).1

/-! ## 6. what a node believes about its partners -/

/-- The second round.  A node with reachable set `R` is answered by the same set again, no partner restarted, and
    every reply carries the share of the partner that sent it.  Then the node's view of the set and its own share
    stay, and afterwards `nodeBackends` maps every partner `j ∈ R` to exactly that share (one value, found by the
    lookup): what the node believes about its partners is what they serve. -/
theorem views_agree_after_second_round (v : NodeView) (bs : List String) (rs : List PingReply)
    (hset : (v.own :: rs.map (·.pos)).mergeSort (fun a b => a ≤ b) = v.online)
    (hnf : ∀ r ∈ rs, restarted v.seen r = false)
    (hpeers : ∀ r ∈ rs, r.peers = some ((sharesOf v.nNodes v.online bs).getD r.pos [])) :
    (v.check bs rs).online = v.online ∧ (v.check bs rs).assigned = v.assigned ∧
    ∀ j ∈ v.online, j ≠ v.own →
      (v.check bs rs).nodeBackends.lookup j = some ((sharesOf v.nNodes v.online bs).getD j []) ∧
      ∀ l, (j, l) ∈ (v.check bs rs).nodeBackends → l = (sharesOf v.nNodes v.online bs).getD j [] := by
  have hf : forced v rs = false := by
    rw [forced, List.any_eq_false]
    intro r hr; simp [hnf r hr]
  rw [check_kept v bs rs hf hset]
  refine ⟨rfl, rfl, fun j hj hjo => ?_⟩
  have hex : ∃ r ∈ rs, r.pos = j := by
    rw [← hset] at hj
    rcases (mem_newOnline v rs j).1 hj with h | h
    · exact absurd h hjo
    · exact h
  have hmem : ∀ l, (j, l) ∈ storePeers rs (dropRestarted v.seen rs v.nodeBackends)
      ↔ l = (sharesOf v.nNodes v.online bs).getD j [] := by
    intro l
    rw [mem_storePeers rs (fun k => (sharesOf v.nNodes v.online bs).getD k []) hpeers, if_pos hex]
  exact ⟨lookup_of_mem_unique _ j _ hmem, fun l hl => (hmem l).1 hl⟩

/-- Either way.  If every reply carries the share its sender has in the distribution for the set that is reachable
    now (this node plus the senders, all configured nodes), then after the check — whether it distributed anew or
    not — `nodeBackends` maps every reachable partner to that share. -/
theorem believed_is_served (v : NodeView) (bs : List String) (rs : List PingReply)
    (hlt : ∀ r ∈ rs, r.pos < v.nNodes)
    (hpeers : ∀ r ∈ rs, r.peers = some
      ((sharesOf v.nNodes ((v.own :: rs.map (·.pos)).mergeSort (fun a b => a ≤ b)) bs).getD r.pos [])) :
    ∀ j ∈ (v.check bs rs).online, j ≠ v.own →
      (v.check bs rs).nodeBackends.lookup j =
        some ((sharesOf v.nNodes (v.check bs rs).online bs).getD j []) := by
  intro j hj hjo
  rw [check_online'] at hj ⊢
  have hex : ∃ r ∈ rs, r.pos = j := by
    rcases (mem_newOnline v rs j).1 hj with h | h
    · exact absurd h hjo
    · exact h
  rcases check_cases v rs with hc | ⟨h1, h2⟩
  · rw [check_recomputed v bs rs hc]
    obtain ⟨r, hr, rfl⟩ := hex
    exact (mapOfShares_lookup v.nNodes (newOnline v rs) bs r.pos).1 hj (hlt r hr)
  · rw [check_kept v bs rs h1 h2]
    have hmem : ∀ l, (j, l) ∈ storePeers rs (dropRestarted v.seen rs v.nodeBackends)
        ↔ l = (sharesOf v.nNodes (newOnline v rs) bs).getD j [] := by
      intro l
      rw [mem_storePeers rs (fun k => (sharesOf v.nNodes (newOnline v rs) bs).getD k []) hpeers, if_pos hex]
    exact lookup_of_mem_unique _ j _ hmem

/-- The cluster after the second round.  The running nodes `R` see each other and have the invariant (as after
    `converged_after_checks`); in the next round every node is again answered by exactly the others, with unchanged
    identifiers, and every reply carries what its sender serves.  Then every running node keeps its reachable set and
    its share, and believes of every other running node exactly what that node serves. -/
theorem cluster_views_agree (n : Nat) (R : List Nat) (bs : List String) (views : Nat → NodeView)
    (replies : Nat → List PingReply) (hR : R.Pairwise (· < ·))
    (hv : ∀ i ∈ R, (views i).own = i ∧ (views i).nNodes = n ∧ (views i).online = R ∧ NodeView.Inv bs (views i))
    (hrep : ∀ i ∈ R, ((replies i).map (·.pos)).Perm (R.erase i))
    (hnf : ∀ i ∈ R, ∀ r ∈ replies i, restarted (views i).seen r = false)
    (hpeers : ∀ i ∈ R, ∀ r ∈ replies i, r.peers = some (views r.pos).assigned) :
    ∀ i ∈ R, ((views i).check bs (replies i)).online = R ∧
      ((views i).check bs (replies i)).assigned = (views i).assigned ∧
      ∀ j ∈ R, j ≠ i → ((views i).check bs (replies i)).nodeBackends.lookup j = some (views j).assigned := by
  intro i hi
  obtain ⟨h1, h2, h3, h4⟩ := hv i hi
  have hassigned : ∀ j ∈ R, (views j).assigned = (sharesOf n R bs).getD j [] := by
    intro j hj
    obtain ⟨g1, g2, g3, g4⟩ := hv j hj
    have := g4.assigned_eq
    rwa [g1, g2, g3] at this
  have hset : newOnline (views i) (replies i) = (views i).online := by
    rw [h3]
    exact newOnline_eq_of_perm _ _ R hR (by rw [h1]; exact hi) (by rw [h1]; exact hrep i hi)
  have hposR : ∀ r ∈ replies i, r.pos ∈ R := by
    intro r hr
    have : r.pos ∈ R.erase i := (hrep i hi).subset (List.mem_map.2 ⟨r, hr, rfl⟩)
    exact List.mem_of_mem_erase this
  obtain ⟨a, b, c⟩ := views_agree_after_second_round (views i) bs (replies i) hset (hnf i hi)
    (by intro r hr; rw [hpeers i hi r hr, hassigned _ (hposR r hr), h2, h3])
  refine ⟨by rw [a, h3], b, fun j hj hji => ?_⟩
  rw [(c j (by rw [h3]; exact hj) (by rw [h1]; exact hji)).1, hassigned j hj, h2, h3]

/-! ## non-vacuity -/

namespace Ex

/-- node 1 of 3 just started -/
def fresh : NodeView := { own := 1, nNodes := 3 }

/-- node 0 of 3 that saw the nodes 0 and 1 -/
def saw01 : NodeView :=
  { own := 0, nNodes := 3, online := [0, 1], seen := [(1, 5)],
    nodeBackends := [(0, ["a", "b"]), (1, ["c"])], assigned := ["a", "b"] }

/-- node 0 of 2 with a stale entry for node 1 -/
def stale : NodeView :=
  { own := 0, nNodes := 2, online := [0, 1], seen := [(1, 5)],
    nodeBackends := [(0, ["a"]), (1, ["stale"])], assigned := ["a"] }

def five : List String := ["a", "b", "c", "d", "e"]

/-- the nodes 0 and 2 of 3 run and see each other -/
def views (i : Nat) : NodeView :=
  { own := i, nNodes := 3, online := [0, 2], seen := [(0, 4), (2, 4)],
    assigned := (sharesOf 3 [0, 2] five).getD i [] }

end Ex

/-- `check_online`, `inv_after_first_check`: node 1 of 3 starts and is answered by node 2 -/
example : (Ex.fresh.check ["a", "b", "c"] [⟨2, 7, none⟩]).online = [1, 2] ∧
    (Ex.fresh.check ["a", "b", "c"] [⟨2, 7, none⟩]).assigned = ["a", "b"] := by
  have hs : newOnline Ex.fresh [⟨2, 7, none⟩] = [1, 2] := List.mergeSort_of_pairwise (by decide)
  rw [check_recomputed Ex.fresh _ _ (.inr (by rw [hs]; decide)), hs]
  decide

/-- `replacement_recomputes`: 3 nodes, node 0 saw {0,1}; now node 2 answers and node 1 does not: {0,1} becomes
    {0,2}, the number of reachable nodes is unchanged, the hypotheses hold and the map is computed for {0,2} -/
example :
    ((([⟨2, 9, some []⟩] : List PingReply).length + 1 = Ex.saw01.online.length ∧ 1 ∈ Ex.saw01.online ∧
      1 ≠ Ex.saw01.own ∧ ∀ r ∈ ([⟨2, 9, some []⟩] : List PingReply), r.pos ≠ 1)) ∧
    (Ex.saw01.check ["a", "b", "c"] [⟨2, 9, some []⟩]).online = [0, 2] ∧
    (Ex.saw01.check ["a", "b", "c"] [⟨2, 9, some []⟩]).nodeBackends = [(0, ["a", "b"]), (2, ["c"])] ∧
    (Ex.saw01.check ["a", "b", "c"] [⟨2, 9, some []⟩]).assigned = ["a", "b"] := by
  have hs : newOnline Ex.saw01 [⟨2, 9, some []⟩] = [0, 2] := List.mergeSort_of_pairwise (by decide)
  rw [check_recomputed Ex.saw01 _ _ (.inr (by rw [hs]; decide)), hs]
  decide

/-- `restart_forces`: node 1 answered with identifier 5 before and answers with 6 now; the set {0,1} is unchanged,
    the stale entry of the old map is gone -/
example :
    restarted Ex.stale.seen ⟨1, 6, none⟩ = true ∧
    (Ex.stale.check ["a", "b"] [⟨1, 6, none⟩]).online = Ex.stale.online ∧
    (Ex.stale.check ["a", "b"] [⟨1, 6, none⟩]).nodeBackends = [(0, ["a"]), (1, ["b"])] := by
  have hs : newOnline Ex.stale [⟨1, 6, none⟩] = [0, 1] := List.mergeSort_of_pairwise (by decide)
  rw [check_recomputed Ex.stale _ _ (.inl (by decide)), hs]
  decide

/-- the hypotheses of `converged_partition`, `converged_sizes`, `cluster_views_agree` on the views are satisfiable:
    nodes 0 and 2 of 3 run, five backends -/
example :
    ([0, 2] : List Nat).Pairwise (· < ·) ∧ ([0, 2] : List Nat) ≠ [] ∧ (∀ i ∈ [0, 2], i < 3) ∧
    (∀ b ∈ Ex.five, b ≠ "") ∧ (Ex.five.filter (· ≠ "")).Nodup ∧
    (∀ i ∈ [0, 2], (Ex.views i).own = i ∧ (Ex.views i).nNodes = 3 ∧ (Ex.views i).online = [0, 2] ∧
      NodeView.Inv Ex.five (Ex.views i)) ∧
    (Ex.views 0).assigned = ["a", "b", "c"] ∧ (Ex.views 2).assigned = ["d", "e"] := by
  refine ⟨by decide, by decide, by decide, by decide, by decide, ?_, by decide, by decide⟩
  intro i _
  exact ⟨rfl, rfl, rfl, ⟨rfl⟩⟩

/-- the hypotheses of `views_agree_after_second_round` / `cluster_views_agree` on the replies for that cluster: each
    of the two nodes is answered by the other one, with the identifier noted and the sender's share -/
example :
    let replies : Nat → List PingReply := fun i => if i = 0 then [⟨2, 4, some ["d", "e"]⟩] else [⟨0, 4, some ["a", "b", "c"]⟩]
    (∀ i ∈ [0, 2], ((replies i).map (·.pos)).Perm (([0, 2] : List Nat).erase i)) ∧
    (∀ i ∈ [0, 2], ∀ r ∈ replies i, restarted (Ex.views i).seen r = false) ∧
    (∀ i ∈ [0, 2], ∀ r ∈ replies i, r.peers = some (Ex.views r.pos).assigned) ∧
    (∀ i ∈ [0, 2], ∀ r ∈ replies i,
      r.peers = some ((sharesOf (Ex.views i).nNodes (Ex.views i).online Ex.five).getD r.pos [])) := by
  decide

/-- `converged_after_checks`: the hypothesis on the replies — node 0 of {0,1,2} is answered by 2 and 1 -/
example : (([⟨2, 1, none⟩, ⟨1, 1, none⟩] : List PingReply).map (·.pos)).Perm (([0, 1, 2] : List Nat).erase 0) := by
  decide

/-- `check_preserves_own_entry`: the hypothesis is needed — a reply that claims this node's own position
    overwrites the entry -/
example : ∃ (v : NodeView) (rs : List PingReply), v.OwnEntry ∧ ¬ (v.check ["a"] rs).OwnEntry := by
  refine ⟨{ own := 0, nNodes := 1, online := [0, 0], nodeBackends := [(0, ["a"])], assigned := ["a"] },
    [⟨0, 1, some ["x"]⟩], ?_, ?_⟩
  · intro l hl
    simp only [List.mem_singleton, Prod.mk.injEq] at hl
    exact hl.2
  · intro h
    have hs : newOnline { own := 0, nNodes := 1, online := [0, 0], nodeBackends := [(0, ["a"])], assigned := ["a"] }
        [⟨0, 1, some ["x"]⟩] = [0, 0] := List.mergeSort_of_pairwise (by decide)
    rw [check_kept _ _ _ (by decide) hs] at h
    have := h ["x"] (by decide)
    revert this
    decide

end Lmd.C18Nodes
