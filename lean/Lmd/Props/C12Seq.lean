/-
  C12 (sequence level) — comments and downtimes follow additions and removals, over arbitrary
  sequences of backend states.

  `syncSeq tab cached [b1, …, bn]` is `syncEntries` (the diff of `updateDeltaCommentsOrDowntimes`)
  folded over the backend states `b1 … bn` of the comments (downtimes) table; `entrySeq` is the same on
  the peer's cache, each step followed by `rebuildLists` (`buildDowntimeCommentsList`).

  1. `sync_sequence_exact`, `sync_sequence_origin`, `sync_sequence_values`,
     `sync_sequence_history_independent`: after any sequence the table holds exactly the ids of the LAST
     state, no id twice; every row is the row that was fetched when its id (last) appeared; if the
     entries of the last state never changed their values, the rows are exactly the last state's rows.
  2. `sync_reply_order`, `sync_sequence_reply_order`: the order of the rows in the replies does not
     matter (kept rows identical, appended rows a permutation, sorted by id identical).
  3. `lists_follow_sequence`, `lists_follow_each_step`, `removed_id_in_no_list`,
     `added_id_in_its_object_only`: after every step the id lists of all hosts and services hold
     exactly the ids of the current entries of that host / service.

  4. `entries_round_is_entryStep`: one round of the comments / downtimes part of `UpdateDelta` against a
     backend that answers is exactly the step `entryStep` the statements above are about.

  Helper lemmas live in `Lmd.Lemmas.EntrySeqLemmas`.
-/
import Lmd.Props.C12
import Lmd.Lemmas.EntrySeqLemmas
import Lmd.Lemmas.RunLemmas

namespace Lmd.C12Seq
open Lean (Json JsonNumber)
open Lmd.SyncLemmas Lmd.EntrySeq Lmd.C12
open Lmd.PeerL (tableOf)
open Lmd.RunL (Healthy query_healthy healthy_hit)

/-- a third example comment, on host "beta" -/
def exC5 : ReplyRow := [("id", .num ⟨5, 0⟩), ("host_name", .str "beta"), ("service_description", .str "")]

/-- comment 300 with another host (used to show what happens when an entry changes its values) -/
def exC300moved : ReplyRow := [("id", .num ⟨300, 0⟩), ("host_name", .str "beta"), ("service_description", .str "")]

/-! ## 1. the table after a sequence of backend states -/

/-- `sync_sequence_exact`: start from any cached rows with pairwise different ids and synchronise any
    sequence of backend states `pre ++ [last]` (arbitrary additions and removals between them, ids
    unique within each state).  Then the table holds exactly the ids of the LAST state — as a set, and
    as a list up to order —, no id twice; none of this depends on the cached rows or on the earlier
    states. -/
theorem sync_sequence_exact (tab : Table) (hid : IdCol tab) (cached : List Row)
    (pre : List (List ReplyRow)) (last : List ReplyRow)
    (hc : (cached.map (·.int "id")).Nodup) (hs : ∀ s ∈ pre ++ [last], (s.map replyId).Nodup) :
    (∀ i, i ∈ (syncSeq tab cached (pre ++ [last])).map (·.int "id") ↔ i ∈ last.map replyId) ∧
    ((syncSeq tab cached (pre ++ [last])).map (·.int "id")).Nodup ∧
    ((syncSeq tab cached (pre ++ [last])).map (·.int "id")).Perm (last.map replyId) := by
  have h1 := syncSeq_ids_last hid cached pre last
  have h2 := syncSeq_nodup hid (pre ++ [last]) cached hc hs
  exact ⟨h1, h2, (List.perm_ext_iff_of_nodup h2 (hs last (by simp))).mpr h1⟩

/-- cache holds comment 1; the backend then has {1, 300}, then {300}, then {300, 5}: the table ends
    with exactly 300 and 5 -/
example : IdCol exComments ∧ (([exRow exC1]).map (·.int "id")).Nodup ∧
    (∀ s ∈ [[exC1, exC300], [exC300]] ++ [[exC300, exC5]], (s.map replyId).Nodup) ∧
    (syncSeq exComments [exRow exC1] ([[exC1, exC300], [exC300]] ++ [[exC300, exC5]])).map (·.int "id") = [300, 5] :=
  ⟨exEntryTable.id, by decide, by decide, by decide⟩

/-- The uniqueness of the cached ids is needed for "no id twice": a table that holds id 1 twice keeps
    both rows as long as the backend has id 1. -/
example : (syncSeq exComments [exRow exC1, exRow exC1] [[exC1]]).map (·.int "id") = [1, 1] := by decide

/-- `sync_sequence_origin`: every row of the table after a sequence of states is either a row that was
    cached at the start, whose id every state of the sequence had, or the cached form of a row `r` that
    some state `s` of the sequence delivered when its id was not in the table, and whose id every later
    state had.  So a row carries the values of the moment its id (last) appeared. -/
theorem sync_sequence_origin (tab : Table) (hid : IdCol tab) (cached : List Row)
    (states : List (List ReplyRow)) (row : Row) (h : row ∈ syncSeq tab cached states) :
    (row ∈ cached ∧ ∀ s ∈ states, row.int "id" ∈ s.map replyId) ∨
    ∃ pre s post r, states = pre ++ s :: post ∧ r ∈ s ∧ row = coerceRow tab r ∧
      replyId r ∉ (syncSeq tab cached pre).map (·.int "id") ∧ ∀ s' ∈ post, replyId r ∈ s'.map replyId :=
  syncSeq_origin hid states cached row h

example : IdCol exComments ∧ (syncSeq exComments [exRow exC1] [[exC1, exC300], [exC300]]).length = 1 :=
  ⟨exEntryTable.id, by decide⟩

/-- `sync_sequence_values`: if the entries the last state names are immutable over the sequence
    (`Stable`: a cached row and every row of any state with the id of a row `r` of the last state have
    the cached form of `r`), the table after the sequence holds exactly the cached forms of the LAST
    state's rows: the same rows as a set, a permutation of them as a list, and the same list once both
    are sorted by id. -/
theorem sync_sequence_values (tab : Table) (hid : IdCol tab) (cached : List Row)
    (pre : List (List ReplyRow)) (last : List ReplyRow)
    (hc : (cached.map (·.int "id")).Nodup) (hs : ∀ s ∈ pre ++ [last], (s.map replyId).Nodup)
    (hst : Stable tab cached (pre ++ [last]) last) :
    (∀ row, row ∈ syncSeq tab cached (pre ++ [last]) ↔ row ∈ last.map (coerceRow tab)) ∧
    (syncSeq tab cached (pre ++ [last])).Perm (last.map (coerceRow tab)) ∧
    sortById (syncSeq tab cached (pre ++ [last])) = sortById (last.map (coerceRow tab)) := by
  have h1 := syncSeq_rows_mem hid hst
  have h2 := syncSeq_nodup hid (pre ++ [last]) cached hc hs
  have h3 : ((last.map (coerceRow tab)).map (·.int "id")).Nodup := by
    rw [List.map_map]
    have e : ((fun r : Row => r.int "id") ∘ coerceRow tab) = replyId := by
      funext r; exact coerceRow_int_id hid r
    rw [e]; exact hs last (by simp)
  have hp : (syncSeq tab cached (pre ++ [last])).Perm (last.map (coerceRow tab)) :=
    (List.perm_ext_iff_of_nodup (nodup_of_nodup_map _ h2) (nodup_of_nodup_map _ h3)).mpr h1
  exact ⟨h1, hp, sortById_eq_of_perm hp h2⟩

/-- non-vacuity: comment 300 is immutable over the sequence {1, 300}, {300} -/
example : Stable exComments [exRow exC1] ([[exC1, exC300]] ++ [[exC300]]) [exC300] := by
  intro r hr
  have hr' : r = exC300 := by simpa using hr
  subst hr'
  constructor
  · intro c hc hi
    have : c = exRow exC1 := by simpa using hc
    subst this
    exact absurd hi (by decide)
  · intro s hs r' hr' hi
    simp only [List.cons_append, List.nil_append, List.mem_cons, List.not_mem_nil, or_false] at hs
    rcases hs with rfl | rfl
    · simp only [List.mem_cons, List.not_mem_nil, or_false] at hr'
      rcases hr' with rfl | rfl
      · exact absurd hi (by decide)
      · rfl
    · have : r' = exC300 := by simpa using hr'
      rw [this]

/-- The immutability is needed for "the last state's values": entries already cached are never fetched
    again, so when the backend changes the host of comment 300 the table keeps the old host. -/
example : (syncSeq exComments [] ([[exC300]] ++ [[exC300moved]])).map (fun r => strCell r "host_name") = ["alpha"] ∧
    ([exC300moved].map (coerceRow exComments)).map (fun r => strCell r "host_name") = ["beta"] := by
  decide

/-- `sync_sequence_history_independent`: two histories that end in the same backend state — whatever
    the tables held at the start and whatever states came before — end with the same ids; and if in both
    the entries of the last state are immutable, with the same rows (as a set, up to order, and as the
    same list when sorted by id). -/
theorem sync_sequence_history_independent (tab : Table) (hid : IdCol tab) (cached cached' : List Row)
    (pre pre' : List (List ReplyRow)) (last : List ReplyRow)
    (hc : (cached.map (·.int "id")).Nodup) (hc' : (cached'.map (·.int "id")).Nodup)
    (hs : ∀ s ∈ pre ++ [last], (s.map replyId).Nodup) (hs' : ∀ s ∈ pre' ++ [last], (s.map replyId).Nodup) :
    ((syncSeq tab cached (pre ++ [last])).map (·.int "id")).Perm
        ((syncSeq tab cached' (pre' ++ [last])).map (·.int "id")) ∧
    (Stable tab cached (pre ++ [last]) last → Stable tab cached' (pre' ++ [last]) last →
      (syncSeq tab cached (pre ++ [last])).Perm (syncSeq tab cached' (pre' ++ [last])) ∧
      sortById (syncSeq tab cached (pre ++ [last])) = sortById (syncSeq tab cached' (pre' ++ [last]))) := by
  have a := sync_sequence_exact tab hid cached pre last hc hs
  have a' := sync_sequence_exact tab hid cached' pre' last hc' hs'
  refine ⟨a.2.2.trans a'.2.2.symm, fun h h' => ?_⟩
  have v := sync_sequence_values tab hid cached pre last hc hs h
  have v' := sync_sequence_values tab hid cached' pre' last hc' hs' h'
  exact ⟨v.2.1.trans v'.2.1.symm, v.2.2.trans v'.2.2.symm⟩

/-- two different histories ending in {300, 5} -/
example :
    (syncSeq exComments [exRow exC1] ([[exC1, exC300], [exC300]] ++ [[exC300, exC5]])).map (·.int "id") = [300, 5] ∧
    (syncSeq exComments [] ([[exC5], [exC5, exC1]] ++ [[exC300, exC5]])).map (·.int "id") = [5, 300] := by
  decide

/-! ## 2. the order of the reply does not matter -/

/-- `sync_reply_order`: if `backend'` is a permutation of `backend`, then `syncEntries` of the same
    cached rows against the two replies gives: literally the same kept rows (the cached rows whose id
    the backend still has, in cache order) followed by the new rows, which are a permutation of each
    other (they are appended in reply order); so the two tables are permutations of each other, hold
    the same rows as a set, and — ids being pairwise different — are the same list once sorted by id. -/
theorem sync_reply_order (tab : Table) (hid : IdCol tab) (cached : List Row) (backend backend' : List ReplyRow)
    (hp : backend.Perm backend')
    (hc : (cached.map (·.int "id")).Nodup) (hb : (backend.map replyId).Nodup) :
    (∃ new new' : List Row,
      syncEntries tab cached backend =
        cached.filter (fun r => (backend.map replyId).contains (r.int "id")) ++ new ∧
      syncEntries tab cached backend' =
        cached.filter (fun r => (backend.map replyId).contains (r.int "id")) ++ new' ∧
      new.Perm new') ∧
    (syncEntries tab cached backend).Perm (syncEntries tab cached backend') ∧
    (∀ row, row ∈ syncEntries tab cached backend ↔ row ∈ syncEntries tab cached backend') ∧
    sortById (syncEntries tab cached backend) = sortById (syncEntries tab cached backend') := by
  have hperm := syncEntries_perm tab (List.Perm.refl cached) hp
  exact ⟨syncEntries_reply_perm tab cached hp, hperm, fun row => hperm.mem_iff,
    sortById_eq_of_perm hperm (syncEntries_nodup hid hc hb)⟩

example : [exC300, exC5].Perm [exC5, exC300] ∧
    (syncEntries exComments [exRow exC1] [exC1, exC300, exC5]).map (·.int "id") = [1, 300, 5] ∧
    (syncEntries exComments [exRow exC1] [exC5, exC1, exC300]).map (·.int "id") = [1, 5, 300] :=
  ⟨List.Perm.swap _ _ _, by decide, by decide⟩

/-- The order inside the table does depend on the reply order (new rows are appended as delivered): the
    two tables above are not the same list. -/
example : (syncEntries exComments [exRow exC1] [exC1, exC300, exC5]).map (·.int "id") ≠
    (syncEntries exComments [exRow exC1] [exC5, exC1, exC300]).map (·.int "id") := by decide

/-- `sync_sequence_reply_order`: the same over a whole sequence: two sequences of backend states that
    are, state by state, permutations of each other (and two starting tables that are permutations of
    each other) end in tables that are permutations of each other, and in the same list once sorted by
    id. -/
theorem sync_sequence_reply_order (tab : Table) (hid : IdCol tab) (cached cached' : List Row)
    (states states' : List (List ReplyRow)) (hc : cached.Perm cached') (hs : PermSeq states states')
    (hn : (cached.map (·.int "id")).Nodup) (hsn : ∀ s ∈ states, (s.map replyId).Nodup) :
    (syncSeq tab cached states).Perm (syncSeq tab cached' states') ∧
    sortById (syncSeq tab cached states) = sortById (syncSeq tab cached' states') := by
  have hp := syncSeq_perm tab hc hs
  exact ⟨hp, sortById_eq_of_perm hp (syncSeq_nodup hid states cached hn hsn)⟩

example : PermSeq [[exC1, exC300], [exC300, exC5]] [[exC300, exC1], [exC5, exC300]] :=
  .cons (List.Perm.swap _ _ _) (.cons (List.Perm.swap _ _ _) .nil)

/-! ## 3. the id lists of hosts and services over a sequence -/

/-- `entryStep` is the cache step of `lists_follow` / `lists_follow_downtimes` -/
theorem entryStep_comments (tab : Table) (c : Cache) (backend : List ReplyRow) :
    entryStep "comments" tab c backend =
      rebuildLists (c.set "comments" (syncEntries tab (c.get "comments") backend)) := rfl

theorem entryStep_downtimes (tab : Table) (c : Cache) (backend : List ReplyRow) :
    entryStep "downtimes" tab c backend =
      rebuildLists (c.set "downtimes" (syncEntries tab (c.get "downtimes") backend)) := rfl

/-- `lists_follow_sequence`: let the comments (`name = "comments"`) or downtimes (`name = "downtimes"`)
    table of a peer's cache go through any sequence of backend states `pre ++ [cur]`, each step being
    `syncEntries` followed by the rebuild of the id lists.  Entries never move (`NeverMove`: rows with the
    same id — cached at the start or delivered in any state — name the same host and service).  Then
    after the last step every host row is still at its position with all its other cells, and its `name`
    list holds exactly the ids of the entries of the CURRENT state `cur` for that host with an empty
    service description; every service row (with a description) likewise holds exactly the ids of the
    current entries for its host and description.  Earlier states leave no trace in the lists. -/
theorem lists_follow_sequence (name : String) (hn : name = "comments" ∨ name = "downtimes") (tab : Table)
    (ht : EntryTable tab) (c : Cache) (pre : List (List ReplyRow)) (cur : List ReplyRow)
    (hm : NeverMove (c.get name) (pre ++ [cur])) :
    (∀ (k : Nat) (h : Row), (c.get "hosts")[k]? = some h →
      ∃ h' l, ((entrySeq name tab c (pre ++ [cur])).get "hosts")[k]? = some h' ∧
        h'.cell? name = some (.il l) ∧
        (∀ i, i ∈ l ↔ ∃ r ∈ cur, replyId r = i ∧ replyStr r "host_name" = strCell h "name" ∧
          replyStr r "service_description" = "") ∧
        ∀ n, n ≠ "comments" → n ≠ "downtimes" → h'.cell? n = h.cell? n) ∧
    (∀ (k : Nat) (s : Row), (c.get "services")[k]? = some s → strCell s "description" ≠ "" →
      ∃ s' l, ((entrySeq name tab c (pre ++ [cur])).get "services")[k]? = some s' ∧
        s'.cell? name = some (.il l) ∧
        (∀ i, i ∈ l ↔ ∃ r ∈ cur, replyId r = i ∧ replyStr r "host_name" = strCell s "host_name" ∧
          replyStr r "service_description" = strCell s "description") ∧
        ∀ n, n ≠ "comments" → n ≠ "downtimes" → s'.cell? n = s.cell? n) :=
  entrySeq_follow hn ht cur pre c hm

/-- a cache with the hosts "alpha" and "beta" and comment 1 -/
def exCache : Cache :=
  [("hosts", [{ cells := [("name", .s "alpha")] }, { cells := [("name", .s "beta")] }]), ("comments", [exRow exC1])]

/-- non-vacuity: the sequence {1, 300}, {300}, {300, 5} never moves an entry -/
example : NeverMove (exCache.get "comments") ([[exC1, exC300], [exC300]] ++ [[exC300, exC5]]) := by
  constructor
  · unfold Faithful; decide
  · decide

/-- after that sequence "alpha" lists comment 300 and "beta" comment 5; comment 1 is in no list -/
example :
    ((entrySeq "comments" exComments exCache ([[exC1, exC300], [exC300]] ++ [[exC300, exC5]])).get "hosts").map
      (fun h => match h.cell? "comments" with | some (.il l) => l | _ => []) = [[300], [5]] := by
  decide

/-- `lists_follow_each_step`: the same after EVERY step of a sequence `pre ++ cur :: post` (not only
    the last): after the step that synchronised `cur`, the lists hold exactly the ids of `cur`. -/
theorem lists_follow_each_step (name : String) (hn : name = "comments" ∨ name = "downtimes") (tab : Table)
    (ht : EntryTable tab) (c : Cache) (states pre post : List (List ReplyRow)) (cur : List ReplyRow)
    (hsplit : states = pre ++ cur :: post) (hm : NeverMove (c.get name) states) :
    (∀ (k : Nat) (h : Row), (c.get "hosts")[k]? = some h →
      ∃ h' l, ((entrySeq name tab c (pre ++ [cur])).get "hosts")[k]? = some h' ∧
        h'.cell? name = some (.il l) ∧
        (∀ i, i ∈ l ↔ ∃ r ∈ cur, replyId r = i ∧ replyStr r "host_name" = strCell h "name" ∧
          replyStr r "service_description" = "") ∧
        ∀ n, n ≠ "comments" → n ≠ "downtimes" → h'.cell? n = h.cell? n) ∧
    (∀ (k : Nat) (s : Row), (c.get "services")[k]? = some s → strCell s "description" ≠ "" →
      ∃ s' l, ((entrySeq name tab c (pre ++ [cur])).get "services")[k]? = some s' ∧
        s'.cell? name = some (.il l) ∧
        (∀ i, i ∈ l ↔ ∃ r ∈ cur, replyId r = i ∧ replyStr r "host_name" = strCell s "host_name" ∧
          replyStr r "service_description" = strCell s "description") ∧
        ∀ n, n ≠ "comments" → n ≠ "downtimes" → s'.cell? n = s.cell? n) := by
  refine lists_follow_sequence name hn tab ht c pre cur (hm.sublist fun s hs => ?_)
  rw [hsplit]
  rcases List.mem_append.mp hs with h | h
  · exact List.mem_append_left _ h
  · have : s = cur := by simpa using h
    rw [this]; simp

example : ([[exC1, exC300], [exC300], [exC300, exC5]] : List (List ReplyRow)) =
    [[exC1, exC300]] ++ [exC300] :: [[exC300, exC5]] := rfl

/-- `removed_id_in_no_list`: an id the current state no longer has (removed at this step or earlier and
    not added again) is in the list of no host and of no service after the step. -/
theorem removed_id_in_no_list (name : String) (hn : name = "comments" ∨ name = "downtimes") (tab : Table)
    (ht : EntryTable tab) (c : Cache) (pre : List (List ReplyRow)) (cur : List ReplyRow)
    (hm : NeverMove (c.get name) (pre ++ [cur])) (i : Int) (hgone : i ∉ cur.map replyId) :
    (∀ (k : Nat) (h : Row), (c.get "hosts")[k]? = some h →
      ∃ h' l, ((entrySeq name tab c (pre ++ [cur])).get "hosts")[k]? = some h' ∧
        h'.cell? name = some (.il l) ∧ i ∉ l) ∧
    (∀ (k : Nat) (s : Row), (c.get "services")[k]? = some s → strCell s "description" ≠ "" →
      ∃ s' l, ((entrySeq name tab c (pre ++ [cur])).get "services")[k]? = some s' ∧
        s'.cell? name = some (.il l) ∧ i ∉ l) := by
  obtain ⟨hH, hS⟩ := lists_follow_sequence name hn tab ht c pre cur hm
  constructor
  · intro k h hk
    obtain ⟨h', l, e1, e2, e3, _⟩ := hH k h hk
    refine ⟨h', l, e1, e2, fun hi => ?_⟩
    obtain ⟨r, hr, hri, _⟩ := (e3 i).mp hi
    exact hgone (List.mem_map.mpr ⟨r, hr, hri⟩)
  · intro k s hk hd
    obtain ⟨s', l, e1, e2, e3, _⟩ := hS k s hk hd
    refine ⟨s', l, e1, e2, fun hi => ?_⟩
    obtain ⟨r, hr, hri, _⟩ := (e3 i).mp hi
    exact hgone (List.mem_map.mpr ⟨r, hr, hri⟩)

example : (1 : Int) ∉ [exC300, exC5].map replyId := by decide

/-- `added_id_in_its_object_only`: an entry `r` of the current state (ids unique within the state) is,
    after the step, in the list of a host exactly if it is a host entry of that host, and in the list of
    a service (with a description) exactly if it names that service's host and description. -/
theorem added_id_in_its_object_only (name : String) (hn : name = "comments" ∨ name = "downtimes") (tab : Table)
    (ht : EntryTable tab) (c : Cache) (pre : List (List ReplyRow)) (cur : List ReplyRow)
    (hm : NeverMove (c.get name) (pre ++ [cur])) (hu : (cur.map replyId).Nodup)
    (r : ReplyRow) (hr : r ∈ cur) :
    (∀ (k : Nat) (h : Row), (c.get "hosts")[k]? = some h →
      ∃ h' l, ((entrySeq name tab c (pre ++ [cur])).get "hosts")[k]? = some h' ∧
        h'.cell? name = some (.il l) ∧
        (replyId r ∈ l ↔ replyStr r "host_name" = strCell h "name" ∧ replyStr r "service_description" = "")) ∧
    (∀ (k : Nat) (s : Row), (c.get "services")[k]? = some s → strCell s "description" ≠ "" →
      ∃ s' l, ((entrySeq name tab c (pre ++ [cur])).get "services")[k]? = some s' ∧
        s'.cell? name = some (.il l) ∧
        (replyId r ∈ l ↔ replyStr r "host_name" = strCell s "host_name" ∧
          replyStr r "service_description" = strCell s "description")) := by
  obtain ⟨hH, hS⟩ := lists_follow_sequence name hn tab ht c pre cur hm
  have huniq : ∀ r' ∈ cur, replyId r' = replyId r → r' = r :=
    fun r' hr' e => eq_of_nodup_map replyId hu hr' hr e
  constructor
  · intro k h hk
    obtain ⟨h', l, e1, e2, e3, _⟩ := hH k h hk
    refine ⟨h', l, e1, e2, ?_⟩
    rw [e3]
    constructor
    · rintro ⟨r', hr', hi, a, b⟩
      rw [huniq r' hr' hi] at a b
      exact ⟨a, b⟩
    · rintro ⟨a, b⟩
      exact ⟨r, hr, rfl, a, b⟩
  · intro k s hk hd
    obtain ⟨s', l, e1, e2, e3, _⟩ := hS k s hk hd
    refine ⟨s', l, e1, e2, ?_⟩
    rw [e3]
    constructor
    · rintro ⟨r', hr', hi, a, b⟩
      rw [huniq r' hr' hi] at a b
      exact ⟨a, b⟩
    · rintro ⟨a, b⟩
      exact ⟨r, hr, rfl, a, b⟩

example : ([exC300, exC5].map replyId).Nodup ∧ exC5 ∈ [exC300, exC5] := ⟨by decide, by simp⟩

/-! ## 4. the step is what `UpdateDelta` does -/

/-- `entries_round_is_entryStep`: the comments / downtimes part of `UpdateDelta`
    (`updateDeltaCommentsOrDowntimes`, in the model `updateDelta.entries`), for a table `t` whose cheap
    change test fires, against a peer and backend that answer every request: whether or not new entries
    have to be fetched (with new entries: statistics, id list, fetch; without: statistics, id list, removal
    only), the round leaves exactly the cache `entryStep t … c (b.rows t)` — the table synchronised with
    `syncEntries` against the backend's current rows, the id lists rebuilt — and goes on with the remaining
    tables; the peer is unchanged and the backend has only counted the requests. -/
theorem entries_round_is_entryStep (w : World) (now : Int) (t : String) (ts : List String) (p : PeerSt)
    (b : BackendSt) (c : Cache) (hH : Healthy p b) (hchg : maxIdOrSizeChanged (c.get t) (b.rows t) = true) :
    ∃ n, updateDelta.entries w now (t :: ts) p b c =
      updateDelta.entries w now ts p { b with hits := n } (entryStep t (tableOf w t) c (b.rows t)) := by
  have hH1 : Healthy p { b with hits := b.hits + 1 } := healthy_hit hH _
  have hH2 : Healthy p { b with hits := b.hits + 1 + 1 } := healthy_hit hH _
  have hr1 : ({ b with hits := b.hits + 1 } : BackendSt).rows t = b.rows t := rfl
  have hr2 : ({ b with hits := b.hits + 1 + 1 } : BackendSt).rows t = b.rows t := rfl
  have hr3 : ({ b with hits := b.hits + 1 + 1 + 1 } : BackendSt).rows t = b.rows t := rfl
  rw [updateDelta.entries]
  simp only [query_healthy w now hH, query_healthy w now hH1, query_healthy w now hH2, hr1, hr2, hr3, hchg]
  simp only [Bool.not_true, Bool.false_eq_true, if_false]
  by_cases hf : ((b.rows t).any fun r => !(List.map (fun x => x.int "id") (c.get t)).contains (replyId r)) = true
  · simp only [hf, if_true]
    exact ⟨_, rfl⟩
  · have hf' : ((b.rows t).any fun r => !(List.map (fun x => x.int "id") (c.get t)).contains (replyId r)) = false := by
      simpa using hf
    simp only [hf', Bool.false_eq_true, if_false]
    refine ⟨b.hits + 1 + 1, ?_⟩
    unfold entryStep
    rw [syncEntries_no_new _ _ _ hf']

/-- non-vacuity: a fresh peer, a backend in mode "ok" holding comment 300, an empty comments table -/
example : Healthy ({} : PeerSt) { tables := [("comments", [exC300])], cols := [] } ∧
    maxIdOrSizeChanged (Cache.get [] "comments")
      (({ tables := [("comments", [exC300])], cols := [] } : BackendSt).rows "comments") = true :=
  ⟨⟨rfl, by decide, rfl, rfl⟩, by decide⟩

end Lmd.C12Seq
