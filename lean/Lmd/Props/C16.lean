/-
  C16 — pass-through tables are forwarded and merged faithfully.

  A query on a table lmd does not cache (the log table) is split into the request every selected,
  reachable backend receives and the LMD-side columns (peer_key, peer_name, …) lmd fills in itself.
  The theorems follow the request through the model `Lmd.Passthrough`:

    1. `sub_request_carries`, `extra_sort_columns`, `extra_backend_columns`, `stats_ignore_sort` — what the
       backends are asked
    2. `who_is_asked`, `failed_exact`, `answering_or_failed`, `failing_peer_no_influence` — who is asked
    3. `splice_eq_weave`, `splice_positions`, `splice_requested_positions`, `splice_cut` — the reply rows
    4. `merge_complete`, `merge_unsorted`, `mem_spliced` — nothing lost, nothing invented
    5. `ptLe_total`, `ptLe_trans`, `keys_same_shape`, `merge_sorted`, `sort_key_column` — the order
    6. `window_genuine` — Limit and Offset
    7. `apply_one`, `stats_groups`, `group_slot_final`, `counters_add_up` — Stats rows add up
    8. `no_answer_zero`, `no_answer_data` — nobody answers

  The replies of the backends are arbitrary data (`PTPeer.reply`); helper lemmas live in
  `Lmd.Lemmas.PassthroughLemmas` (namespace `Lmd.PT`).  Vocabulary used in the statements:
  `PT.effSort req` is the sort list that counts for what is fetched (the `Sort:` headers of a data
  request; nothing for a Stats request, whose result is not sorted), `PT.allCols t req` is the row lmd
  builds (requested columns, then the columns of `effSort req` that are not requested), `PT.weave peer cols brow` walks along `cols` and takes the LMD-side value for an LMD-side
  column and the next backend cell otherwise, `PT.nv cols` counts the backend-side columns of `cols`,
  `PT.spliced t req peers` are the spliced reply rows of all answering backends, `PT.cutRow t req r`
  cuts the added sort columns off again.
-/
import Lmd.Lemmas.PassthroughLemmas

namespace Lmd.C16
open Lmd.PT
open Lean (Json)

/-! ## 1. what the backends are asked -/

/-- the sort columns lmd has to add to the row because they are not requested: the first sort column of
    every name that is not a requested column name, in the order of the `Sort:` headers — of a data
    request; a Stats request is not sorted and nothing is added (`effSort req = []`) -/
abbrev extraSortCols (t : Table) (req : Request) : List Column :=
  newSortCols ((requestColumns t req).map (·.name)) (effSort req)

/-- The sort list that counts: the `Sort:` headers for a request without Stats, nothing for a Stats request. -/
theorem effSort_cases (req : Request) :
    (req.stats = [] → effSort req = req.sort) ∧ (req.stats ≠ [] → effSort req = []) ∧
    (req.sort = [] → effSort req = []) :=
  ⟨effSort_of_stats_nil req, effSort_of_stats_ne_nil req, effSort_of_sort_nil req⟩

/-- The request every backend receives has the client's table, filter, stats, limit and user unchanged,
    asks for JSON with the fixed16 header, carries no Sort and no Offset (lmd sorts and cuts itself), and
    asks for exactly the backend-side requested columns in request order, followed by the backend-side
    sort columns that are not requested (none for a Stats request, see `stats_ignore_sort`). -/
theorem sub_request_carries (t : Table) (req : Request) :
    let sub := subRequest req (ptPlan t req)
    sub.table = req.table ∧ sub.filter = req.filter ∧ sub.stats = req.stats ∧ sub.limit = req.limit ∧
    sub.authUser = req.authUser ∧ sub.outFmt = .json ∧ sub.fixed16 = true ∧ sub.sort = [] ∧ sub.offset = 0 ∧
    sub.columns = (ptPlan t req).backendCols ∧
    (ptPlan t req).backendCols =
      ((requestColumns t req).filter (·.storage != .virt)).map (·.name) ++
      ((extraSortCols t req).filter (·.storage != .virt)).map (·.name) := by
  refine ⟨rfl, rfl, rfl, rfl, rfl, rfl, rfl, rfl, rfl, rfl, ?_⟩
  rw [(ptPlan_planOf t req).backend, allCols, backendOf_append]
  rfl

/-- The added sort columns: no name twice, none of them named like a requested column, all of them
    columns of `Sort:` headers that count (`effSort req`: those of a request without Stats) and in the
    order of these headers; and every such sort column is either named like a requested column or named
    like one of the added ones — so every sort key can be read from the row lmd builds. -/
theorem extra_sort_columns (t : Table) (req : Request) :
    ((extraSortCols t req).map (·.name)).Nodup ∧
    (∀ c ∈ extraSortCols t req, c.name ∉ (requestColumns t req).map (·.name)) ∧
    (extraSortCols t req).Sublist ((effSort req).filterMap (·.col)) ∧
    (∀ sf ∈ effSort req, ∀ c, sf.col = some c →
      c.name ∈ (requestColumns t req).map (·.name) ∨ c.name ∈ (extraSortCols t req).map (·.name)) :=
  ⟨newSortCols_nodup _ _, newSortCols_not_seen _ _, newSortCols_sublist _ _,
    fun sf hsf c hc => newSortCols_cover _ _ sf c hsf hc⟩

/-- The extra part of the backend column list (sort fields are those that count, `effSort req`): each
    name once; every element is the name of a sort field's column that is backend-side and not among the requested column names; and conversely — when
    sort columns of the same name are the same column, as they are after parsing, where the column is
    looked up by name — every such sort column occurs. -/
theorem extra_backend_columns (t : Table) (req : Request) :
    let extra := ((extraSortCols t req).filter (·.storage != .virt)).map (·.name)
    extra.Nodup ∧
    (∀ e ∈ extra, ∃ sf ∈ effSort req, ∃ c, sf.col = some c ∧ c.storage ≠ .virt ∧ c.name = e ∧
      e ∉ (requestColumns t req).map (·.name)) ∧
    ((∀ sf ∈ effSort req, ∀ sf' ∈ effSort req, ∀ c c', sf.col = some c → sf'.col = some c' → c.name = c'.name → c = c') →
      ∀ sf ∈ effSort req, ∀ c, sf.col = some c → c.storage ≠ .virt →
        c.name ∉ (requestColumns t req).map (·.name) → c.name ∈ extra) := by
  obtain ⟨hnd, hns, hsub, hcov⟩ := extra_sort_columns t req
  have hmemsort : ∀ c ∈ extraSortCols t req, ∃ sf ∈ effSort req, sf.col = some c := by
    intro c hc
    have := hsub.subset hc
    rw [List.mem_filterMap] at this
    exact this
  refine ⟨?_, ?_, ?_⟩
  · exact hnd.sublist ((List.filter_sublist).map _)
  · intro e he
    rw [List.mem_map] at he
    obtain ⟨c, hc, rfl⟩ := he
    rw [List.mem_filter] at hc
    obtain ⟨sf, hsf, hsc⟩ := hmemsort c hc.1
    exact ⟨sf, hsf, c, hsc, by simpa using hc.2, rfl, hns c hc.1⟩
  · intro huniq sf hsf c hc hnv hnr
    rcases hcov sf hsf c hc with h | h
    · exact absurd h hnr
    · rw [List.mem_map] at h
      obtain ⟨d, hd, hdn⟩ := h
      obtain ⟨sf', hsf', hsc'⟩ := hmemsort d hd
      have : d = c := huniq sf' hsf' sf hsf d c hsc' hc hdn
      subst this
      rw [List.mem_map]
      exact ⟨d, List.mem_filter.mpr ⟨hd, by simpa using hnv⟩, rfl⟩

/-- After parsing, a sort field's column is the table's column of the field's name (`SetSortColumns`);
    then sort columns of the same name are the same column, the hypothesis of `extra_backend_columns`. -/
theorem parsed_sort_columns_by_name (t : Table) (sort : List SortField)
    (h : ∀ sf ∈ sort, sf.col = t.col? sf.name) :
    ∀ sf ∈ sort, ∀ sf' ∈ sort, ∀ c c', sf.col = some c → sf'.col = some c' → c.name = c'.name → c = c' := by
  intro sf hsf sf' hsf' c c' hc hc' hn
  rw [h sf hsf] at hc
  rw [h sf' hsf'] at hc'
  have h1 : c.name = sf.name := by simpa using List.find?_some hc
  have h2 : c'.name = sf'.name := by simpa using List.find?_some hc'
  have : sf.name = sf'.name := by rw [← h1, ← h2, hn]
  rw [this] at hc
  rw [hc] at hc'
  exact Option.some.inj hc'

/-! ## 2. who is asked, who failed -/

/-- The backends whose rows are used are exactly the reachable backends whose query succeeded, in the
    order of the backend list, each with its own reply. -/
theorem who_is_asked (peers : List PTPeer) :
    (ptAnswering peers).map (·.1) = peers.filter (fun p => p.online && p.reply.isSome) ∧
    (∀ pr ∈ ptAnswering peers, pr.1 ∈ peers ∧ pr.1.online = true ∧ pr.1.reply = some pr.2) :=
  ⟨ptAnswering_fst peers, ptAnswering_reply peers⟩

/-- The failed map has exactly one entry for every backend that is not used, in order: an unreachable
    backend with its last error, a reachable backend whose query failed with the error of the query; a
    backend that answers has no entry. -/
theorem failed_exact (peers : List PTPeer) :
    ptFailed peers =
      (peers.filter (fun p => !(p.online && p.reply.isSome))).map
        (fun p => (p.id, if !p.online then p.lastError else p.err)) :=
  ptFailed_eq peers

/-- Every backend is either used or in the failed map, never both: the two lists together have one entry
    per backend, a backend is used exactly if it is reachable and answered, and it is reported as failed
    otherwise. -/
theorem answering_or_failed (peers : List PTPeer) :
    (ptAnswering peers).length + (ptFailed peers).length = peers.length ∧
    (∀ p ∈ peers, (p ∈ (ptAnswering peers).map (·.1) ↔ (p.online && p.reply.isSome) = true)) ∧
    (∀ p ∈ peers, (p.online && p.reply.isSome) = false →
      (p.id, if !p.online then p.lastError else p.err) ∈ ptFailed peers) := by
  refine ⟨?_, ?_, ?_⟩
  · have h1 : (ptAnswering peers).length = (peers.filter answers).length := by
      rw [← ptAnswering_fst, List.length_map]
    rw [h1, ptFailed_eq, List.length_map]
    clear h1
    induction peers with
    | nil => rfl
    | cons p ps ih =>
      cases h : answers p <;> simp only [List.filter_cons, h, Bool.not_false, Bool.not_true, if_true,
        Bool.false_eq_true, if_false, List.length_cons] <;> omega
  · intro p hp
    rw [ptAnswering_fst, List.mem_filter]
    simp [answers, hp]
  · intro p hp hna
    rw [ptFailed_eq, List.mem_map]
    exact ⟨p, List.mem_filter.mpr ⟨hp, by simp [answers, hna]⟩, rfl⟩

/-- A backend that fails does not change what the others contribute: rows, sort keys, total and window of
    a data request and the groups and the skipped count of a Stats request are those of the request sent
    to the answering backends alone — whose failed map is empty. -/
theorem failing_peer_no_influence (t : Table) (req : Request) (peers : List PTPeer) :
    let ok := peers.filter (fun p => p.online && p.reply.isSome)
    (ptData t req peers).rows = (ptData t req ok).rows ∧
    (ptData t req peers).keys = (ptData t req ok).keys ∧
    (ptData t req peers).total = (ptData t req ok).total ∧
    (ptData t req peers).window = (ptData t req ok).window ∧
    (ptStats t req peers).rows = (ptStats t req ok).rows ∧
    (ptStats t req peers).skipped = (ptStats t req ok).skipped ∧
    ptFailed ok = [] := by
  have hsp : spliced t req (peers.filter answers) = spliced t req peers := by
    unfold spliced; rw [ptAnswering_filter]
  have hck : cutKeyed t req (peers.filter answers) = cutKeyed t req peers := by
    unfold cutKeyed sortedKeyed keyed; rw [hsp]
  have hsf : statsFold t req (peers.filter answers) = statsFold t req peers := by
    unfold statsFold; rw [hsp]
  have hf : ptFailed (peers.filter answers) = [] := by
    rw [ptFailed_eq, List.filter_filter]
    simp
  refine ⟨?_, ?_, ?_, ?_, ?_, ?_, hf⟩
  · show (ptData t req peers).rows = (ptData t req (peers.filter answers)).rows
    rw [ptData_eq, ptData_eq, hck]
  · show (ptData t req peers).keys = (ptData t req (peers.filter answers)).keys
    rw [ptData_eq, ptData_eq, hck]
  · show (ptData t req peers).total = (ptData t req (peers.filter answers)).total
    rw [ptData_eq, ptData_eq, hck]
  · show (ptData t req peers).window = (ptData t req (peers.filter answers)).window
    rw [ptData_eq, ptData_eq, hck]
  · show (ptStats t req peers).rows = (ptStats t req (peers.filter answers)).rows
    rw [ptStats_eq, ptStats_eq, hsf]
  · show (ptStats t req peers).skipped = (ptStats t req (peers.filter answers)).skipped
    rw [ptStats_eq, ptStats_eq, hsf]

/-- In particular, putting a backend that is down or whose query fails anywhere into the backend list
    changes neither the rows nor the window nor the Stats groups; it only adds its entry to the failed map. -/
theorem failing_peer_inserted (t : Table) (req : Request) (a b : List PTPeer) (p : PTPeer)
    (hp : (p.online && p.reply.isSome) = false) :
    (ptData t req (a ++ p :: b)).rows = (ptData t req (a ++ b)).rows ∧
    (ptData t req (a ++ p :: b)).window = (ptData t req (a ++ b)).window ∧
    (ptStats t req (a ++ p :: b)).rows = (ptStats t req (a ++ b)).rows ∧
    ptFailed (a ++ p :: b) = ptFailed a ++ (p.id, if !p.online then p.lastError else p.err) :: ptFailed b := by
  have hf : (a ++ p :: b).filter (fun p => p.online && p.reply.isSome) =
      (a ++ b).filter (fun p => p.online && p.reply.isSome) := by
    simp [hp]
  have h1 := failing_peer_no_influence t req (a ++ p :: b)
  have h2 := failing_peer_no_influence t req (a ++ b)
  simp only [hf] at h1
  refine ⟨h1.1.trans h2.1.symm, h1.2.2.2.1.trans h2.2.2.2.1.symm, h1.2.2.2.2.1.trans h2.2.2.2.2.1.symm, ?_⟩
  have : ptFailed [p] = [(p.id, if !p.online then p.lastError else p.err)] := by
    unfold ptFailed
    cases ho : p.online <;> cases hr : p.reply <;> simp_all
  rw [show a ++ p :: b = a ++ ([p] ++ b) from rfl, ptFailed_append, ptFailed_append, this]
  rfl

/-! ## 3. the reply rows -/

/-- The LMD-side values: `peer_key` is the backend's id, `peer_name` its name. -/
theorem virtual_values (peer : PTPeer) (c : Column) :
    (c.name = "peer_key" → ptVirtual peer c = .str peer.id) ∧
    (c.name = "peer_name" → ptVirtual peer c = .str peer.name) := by
  constructor
  · intro h; simp [ptVirtual, h]
  · intro h; simp [ptVirtual, h]

/-- A reply row that has one cell per backend column becomes, after the LMD-side values have been
    inserted one after the other, the weave of the row lmd builds: walking along the requested columns and
    then the added sort columns, every LMD-side column holds lmd's value and every other column the next
    backend cell. -/
theorem splice_eq_weave (t : Table) (req : Request) (peer : PTPeer) (brow : List Json)
    (h : brow.length = (ptPlan t req).backendCols.length) :
    spliceRow peer (ptPlan t req).virtuals brow = weave peer (allCols t req) brow := by
  have hp := ptPlan_planOf t req
  rw [hp.virtuals]
  apply spliceRow_virtualsOf
  rw [nv_eq_length_backendOf, ← hp.backend, h]
  exact Nat.le_refl _

/-- Positions in the spliced row: it has one cell per column of the row lmd builds; at the position of an
    LMD-side column stands lmd's value for this backend (peer_key ↦ its id, peer_name ↦ its name), at the
    position of any other column stands the backend cell whose number is the count of backend-side columns
    before that position — so backend values keep their order, also when a column is requested twice. -/
theorem splice_positions (t : Table) (req : Request) (peer : PTPeer) (brow : List Json)
    (h : brow.length = (ptPlan t req).backendCols.length) :
    let row := spliceRow peer (ptPlan t req).virtuals brow
    row.length = (allCols t req).length ∧
    ∀ (i : Nat) (c : Column), (allCols t req)[i]? = some c →
      row[i]? = if c.storage == .virt then some (ptVirtual peer c) else brow[nv ((allCols t req).take i)]? := by
  have hp := ptPlan_planOf t req
  have hnv : nv (allCols t req) = brow.length := by
    rw [nv_eq_length_backendOf, ← hp.backend, h]
  rw [splice_eq_weave t req peer brow h]
  refine ⟨?_, ?_⟩
  · rw [weave_length _ _ _ (by omega)]; omega
  · intro i c hc
    exact weave_getElem? peer _ brow (by omega) i c hc

/-- The same for the requested columns alone: position `i` of the spliced row belongs to the `i`-th
    requested column; the added sort columns stand behind position `cols.length`, and there are none when
    no `Sort:` header counts (no Sort, or a Stats request). -/
theorem splice_requested_positions (t : Table) (req : Request) (peer : PTPeer) (brow : List Json)
    (h : brow.length = (ptPlan t req).backendCols.length) :
    let cols := requestColumns t req
    let row := spliceRow peer (ptPlan t req).virtuals brow
    cols.length ≤ row.length ∧
    (effSort req = [] → row.length = cols.length) ∧
    ∀ (i : Nat) (c : Column), cols[i]? = some c →
      row[i]? = if c.storage == .virt then some (ptVirtual peer c) else brow[nv (cols.take i)]? := by
  obtain ⟨hlen, hpos⟩ := splice_positions t req peer brow h
  refine ⟨?_, ?_, ?_⟩
  · rw [hlen]; simp [allCols]
  · intro hs; rw [hlen, allCols_of_effSort_nil t req hs]
  · intro i c hc
    have hi : i < (requestColumns t req).length := by
      rcases Nat.lt_or_ge i (requestColumns t req).length with h | h
      · exact h
      · rw [List.getElem?_eq_none h] at hc; cases hc
    have hc' : (allCols t req)[i]? = some c := by
      rw [allCols, List.getElem?_append_left hi]; exact hc
    have ht : (allCols t req).take i = (requestColumns t req).take i := by
      rw [allCols, List.take_append_of_le_length (by omega)]
    rw [hpos i c hc', ht]

/-- With a `Sort:` header the spliced row is cut to the requested width before it is answered; what
    remains is the weave of the requested columns alone with the first backend cells: the sort columns
    that were fetched in addition are gone.  (The hypothesis excludes only a data request with a Sort but
    without any requested column; where no `Sort:` header counts nothing was added and nothing is lost.) -/
theorem splice_cut (t : Table) (req : Request) (peer : PTPeer) (brow : List Json)
    (h : brow.length = (ptPlan t req).backendCols.length)
    (hw : 0 < (requestColumns t req).length ∨ effSort req = []) :
    cutRow t req (spliceRow peer (ptPlan t req).virtuals brow) =
      weave peer (requestColumns t req) (brow.take (nv (requestColumns t req))) := by
  have hp := ptPlan_planOf t req
  have hnv : nv (allCols t req) = brow.length := by
    rw [nv_eq_length_backendOf, ← hp.backend, h]
  rw [splice_eq_weave t req peer brow h]
  unfold cutRow
  by_cases hs : effSort req = []
  · have hnv' : nv (requestColumns t req) = brow.length := by
      rw [← hnv, allCols_of_effSort_nil t req hs]
    have hlen : (weave peer (requestColumns t req) brow).length = (requestColumns t req).length := by
      rw [weave_length _ _ _ (by omega)]; omega
    rw [allCols_of_effSort_nil t req hs, hnv', List.take_length]
    split
    · rfl
    · split
      · rw [← hlen, List.take_length]
      · rfl
  · have hw' : 0 < (requestColumns t req).length := by
      rcases hw with h | h
      · exact h
      · exact absurd h hs
    have hse : req.sort.isEmpty = false := by
      cases hq : req.sort with
      | nil => exact absurd (effSort_of_sort_nil req hq) hs
      | cons _ _ => rfl
    simp only [hse, Bool.false_eq_true, if_false, gt_iff_lt, hw', if_true]
    rw [allCols]
    apply weave_append_take
    have : nv (allCols t req) = nv (requestColumns t req) + nv (extraSortCols t req) := by
      rw [allCols, nv_append]
    omega

/-! ## 4. nothing lost, nothing invented -/

/-- A row is a spliced row exactly if it is the spliced form of a reply row of an answering backend. -/
theorem mem_spliced (t : Table) (req : Request) (peers : List PTPeer) (r : List Json) :
    r ∈ spliced t req peers ↔
      ∃ p rows brow, (p, rows) ∈ ptAnswering peers ∧ brow ∈ rows ∧ r = spliceRow p (ptPlan t req).virtuals brow := by
  simp only [spliced, List.mem_flatMap, List.mem_map]
  constructor
  · rintro ⟨⟨p, rows⟩, hpr, brow, hb, rfl⟩
    exact ⟨p, rows, brow, hpr, hb, rfl⟩
  · rintro ⟨p, rows, brow, hpr, hb, rfl⟩
    exact ⟨(p, rows), hpr, brow, hb, rfl⟩

/-- The rows of the merged result are a permutation of the spliced reply rows of all answering backends
    (cut to the requested width when a Sort is given): nothing is lost and nothing invented, `total` is
    their number, every row has its sort keys; without Limit and Offset the answered window is all rows. -/
theorem merge_complete (t : Table) (req : Request) (peers : List PTPeer) :
    let d := ptData t req peers
    d.rows.Perm ((spliced t req peers).map (cutRow t req)) ∧
    d.total = (spliced t req peers).length ∧ d.rows.length = d.total ∧ d.keys.length = d.total ∧
    (d.keys.zip d.rows).Perm ((spliced t req peers).map fun r => (ptKeys req (ptPlan t req) r, cutRow t req r)) ∧
    (req.limit = none → req.offset = 0 → d.window = d.rows) := by
  have hperm := cutKeyed_perm t req peers
  rw [ptData_eq]
  refine ⟨?_, ?_, ?_, ?_, ?_, ?_⟩
  · have := hperm.map (·.2)
    simpa [Function.comp_def] using this
  · simpa using hperm.length_eq
  · simp
  · simp
  · have hz : ((cutKeyed t req peers).map (·.1)).zip ((cutKeyed t req peers).map (·.2)) = cutKeyed t req peers := by
      rw [List.zip_map_left, List.zip_map_right]
      induction cutKeyed t req peers with
      | nil => rfl
      | cons x xs ih => simp [ih]
    simp only [hz]
    exact hperm
  · intro hl ho
    simp [windowOf, hl, ho]

/-- Without a Sort the rows are the spliced reply rows themselves, backend after backend in the order
    of the backend list, each backend's rows in the order it sent them. -/
theorem merge_unsorted (t : Table) (req : Request) (peers : List PTPeer) (h : req.sort = []) :
    (ptData t req peers).rows = spliced t req peers := by
  rw [ptData_eq]
  simp [cutKeyed_of_sort_nil t req peers h, keyed, Function.comp_def]

/-! ## 5. the order -/

/-- The row order of the merge is total: of two key lists one may always stand before the other. -/
theorem ptLe_total (descs : List Bool) (a b : List PKey) : ptLe descs a b = true ∨ ptLe descs b a = true :=
  Lmd.PT.ptLe_total descs a b

/-- Well-formedness of key lists: the same length and the same constructor (number, text, other) at
    every position. -/
def SameShape (a b : List PKey) : Prop := a.map ktag = b.map ktag

/-- On key lists of the same shape the row order is transitive, for every choice of directions. -/
theorem ptLe_trans (descs : List Bool) (a b c : List PKey) (hab : SameShape a b) (hbc : SameShape b c)
    (h1 : ptLe descs a b = true) (h2 : ptLe descs b c = true) : ptLe descs a c = true :=
  Lmd.PT.ptLe_trans descs a b c hab hbc h1 h2

/-- Without the shape hypothesis transitivity fails: a column type without an order compares equal to
    everything and would glue 2 before 1. -/
example : ptLe [false] [.num 2] [.any] = true ∧ ptLe [false] [.any] [.num 1] = true ∧
    ptLe [false] [.num 2] [.num 1] = false := by decide

/-- The keys of all rows of one request have the same shape, whatever the rows contain: the constructor
    at a position is decided by the type of the sort column. -/
theorem keys_same_shape (req : Request) (p : PTPlan) (row row' : List Json) :
    SameShape (ptKeys req p row) (ptKeys req p row') :=
  ptKeys_shape req p row row'

/-- The merged rows are ordered by the Sort keys: in the list of keys every earlier key list may stand
    before every later one in the order `ptLe` of the requested directions. -/
theorem merge_sorted (t : Table) (req : Request) (peers : List PTPeer) :
    (ptData t req peers).keys.Pairwise
      (fun a b => ptLe ((req.sort.filter (·.col.isSome)).map (·.desc)) a b = true) := by
  rw [ptData_eq]
  simp only [cutKeyed_keys]
  rw [List.pairwise_map]
  exact sortedKeyed_pairwise t req peers

/-- Where the sort keys are read: lmd records one position per sort field that counts (`effSort req`)
    and has a column, and every position points at a column of the built row that is named like the sort
    field's column — a requested column of that name if there is one, else the added sort column.  (For a
    Stats request no sort field counts and no position is recorded.) -/
theorem sort_key_column (t : Table) (req : Request) :
    ((effSort req).filter (·.col.isSome)).length = (ptPlan t req).sortIdx.length ∧
    ∀ (k : Nat) (sf : SortField) (j : Nat), ((effSort req).filter (·.col.isSome))[k]? = some sf →
      (ptPlan t req).sortIdx[k]? = some j →
      ∃ c c', sf.col = some c ∧ (allCols t req)[j]? = some c' ∧ c'.name = c.name :=
  (allPoint_iff _ _ _).mp (ptPlan_sortIdx t req)

/-- The same for a request without Stats — the only kind the sorted merge is used for — in the terms of
    the merge: the sort fields `ptKeys` pairs with the recorded positions are the `Sort:` headers (with a
    column) of the request, there is exactly one position per field, and the key of field `k` is read from
    a column named like the field's column. -/
theorem sort_key_column_data (t : Table) (req : Request) (hst : req.stats = []) :
    (req.sort.filter (·.col.isSome)).length = (ptPlan t req).sortIdx.length ∧
    (∀ (k : Nat) (sf : SortField) (j : Nat), (req.sort.filter (·.col.isSome))[k]? = some sf →
      (ptPlan t req).sortIdx[k]? = some j →
      ∃ c c', sf.col = some c ∧ (allCols t req)[j]? = some c' ∧ c'.name = c.name) ∧
    (∀ row, (ptKeys req (ptPlan t req) row).length = (req.sort.filter (·.col.isSome)).length) ∧
    (∀ (row : List Json) (k : Nat) (sf : SortField) (j : Nat), (req.sort.filter (·.col.isSome))[k]? = some sf →
      (ptPlan t req).sortIdx[k]? = some j →
      (ptKeys req (ptPlan t req) row)[k]? =
        some (ptKeyOf ((sf.col.map (·.dtype)).getD .str) (row.getD j Json.null))) := by
  have h := sort_key_column t req
  rw [effSort_of_stats_nil req hst] at h
  refine ⟨h.1, h.2, ?_, ?_⟩
  · intro row
    simp [ptKeys, h.1]
  · intro row k sf j hsf hj
    have hz : ((req.sort.filter (·.col.isSome)).zip (ptPlan t req).sortIdx)[k]? = some (sf, j) :=
      List.getElem?_zip_eq_some.mpr ⟨hsf, hj⟩
    simp only [ptKeys, List.getElem?_map, hz, Option.map_some]

/-! ## 6. Limit and Offset -/

/-- With Limit and Offset the answered window is the contiguous segment of the sorted rows that starts
    behind `offset` rows and has at most `limit` rows (empty when the offset exceeds the total); every
    row of it is one of the merged rows, hence a genuine (cut) spliced reply row of an answering backend. -/
theorem window_genuine (t : Table) (req : Request) (peers : List PTPeer) :
    let d := ptData t req peers
    d.window = (match req.limit with
      | some n => (d.rows.drop req.offset).take n
      | none => d.rows.drop req.offset) ∧
    (∀ n, req.limit = some n → d.window.length ≤ n) ∧
    (req.offset ≥ d.total → d.window = []) ∧
    d.window.Sublist d.rows ∧
    (∀ r ∈ d.window, ∃ r' ∈ spliced t req peers, r = cutRow t req r') := by
  have hwin : (ptData t req peers).window = (match req.limit with
      | some n => ((ptData t req peers).rows.drop req.offset).take n
      | none => (ptData t req peers).rows.drop req.offset) := by
    rw [ptData_eq]
    simp only [windowOf]
    cases req.limit <;> simp [List.map_take, List.map_drop]
  have hsub : (ptData t req peers).window.Sublist (ptData t req peers).rows := by
    rw [hwin]
    cases req.limit with
    | none => exact List.drop_sublist _ _
    | some n => exact (List.take_sublist _ _).trans (List.drop_sublist _ _)
  refine ⟨hwin, ?_, ?_, hsub, ?_⟩
  · intro n hn
    rw [hwin, hn]
    simp only [List.length_take]
    omega
  · intro ho
    have hlen := (merge_complete t req peers).2.2.1
    rw [hwin]
    have : (ptData t req peers).rows.drop req.offset = [] := List.drop_eq_nil_of_le (by omega)
    cases req.limit <;> simp [this]
  · intro r hr
    have hmem := (merge_complete t req peers).1.subset (hsub.subset hr)
    rw [List.mem_map] at hmem
    obtain ⟨r', hr', rfl⟩ := hmem
    exact ⟨r', hr', rfl⟩

/-! ## 7. Stats rows add up -/

/-- One reply row applied to the accumulators of a group works slot by slot: for a counter the number
    the backend counted (truncated, negative numbers as 0) is added to the counter, for every other kind
    the backend's value is applied once (`Acc.apply` with count 1). -/
theorem apply_one (kinds : List AccKind) (accs : List Acc) (vals : List Json) (i : Nat)
    (k : AccKind) (a : Acc) (v : Json) (hk : kinds[i]? = some k) (ha : accs[i]? = some a) (hv : vals[i]? = some v) :
    (ptApply kinds accs vals)[i]? =
      some (match k with
        | .counter => a.apply (jsonToMilli v) (Int.toNat (milliTrunc (jsonToMilli v)))
        | _ => a.apply (jsonToMilli v) 1) := by
  rw [ptApply_getElem? kinds accs vals i k a v hk ha hv]
  cases k <;> rfl

/-- the Stats values (one list per reply row) of the well-formed spliced rows whose requested columns have
    the text `key`, in order -/
abbrev groupVals (t : Table) (req : Request) (peers : List PTPeer) (key : List String) : List (List Json) :=
  valsOfKey (req.stats.map StatsEntry.accKind) (requestColumns t req).length key (spliced t req peers)

/-- The grouped form: the Stats rows are grouped by the text of the requested columns; rows with equal
    key are added into one group (in order), rows with different keys stay apart: a key has a group
    exactly if some well-formed reply row carries it, no key has two groups, and the group's accumulators
    are the fold of exactly the rows with that key.  Rows of the wrong width are only counted. -/
theorem stats_groups (t : Table) (req : Request) (peers : List PTPeer) :
    let kinds := req.stats.map StatsEntry.accKind
    let ncol := (requestColumns t req).length
    let groups := (statsFold t req peers).1
    (ptStats t req peers).rows =
      (if req.columns.isEmpty && groups.isEmpty then [([], kinds.map Acc.init)] else groups) ∧
    (groups.map (·.1)).Nodup ∧
    (∀ key, glookup groups key =
      if groupVals t req peers key = [] then none
      else some ((groupVals t req peers key).foldl (ptApply kinds) (kinds.map Acc.init))) ∧
    (∀ key, key ∈ groups.map (·.1) ↔
      ∃ r ∈ spliced t req peers, r.length = ncol + kinds.length ∧ (r.take ncol).map ptKeyText = key) ∧
    (ptStats t req peers).skipped =
      ((spliced t req peers).filter (fun r => r.length != ncol + kinds.length)).length := by
  refine ⟨by rw [ptStats_eq], ?_, ?_, ?_, ?_⟩
  · exact (foldl_statsStep _ _ _ ([], 0)).2.2 (by simp [gkeys])
  · intro key
    exact glookup_foldl_statsStep_nil _ _ _ key
  · intro key
    have := gkeys_foldl_statsStep (req.stats.map StatsEntry.accKind) (requestColumns t req).length
      (spliced t req peers) ([], 0) key
    simp only [gkeys, List.map_nil, List.not_mem_nil, false_or] at this
    simpa [goodRow, rowKey, statsFold, gkeys] using this
  · rw [ptStats_eq]
    have := (foldl_statsStep (req.stats.map StatsEntry.accKind) (requestColumns t req).length
      (spliced t req peers) ([], 0)).1
    simp only [Nat.zero_add] at this
    simp only [statsFold, this]
    congr 1

/-- The printed value of every slot of every group: a counter shows the sum of the (truncated,
    non-negative) numbers the backends answered in the rows of that group, a `sum` the sum of their numbers,
    `avg` the sum over the number of rows, `min` / `max` the minimum / maximum (`specFinal`, the arithmetic
    specification of lmd's Stats). -/
theorem group_slot_final (t : Table) (req : Request) (peers : List PTPeer) (key : List String) (accs : List Acc)
    (hg : glookup (statsFold t req peers).1 key = some accs)
    (i : Nat) (kind : AccKind) (hk : (req.stats.map StatsEntry.accKind)[i]? = some kind) :
    ∃ a, accs[i]? = some a ∧
      a.final = slotFinal kind ((groupVals t req peers key).map fun vals => vals.getD i Json.null) := by
  have h := (stats_groups t req peers).2.2.1 key
  rw [hg] at h
  split at h
  · cases h
  · rw [Option.some.inj h]
    exact foldl_ptApply_final _ _ (valsOfKey_length _ _ _ _) i kind hk

/-- what `slotFinal` says, kind by kind -/
theorem slotFinal_cases (cells : List Json) :
    slotFinal .counter cells = ((((cells.map fun v => Int.toNat (milliTrunc (jsonToMilli v))).sum : Nat) : Int), 1) ∧
    slotFinal .sum cells = specFinal .sum (cells.map jsonToMilli) ∧
    slotFinal .avg cells = specFinal .avg (cells.map jsonToMilli) ∧
    slotFinal .min cells = specFinal .min (cells.map jsonToMilli) ∧
    slotFinal .max cells = specFinal .max (cells.map jsonToMilli) :=
  ⟨rfl, rfl, rfl, rfl, rfl⟩

/-- A Stats request without group-by columns: the answer is one row; its accumulators are the fold of
    the Stats values of all well-formed reply rows of all answering backends, so the final value of a
    counter is the sum over the backends of the numbers they answered, the final value of a `sum` is the
    sum of their numbers, and min / max are the minimum / maximum of their values. -/
theorem counters_add_up (t : Table) (req : Request) (peers : List PTPeer)
    (hc : req.columns = []) (hs : req.stats ≠ []) :
    ∃ accs, (ptStats t req peers).rows = [([], accs)] ∧
      accs = (groupVals t req peers []).foldl (ptApply (req.stats.map StatsEntry.accKind))
        ((req.stats.map StatsEntry.accKind).map Acc.init) ∧
      ∀ (i : Nat) (kind : AccKind), (req.stats.map StatsEntry.accKind)[i]? = some kind →
        ∃ a, accs[i]? = some a ∧
          a.final = slotFinal kind ((groupVals t req peers []).map fun vals => vals.getD i Json.null) := by
  have hncol : (requestColumns t req).length = 0 := by
    have : req.stats.isEmpty = false := by simpa using hs
    simp [requestColumns, hc, this]
  obtain ⟨hrows, hnd, hlook, hkeys, _⟩ := stats_groups t req peers
  refine ⟨_, ?_, rfl, fun i kind hk => foldl_ptApply_final _ _ (valsOfKey_length _ _ _ _) i kind hk⟩
  have hall : ∀ k ∈ gkeys (statsFold t req peers).1, k = [] := by
    intro k hk
    obtain ⟨r, _, _, hr⟩ := (hkeys k).mp hk
    rw [← hr, hncol]; rfl
  rw [hrows]
  rcases groups_single_key _ hall hnd with hg | ⟨a, hg⟩
  · have := hlook []
    rw [hg] at this
    have hv : groupVals t req peers [] = [] := by
      apply Decidable.byContradiction
      intro hne; simp [hne, glookup] at this
    simp [hg, hc, hv]
  · have := hlook []
    rw [hg] at this
    split at this
    · simp [glookup] at this
    · have ha : a = (groupVals t req peers []).foldl (ptApply (req.stats.map StatsEntry.accKind))
          ((req.stats.map StatsEntry.accKind).map Acc.init) := by
        have h0 : glookup [([], a)] [] = some a := rfl
        rw [h0] at this
        exact Option.some.inj this
      rw [hg, ← ha]
      simp

/-- A `Sort:` header of a Stats request changes nothing: the plan is the plan of the request without its
    Sort headers, so the request the backends receive asks for exactly the backend-side requested columns
    (no column is added for a sort key — an added column would change the backends' grouping and the width
    of their reply rows), the request itself is the one sent for the Sort-less request, and the Stats
    result — groups, numbers, skipped count, failed map — is that of the Sort-less request. -/
theorem stats_ignore_sort (t : Table) (req : Request) (peers : List PTPeer) (hs : req.stats ≠ []) :
    ptPlan t req = ptPlan t { req with sort := [] } ∧
    (subRequest req (ptPlan t req)).columns =
      ((requestColumns t req).filter (·.storage != .virt)).map (·.name) ∧
    subRequest req (ptPlan t req) = subRequest { req with sort := [] } (ptPlan t { req with sort := [] }) ∧
    extraSortCols t req = [] ∧
    ptStats t req peers = ptStats t { req with sort := [] } peers := by
  have hp := ptPlan_stats_sort t req hs
  have he : effSort req = [] := effSort_of_stats_ne_nil req hs
  refine ⟨hp, ?_, ?_, ?_, ?_⟩
  · show (ptPlan t req).backendCols = _
    rw [(ptPlan_planOf t req).backend, allCols_of_effSort_nil t req he]
    rfl
  · rw [← hp]; rfl
  · show newSortCols _ (effSort req) = []
    rw [he]; rfl
  · rw [ptStats_eq, ptStats_eq, statsFold_stats_sort t req peers hs]

/-! ## 8. nobody answers -/

/-- An accumulator nothing was applied to prints as zero. -/
theorem init_final (k : AccKind) : (Acc.init k).final = (0, 1) := by
  simp [Acc.final, Acc.init]

/-- If no backend answers, a Stats request without columns yields one row of untouched (zero)
    accumulators — a Stats request with columns yields no row — and the failed map lists every backend. -/
theorem no_answer_zero (t : Table) (req : Request) (peers : List PTPeer)
    (h : ∀ p ∈ peers, (p.online && p.reply.isSome) = false) :
    (ptStats t req peers).rows =
      (if req.columns.isEmpty then [([], (req.stats.map StatsEntry.accKind).map Acc.init)] else []) ∧
    (ptStats t req peers).skipped = 0 ∧
    (ptStats t req peers).failed = peers.map (fun p => (p.id, if !p.online then p.lastError else p.err)) := by
  have hans : ptAnswering peers = [] := by
    rw [ptAnswering_eq]
    have : peers.filter answers = [] := by
      rw [List.filter_eq_nil_iff]; intro p hp; simp [answers, h p hp]
    rw [this]; rfl
  have hsp : spliced t req peers = [] := by simp [spliced, hans]
  have hsf : statsFold t req peers = ([], 0) := by simp [statsFold, hsp]
  have hf : ptFailed peers = peers.map failedEntry := by
    rw [ptFailed_eq]
    congr 1
    rw [List.filter_eq_self]
    intro p hp; simp [answers, h p hp]
  rw [ptStats_eq, hsf]
  refine ⟨?_, rfl, hf⟩
  cases req.columns.isEmpty <;> rfl

/-- If no backend answers, a data request yields no rows, total 0 and an empty window; the failed map
    lists every backend. -/
theorem no_answer_data (t : Table) (req : Request) (peers : List PTPeer)
    (h : ∀ p ∈ peers, (p.online && p.reply.isSome) = false) :
    (ptData t req peers).rows = [] ∧ (ptData t req peers).total = 0 ∧ (ptData t req peers).window = [] ∧
    (ptData t req peers).failed = peers.map (fun p => (p.id, if !p.online then p.lastError else p.err)) := by
  have hans : ptAnswering peers = [] := by
    rw [ptAnswering_eq]
    have : peers.filter answers = [] := by
      rw [List.filter_eq_nil_iff]; intro p hp; simp [answers, h p hp]
    rw [this]; rfl
  have hsp : spliced t req peers = [] := by simp [spliced, hans]
  have hck : cutKeyed t req peers = [] := by
    simp [cutKeyed, sortedKeyed, keyed, hsp]
  have hf : ptFailed peers = peers.map failedEntry := by
    rw [ptFailed_eq]
    congr 1
    rw [List.filter_eq_self]
    intro p hp; simp [answers, h p hp]
  rw [ptData_eq, hck]
  refine ⟨rfl, rfl, ?_, hf⟩
  simp only [windowOf]
  cases req.limit <;> simp

/-! ## 9. non-vacuity: a log query over three backends, one of them down -/

namespace Ex

def cPeerKey : Column := { name := "peer_key", dtype := .str, storage := .virt }
def cPeerName : Column := { name := "peer_name", dtype := .str, storage := .virt }
def cTime : Column := { name := "time", dtype := .int, storage := .loc }
def cClass : Column := { name := "class", dtype := .int, storage := .loc }
def cState : Column := { name := "state", dtype := .int, storage := .loc }
def cMessage : Column := { name := "message", dtype := .str, storage := .loc }
def logT : Table :=
  { name := "log", cols := [cTime, cClass, cState, cMessage, cPeerKey, cPeerName], passthrough := true }

def n (i : Int) : Json := .num ⟨i, 0⟩

/-- `Columns: peer_key time peer_name message` + `Sort: time desc` -/
def req1 : Request :=
  { table := "log", columns := ["peer_key", "time", "peer_name", "message"],
    sort := [{ name := "time", desc := true, col := some cTime }] }

/-- `Columns: peer_key message` + `Sort: time desc`: the sort column is fetched in addition -/
def req2 : Request :=
  { table := "log", columns := ["peer_key", "message"],
    sort := [{ name := "time", desc := true, col := some cTime }] }

def peerA : PTPeer :=
  { id := "a", name := "Alpha", online := true, reply := some [[n 10, .str "x"], [n 30, .str "y"]] }
def peerB : PTPeer := { id := "b", name := "Beta", online := true, reply := some [[n 20, .str "z"]] }
def peerC : PTPeer := { id := "c", name := "Gamma", online := false, lastError := "connection refused", reply := none }

def rowA1 : List Json := [.str "a", n 10, .str "Alpha", .str "x"]
def rowA2 : List Json := [.str "a", n 30, .str "Alpha", .str "y"]
def rowB1 : List Json := [.str "b", n 20, .str "Beta", .str "z"]

/-- what the backends are asked for -/
example : (subRequest req1 (ptPlan logT req1)).columns = ["time", "message"] := by decide
example : (subRequest req2 (ptPlan logT req2)).columns = ["message", "time"] ∧ extraSortCols logT req2 = [cTime] ∧
    (ptPlan logT req2).sortIdx = [2] := by decide
example : requestColumns logT req1 = [cPeerKey, cTime, cPeerName, cMessage] := by decide

/-- the hypothesis of the splice theorems holds for the reply rows of the example -/
example : [n 10, Json.str "x"].length = (ptPlan logT req1).backendCols.length := by decide
example : spliceRow peerA (ptPlan logT req1).virtuals [n 10, .str "x"] = rowA1 := by rfl
/-- the sort column that was fetched in addition stands behind the requested columns and is cut -/
example : spliceRow peerB (ptPlan logT req2).virtuals [.str "z", n 20] = [.str "b", .str "z", n 20] ∧
    cutRow logT req2 [.str "b", .str "z", n 20] = [.str "b", .str "z"] := ⟨by rfl, by rfl⟩

/-- who answers, who failed -/
example : (ptAnswering [peerA, peerC, peerB]).map (·.1.id) = ["a", "b"] ∧
    ptFailed [peerA, peerC, peerB] = [("c", "connection refused")] := by decide

/-- the spliced rows with their keys, before the sort -/
theorem keyed1 : keyed logT req1 [peerA, peerC, peerB] =
    [([.num 10000], rowA1), ([.num 30000], rowA2), ([.num 20000], rowB1)] := by rfl

/-- the merged, sorted rows (`time` descending) -/
theorem cutKeyed1 : cutKeyed logT req1 [peerA, peerC, peerB] =
    [([.num 30000], rowA2), ([.num 20000], rowB1), ([.num 10000], rowA1)] := by
  have h1 : ptLe [true] [.num 10000] [.num 30000] = false := by decide
  have h2 : ptLe [true] [.num 30000] [.num 20000] = true := by decide
  have h3 : ptLe [true] [.num 10000] [.num 20000] = false := by decide
  have hd : descsOf req1 = [true] := by decide
  have hs : req1.sort.isEmpty = false := by decide
  have hw : (requestColumns logT req1).length = 4 := by decide
  simp [cutKeyed, sortedKeyed, keyed1, hd, hs, List.mergeSort, List.MergeSort.Internal.splitInTwo, h1, h2, h3,
    cutRow, hw, rowA1, rowA2, rowB1]

example : (ptData logT req1 [peerA, peerC, peerB]).rows = [rowA2, rowB1, rowA1] ∧
    (ptData logT req1 [peerA, peerC, peerB]).keys = [[.num 30000], [.num 20000], [.num 10000]] ∧
    (ptData logT req1 [peerA, peerC, peerB]).total = 3 ∧
    (ptData logT req1 [peerA, peerC, peerB]).failed = [("c", "connection refused")] := by
  rw [ptData_eq, cutKeyed1]
  exact ⟨rfl, rfl, rfl, by decide⟩

/-- `Limit: 1` + `Offset: 1` answers the second row -/
example : (ptData logT { req1 with limit := some 1, offset := 1 } [peerA, peerC, peerB]).window = [rowB1] := by
  have h : cutKeyed logT { req1 with limit := some 1, offset := 1 } [peerA, peerC, peerB] =
      cutKeyed logT req1 [peerA, peerC, peerB] := rfl
  rw [ptData_eq, h, cutKeyed1]
  rfl

/-- `Stats: class = 1` + `Stats: sum state` -/
def reqS : Request :=
  { table := "log",
    stats := [.counter (.leaf { col := cClass, op := .eq, sval := "1", num := 1000 } false), .agg .sum cState false] }

def peerSA : PTPeer := { id := "a", name := "Alpha", online := true, reply := some [[n 3, n 5]] }
def peerSB : PTPeer := { id := "b", name := "Beta", online := true, reply := some [[n 4, n 7]] }

/-- the counters 3 and 4 add up to 7, the sums 5 and 7 to 12 (in milli units) -/
example : (ptStats logT reqS [peerSA, peerC, peerSB]).rows =
    [([], [{ kind := .counter, stats := 7, count := 7 }, { kind := .sum, stats := 12000, count := 2 }])] ∧
    (ptStats logT reqS [peerSA, peerC, peerSB]).skipped = 0 := by decide

example : ptApply [.counter, .sum] [Acc.init .counter, Acc.init .sum] [n 3, n 5] =
    [{ kind := .counter, stats := 3, count := 3 }, { kind := .sum, stats := 5000, count := 1 }] := by decide

example : reqS.columns = [] ∧ reqS.stats ≠ [] := ⟨rfl, by simp [reqS]⟩

example : slotFinal .counter [n 3, n 4] = (7, 1) ∧ slotFinal .sum [n 5, n 7] = (12000, 1) ∧
    slotFinal .min [n 5, n 7] = (5000, 1) ∧ slotFinal .max [n 5, n 7] = (7000, 1) := by decide

/-- grouped: `Columns: class` + `Stats: sum state`; equal keys are added, different keys stay apart -/
def reqG : Request := { table := "log", columns := ["class"], stats := [.agg .sum cState false] }
def peerGA : PTPeer := { id := "a", name := "Alpha", online := true, reply := some [[n 1, n 5], [n 2, n 1]] }
def peerGB : PTPeer := { id := "b", name := "Beta", online := true, reply := some [[n 1, n 7], [n 9]] }

example : (ptStats logT reqG [peerGA, peerGB]).rows =
    [(["1"], [{ kind := .sum, stats := 12000, count := 2 }]), (["2"], [{ kind := .sum, stats := 1000, count := 1 }])] ∧
    (ptStats logT reqG [peerGA, peerGB]).skipped = 1 := by decide

/-- `Stats: class = 1` + `Stats: sum state` + `Sort: time asc`: the Sort header is ignored -/
def reqSS : Request := { reqS with sort := [{ name := "time", desc := false, col := some cTime }] }

example : reqSS.stats ≠ [] ∧ reqSS.sort ≠ [] := ⟨by simp [reqSS, reqS], by simp [reqSS]⟩
example : effSort reqSS = [] ∧ effSort req2 = req2.sort := ⟨rfl, rfl⟩
example : (subRequest reqSS (ptPlan logT reqSS)).columns = [] ∧ (ptPlan logT reqSS).sortIdx = [] ∧
    ptPlan logT reqSS = ptPlan logT reqS := ⟨by decide, by decide, rfl⟩
example : (ptStats logT reqSS [peerSA, peerC, peerSB]).rows =
    [([], [{ kind := .counter, stats := 7, count := 7 }, { kind := .sum, stats := 12000, count := 2 }])] ∧
    (ptStats logT reqSS [peerSA, peerC, peerSB]).skipped = 0 := by decide
/-- grouped, with `Sort: time asc`: only the group-by column is asked for -/
example : (subRequest { reqG with sort := reqSS.sort } (ptPlan logT { reqG with sort := reqSS.sort })).columns =
    ["class"] := by decide

/-- nobody answers -/
example : (ptStats logT reqS [peerC]).rows = [([], [Acc.init .counter, Acc.init .sum])] ∧
    (ptData logT req1 [peerC]).rows = [] ∧ (ptData logT req1 [peerC]).failed = [("c", "connection refused")] := by
  refine ⟨by decide, ?_, by decide⟩
  exact (no_answer_data logT req1 [peerC] (by decide)).1

end Ex

end Lmd.C16
