/-
  C16 — pass-through tables are forwarded and merged faithfully.  (theorems: see below)
-/
import Lmd.Passthrough

namespace Lmd.C16

end Lmd.C16
