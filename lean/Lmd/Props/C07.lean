/-
  C07 — query optimisations never change the answer.
  Index pre-selection (`TryFilterIndex` / `GetPreFilteredData`), filter un-nesting
  (`optimizeFilterIndentation`) and the regular-expression heuristic (`hasRegexpCharacters`).
  Property theorems only; helper lemmas live in Lmd/Lemmas.
-/
import Lmd.Props.C01
import Lmd.Lemmas.Index

namespace Lmd.C07

open Lmd.Lemmas

/-! ## Index pre-selection -/

/-- Heart of index soundness, generic in the leaf function `f` and for one fixed row with index key `k`:
    `sat` says which filter terms the row satisfies.  If every term of the filter that the index can use
    and that the row satisfies lists `k`, and `TryFilterIndex` succeeds on the request's filter list with
    `keys`, then a row satisfying all filters has its key in `keys` - for any nesting depth of And/Or
    groups (negated nodes make the index unusable, an And group needs one usable member, an Or group
    needs all members usable). -/
theorem tryIndex_superset (f : Leaf → Option (List String)) (sat : Leaf → Bool) (k : String)
    (fs : List Filter) (keys : List String)
    (hleaf : ∀ l ∈ leavesOfList fs, ∀ ks, f l = some ks → sat l = true → k ∈ ks)
    (hidx : tryIndexGroup f false fs = some keys) (hsat : semAllG sat fs = true) : k ∈ keys :=
  tryIndexGroup_sound f sat k fs keys hleaf hidx hsat

/-- The same for an Or group (`breakOnNone = true`): the key of a row satisfying at least one member is listed. -/
theorem tryIndex_superset_or (f : Leaf → Option (List String)) (sat : Leaf → Bool) (k : String)
    (fs : List Filter) (found n : Nat) (keys : List String)
    (hleaf : ∀ l ∈ leavesOfList fs, ∀ ks, f l = some ks → sat l = true → k ∈ ks)
    (hidx : tryIndex f true fs found = some (n, keys)) (hsat : semAnyG sat fs = true) : k ∈ keys :=
  (tryIndex_sound f sat k fs true found n keys hleaf hidx).2.2 rfl hsat

/-- `tryIndex_superset` for the real filter semantics: `sat` is leaf matching on the row's view and the
    filter list is satisfied in the sense of `semList`. -/
theorem tryIndex_superset_sem (q : Quirks) (v : View) (f : Leaf → Option (List String)) (k : String)
    (fs : List Filter) (keys : List String)
    (hleaf : ∀ l ∈ leavesOfList fs, ∀ ks, f l = some ks → matchLeaf q v l = true → k ∈ ks)
    (hidx : tryIndexGroup f false fs = some keys) (hsat : semList q v fs = true) : k ∈ keys := by
  apply tryIndex_superset f (matchLeaf q v) k fs keys hleaf hidx
  rw [semAllG_matchLeaf, ← semList_eq_semAll]; exact hsat

/-- non-vacuity: on the demo dataset `Filter: name = a` + `Filter: state = 1` is usable for the host index
    (one usable member of the conjunction suffices) and yields the key list `[a]` -/
example : tryIndexGroup (leafIndexKeys Demo.cx .hosts Demo.hosts) false
    [.leaf (Demo.nameLeaf .eq "a") false, .leaf Demo.stateLeaf false] = some ["a"] := by
  simp [tryIndexGroup, tryIndex, leafIndexKeys, Demo.nameLeaf, Demo.nameCol, Demo.stateLeaf, Demo.stateCol]

/-- non-vacuity: an Or group is usable only if all members are; a negated member makes it unusable -/
example : tryIndexGroup (leafIndexKeys Demo.cx .hosts Demo.hosts) false
    [.grp false [.leaf (Demo.nameLeaf .eq "a") false, .leaf (Demo.nameLeaf .eq "B") false] false] = some ["a", "B"]
  ∧ tryIndexGroup (leafIndexKeys Demo.cx .hosts Demo.hosts) false
    [.grp false [.leaf (Demo.nameLeaf .eq "a") false, .leaf (Demo.nameLeaf .eq "B") true] false] = none := by
  constructor <;> simp [tryIndexGroup, tryIndex, leafIndexKeys, Demo.nameLeaf, Demo.nameCol]

/-- Case-insensitive host look-up: a stored host name `n` that equals `x` under `strings.EqualFold` is found
    in one of the three places the index looks at - `x` itself, its lower-case form, or the names filed
    under that lower-case form. -/
theorem equalFold_mem_lowerIndex_keys (names : List String) (n x : String) (hn : n ∈ names)
    (h : equalFold n x = true) : n ∈ x :: goLower x :: lowerIndex names (goLower x) :=
  mem_lowerIndex_keys hn (equalFold_goLower h)

example : equalFold "ABC" "abc" = true ∧ "ABC" ∈ lowerIndex ["x", "ABC"] (goLower "abc") := by decide

/-- Leaf soundness, hosts table: for `name = x` and `name =~ x` on the table's own string column `name`
    (locally stored and not optional, `StrLeaf`) the keys the leaf contributes contain the name of every
    indexed host row the leaf accepts. -/
theorem leafKeys_hosts_name_sound (q : Quirks) (cx : Ctx) (t : Table) (r : Row) (l : Leaf) (ks : List String)
    (hl : StrLeaf t l) (hn : l.col.name = "name") (ht : t.name = "hosts")
    (hmem : r.str t "name" ∈ hostNames cx)
    (hks : leafIndexKeys cx .hosts t l = some ks) (hm : matchLeaf q (mkView cx t r) l = true) :
    r.str t "name" ∈ ks :=
  leafSound_hosts_name q cx t r l hl hn ht hmem ks hks hm

/-- Leaf soundness, services table: for `host_name = x` (and `host_name ~ x` when the host is a known host)
    on the table's own non-optional string column (`StrLeaf`) the contributed keys contain the host name of
    every service row the leaf accepts. -/
theorem leafKeys_services_host_name_sound (q : Quirks) (cx : Ctx) (t : Table) (r : Row) (l : Leaf) (ks : List String)
    (hl : StrLeaf t l) (hn : l.col.name = "host_name")
    (hmem : l.op = .eq ∨ r.str t "host_name" ∈ hostNames cx)
    (hks : leafIndexKeys cx .services t l = some ks) (hm : matchLeaf q (mkView cx t r) l = true) :
    r.str t "host_name" ∈ ks :=
  leafSound_services_host_name q cx t r l hl hn hmem ks hks hm

/-- Leaf soundness, any table with a one-column primary key: for `key = x` on the table's own non-optional
    string column (`StrLeaf`) the contributed key list contains the key of every row the leaf accepts. -/
theorem leafKeys_primary_sound (q : Quirks) (cx : Ctx) (t : Table) (r : Row) (l : Leaf) (key : String) (ks : List String)
    (hl : StrLeaf t l) (hpk : t.primaryKey = [key])
    (hks : leafIndexKeys cx .primary t l = some ks) (hm : matchLeaf q (mkView cx t r) l = true) :
    r.str t key ∈ ks :=
  leafSound_primary q cx t r l key hl hpk ks hks hm

/-- Leaf soundness, group look-ups on the hosts table (`groups >= g`, `groups ~ pattern`): if the column's
    getter yields the list `gs` on this backend (`ListLeaf`; for an optional column the backend lacks that
    is the empty list), every group in `gs` has a hostgroup row that lists the host as member, and
    hostgroups are keyed by unique names, the members collected from the hostgroups contain the host. -/
theorem leafKeys_hosts_groups_sound (q : Quirks) (cx : Ctx) (t : Table) (r : Row) (l : Leaf) (gs ks : List String)
    (hl : ListLeaf cx t r l gs) (hn : l.col.name = "groups")
    (hg : HostInGroups cx (r.str t "name") gs) (hk : GroupKeyed cx "hostgroups")
    (hks : leafIndexKeys cx .hosts t l = some ks) (hm : matchLeaf q (mkView cx t r) l = true) :
    r.str t "name" ∈ ks :=
  leafSound_hosts_groups q cx t r l gs hl hn hg hk ks hks hm

/-- Leaf soundness for every shape the index can use (`Covered` lists them with their assumptions: `name`,
    `name_lc`, `groups` on hosts; `host_name`, `host_name_lc`, `host_groups`, `groups` on services; the key
    column on single-key tables): the contributed keys contain the index key of every row the leaf accepts. -/
theorem leafIndexKeys_sound (q : Quirks) (cx : Ctx) (t : Table) (r : Row) (kind : IndexKind) (l : Leaf)
    (ks : List String) (hk : indexKind? t = some kind) (hc : Covered cx t r kind l)
    (hks : leafIndexKeys cx kind t l = some ks) (hm : matchLeaf q (mkView cx t r) l = true) :
    indexKey kind t r ∈ ks :=
  covered_sound q cx t r kind l hk hc ks hks hm

/-- The model's recorded data assumption `groupsConsistent` supplies the group hypothesis of the hosts
    table: every stored host is listed by the hostgroups it names. -/
theorem groupsConsistent_hostInGroups (cx : Ctx) (h : groupsConsistent cx.schema cx.b = true)
    (r : Row) (hr : r ∈ cx.b.rows "hosts") :
    HostInGroups cx (r.str (cx.table "hosts") "name") (r.strList "groups") :=
  hostInGroups_of_groupsConsistent cx h r hr

/-- `groupsConsistent` likewise supplies the group hypothesis of the services table: every stored service is
    listed by the servicegroups it names. -/
theorem groupsConsistent_svcInGroups (cx : Ctx) (h : groupsConsistent cx.schema cx.b = true)
    (r : Row) (hr : r ∈ cx.b.rows "services") :
    SvcInGroups cx (r.str (cx.table "services") "host_name") (r.str (cx.table "services") "description")
      (r.strList "groups") :=
  svcInGroups_of_groupsConsistent cx h r hr

/-- non-vacuity: the demo backend satisfies `groupsConsistent`, and host `a` is in group `g` -/
example : groupsConsistent Demo.cx.schema Demo.cx.b = true ∧ Demo.rowA ∈ Demo.cx.b.rows "hosts"
    ∧ Demo.rowA.strList "groups" = ["g"] := ⟨by decide, by simp [Demo.cx, Backend.rows, Demo.backend], rfl⟩

/-- non-vacuity: `Filter: name = a` on the demo hosts table is a well-typed string leaf -/
example : StrLeaf Demo.hosts (Demo.nameLeaf .eq "a") := ⟨by decide, rfl, rfl, rfl, rfl⟩

/-- Completeness of `GetPreFilteredData`.  Assume the rows have pairwise different keys, the hosts /
    services tables have their usual primary keys, and every filter term the index can use is of a
    `Covered` shape for the row (well-typed column plus the data assumption of that shape).  Then every
    stored row that satisfies the filter list is among the candidates.
    Partial: terms on ill-typed or optional columns named like index columns (optional either in the
    leaf's copy of the flags or in the column itself, which the typed getters now consult), and backends
    whose group tables disagree with the `groups` lists, are excluded by `Covered`. -/
theorem preFiltered_complete_partial (q : Quirks) (cx : Ctx) (t : Table) (rows : List Row) (fs : List Filter)
    (r : Row) (hnd : (rows.map (Row.key t)).Nodup) (hshape : KeyShape t) (hr : r ∈ rows)
    (hcov : ∀ kind, indexKind? t = some kind → ∀ l ∈ leavesOfList fs,
      (leafIndexKeys cx kind t l).isSome → Covered cx t r kind l)
    (hs : semList q (mkView cx t r) fs = true) : r ∈ preFiltered cx t rows fs := by
  apply preFiltered_complete_of_leafSound q cx t rows fs r hnd hshape hr _ hs
  intro kind hk l hl
  cases hi : leafIndexKeys cx kind t l with
  | none => exact leafSound_of_none q cx kind t r _ l hi
  | some ks => exact covered_sound q cx t r kind l hk (hcov kind hk l hl (by simp [hi]))

/-- Hence filtering the candidates selects the same rows as filtering the whole store: a row passes the
    filter (and any further test `p`, e.g. authorisation) on the candidate list iff it does on the full list. -/
theorem filter_preFiltered_mem_iff_partial (q : Quirks) (cx : Ctx) (t : Table) (rows : List Row) (fs : List Filter)
    (p : Row → Bool) (hnd : (rows.map (Row.key t)).Nodup) (hshape : KeyShape t)
    (hcov : ∀ r ∈ rows, ∀ kind, indexKind? t = some kind → ∀ l ∈ leavesOfList fs,
      (leafIndexKeys cx kind t l).isSome → Covered cx t r kind l) (r : Row) :
    r ∈ (preFiltered cx t rows fs).filter (fun r => semList q (mkView cx t r) fs && p r) ↔
    r ∈ rows.filter (fun r => semList q (mkView cx t r) fs && p r) := by
  simp only [List.mem_filter, Bool.and_eq_true]
  constructor
  · rintro ⟨hm, hs⟩
    exact ⟨preFiltered_subset cx t rows fs r hm, hs⟩
  · rintro ⟨hm, hs⟩
    exact ⟨preFiltered_complete_partial q cx t rows fs r hnd hshape hm (hcov r hm) hs.1, hs⟩

/-- The per-backend row loop returns the same set of rows with and without index pre-selection (negation
    defect repaired, early cut aside), under the assumptions of `preFiltered_complete_partial` for the
    rows of the store.  Partial: same exclusions as there; the order of the rows is not compared. -/
theorem gatherRows_index_irrelevant_partial (q : Quirks) (pushDown : Bool) (cx : Ctx) (t : Table) (req : Request)
    (hq : q.negOr = false)
    (hnd : ((tableRows cx t).map (Row.key t)).Nodup) (hshape : KeyShape t)
    (hcov : ∀ r ∈ tableRows cx t, ∀ kind, indexKind? t = some kind → ∀ l ∈ leavesOfList req.filter,
      (leafIndexKeys cx kind t l).isSome → Covered cx t r kind l) (r : Row) :
    r ∈ (gatherRows { q := q, useIndex := true, pushDown := pushDown, earlyCut := false } cx t req).hits.map (·.r) ↔
    r ∈ (gatherRows { q := q, useIndex := false, pushDown := pushDown, earlyCut := false } cx t req).hits.map (·.r) := by
  have hrm : ∀ (u : Bool) v fs, rowMatches { q := q, useIndex := u, pushDown := pushDown, earlyCut := false } v fs
      = semList q v fs := by
    intro u v fs
    unfold rowMatches
    split
    · exact C01.matchAll_eq_semList q hq v fs
    · rfl
  have hid : ((fun (x : Hit) => x.r) ∘ fun r => ({ b := cx.b, r := r, keys := req.sort.map (sortKeyOf (mkView cx t r)) } : Hit)) = id := by
    funext r; rfl
  simp only [gatherRows, hrm, Bool.false_eq_true, if_false, if_true, List.map_map, hid, List.map_id]
  exact filter_preFiltered_mem_iff_partial q cx t (tableRows cx t) req.filter (checkAuth cx t req.authUser) hnd hshape hcov r

/-- Under the same assumptions the selected rows with and without index pre-selection are the same up to
    order (no row is returned twice either way); in particular their number - the per-backend total - agrees. -/
theorem filter_preFiltered_perm_partial (q : Quirks) (cx : Ctx) (t : Table) (rows : List Row) (fs : List Filter)
    (p : Row → Bool) (hnd : (rows.map (Row.key t)).Nodup) (hshape : KeyShape t)
    (hcov : ∀ r ∈ rows, ∀ kind, indexKind? t = some kind → ∀ l ∈ leavesOfList fs,
      (leafIndexKeys cx kind t l).isSome → Covered cx t r kind l) :
    ((preFiltered cx t rows fs).filter (fun r => semList q (mkView cx t r) fs && p r)).Perm
      (rows.filter (fun r => semList q (mkView cx t r) fs && p r)) := by
  have hr : rows.Nodup := nodup_of_nodup_keys hnd
  rw [List.perm_ext_iff_of_nodup (List.Pairwise.filter _ (preFiltered_nodup cx t rows fs hr)) (List.Pairwise.filter _ hr)]
  exact filter_preFiltered_mem_iff_partial q cx t rows fs p hnd hshape hcov

/-- If moreover the store is sorted strictly by primary key, filtering the candidates yields exactly the
    same list, order included, as filtering the whole store. -/
theorem filter_preFiltered_eq_sorted_partial (q : Quirks) (cx : Ctx) (t : Table) (rows : List Row) (fs : List Filter)
    (p : Row → Bool) (hsorted : rows.Pairwise (keyLt t)) (hshape : KeyShape t)
    (hcov : ∀ r ∈ rows, ∀ kind, indexKind? t = some kind → ∀ l ∈ leavesOfList fs,
      (leafIndexKeys cx kind t l).isSome → Covered cx t r kind l) :
    (preFiltered cx t rows fs).filter (fun r => semList q (mkView cx t r) fs && p r) =
      rows.filter (fun r => semList q (mkView cx t r) fs && p r) :=
  eq_of_pairwise_of_mem_iff (keyLt_irrefl t) (keyLt_asymm t) _ _
    (List.Pairwise.filter _ (preFiltered_sorted cx t rows fs hsorted)) (List.Pairwise.filter _ hsorted)
    (filter_preFiltered_mem_iff_partial q cx t rows fs p (nodup_of_sorted hsorted) hshape hcov)

/-- On a key-sorted store the per-backend row loop gives the identical result - rows, their order, sort
    keys, total, early cut included - whether or not index pre-selection is used.  Partial: assumptions
    of `preFiltered_complete_partial`, sortedness of the store, negation defect repaired. -/
theorem gatherRows_index_irrelevant_sorted_partial (q : Quirks) (pushDown earlyCut : Bool) (cx : Ctx) (t : Table)
    (req : Request) (hq : q.negOr = false)
    (hsorted : (tableRows cx t).Pairwise (keyLt t)) (hshape : KeyShape t)
    (hcov : ∀ r ∈ tableRows cx t, ∀ kind, indexKind? t = some kind → ∀ l ∈ leavesOfList req.filter,
      (leafIndexKeys cx kind t l).isSome → Covered cx t r kind l) :
    gatherRows { q := q, useIndex := true, pushDown := pushDown, earlyCut := earlyCut } cx t req =
    gatherRows { q := q, useIndex := false, pushDown := pushDown, earlyCut := earlyCut } cx t req := by
  have hrm : ∀ (u : Bool), (fun r => rowMatches { q := q, useIndex := u, pushDown := pushDown, earlyCut := earlyCut }
        (mkView cx t r) req.filter && checkAuth cx t req.authUser r)
      = (fun r => semList q (mkView cx t r) req.filter && checkAuth cx t req.authUser r) := by
    intro u
    funext r
    congr 1
    unfold rowMatches
    split
    · exact C01.matchAll_eq_semList q hq _ _
    · rfl
  have key := filter_preFiltered_eq_sorted_partial q cx t (tableRows cx t) req.filter
    (checkAuth cx t req.authUser) hsorted hshape hcov
  unfold gatherRows
  simp only [hrm, if_true, Bool.false_eq_true, if_false, key]

/-- Without assuming an order of the store: the per-backend total (early cut aside) does not depend on
    index pre-selection. -/
theorem gatherRows_index_total_partial (q : Quirks) (pushDown : Bool) (cx : Ctx) (t : Table) (req : Request)
    (hq : q.negOr = false)
    (hnd : ((tableRows cx t).map (Row.key t)).Nodup) (hshape : KeyShape t)
    (hcov : ∀ r ∈ tableRows cx t, ∀ kind, indexKind? t = some kind → ∀ l ∈ leavesOfList req.filter,
      (leafIndexKeys cx kind t l).isSome → Covered cx t r kind l) :
    (gatherRows { q := q, useIndex := true, pushDown := pushDown, earlyCut := false } cx t req).total =
    (gatherRows { q := q, useIndex := false, pushDown := pushDown, earlyCut := false } cx t req).total := by
  have hrm : ∀ (u : Bool), (fun r => rowMatches { q := q, useIndex := u, pushDown := pushDown, earlyCut := false }
        (mkView cx t r) req.filter && checkAuth cx t req.authUser r)
      = (fun r => semList q (mkView cx t r) req.filter && checkAuth cx t req.authUser r) := by
    intro u
    funext r
    congr 1
    unfold rowMatches
    split
    · exact C01.matchAll_eq_semList q hq _ _
    · rfl
  have key := (filter_preFiltered_perm_partial q cx t (tableRows cx t) req.filter
    (checkAuth cx t req.authUser) hnd hshape hcov).length_eq
  unfold gatherRows
  simp only [hrm, if_true, Bool.false_eq_true, if_false, List.length_map]
  exact key

/-- The code path of today without the early cut (index pre-selection + negation push-down) returns, on a
    key-sorted store, exactly what the specification (full scan, Boolean semantics) returns.
    Partial: assumptions of `preFiltered_complete_partial` and sortedness of the store. -/
theorem gatherRows_code_nocut_eq_spec_sorted_partial (cx : Ctx) (t : Table) (req : Request)
    (hsorted : (tableRows cx t).Pairwise (keyLt t)) (hshape : KeyShape t)
    (hcov : ∀ r ∈ tableRows cx t, ∀ kind, indexKind? t = some kind → ∀ l ∈ leavesOfList req.filter,
      (leafIndexKeys cx kind t l).isSome → Covered cx t r kind l) :
    gatherRows { EvalMode.code Quirks.current with earlyCut := false } cx t req = gatherRows EvalMode.spec cx t req := by
  have h1 := gatherRows_index_irrelevant_sorted_partial Quirks.current true false cx t req rfl hsorted hshape hcov
  have hrm : ∀ v fs, rowMatches { q := Quirks.current, useIndex := false, pushDown := true, earlyCut := false } v fs
      = rowMatches EvalMode.spec v fs := by
    intro v fs
    exact C01.matchAll_eq_semList Quirks.current rfl v fs
  show gatherRows { q := Quirks.current, useIndex := true, pushDown := true, earlyCut := false } cx t req = _
  rw [h1]
  have hf : (fun r => rowMatches { q := Quirks.current, useIndex := false, pushDown := true, earlyCut := false }
        (mkView cx t r) req.filter && checkAuth cx t req.authUser r)
      = (fun r => rowMatches EvalMode.spec (mkView cx t r) req.filter && checkAuth cx t req.authUser r) := by
    funext r; rw [hrm]
  unfold gatherRows
  simp only [hf]
  rfl

/-- non-vacuity of the assumptions of the theorems above: on the demo dataset the store is key-sorted
    (hence has unique keys), the key shape holds, the recorded data assumption `groupsConsistent` holds, and
    both host rows are `Covered` for the request `Filter: name =~ b` / `Filter: state = 1` /
    `Filter: groups >= g` (a string look-up, a term the index ignores, and a group look-up) -/
example :
    (tableRows Demo.cx Demo.hosts).Pairwise (keyLt Demo.hosts) ∧ KeyShape Demo.hosts ∧
    groupsConsistent Demo.cx.schema Demo.cx.b = true ∧
    ∀ r ∈ tableRows Demo.cx Demo.hosts, ∀ kind, indexKind? Demo.hosts = some kind →
      ∀ l ∈ leavesOfList [.leaf (Demo.nameLeaf .eqNc "b") false, .leaf Demo.stateLeaf false, .leaf Demo.groupLeaf false],
        (leafIndexKeys Demo.cx kind Demo.hosts l).isSome → Covered Demo.cx Demo.hosts r kind l := by
  have hsorted : (tableRows Demo.cx Demo.hosts).Pairwise (keyLt Demo.hosts) := by
    have : ((tableRows Demo.cx Demo.hosts).map (Row.key Demo.hosts)).Pairwise (· < ·) := by decide
    rw [List.pairwise_map] at this
    exact this
  have hcons : groupsConsistent Demo.cx.schema Demo.cx.b = true := by decide
  refine ⟨hsorted, ⟨fun _ => rfl, fun h => absurd h (by decide)⟩, hcons, ?_⟩
  intro r hr kind hk l hl hsome
  have hkind : kind = .hosts := by
    have : indexKind? Demo.hosts = some .hosts := by decide
    rw [this] at hk; exact (Option.some.inj hk).symm
  subst hkind
  have hrows : tableRows Demo.cx Demo.hosts = Demo.cx.b.rows "hosts" := rfl
  have hgrp := hostInGroups_of_groupsConsistent Demo.cx hcons r (hrows ▸ hr)
  have hr' : r = Demo.rowB ∨ r = Demo.rowA := by
    simpa [tableRows, Demo.hosts, Demo.cx, Backend.rows, Demo.backend] using hr
  simp only [leavesOfList, leavesOf, List.append_nil, List.cons_append, List.nil_append, List.mem_cons,
    List.not_mem_nil, or_false] at hl
  rcases hl with rfl | rfl | rfl
  · refine Covered.hostsName ⟨by decide, rfl, rfl, rfl, rfl⟩ rfl ?_
    rcases hr' with rfl | rfl <;> decide
  · simp [leafIndexKeys, Demo.stateLeaf, Demo.stateCol] at hsome
  · refine Covered.hostsGroups (gs := r.strList "groups") ?_ rfl hgrp ⟨rfl, by decide⟩
    apply listLeaf_of_local Demo.cx Demo.hosts r Demo.groupLeaf rfl rfl rfl rfl (by decide)
    intro v hv
    rcases hr' with rfl | rfl
    · exact ⟨[], by simpa [Row.cell?, Demo.rowB, Demo.groupLeaf, Demo.groupsCol] using hv.symm⟩
    · exact ⟨["g"], by simpa [Row.cell?, Demo.rowA, Demo.groupLeaf, Demo.groupsCol] using hv.symm⟩

/-- Why the group assumption in `Covered` cannot be dropped: on a backend where host `a` names group `g` but
    no hostgroup `g` exists, the row satisfies `Filter: groups >= g`, yet index pre-selection returns no
    candidate at all - the optimisation changes the answer on inconsistent backend data. -/
theorem preFiltered_incomplete_without_group_consistency :
    Cex.row ∈ tableRows Cex.cx Cex.hosts ∧
    semList Quirks.current (mkView Cex.cx Cex.hosts Cex.row) [.leaf Cex.leaf false] = true ∧
    preFiltered Cex.cx Cex.hosts (tableRows Cex.cx Cex.hosts) [.leaf Cex.leaf false] = [] := by
  refine ⟨by simp [tableRows, Cex.hosts, Cex.cx, Backend.rows, Cex.backend], by decide, ?_⟩
  rw [preFiltered_eq]
  have hk : indexKind? Cex.hosts = some .hosts := by decide
  have hi : tryIndexGroup (leafIndexKeys Cex.cx .hosts Cex.hosts) false [.leaf Cex.leaf false] = some [] := by
    simp [tryIndexGroup, tryIndex, leafIndexKeys, Cex.leaf, Cex.groupsCol, findByKey, Cex.cx, Backend.rows, Cex.backend]
  simp [hk, hi, selectByKeys, sortDedup]

/-! ## Filter un-nesting -/

/-- `optimizeFilterIndentation` (unwrapping a single non-negated top-level `And` group, repeatedly) does
    not change which rows the filter list accepts - for any fuel and any filter list. -/
theorem optimizeIndentation_sound (q : Quirks) (v : View) (n : Nat) (fs : List Filter) :
    semList q v (optimizeIndentation n fs) = semList q v fs := by
  induction n, fs using optimizeIndentation.induct with
  | case1 fs => simp [optimizeIndentation]
  | case2 fuel f fs ih =>
    rw [optimizeIndentation, ih]
    simp [semList, sem, semAll_eq_all]
  | case3 n fs h1 h2 =>
    rw [optimizeIndentation.eq_3 n fs h1 h2]

/-- the same for the evaluation the code uses (negation push-down), once the negation defect is repaired -/
theorem optimizeIndentation_sound_matchAll (q : Quirks) (hq : q.negOr = false) (v : View) (n : Nat) (fs : List Filter) :
    matchAll q v (optimizeIndentation n fs) = matchAll q v fs := by
  rw [C01.matchAll_eq_semList q hq, C01.matchAll_eq_semList q hq, optimizeIndentation_sound]

/-- non-vacuity: a doubly wrapped filter is unwrapped to the bare term -/
example : (optimizeIndentation 3 [.grp true [.grp true [.leaf Demo.stateLeaf false] false] false]).length = 1
    ∧ ∃ l, optimizeIndentation 3 [.grp true [.grp true [.leaf Demo.stateLeaf false] false] false] = [.leaf l false] :=
  ⟨rfl, _, rfl⟩

/-! ## The regular-expression heuristic -/

/-- A value without any regular-expression meta character and without a dot is never taken for a regular
    expression by `hasRegexpCharacters` (so the optimised parser turns `~` into a substring test). -/
theorem hasRegexpCharacters_plain (val : String)
    (hmeta : ∀ c ∈ val.toList, c ∉ regexMetaChars) (hdot : '.' ∉ val.toList) :
    hasRegexpCharacters val = false := by
  unfold hasRegexpCharacters
  have h1 : (val.toList.any fun c => regexMetaChars.contains c) = false := by
    simp only [List.any_eq_false, List.contains_iff_mem]
    exact fun c hc => by simpa using hmeta c hc
  have h2 : val.toList.contains '.' = false := by simpa using hdot
  simp only [h1, h2, Bool.false_eq_true, if_false]

/-- A value containing a meta character is always taken for a regular expression. -/
theorem hasRegexpCharacters_meta (val : String) (c : Char) (hc : c ∈ val.toList) (hm : c ∈ regexMetaChars) :
    hasRegexpCharacters val = true := by
  unfold hasRegexpCharacters
  have h1 : (val.toList.any fun c => regexMetaChars.contains c) = true := by
    simp only [List.any_eq_true, List.contains_iff_mem]
    exact ⟨c, hc, hm⟩
  simp only [h1, if_true]

/-- Removing the `alnum . alpha` triples never introduces a dot: text without a dot passes unchanged. -/
theorem removeDotTriples_no_dot : ∀ (cs : List Char), '.' ∉ cs → removeDotTriples cs = cs := by
  intro cs
  induction cs using removeDotTriples.induct with
  | case1 a b rest h ih => intro hd; simp at hd
  | case2 a b rest h ih => intro hd; simp at hd
  | case3 c rest h ih =>
    intro hd
    rw [removeDotTriples.eq_2 c rest h, ih (fun hm => hd (List.mem_cons_of_mem _ hm))]
  | case4 => intro _; rfl

example : hasRegexpCharacters "srv01" = false ∧ hasRegexpCharacters "srv.*" = true
    ∧ hasRegexpCharacters "www.example.com" = false := by decide

end Lmd.C07
