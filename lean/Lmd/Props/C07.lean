/- C07 — property theorems (under construction). -/
import Lmd.Props.C01
namespace Lmd.C07
end Lmd.C07
