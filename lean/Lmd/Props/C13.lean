/-
  C13 — backend availability follows a bounded-staleness state machine.

  The peer state is `Lmd.PeerSt`; the events are `initAllTables` (a rebuild), `tick` (one pass of the
  update loop) and `clientQuery` (what a client query does to a selected peer).  The backend may be in
  any mode with any failure countdown at every event.

  1. `up_implies_synced`       a peer reported `Up` holds a data set and carries no error — after every
                               finite history of events, for every configuration and backend behaviour.
  2. `fail_keeps_data_until_stale`, `stale_drops`   what a recorded failure does to the data set.
  3. `recovery`, `init_success`   what a successful contact sets.
  4. `addr_rotation`           consecutive failures cycle through all sources.
  5. `idle_rate`, `no_contact_before_due`, `spinup_first`   idling.

  Helper lemmas live in `Lmd.Lemmas.PeerLemmas`.
-/
import Lmd.Lemmas.PeerLemmas

namespace Lmd.C13
open Lmd Lmd.PeerL

/-! ## 1. `Up` implies data and no error -/

/-- the invariant: a peer that is reported `Up` holds a data set and carries no error text -/
def Inv (p : PeerSt) : Prop := p.status = .up → p.cache.isSome ∧ p.lastError = ""

/-- one event of a peer's life; every event brings its own time and its own backend state -/
inductive Event
  | init (now : Int) (b : BackendSt)
  | tick (now : Int) (b : BackendSt)
  | query (now : Int) (b : BackendSt)

/-- the peer after one event -/
def step (w : World) (p : PeerSt) : Event → PeerSt
  | .init now b => (initAllTables w now p b).p
  | .tick now b => (tick w now p b).p
  | .query now b => (clientQuery w now p b).1

/-- the peer after a list of events -/
def run (w : World) (p : PeerSt) (evs : List Event) : PeerSt := evs.foldl (step w) p

/-- A peer that is not `Up` — in particular a new peer, which is `Pending` — satisfies the invariant. -/
theorem inv_initial (p : PeerSt) (h : p.status = .pending) : Inv p := by
  intro hu; rw [h] at hu; cases hu

/-- A rebuild (`InitAllTables`), whatever the backend does during it, keeps the invariant. -/
theorem init_preserves (w : World) (now : Int) (p : PeerSt) (b : BackendSt) (h : Inv p) :
    Inv (initAllTables w now p b).p := initAllTables_inv h

/-- One pass of the update loop (`periodicUpdate` and the reload after a detected restart), whatever the
    backend does during it, keeps the invariant. -/
theorem tick_preserves (w : World) (now : Int) (p : PeerSt) (b : BackendSt) (h : Inv p) :
    Inv (tick w now p b).p := tick_inv h

/-- A client query (including the refresh of a peer that is woken from idling) keeps the invariant. -/
theorem clientQuery_preserves (w : World) (now : Int) (p : PeerSt) (b : BackendSt) (h : Inv p) :
    Inv (clientQuery w now p b).1 := clientQuery_inv h

/-- Every event keeps the invariant. -/
theorem step_preserves (w : World) (p : PeerSt) (e : Event) (h : Inv p) : Inv (step w p e) := by
  cases e with
  | init now b => exact init_preserves w now p b h
  | tick now b => exact tick_preserves w now p b h
  | query now b => exact clientQuery_preserves w now p b h

/-- The invariant holds after every finite history that starts in a state satisfying it. -/
theorem up_implies_synced_from (w : World) (p0 : PeerSt) (evs : List Event) (h0 : Inv p0) : Inv (run w p0 evs) := by
  unfold run
  induction evs generalizing p0 with
  | nil => exact h0
  | cons e es ih => exact ih (step w p0 e) (step_preserves w p0 e h0)

/-- For every configuration, every finite list of rebuilds, loop passes and client queries at arbitrary times
    against a backend in arbitrary modes: a peer that started `Pending` and is reported `Up` at the end holds a
    data set and has an empty error text. -/
theorem up_implies_synced (w : World) (p0 : PeerSt) (evs : List Event) (h0 : p0.status = .pending) :
    (run w p0 evs).status = .up → (run w p0 evs).cache.isSome ∧ (run w p0 evs).lastError = "" :=
  up_implies_synced_from w p0 evs (inv_initial p0 h0)

/-- a small world for the examples: no schema (every table has no columns), default configuration -/
def exWorld : World := { cfg := {}, schema := { tables := [] }, mainRestart := 100 }

/-- a backend that answers, with one status row -/
def exBackend : BackendSt :=
  { tables := [("status", [[("program_start", Lean.Json.num 5), ("nagios_pid", Lean.Json.num 7)]])], cols := [] }

/-- the same backend refusing connections -/
def exRefusing : BackendSt := { exBackend with mode := "refuse" }

/-- non-vacuity: a new peer is `Pending`, and a history exists after which it is `Up` (so the conclusion of
    `up_implies_synced` is not empty), one after which it is `Warning` with the data kept, and one after which
    it is `Down` without data -/
example : ({} : PeerSt).status = .pending := rfl
example : (run exWorld {} [.tick 100 exBackend]).status = .up := by decide
example : (run exWorld {} [.tick 100 exBackend, .tick 110 exRefusing]).status = .warning ∧
    (run exWorld {} [.tick 100 exBackend, .tick 110 exRefusing]).cache.isSome = true := by decide
example : (run exWorld {} [.tick 100 exBackend, .tick 110 exRefusing, .tick 150 exRefusing]).status = .down ∧
    (run exWorld {} [.tick 100 exBackend, .tick 110 exRefusing, .tick 150 exRefusing]).cache.isSome = false := by decide

/-! ## 2. failures keep the data until the backend is stale -/

/-- A recorded failure leaves the published data set in place as long as the backend was seen within
    `StaleBackendTimeout` and the peer is not a never-online peer that failed more often than it has sources.
    A peer that was `Up`, `Pending` or `Syncing` with data is then `Warning`; the failure text is recorded. -/
theorem fail_keeps_data_until_stale (w : World) (p : PeerSt) (now : Int) (msg : String)
    (hfresh : now - w.cfg.staleTimeout ≤ p.lastOnline)
    (hnever : ¬ (p.errorCount + 1 > p.sources.length ∧ p.lastOnline ≤ 0)) :
    (p.fail w now msg).cache = p.cache ∧ (p.fail w now msg).lastError = msg ∧
      (p.cache.isSome → (p.status = .up ∨ p.status = .pending ∨ p.status = .syncing) →
        (p.fail w now msg).status = .warning) := by
  have hs : staleNow w p now = false := by
    unfold staleNow
    have h1 : ¬ p.lastOnline < now - w.cfg.staleTimeout := by omega
    have h2 : ¬ (p.errorCount + 1 > p.sources.length ∧ p.lastOnline ≤ 0) := hnever
    simp only [Bool.or_eq_false_iff, decide_eq_false_iff_not, Bool.and_eq_false_imp, decide_eq_true_eq]
    exact ⟨h1, fun a b => h2 ⟨a, b⟩⟩
  rw [fail_cache, fail_status, fail_lastError, hs]
  refine ⟨rfl, rfl, fun hc hst => ?_⟩
  simp only [Bool.false_eq_true, if_false]
  unfold degraded
  rcases hst with h | h | h <;> rw [h] <;> simp [hc]

example : (1000 : Int) - exWorld.cfg.staleTimeout ≤ ({ lastOnline := 990 } : PeerSt).lastOnline ∧
    ¬ (({ lastOnline := 990 } : PeerSt).errorCount + 1 > ({ lastOnline := 990 } : PeerSt).sources.length ∧
        ({ lastOnline := 990 } : PeerSt).lastOnline ≤ 0) := by decide

/-- A failure recorded when the backend was last seen more than `StaleBackendTimeout` ago sets the peer `Down`
    and removes the data set. -/
theorem stale_drops (w : World) (p : PeerSt) (now : Int) (msg : String)
    (h : p.lastOnline < now - w.cfg.staleTimeout) :
    (p.fail w now msg).status = .down ∧ (p.fail w now msg).cache = none := by
  have hs : staleNow w p now = true := by
    unfold staleNow; simp [h]
  rw [fail_status, fail_cache, hs]
  exact ⟨rfl, rfl⟩

example : ({ lastOnline := 990 } : PeerSt).lastOnline < (1100 : Int) - exWorld.cfg.staleTimeout := by decide

/-- The same for a peer that was never online: once it failed more often than it has sources it is `Down`
    without data. -/
theorem never_online_drops (w : World) (p : PeerSt) (now : Int) (msg : String)
    (h1 : p.errorCount + 1 > p.sources.length) (h2 : p.lastOnline ≤ 0) :
    (p.fail w now msg).status = .down ∧ (p.fail w now msg).cache = none := by
  have hs : staleNow w p now = true := by
    unfold staleNow; simp [h1, h2]
  rw [fail_status, fail_cache, hs]
  exact ⟨rfl, rfl⟩

example : ({ errorCount := 1 } : PeerSt).errorCount + 1 > ({ errorCount := 1 } : PeerSt).sources.length ∧
    ({ errorCount := 1 } : PeerSt).lastOnline ≤ 0 := by decide

/-! ## 3. recovery -/

/-- `resetErrors`: the peer is `Up`, the error text is empty, the backend counts as seen now, the failure
    counter is zero; the data set is untouched. -/
theorem recovery (p : PeerSt) (now : Int) :
    (p.recovered now).status = .up ∧ (p.recovered now).lastError = "" ∧ (p.recovered now).lastOnline = now ∧
      (p.recovered now).errorCount = 0 ∧ (p.recovered now).cache = p.cache :=
  ⟨rfl, rfl, rfl, rfl, rfl⟩

/-- A rebuild that succeeds — from any state — leaves the peer `Up` with a data set, an empty error text, the
    backend seen now and a failure counter of zero. -/
theorem init_success (w : World) (now : Int) (p : PeerSt) (b : BackendSt)
    (h : (initAllTables w now p b).err = .none) :
    (initAllTables w now p b).p.status = .up ∧ (initAllTables w now p b).p.cache.isSome ∧
      (initAllTables w now p b).p.lastError = "" ∧ (initAllTables w now p b).p.lastOnline = now ∧
      (initAllTables w now p b).p.errorCount = 0 := by
  obtain ⟨a, b1, c, d, e⟩ := (initAllTables_spec w now p b).2.1 h
  exact ⟨b1, by rw [a]; rfl, c, d, e⟩

example : (initAllTables exWorld 100 {} exBackend).err = .none := by decide

/-- A delta update that succeeds leaves the peer `Up` with a data set, an empty error text, the backend seen
    now, a failure counter of zero and the update time set to now. -/
theorem delta_success (w : World) (now : Int) (p : PeerSt) (b : BackendSt) (c : Cache) (fromT : Int)
    (h : (updateDelta w now p b c fromT).err = .none) :
    (updateDelta w now p b c fromT).p.status = .up ∧ (updateDelta w now p b c fromT).p.cache.isSome ∧
      (updateDelta w now p b c fromT).p.lastError = "" ∧ (updateDelta w now p b c fromT).p.lastOnline = now ∧
      (updateDelta w now p b c fromT).p.errorCount = 0 := by
  obtain ⟨a, b1, c1, d, _, f⟩ := updateDelta_ok h
  exact ⟨a, f, b1, c1, d⟩

example : (updateDelta exWorld0 130 { exPeer0 with lastUpdate := 130 } exBackend0 [] 120).err = .none := exDelta_ok

/-! ## 4. source rotation -/

/-- `k` consecutive recorded failures, each at its own time with its own text -/
def failN (w : World) (p : PeerSt) (evs : List (Int × String)) : PeerSt :=
  evs.foldl (fun p e => p.fail w e.1 e.2) p

/-- After any number `k` of consecutive failures the source index is the old one advanced by `k`, modulo the
    number of sources; the source list is unchanged and the current address is the source at that index. -/
theorem addr_rotation_index (w : World) (evs : List (Int × String)) (p : PeerSt) (h : p.addrIdx < p.sources.length) :
    (failN w p evs).addrIdx = (p.addrIdx + evs.length) % p.sources.length ∧
      (failN w p evs).sources = p.sources ∧
      (evs ≠ [] → (failN w p evs).addr = p.sources.getD ((p.addrIdx + evs.length) % p.sources.length) .self) := by
  unfold failN
  induction evs generalizing p with
  | nil => exact ⟨by simp [Nat.mod_eq_of_lt h], rfl, fun h => absurd rfl h⟩
  | cons e es ih =>
    have hidx := next_mod h
    have hsrc : (p.fail w e.1 e.2).sources = p.sources := fail_sources w p e.1 e.2
    have hlt : (p.fail w e.1 e.2).addrIdx < (p.fail w e.1 e.2).sources.length := by
      rw [hsrc, fail_addrIdx, hidx]; exact Nat.mod_lt _ (by omega)
    obtain ⟨i1, i2, i3⟩ := ih (p.fail w e.1 e.2) hlt
    rw [List.foldl_cons]
    rw [hsrc, fail_addrIdx, hidx] at i1 i3
    have harith : ((p.addrIdx + 1) % p.sources.length + es.length) % p.sources.length =
        (p.addrIdx + (e :: es).length) % p.sources.length := by
      rw [Nat.mod_add_mod, List.length_cons]; congr 1; omega
    refine ⟨i1.trans harith, i2.trans hsrc, fun _ => ?_⟩
    cases es with
    | nil =>
      simp only [List.foldl_nil, List.length_cons, List.length_nil]
      rw [fail_addr, ← hidx]
    | cons e' es' =>
      rw [i3 (by simp), harith]

/-- `n` consecutive failures on a peer with `n` sources return to the source they started from, and on the way
    every source index is the current one exactly once: for each index `j` there is exactly one `k` in `1..n`
    such that the index after `k` failures is `j`. -/
theorem addr_rotation (w : World) (p : PeerSt) (evs : List (Int × String))
    (h : p.addrIdx < p.sources.length) (hn : evs.length = p.sources.length) :
    (failN w p evs).addrIdx = p.addrIdx ∧
    (∀ k, k ≤ evs.length → (failN w p (evs.take k)).addrIdx = (p.addrIdx + k) % p.sources.length) ∧
    (∀ j, j < p.sources.length →
      ∃ k, 1 ≤ k ∧ k ≤ evs.length ∧ (failN w p (evs.take k)).addrIdx = j ∧
        ∀ k', 1 ≤ k' → k' ≤ evs.length → (failN w p (evs.take k')).addrIdx = j → k' = k) := by
  have hk : ∀ k, k ≤ evs.length → (failN w p (evs.take k)).addrIdx = (p.addrIdx + k) % p.sources.length := by
    intro k hk
    rw [(addr_rotation_index w (evs.take k) p h).1, List.length_take, Nat.min_eq_left hk]
  refine ⟨?_, hk, fun j hj => ?_⟩
  · rw [(addr_rotation_index w evs p h).1, hn, Nat.add_mod_right, Nat.mod_eq_of_lt h]
  · obtain ⟨k, k1, k2, k3, k4⟩ := rotation_arith h hj
    refine ⟨k, k1, hn ▸ k2, (hk k (hn ▸ k2)).trans k3, fun k' a b c => ?_⟩
    rw [hk k' b] at c
    exact k4 k' a (hn ▸ b) c

example : ({ sources := [.self, .dead, .dead], addrIdx := 1 } : PeerSt).addrIdx <
    ({ sources := [.self, .dead, .dead], addrIdx := 1 } : PeerSt).sources.length := by decide

/-! ## 5. idling -/

/-- While the minute refresh is not due (the peer idles after this pass's idle check, or the minute did not
    change, or there is no data) and the next run is not due (`UpdateInterval`, or `IdleInterval` while idling,
    after the last update), a pass of the update loop sends nothing to the backend and reports no run; the only
    change to the peer is the idle flag. -/
theorem no_contact_before_due (w : World) (now : Int) (p : PeerSt) (b : BackendSt)
    (htp : idlesAt w now p = true ∨ p.lastTpMinute = (now / 60) % 60 ∨ p.cache = none)
    (hdue : now < p.lastUpdate + (if idlesAt w now p then w.cfg.idleInterval else w.cfg.updateInterval)) :
    (tick w now p b).b = b ∧ (tick w now p b).ran = false ∧ (tick w now p b).err = .none ∧
      (tick w now p b).p = idleStep w now p := by
  rw [tick_quiet w now p b htp hdue]
  exact ⟨rfl, rfl, rfl, rfl⟩

/-- An idling peer is left completely alone, and so is its backend, until `IdleInterval` after its last update. -/
theorem idle_rate (w : World) (now : Int) (p : PeerSt) (b : BackendSt)
    (hidle : p.idling = true) (hdue : now < p.lastUpdate + w.cfg.idleInterval) :
    (tick w now p b).b = b ∧ (tick w now p b).ran = false ∧ (tick w now p b).err = .none ∧ (tick w now p b).p = p := by
  have hi : idlesAt w now p = true := by unfold idlesAt; simp [hidle]
  have := no_contact_before_due w now p b (.inl hi) (by rw [hi]; exact hdue)
  refine ⟨this.1, this.2.1, this.2.2.1, this.2.2.2.trans ?_⟩
  unfold idleStep; simp [hidle]

example : ({ idling := true, lastUpdate := 100 } : PeerSt).idling = true ∧
    (500 : Int) < ({ idling := true, lastUpdate := 100 } : PeerSt).lastUpdate + exWorld.cfg.idleInterval := by decide

/-- Hence a pass of the loop over an idling peer that does reach the backend happens no earlier than
    `IdleInterval` after the last update. -/
theorem idle_contact_is_due (w : World) (now : Int) (p : PeerSt) (b : BackendSt)
    (hidle : p.idling = true) (hcontact : (tick w now p b).b ≠ b) : p.lastUpdate + w.cfg.idleInterval ≤ now := by
  by_cases h : now < p.lastUpdate + w.cfg.idleInterval
  · exact absurd (idle_rate w now p b hidle h).1 hcontact
  · omega

/-- A client query that selects an idling peer wakes it: the refresh of `ResumeFromIdle` runs on the peer with
    the idle flag cleared and the query time recorded, and its outcome — with the idle flag still cleared and the
    query time `now` — is the state the answer is built from. -/
theorem spinup_first (w : World) (now : Int) (p : PeerSt) (b : BackendSt) (hidle : p.idling = true) :
    (clientQuery w now p b).1.idling = false ∧ (clientQuery w now p b).1.lastQuery = now ∧
      clientQuery w now p b =
        ({ (resume w now { p with lastQuery := now, idling := false } b).1 with lastQuery := now },
         (resume w now { p with lastQuery := now, idling := false } b).2) := by
  rw [clientQuery_eq, if_pos hidle]
  exact ⟨resume_idling w now _ b, rfl, rfl⟩

/-- A client query on a peer that is awake only records the query time. -/
theorem query_awake (w : World) (now : Int) (p : PeerSt) (b : BackendSt) (h : p.idling = false) :
    clientQuery w now p b = ({ p with lastQuery := now }, b) := by
  rw [clientQuery_eq, if_neg (by simp [h])]

end Lmd.C13
