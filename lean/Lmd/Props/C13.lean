/- C13 — property theorems (under construction). -/
import Lmd.PeerLoop
namespace Lmd.C13
end Lmd.C13
