/-
  C10 (body) — every answer is valid JSON of the documented shape, and the frame announces it.

  The model computes the pieces of an answer (`dataQuery`: rows, total, failed backends; `hitJson`:
  one row; `statsQuery`: the slots per group key).  `Lmd.Lemmas.BodyLemmas` assembles them the way
  `Response.JSON` / `Response.WrappedJSON` / `CalculateFinalStats` / `Response.send` do
  (`jsonAnswer`, `wrappedAnswer`, `statsAnswer`, `answerBytes`).  The theorems here say, for every
  request, schema and store:

  1. a data answer is an array of rows of equal width (one cell per response column), with the
     header row of the same width in front when it is sent; `wrapped_json` is an object with exactly
     the keys `data`, `failed`, (`columns`,) `rows_scanned`, `total_count`; `total_count` is a
     number not below the rows returned plus the offset;
  2. a Stats answer has one row (without `Columns:`) or one row per group, every row as wide as
     columns + stats lines, group cells strings, stats cells numbers;
  3. every cell has the JSON shape documented for the type of its column (given typed store data);
  4. the fixed16 status line of an answer announces status 200 and the byte length of exactly the
     body that follows; an error answer announces its own code and the length of its text; a
     request that does not parse gets the plain text;
  5. `Limit:` / `Offset:` only select rows: every row of the windowed answer is a row of the
     answer without them, the width and the header row are unchanged.
-/
import Lmd.Props.C10
import Lmd.Lemmas.BodyLemmas

namespace Lmd.C10Body
open Lmd Lmd.Frame Lmd.Sort Lmd.Body
open Lean (Json)

/-! ## 1. the shape of a data answer -/

/-- Every data row of an answer is a JSON array with exactly one cell per response column — the
    same width for all rows, whatever the evaluation mode, request, schema and store. -/
theorem data_rows_width (m : EvalMode) (s : Schema) (ds : Dataset) (t : Table) (req : Request) :
    ∀ j ∈ dataRows s ds t req (dataQuery m s ds t req).hits, IsRow (requestColumns t req).length j :=
  fun j hj => isRow_of_mem_dataRows s ds t req _ j hj

/-- The k-th data row of the answer is the rendering of the k-th hit, and its i-th cell is the
    cell of the i-th response column (`hitJson_width` for every row of the answer). -/
theorem data_rows_cells (m : EvalMode) (s : Schema) (ds : Dataset) (t : Table) (req : Request)
    (k : Nat) (hk : k < (dataQuery m s ds t req).hits.length) (i : Nat) (hi : i < (requestColumns t req).length) :
    ∃ a : Array Json,
      (dataRows s ds t req (dataQuery m s ds t req).hits)[k]? = some (.arr a) ∧
      a.size = (requestColumns t req).length ∧
      a[i]? = some (cellJson { schema := s, ds := ds, b := ((dataQuery m s ds t req).hits[k]).b } t
                      ((dataQuery m s ds t req).hits[k]).r (requestColumns t req)[i]) := by
  obtain ⟨a, h1, h2, h3⟩ := hitJson_cell s ds t (requestColumns t req) ((dataQuery m s ds t req).hits[k]) i hi
  exact ⟨a, by simp [dataRows, hk, h1], h2, h3⟩

/-- The header row of a data answer (`ColumnHeaders: on`, or no `Columns:` header) has the same
    width as the data rows and consists of strings: the names as written in `Columns:`, or, without
    that header, the names of all columns of the table. -/
theorem header_row_shape (t : Table) (req : Request) (hs : req.stats = []) :
    IsRow (requestColumns t req).length (headerRow t req)
    ∧ headerRow t req = .arr ((headerNames t req).map Json.str).toArray
    ∧ (req.columns ≠ [] → headerNames t req = req.columns)
    ∧ (req.columns = [] → headerNames t req = t.cols.map (·.name)) := by
  refine ⟨?_, rfl, headerNames_of_columns t req hs, headerNames_of_no_columns t req hs⟩
  simpa [hs] using isRow_headerRow t req

/-- The header row is sent exactly when the request has no `Stats:` and either asks for it or names
    no columns. -/
theorem header_row_sent (req : Request) :
    sendColumnsHeader req = true ↔ req.stats = [] ∧ (req.colHeaders = true ∨ req.columns = []) := by
  simp [sendColumnsHeader, List.isEmpty_iff]

/-- `OutputFormat: json`: the answer is one JSON array; its elements are the header row (when sent)
    followed by the data rows in order; every element is an array of exactly as many cells as the
    request has response columns. -/
theorem json_answer_shape (m : EvalMode) (s : Schema) (ds : Dataset) (t : Table) (req : Request)
    (hs : req.stats = []) :
    ∃ a : Array Json,
      jsonAnswer s ds t req (dataQuery m s ds t req).hits = .arr a
      ∧ a.toList = (if sendColumnsHeader req then [headerRow t req] else [])
                    ++ dataRows s ds t req (dataQuery m s ds t req).hits
      ∧ a.size = (if sendColumnsHeader req then 1 else 0) + (dataQuery m s ds t req).hits.length
      ∧ ∀ j ∈ a.toList, IsRow (requestColumns t req).length j := by
  refine ⟨_, rfl, rfl, ?_, ?_⟩
  · simpa using jsonRows_length s ds t req _
  · intro j hj
    exact isRow_of_mem_jsonRows s ds t req _ hs j (by simpa using hj)

/-- `OutputFormat: wrapped_json`: the answer is an object with exactly the members `data`,
    `failed`, `columns` (only when the header row is sent), `rows_scanned`, `total_count`, written
    in this order; `data` is the array of data rows (every row one cell per response column),
    `failed` is an object, `columns` is the header row, `rows_scanned` and `total_count` are
    numbers, `total_count` being the total of the result; any other key is absent. -/
theorem wrapped_answer_shape (m : EvalMode) (s : Schema) (ds : Dataset) (t : Table) (req : Request)
    (scanned : Nat) :
    let res := dataQuery m s ds t req
    let w := wrappedAnswer s ds t req res scanned
    IsObj w
    ∧ (wrappedFields s ds t req res scanned).map Prod.fst = wrappedKeys req
    ∧ w.getObjVal? "data" = .ok (.arr (dataRows s ds t req res.hits).toArray)
    ∧ (∀ j ∈ dataRows s ds t req res.hits, IsRow (requestColumns t req).length j)
    ∧ w.getObjVal? "failed" = .ok (failedObj res.failed) ∧ IsObj (failedObj res.failed)
    ∧ w.getObjVal? "total_count" = .ok (natJson res.total)
    ∧ w.getObjVal? "rows_scanned" = .ok (natJson scanned)
    ∧ (sendColumnsHeader req = true → w.getObjVal? "columns" = .ok (headerRow t req))
    ∧ (∀ k, k ∉ wrappedKeys req → ∃ e, w.getObjVal? k = .error e) := by
  intro res w
  refine ⟨⟨_, rfl⟩, wrappedFields_keys s ds t req res scanned, ?_, ?_, ?_, ⟨_, rfl⟩, ?_, ?_, ?_, ?_⟩
  · exact wrapped_get s ds t req res scanned _ _ (by simp [wrappedFields])
  · exact fun j hj => isRow_of_mem_dataRows s ds t req _ j hj
  · exact wrapped_get s ds t req res scanned _ _ (by simp [wrappedFields])
  · exact wrapped_get s ds t req res scanned _ _ (by simp [wrappedFields])
  · exact wrapped_get s ds t req res scanned _ _ (by simp [wrappedFields])
  · intro h
    exact wrapped_get s ds t req res scanned _ _ (by simp [wrappedFields, h])
  · exact fun k hk => wrapped_get_none s ds t req res scanned k hk

/-- The keys of the wrapped object are `data`, `failed`, `rows_scanned`, `total_count`, and
    `columns` exactly when the header row is sent. -/
theorem wrapped_keys (req : Request) :
    wrappedKeys req = if sendColumnsHeader req then ["data", "failed", "columns", "rows_scanned", "total_count"]
                      else ["data", "failed", "rows_scanned", "total_count"] := by
  unfold wrappedKeys
  split <;> rfl

/-- `total_count` is never below the number of rows returned plus the offset: the rows of the
    answer number at most `total_count - Offset`; in particular without `Offset:` there are at most
    `total_count` rows; and with `Limit: l` at most `l`. -/
theorem total_count_ge_rows (m : EvalMode) (s : Schema) (ds : Dataset) (t : Table) (req : Request) :
    (dataQuery m s ds t req).hits.length ≤ (dataQuery m s ds t req).total - req.offset
    ∧ (req.offset = 0 → (dataQuery m s ds t req).hits.length ≤ (dataQuery m s ds t req).total)
    ∧ (∀ l, req.limit = some l → (dataQuery m s ds t req).hits.length ≤ l) := by
  have h := hits_length_le m s ds t req
  exact ⟨h, fun h0 => by omega, fun l hl => hits_length_le_limit m s ds t req l hl⟩

/-- The value of the answer is the wrapped object for `OutputFormat: wrapped_json` and the plain
    array for every other format. -/
theorem answer_value_format (s : Schema) (ds : Dataset) (t : Table) (req : Request) (res : DataResult)
    (scanned : Nat) :
    (req.outFmt = .wrapped → answerValue s ds t req res scanned = wrappedAnswer s ds t req res scanned)
    ∧ (req.outFmt ≠ .wrapped → answerValue s ds t req res scanned = jsonAnswer s ds t req res.hits) := by
  constructor <;> intro h <;> simp [answerValue, h]

/-! ## 2. the shape of a Stats answer -/

/-- Every row of a Stats answer is an array of exactly (number of `Columns:`) + (number of
    `Stats:` lines) cells: all rows have the same width. -/
theorem stats_rows_width (fmt : Int × Nat → Lean.JsonNumber) (m : StatsMode) (s : Schema) (ds : Dataset)
    (t : Table) (req : Request) :
    ∀ j ∈ statsRows fmt req (statsQuery m s ds t req), IsRow (req.columns.length + req.stats.length) j := by
  intro j hj
  obtain ⟨⟨k, accs⟩, hp, rfl⟩ := List.mem_map.mp hj
  have := isRow_statsRow fmt req.columns.length k accs
  rwa [statsQuery_slots_length m s ds t req k accs hp] at this

/-- In every row of a Stats answer the cell of the i-th `Stats:` line (after the group cells) is a
    JSON number: the final value of the i-th slot. -/
theorem stats_cells_numbers (fmt : Int × Nat → Lean.JsonNumber) (m : StatsMode) (s : Schema) (ds : Dataset)
    (t : Table) (req : Request) (k : String) (accs : Accs)
    (hp : (k, accs) ∈ (statsQuery m s ds t req).rows) (i : Nat) (hi : i < req.stats.length) :
    ∃ (a : Array Json) (n : Lean.JsonNumber),
      statsRow fmt req.columns.length k accs = .arr a ∧ a[req.columns.length + i]? = some (.num n) := by
  have hl := statsQuery_slots_length m s ds t req k accs hp
  obtain ⟨a, h1, h2⟩ := statsRow_stat_cell fmt req.columns.length k accs i (by omega)
  exact ⟨a, _, h1, h2⟩

/-- With `Columns:` and `Stats:` the first cells of every row are strings: the i-th group cell is
    the i-th part of the group key. -/
theorem stats_group_cells_strings (fmt : Int × Nat → Lean.JsonNumber) (m : StatsMode) (s : Schema)
    (ds : Dataset) (t : Table) (req : Request) (k : String) (accs : Accs)
    (hp : (k, accs) ∈ (statsQuery m s ds t req).rows) (i : Nat) (hi : i < req.columns.length) :
    ∃ (a : Array Json) (p : String),
      statsRow fmt req.columns.length k accs = .arr a ∧ a[i]? = some (.str p) := by
  obtain ⟨a, h1, h2⟩ := statsRow_key_cell fmt req.columns.length k accs i hi
    (statsQuery_key_parts m s ds t req k accs hp)
  exact ⟨a, _, h1, h2⟩

/-- A Stats query without `Columns:` that does not crash answers exactly one row, with one cell per
    `Stats:` line; the rows of a Stats query with `Columns:` have pairwise different group keys. -/
theorem stats_single_row (fmt : Int × Nat → Lean.JsonNumber) (m : StatsMode) (s : Schema) (ds : Dataset)
    (t : Table) (req : Request) :
    (req.columns = [] → (statsQuery m s ds t req).crash = false →
      ∃ j, statsRows fmt req (statsQuery m s ds t req) = [j] ∧ IsRow req.stats.length j)
    ∧ ((statsQuery m s ds t req).rows.map (·.1)).Nodup := by
  constructor
  · intro hc hcr
    obtain ⟨accs, h⟩ := statsQuery_single_row m s ds t req hc hcr
    refine ⟨statsRow fmt req.columns.length "" accs, by simp [statsRows, h], ?_⟩
    have hl := statsQuery_slots_length m s ds t req "" accs (by simp [h])
    have := isRow_statsRow fmt req.columns.length "" accs
    simpa [hc, hl] using this
  · exact (statsQuery_rows_wf m s ds t req).1

/-- A Stats answer never carries a header row. -/
theorem stats_no_header (req : Request) (h : req.stats ≠ []) : sendColumnsHeader req = false :=
  sendColumnsHeader_stats req h

/-! ## 3. the JSON shape of the cells -/

/-- The placeholder for a column the backend lacks, and the rendering of any value of the column's
    type, have the shape documented for the type: a string for text, a number for int / float /
    time, an array of strings / numbers for the lists, an array of two-string arrays for service
    member lists, an object for custom variables. -/
theorem value_shape (d : DataType) :
    CellShape d (emptyCellJson d) ∧ (∀ v, HasType d v → CellShape d (valJson v))
    ∧ (∀ j, HasType d (coerce d j)) ∧ HasType d d.zero ∧ HasType d d.emptyVal :=
  ⟨emptyCellJson_shape d, valJson_shape d, coerce_hasType d, zero_hasType d, emptyVal_hasType d⟩

/-- A cell has the shape (hence the JSON kind) documented for its column's type, provided the
    stored data is typed (`CellTyped`: the getters return values of the column's type; a reference
    column names an existing column of the same type). -/
theorem cell_shape (cx : Ctx) (t : Table) (r : Row) (c : Column) (h : CellTyped cx t r c) :
    CellShape c.dtype (cellJson cx t r c) ∧ kindOK c.dtype (jsonKind (cellJson cx t r c)) = true :=
  ⟨cellJson_shape cx t r c h, kindOK_of_shape _ _ (cellJson_shape cx t r c h)⟩

/-- For a locally stored column the typing hypothesis is about the row alone: if the cell stored
    under the column's name (when there is one) is of the column's type — which is what `coerce`
    stores — and a lower-case shadow column is a text column, the rendered cell has the documented
    shape, whatever the backend's flags. -/
theorem local_cell_shape (cx : Ctx) (t : Table) (r : Row) (c : Column) (hs : c.storage = .loc)
    (hcell : ∀ v, r.cell? c.name = some v → HasType c.dtype v)
    (hlc : hasSuffix c.name "_lc" = true → (t.col? (trimSuffix c.name "_lc")).isSome = true →
      c.dtype = .str ∨ c.dtype = .strLarge) :
    CellShape c.dtype (cellJson cx t r c) := by
  apply cellJson_shape
  exact ⟨fun _ => localVal_hasType t r c hcell hlc, fun h => by simp [hs] at h, fun h => by simp [hs] at h⟩

/-- `valJson_kind` lifted to whole rows of a whole answer: if the data of the selected backends is
    typed for the response columns, then in every row of the answer cell i has the shape documented
    for the type of column i. -/
theorem answer_cell_shapes (m : EvalMode) (s : Schema) (ds : Dataset) (t : Table) (req : Request)
    (htyped : ∀ b ∈ availBackends ds t req, ∀ r ∈ tableRows { schema := s, ds := ds, b := b } t,
      ∀ c ∈ requestColumns t req, CellTyped { schema := s, ds := ds, b := b } t r c)
    (h : Hit) (hh : h ∈ (dataQuery m s ds t req).hits) (i : Nat) (hi : i < (requestColumns t req).length) :
    ∃ (a : Array Json) (x : Json),
      hitJson s ds t (requestColumns t req) h = .arr a ∧ a.size = (requestColumns t req).length ∧
      a[i]? = some x ∧ CellShape (requestColumns t req)[i].dtype x ∧
      kindOK (requestColumns t req)[i].dtype (jsonKind x) = true := by
  obtain ⟨hb, hr⟩ := hit_origin m s ds t req h hh
  obtain ⟨a, h1, h2, h3⟩ := hitJson_cell s ds t (requestColumns t req) h i hi
  have ht := htyped h.b hb h.r hr _ (List.getElem_mem hi)
  exact ⟨a, _, h1, h2, h3, (cell_shape _ t h.r _ ht).1, (cell_shape _ t h.r _ ht).2⟩

/-- Without any assumption on the stored data: in the rendering of any hit (so in every row of every
    answer) no cell is a JSON
    Boolean, and a cell is `null` only when its column is a reference column whose referenced table
    lacks the referenced column (`valJson_kind` lifted to every cell of every row of the answer). -/
theorem answer_cells_never_bool (s : Schema) (ds : Dataset) (t : Table) (req : Request)
    (h : Hit) (i : Nat) (hi : i < (requestColumns t req).length) :
    ∃ (a : Array Json) (x : Json),
      hitJson s ds t (requestColumns t req) h = .arr a ∧ a[i]? = some x ∧ jsonKind x ≠ .bool ∧
      (jsonKind x = .null → (requestColumns t req)[i].storage = .ref ∧
        (({ schema := s, ds := ds, b := h.b } : Ctx).table (requestColumns t req)[i].refTable).col?
          (requestColumns t req)[i].refCol = none) := by
  obtain ⟨a, h1, _, h3⟩ := hitJson_cell s ds t (requestColumns t req) h i hi
  have hk := cellJson_kind_ne { schema := s, ds := ds, b := h.b } t h.r (requestColumns t req)[i]
  exact ⟨a, _, h1, h3, hk.1, hk.2⟩

/-! ## 4. the frame announces the body -/

/-- `ResponseHeader: fixed16` on a successful answer: the bytes sent are the sixteen byte status
    line, the body and a newline; the status line reads status 200 and, as length, exactly the
    number of bytes that follow it.  (The bound on the size is the eleven digit field; see
    `Lmd.C10.fixed16_header_length` for why it is needed.) -/
theorem data_answer_framed (s : Schema) (ds : Dataset) (t : Table) (req : Request) (res : DataResult)
    (scanned : Nat) (hf : req.fixed16 = true)
    (hsz : (answerBody s ds t req res scanned).utf8ByteSize + 1 < 10 ^ 11) :
    answerBytes s ds t req res scanned =
      fixed16Header 200 (answerBody s ds t req res scanned).utf8ByteSize ++ answerBody s ds t req res scanned ++ "\n"
    ∧ C10.readCode (answerBytes s ds t req res scanned) = some 200
    ∧ C10.readLength (answerBytes s ds t req res scanned) = some ((answerBody s ds t req res scanned ++ "\n").utf8ByteSize)
    ∧ (answerBytes s ds t req res scanned).utf8ByteSize = 16 + (answerBody s ds t req res scanned ++ "\n").utf8ByteSize := by
  have h := C10.fixed16_header_length_field 200 (answerBody s ds t req res scanned) (by decide) (by decide) hsz
  have hc := C10.fixed16_header_code_field 200 (answerBody s ds t req res scanned) (by decide) (by decide) hsz
  simp only [answerBytes, hf]
  exact ⟨h.1, hc, h.2.1, h.2.2⟩

/-- Without `ResponseHeader: fixed16` the answer is the body and a newline. -/
theorem data_answer_plain (s : Schema) (ds : Dataset) (t : Table) (req : Request) (res : DataResult)
    (scanned : Nat) (hf : req.fixed16 = false) :
    answerBytes s ds t req res scanned = answerBody s ds t req res scanned ++ "\n" := by
  simp [answerBytes, hf, sendBytes]

/-- The body that is framed is the wrapped object's text for `wrapped_json` and the array's text
    otherwise. -/
theorem answer_body_format (s : Schema) (ds : Dataset) (t : Table) (req : Request) (res : DataResult)
    (scanned : Nat) :
    (req.outFmt = .wrapped → answerBody s ds t req res scanned = wrappedBody s ds t req res scanned)
    ∧ (req.outFmt ≠ .wrapped → answerBody s ds t req res scanned = jsonBody s ds t req res.hits) := by
  constructor <;> intro h <;> simp [answerBody, h]

/-- An error answer to a request that was read (400 bad request, 502 all backends failed, any three
    digit code) is framed with its own code and the length of the error text plus newline. -/
theorem error_answer_framed (req : Request) (code : Nat) (msg : String) (hf : req.fixed16 = true)
    (h1 : 100 ≤ code) (h2 : code ≤ 999) (hsz : msg.utf8ByteSize + 1 < 10 ^ 11) :
    errorBytes req code msg = fixed16Header code msg.utf8ByteSize ++ msg ++ "\n"
    ∧ C10.readCode (errorBytes req code msg) = some code
    ∧ C10.readLength (errorBytes req code msg) = some ((msg ++ "\n").utf8ByteSize) := by
  have h := C10.fixed16_header_length_field code msg h1 h2 hsz
  have hc := C10.fixed16_header_code_field code msg h1 h2 hsz
  simp only [errorBytes, hf]
  exact ⟨h.1, hc, h.2.1⟩

/-- An error answer without `ResponseHeader: fixed16`, and the answer to a request that does not
    parse (which is sent through an empty request object), is the error text and a newline. -/
theorem error_answer_plain (req : Request) (code : Nat) (msg : String) :
    (req.fixed16 = false → errorBytes req code msg = msg ++ "\n") ∧ parseErrorBytes msg = msg ++ "\n" := by
  constructor
  · intro hf; simp [errorBytes, hf, sendBytes]
  · simp [parseErrorBytes, sendBytes]

/-! ## 5. Limit / Offset only select rows -/

/-- `Limit:` and `Offset:` do not change the response columns, the header row or whether it is
    sent; and every row of the answer is — as the same hit, hence with the same cells, width and
    kinds — a row of the answer to the same request without `Limit:` / `Offset:`. -/
theorem limit_offset_rows (m : EvalMode) (s : Schema) (ds : Dataset) (t : Table) (req : Request) :
    requestColumns t (unwindowed req) = requestColumns t req
    ∧ sendColumnsHeader (unwindowed req) = sendColumnsHeader req
    ∧ headerRow t (unwindowed req) = headerRow t req
    ∧ (∀ h ∈ (dataQuery m s ds t req).hits, h ∈ (dataQuery m s ds t (unwindowed req)).hits)
    ∧ (∀ j ∈ dataRows s ds t req (dataQuery m s ds t req).hits,
        j ∈ dataRows s ds t (unwindowed req) (dataQuery m s ds t (unwindowed req)).hits) := by
  refine ⟨rfl, rfl, rfl, hits_subset_unwindowed m s ds t req, ?_⟩
  intro j hj
  obtain ⟨h, hh, rfl⟩ := List.mem_map.mp hj
  exact List.mem_map.mpr ⟨h, hits_subset_unwindowed m s ds t req h hh, rfl⟩

/-- Two requests that differ only in `Limit:` / `Offset:` have the same answer without them: the
    rows of both come from one and the same list of rows. -/
theorem limit_offset_same_source (req : Request) (l : Option Nat) (o : Nat) :
    unwindowed { req with limit := l, offset := o } = unwindowed req := rfl

/-! ## non-vacuity -/

section Examples
open Lmd.Lemmas.Demo

/-- the request `GET hosts / Columns: name state / ColumnHeaders: on / Limit: 1` -/
def demoReq : Request :=
  { table := "hosts", columns := ["name", "state"], colHeaders := true, limit := some 1, fixed16 := true }

/-- two response columns, the header row is sent and repeats the requested names -/
example : (requestColumns hosts demoReq).length = 2 ∧ sendColumnsHeader demoReq = true
    ∧ headerNames hosts demoReq = ["name", "state"] := by decide

/-- the store has two hosts: `total_count` 2, one row returned under `Limit: 1` -/
example : (dataQuery (EvalMode.code Quirks.current) cx.schema cx.ds hosts demoReq).total = 2
    ∧ (dataQuery (EvalMode.code Quirks.current) cx.schema cx.ds hosts demoReq).hits.length = 1
    ∧ (dataQuery (EvalMode.code Quirks.current) cx.schema cx.ds hosts (unwindowed demoReq)).hits.length = 2 := by
  decide

/-- the keys of the wrapped object for this request -/
example : wrappedKeys demoReq = ["data", "failed", "columns", "rows_scanned", "total_count"] := by decide

/-- the typing hypothesis holds for the demo store: the `name` cell of host `a` is text -/
example : ∀ v, rowA.cell? nameCol.name = some v → HasType nameCol.dtype v := by
  intro v hv
  have : rowA.cell? nameCol.name = some (.s "a") := by
    simp [Row.cell?, rowA, nameCol]
  rw [this] at hv
  cases hv
  trivial

/-- hence the whole typing hypothesis for that cell -/
example : CellTyped cx hosts rowA nameCol :=
  ⟨fun _ => localVal_hasType hosts rowA nameCol
      (by
        intro v hv
        have : rowA.cell? nameCol.name = some (.s "a") := by simp [Row.cell?, rowA, nameCol]
        rw [this] at hv
        cases hv
        trivial)
      (by intro h; exact absurd h (by decide)),
   fun h => by simp [nameCol] at h, fun h => by simp [nameCol] at h⟩

/-- the typing hypothesis is needed: a number stored in a text column is rendered as a number -/
example : ¬ CellShape .str (valJson (.i 5)) := by
  simp [CellShape, valJson, IsStr, intJson]

/-- `GET hosts / Columns: name / Stats: state = 1 / Stats: avg state` -/
def demoStats : Request :=
  { table := "hosts", columns := ["name"], stats := [.counter (.leaf stateLeaf false), .agg .avg stateCol false] }

/-- the Stats answer on the demo store has one row per host name and no crash -/
example : (statsQuery ⟨Quirks.current, true, true, true⟩ cx.schema cx.ds hosts demoStats).rows.length = 2
    ∧ (statsQuery ⟨Quirks.current, true, true, true⟩ cx.schema cx.ds hosts demoStats).crash = false := by
  decide

/-- the frame of the empty answer `[]` -/
example : sendBytes true 200 "[]" = "200           3\n[]\n" := by decide

/-- an error answer with its own code -/
example : errorBytes demoReq 400 "bad request: table foo does not exist"
    = "400          38\nbad request: table foo does not exist\n" := by decide

end Examples

end Lmd.C10Body
