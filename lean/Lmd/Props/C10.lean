/- C10 — property theorems (under construction). -/
import Lmd.Frame
namespace Lmd.C10
end Lmd.C10
