/-
  C10 — every response is well framed and has the documented shape.

  1./2. the fixed16 status line: sixteen bytes, `ccc`, a space, the byte count of what follows
        right-aligned in eleven characters, a newline; the count parses back to body + newline.
  3.    the keep-alive loop (`sessionPlan`): requests are answered in order, each once; a request
        that does not parse ends the session with one error and leaves earlier answers alone.
  4.    a result row is a JSON array with one value per requested column, in request order.

  Helper lemmas live in `Lmd.Lemmas.Frame`.
-/
import Lmd.Lemmas.Frame

namespace Lmd.C10
open Lmd Lmd.Frame

/-! ## 1. the fixed16 status line -/

/-- The status line lmd writes for a three digit status code and a body of fewer than 10^11 - 1
    bytes has exactly sixteen characters. -/
theorem fixed16_header_length (code size : Nat) (h1 : 100 ≤ code) (h2 : code ≤ 999)
    (hs : size + 1 < 10 ^ 11) : (fixed16Header code size).length = 16 := by
  rw [← String.length_toList, header_toList]
  have a := digits_length_code h1 h2
  have b := field11_length hs
  simp [a, b]

/-- The sixteen characters are: the three digits of the status code, one space, the decimal number
    `size + 1` right-aligned with spaces in eleven characters, one newline. -/
theorem fixed16_header_layout (code size : Nat) (h1 : 100 ≤ code) (h2 : code ≤ 999)
    (hs : size + 1 < 10 ^ 11) :
    (fixed16Header code size).toList =
        Nat.toDigits 10 code ++ [' '] ++
          (List.replicate (11 - (Nat.toDigits 10 (size + 1)).length) ' ' ++ Nat.toDigits 10 (size + 1)) ++ ['\n']
      ∧ (Nat.toDigits 10 code).length = 3
      ∧ (List.replicate (11 - (Nat.toDigits 10 (size + 1)).length) ' ' ++ Nat.toDigits 10 (size + 1)).length = 11
      ∧ (∀ c ∈ Nat.toDigits 10 code ++ Nat.toDigits 10 (size + 1), c.isDigit = true) := by
  refine ⟨?_, digits_length_code h1 h2, field11_length hs, ?_⟩
  · rw [header_toList]; simp [field11]
  · intro c hc
    rcases List.mem_append.1 hc with h | h <;> exact digits_isDigit h

/-- The status line consists of single-byte characters, so it occupies exactly sixteen bytes on the
    wire. -/
theorem fixed16_header_bytes (code size : Nat) (h1 : 100 ≤ code) (h2 : code ≤ 999)
    (hs : size + 1 < 10 ^ 11) : (fixed16Header code size).utf8ByteSize = 16 := by
  rw [utf8ByteSize_ascii _ (header_ascii code size), fixed16_header_length code size h1 h2 hs]

/-- how a client reads the status line: characters 0-2 are the status code -/
def readCode (resp : String) : Option Nat := (String.ofList (resp.toList.take 3)).toNat?

/-- how a client reads the status line: characters 4-14, leading spaces removed, are the length -/
def readLength (resp : String) : Option Nat :=
  (String.ofList (((resp.toList.drop 4).take 11).dropWhile (· == ' '))).toNat?

private theorem read_aux (code size : Nat) (rest : List Char) (h1 : 100 ≤ code) (h2 : code ≤ 999)
    (hs : size + 1 < 10 ^ 11) :
    (((fixed16Header code size).toList ++ rest).take 3 = digits code) ∧
    ((((fixed16Header code size).toList ++ rest).drop 4).take 11 = field11 (size + 1)) := by
  rw [header_toList]
  have a := digits_length_code h1 h2
  have b := field11_length hs
  constructor
  · rw [List.append_assoc]; exact List.take_left' a
  · have e : digits code ++ ' ' :: (field11 (size + 1) ++ ['\n']) ++ rest
        = (digits code ++ [' ']) ++ (field11 (size + 1) ++ ('\n' :: rest)) := by simp
    rw [e, List.drop_left' (by simp [a]), List.take_left' b]

/-- A framed response starts with its status code: reading the first three characters of
    `sendBytes true code body` as a decimal gives `code`. -/
theorem fixed16_header_code_field (code : Nat) (body : String) (h1 : 100 ≤ code) (h2 : code ≤ 999)
    (hs : body.utf8ByteSize + 1 < 10 ^ 11) : readCode (sendBytes true code body) = some code := by
  have := (read_aux code body.utf8ByteSize (body.toList ++ ['\n']) h1 h2 hs).1
  simp only [readCode, sendBytes, if_true, String.toList_append, List.append_assoc] at this ⊢
  have e : ("\n" : String).toList = ['\n'] := rfl
  rw [e, this]
  exact toNat?_ofList_digits code

/-- The length announced in the status line is the number of bytes that follow it: the response is
    the sixteen byte status line, the body and a newline; the number in columns 4-14 parses back to
    the byte size of body plus newline, and the whole response has 16 + that many bytes. -/
theorem fixed16_header_length_field (code : Nat) (body : String) (h1 : 100 ≤ code) (h2 : code ≤ 999)
    (hs : body.utf8ByteSize + 1 < 10 ^ 11) :
    sendBytes true code body = fixed16Header code body.utf8ByteSize ++ body ++ "\n"
    ∧ readLength (sendBytes true code body) = some ((body ++ "\n").utf8ByteSize)
    ∧ (sendBytes true code body).utf8ByteSize = 16 + (body ++ "\n").utf8ByteSize := by
  have nl : ("\n" : String).utf8ByteSize = 1 := rfl
  refine ⟨by simp [sendBytes], ?_, ?_⟩
  · have := (read_aux code body.utf8ByteSize (body.toList ++ ['\n']) h1 h2 hs).2
    simp only [readLength, sendBytes, if_true, String.toList_append, List.append_assoc] at this ⊢
    have e : ("\n" : String).toList = ['\n'] := rfl
    rw [e, this, field11, dropWhile_pad, String.utf8ByteSize_append, nl]
    exact toNat?_ofList_digits _
  · simp only [sendBytes, if_true, String.utf8ByteSize_append, fixed16_header_bytes code _ h1 h2 hs]
    omega

/-- Without `ResponseHeader: fixed16` the response is the body and a newline, nothing else. -/
theorem plain_response (code : Nat) (body : String) : sendBytes false code body = body ++ "\n" := by
  simp [sendBytes]

/-- non-vacuity: the status line for code 200 and a 41 byte body -/
example : fixed16Header 200 41 = "200          42\n" ∧ (100 ≤ 200 ∧ 200 ≤ 999 ∧ 41 + 1 < 10 ^ 11) := by
  decide

example : readLength (sendBytes true 200 "[[\"a\",1]]") = some 10 ∧ readCode (sendBytes true 200 "[[\"a\",1]]") = some 200 :=
  ⟨(fixed16_header_length_field 200 _ (by decide) (by decide) (by decide)).2.1,
   fixed16_header_code_field 200 _ (by decide) (by decide) (by decide)⟩

/-- the bound on the size is needed: with twelve digits the line gets longer than sixteen -/
example : (fixed16Header 200 (10 ^ 11)).length = 17 := by decide

/-! ## 3. the keep-alive loop -/

/-- (a) Positions are consecutive: the k-th action of a session that starts at request number `i`
    refers to request `i + k`; no request is skipped, repeated or answered out of order. -/
theorem keepalive_seq_index (i : Nat) (reqs : List WireReq) (k : Nat) (a : Action)
    (h : (sessionPlan i reqs)[k]? = some a) : Action.idx a = i + k :=
  plan_idx i reqs k a h

/-- (b) lmd never produces more actions than requests were read. -/
theorem keepalive_seq_length (i : Nat) (reqs : List WireReq) :
    (sessionPlan i reqs).length ≤ reqs.length :=
  plan_length_le i reqs

/-- (c) If every request parses and all but possibly the last carry `KeepAlive: on`, every request
    is answered exactly once, in order. -/
theorem keepalive_seq (reqs : List WireReq)
    (hp : ∀ r ∈ reqs, r.parses = true) (hk : ∀ r ∈ reqs.dropLast, r.keepAlive = true) :
    sessionPlan 0 reqs = (List.range reqs.length).map Action.answer := by
  rw [plan_all_answered 0 reqs hp hk, List.range_eq_range']

/-- (c, any start) the same for a session whose first request has number `i`. -/
theorem keepalive_seq_from (i : Nat) (reqs : List WireReq)
    (hp : ∀ r ∈ reqs, r.parses = true) (hk : ∀ r ∈ reqs.dropLast, r.keepAlive = true) :
    sessionPlan i reqs = (List.range' i reqs.length).map Action.answer :=
  plan_all_answered i reqs hp hk

/-- Later requests never change earlier answers: the plan for the first requests is a prefix of
    the plan for the whole input, whatever follows. -/
theorem keepalive_prefix_stable (i : Nat) (pre post : List WireReq) :
    sessionPlan i pre <+: sessionPlan i (pre ++ post) :=
  plan_prefix i pre post

/-- (d) The first request that does not parse, reached while the connection is still kept alive,
    produces exactly one parse-error action; it is the last action (whatever follows on the wire
    is not processed), and the actions before it are exactly those of the requests before it. -/
theorem keepalive_parse_error (i : Nat) (pre post : List WireReq) (r : WireReq)
    (hp : ∀ x ∈ pre, x.parses = true) (hk : ∀ x ∈ pre, x.keepAlive = true) (hr : r.parses = false) :
    sessionPlan i (pre ++ r :: post) = sessionPlan i pre ++ [Action.parseError (i + pre.length)]
    ∧ sessionPlan i pre = (List.range' i pre.length).map Action.answer := by
  have e1 := plan_append_of_alive i pre (r :: post) hp hk
  have e2 := plan_append_of_alive i pre [] hp hk
  simp only [List.append_nil] at e2
  have e3 : sessionPlan (i + pre.length) [] = [] := rfl
  rw [e3, List.append_nil] at e2
  rw [e1, e2]
  simp [sessionPlan, hr]

/-- (d') A parse-error action can only be the last action of a session, for any input. -/
theorem keepalive_parse_error_last (i : Nat) (reqs : List WireReq) (k j : Nat)
    (h : (sessionPlan i reqs)[k]? = some (Action.parseError j)) :
    k + 1 = (sessionPlan i reqs).length :=
  plan_parseError_last i reqs k j h

/-- (e) After a request without `KeepAlive: on` (or one that does not parse) nothing further is
    processed: whatever follows it on the wire has no effect on the session. -/
theorem keepalive_stops (i : Nat) (pre post : List WireReq) (r : WireReq)
    (hr : r.parses = false ∨ r.keepAlive = false) :
    sessionPlan i (pre ++ r :: post) = sessionPlan i (pre ++ [r]) := by
  have := plan_append_of_ended i (pre ++ [r]) post ⟨r, by simp, hr⟩
  simpa using this

/-- (e') In particular a parsed request without keep-alive that is reached is answered and is the
    last: the session has exactly `pre.length + 1` answers. -/
theorem keepalive_last_answer (i : Nat) (pre post : List WireReq) (r : WireReq)
    (hp : ∀ x ∈ pre, x.parses = true) (hk : ∀ x ∈ pre, x.keepAlive = true)
    (hr : r.parses = true) (hka : r.keepAlive = false) :
    sessionPlan i (pre ++ r :: post) = (List.range' i (pre.length + 1)).map Action.answer := by
  rw [plan_append_of_alive i pre (r :: post) hp hk]
  simp [sessionPlan, hr, hka, List.range'_concat]

/-- non-vacuity: three requests, the last without keep-alive; and a session cut short by a
    request that does not parse -/
example : sessionPlan 0 [⟨true, true⟩, ⟨true, true⟩, ⟨true, false⟩]
    = [Action.answer 0, Action.answer 1, Action.answer 2] := by decide

example : sessionPlan 0 [⟨true, true⟩, ⟨false, true⟩, ⟨true, true⟩]
    = [Action.answer 0, Action.parseError 1] := by decide

/-! ## 4. the shape of a result row -/

/-- A result row is a JSON array with exactly one element per requested column, and the k-th
    element is the value of the k-th requested column (request order is kept). -/
theorem hitJson_width (s : Schema) (ds : Dataset) (t : Table) (cols : List Column) (h : Hit) :
    ∃ a : Array Lean.Json, hitJson s ds t cols h = .arr a ∧ a.size = cols.length ∧
      ∀ k (hk : k < cols.length), a[k]? = some (cellJson { schema := s, ds := ds, b := h.b } t h.r cols[k]) := by
  refine ⟨_, rfl, by simp, ?_⟩
  intro k hk
  simp [hk]

/-- With a `Columns:` header (or a Stats query) the response columns are the requested ones, one per
    name and in the order of the header; without either, all columns of the table. -/
theorem requestColumns_length (t : Table) (req : Request) :
    (req.columns ≠ [] ∨ req.stats ≠ [] →
      requestColumns t req = req.columns.map t.colWithFallback ∧
      (requestColumns t req).length = req.columns.length)
    ∧ (req.columns = [] ∧ req.stats = [] → requestColumns t req = t.cols) := by
  constructor
  · intro h
    have : (req.columns.isEmpty && req.stats.isEmpty) = false := by
      rcases h with h | h
      · simp [List.isEmpty_iff, h]
      · simp [List.isEmpty_iff, h]
    simp [requestColumns, this]
  · rintro ⟨h1, h2⟩
    simp [requestColumns, h1, h2]

/-- The placeholder lmd writes for a column the backend does not have is of the JSON kind documented
    for the column type: string, number, array or object — never `null`. -/
theorem emptyCellJson_kind (d : DataType) : jsonKind (emptyCellJson d) = DataType.jsonKind d := by
  cases d <;> rfl

/-- A typed value is never rendered as JSON `null` or as a Boolean. -/
theorem valJson_kind (v : Val) : jsonKind (valJson v) ≠ .null ∧ jsonKind (valJson v) ≠ .bool := by
  cases v with
  | emptyList t => by_cases h : t = "[]" <;> simp [valJson, jsonKind, Lean.Json.mkObj, h]
  | _ => simp [valJson, jsonKind, intJson, milliJson, Lean.Json.mkObj]

end Lmd.C10
