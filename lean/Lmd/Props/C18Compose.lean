/-
  C18, both halves composed — "A query sent to any node [of a converged cluster] returns the same rows, stats and
  ordering as a single LMD holding all backends would."

  `Lmd.Props.C18Nodes` says what the nodes of a cluster believe after their availability checks; `Lmd.Props.C18Dist`
  says that a distributed request is answered like a single instance answers it, provided the share lists the asked
  node uses split the backends (`Lmd.Dist.Partition`).  This file closes the gap between them: the share lists a node
  really uses are computed from its `nodeBackends` map (`viewShares`, what `cquery` of Driver/Main.lean does: the
  entries in node order), and for a node of a converged cluster those lists satisfy `Partition`.

  What is assumed about the world, throughout:
  * `R` is the set of running nodes (ascending positions below the number `n` of configured nodes, not empty);
  * the asked node's last distribution was computed for `R`, i.e. it was answered by exactly the other running nodes,
    and whatever later checks stored in its map is what the senders serve (`Believes`; `believes_after_recompute`,
    `believes_of_lookup`, `believes_after_check`, `converged_after_rounds`, `cluster_believes_after_round` show how
    a node gets and stays there);
  * the ids `bs` of the configured backends are those of the dataset, distinct and not empty.

  1. `shares_of_converged_view`,      the share lists of such a node are the shares of the running nodes in node order,
     `shares_of_confirmed_view`,      their concatenation is the list of configured backends
     `shares_of_believing_view`
  2. `converged_shares_partition`     they satisfy `Partition` for every request
  3. `converged_cluster_answers_like_single`   the composed statement; `started_cluster_answers_like_single` the same
     from nodes that start and run rounds of checks; `node_answer_like_single` also for requests the node answers
     itself
-/
import Lmd.Lemmas.ComposeLemmas
import Lmd.Props.C18Nodes
import Lmd.Props.C18Dist

namespace Lmd.C18Compose
open Lmd Lmd.Sort Lmd.Dist Lmd.C05 Lmd.ClusterL Lmd.NodeViewL Lmd.ComposeL

/-! ## what the asked node believes -/

/-- The node's `nodeBackends` map is right about the running nodes `R`: exactly one entry for every node of `R`, none
    for any other node, and the entry of node `j` is the share `(sharesOf n R bs).getD j []` the distribution for `R`
    gives it (which is what node `j` serves when it computed the same distribution, `C18Nodes.converged_partition`). -/
def Believes (n : Nat) (R : List Nat) (bs : List String) (v : NodeView) : Prop :=
  GoodMap n R bs v.nodeBackends

/-- A node of the converged cluster: it knows who it is, its reachable set is `R`, and its map is right about `R`. -/
structure Converged (n : Nat) (R : List Nat) (bs : List String) (i : Nat) (v : NodeView) : Prop where
  own : v.own = i
  nNodes : v.nNodes = n
  online : v.online = R
  believes : Believes n R bs v

/-- Right after a node computed the distribution for `R` (its check was answered by exactly the other running
    nodes, see `C18Nodes.recomputed_when_set_changes`) its map is right about `R`. -/
theorem believes_after_recompute (n : Nat) (R : List Nat) (bs : List String) (v : NodeView)
    (hR : R.Pairwise (· < ·)) (hlt : ∀ j ∈ R, j < n) (hv : v.nodeBackends = mapOfShares n R bs) :
    Believes n R bs v := by
  unfold Believes
  rw [hv]
  exact goodMap_mapOfShares n R bs hR hlt

/-- A map known by its lookups, as `C18Nodes.views_agree_after_second_round`, `believed_is_served` and
    `cluster_views_agree` describe it after a confirming round: every running node is looked up to its share; in
    addition the keys of the map are assumed to be exactly the running nodes, each once (the lookups alone do not
    exclude a second, shadowed entry or an entry for a node outside `R`; `believes_after_check` shows that the checks
    keep this shape). -/
theorem believes_of_lookup (n : Nat) (R : List Nat) (bs : List String) (v : NodeView) (hR : R.Pairwise (· < ·))
    (hkeys : (v.nodeBackends.map (·.1)).Perm R)
    (hl : ∀ j ∈ R, v.nodeBackends.lookup j = some ((sharesOf n R bs).getD j [])) :
    Believes n R bs v :=
  goodMap_of_lookup n R bs v.nodeBackends (hR.imp (fun h => Nat.ne_of_lt h)) hkeys hl

/-- The other direction: a node that believes the right thing looks every running node up to its share and has no
    entry for any other node. -/
theorem lookup_of_believes (n : Nat) (R : List Nat) (bs : List String) (v : NodeView) (hR : R.Pairwise (· < ·))
    (hv : Believes n R bs v) (j : Nat) :
    (j ∈ R → v.nodeBackends.lookup j = some ((sharesOf n R bs).getD j [])) ∧
    (j ∉ R → v.nodeBackends.lookup j = none) :=
  lookup_of_goodMap (hR.imp (fun h => Nat.ne_of_lt h)) hv j

/-- Every further availability check keeps a node of the converged cluster there: the node is answered by exactly the
    other running nodes, and every reply carries either no list or the share of its sender (what the sender serves).
    Then after the check — whether it distributed anew (a partner restarted) or only stored the replies' lists — the
    node still has the reachable set `R` and a map that is right about `R`. -/
theorem believes_after_check (n : Nat) (R : List Nat) (bs : List String) (i : Nat) (v : NodeView)
    (rs : List PingReply) (hR : R.Pairwise (· < ·)) (hlt : ∀ j ∈ R, j < n) (hi : i ∈ R)
    (hv : Converged n R bs i v)
    (hrep : (rs.map (·.pos)).Perm (R.erase i))
    (hpeers : ∀ r ∈ rs, r.peers = none ∨ r.peers = some ((sharesOf n R bs).getD r.pos [])) :
    Converged n R bs i (v.check bs rs) := by
  obtain ⟨h1, h2, h3, h4⟩ := hv
  subst h1 h2
  refine ⟨check_own v bs rs, check_nNodes v bs rs, ?_, ?_⟩
  · rw [check_online']
    exact newOnline_eq_of_perm v rs R hR hi hrep
  · exact goodMap_check R bs v rs hR hlt hi hrep hpeers h4

/-- A check that distributes (because the reachable set changed or a partner restarted) and is answered by exactly
    the other running nodes brings a node into the converged cluster, whatever it believed before. -/
theorem converged_after_recompute (n : Nat) (R : List Nat) (bs : List String) (i : Nat) (v : NodeView)
    (rs : List PingReply) (hR : R.Pairwise (· < ·)) (hlt : ∀ j ∈ R, j < n) (hi : i ∈ R)
    (hown : v.own = i) (hn : v.nNodes = n)
    (hc : rs.any (restarted v.seen) = true ∨ (v.own :: rs.map (·.pos)).mergeSort (fun a b => a ≤ b) ≠ v.online)
    (hrep : (rs.map (·.pos)).Perm (R.erase i)) :
    Converged n R bs i (v.check bs rs) := by
  subst hown hn
  have hset : newOnline v rs = R := newOnline_eq_of_perm v rs R hR hi hrep
  refine ⟨check_own v bs rs, check_nNodes v bs rs, by rw [check_online']; exact hset, ?_⟩
  unfold Believes
  rw [check_recomputed v bs rs hc, hset]
  exact goodMap_mapOfShares _ R bs hR hlt

/-- A node that starts (it knows its position and the number of nodes, nothing else) and then runs rounds of checks,
    every one answered by exactly the other running nodes, the replies from the second round on carrying nothing or
    what their senders serve, is a node of the converged cluster after the first round and after every later one. -/
theorem converged_after_rounds (n : Nat) (R : List Nat) (bs : List String) (i : Nat) (first : List PingReply)
    (later : List (List PingReply)) (hR : R.Pairwise (· < ·)) (hlt : ∀ j ∈ R, j < n) (hi : i ∈ R)
    (hfirst : (first.map (·.pos)).Perm (R.erase i))
    (hlater : ∀ rs ∈ later, (rs.map (·.pos)).Perm (R.erase i) ∧
      ∀ r ∈ rs, r.peers = none ∨ r.peers = some ((sharesOf n R bs).getD r.pos [])) :
    Converged n R bs i
      (later.foldl (fun v rs => v.check bs rs) (({ own := i, nNodes := n } : NodeView).check bs first)) := by
  have h0 : Converged n R bs i (({ own := i, nNodes := n } : NodeView).check bs first) :=
    converged_after_recompute n R bs i _ first hR hlt hi rfl rfl (.inr (newOnline_ne_nil _ first)) hfirst
  generalize ({ own := i, nNodes := n } : NodeView).check bs first = v at h0
  induction later generalizing v with
  | nil => exact h0
  | cons rs later ih =>
    rw [List.foldl_cons]
    apply ih (fun rs' h' => hlater rs' (List.mem_cons_of_mem _ h'))
    obtain ⟨ha, hb⟩ := hlater rs List.mem_cons_self
    exact believes_after_check n R bs i v rs hR hlt hi h0 ha hb

/-- The whole cluster, in the terms of `C18Nodes.cluster_views_agree`: the running nodes are nodes of the converged
    cluster and serve what the distribution gives them (`NodeView.Inv`); in the next round every one of them is
    answered by exactly the others and every reply carries what its sender serves (`assigned`, as lmd sends it).  Then
    all of them are nodes of the converged cluster afterwards, still serving their shares. -/
theorem cluster_believes_after_round (n : Nat) (R : List Nat) (bs : List String) (views : Nat → NodeView)
    (replies : Nat → List PingReply) (hR : R.Pairwise (· < ·)) (hlt : ∀ j ∈ R, j < n)
    (hv : ∀ i ∈ R, Converged n R bs i (views i) ∧ NodeView.Inv bs (views i))
    (hrep : ∀ i ∈ R, ((replies i).map (·.pos)).Perm (R.erase i))
    (hpeers : ∀ i ∈ R, ∀ r ∈ replies i, r.peers = some (views r.pos).assigned) :
    ∀ i ∈ R, Converged n R bs i ((views i).check bs (replies i)) ∧
      NodeView.Inv bs ((views i).check bs (replies i)) := by
  intro i hi
  have hassigned : ∀ j ∈ R, (views j).assigned = (sharesOf n R bs).getD j [] := by
    intro j hj
    obtain ⟨⟨g1, g2, g3, _⟩, g4⟩ := hv j hj
    have := g4.assigned_eq
    rwa [g1, g2, g3] at this
  refine ⟨believes_after_check n R bs i (views i) (replies i) hR hlt hi (hv i hi).1 (hrep i hi) ?_,
    C18Nodes.check_preserves_inv _ bs _ (hv i hi).2⟩
  intro r hr
  have hpos : r.pos ∈ R := List.mem_of_mem_erase ((hrep i hi).subset (List.mem_map.2 ⟨r, hr, rfl⟩))
  exact .inr (by rw [hpeers i hi r hr, hassigned r.pos hpos])

/-! ## 1. the share lists the asked node uses -/

/-- The general form: a node whose map is right about the running nodes `R` hands to a distributed request exactly
    the shares of the running nodes, in node order (so in particular up to the order of the nodes), and these lists
    concatenated are the configured backends without the empty ids: every backend is named once, none is lost. -/
theorem shares_of_believing_view (n : Nat) (R : List Nat) (bs : List String) (v : NodeView)
    (hR : R.Pairwise (· < ·)) (hne : R ≠ []) (hlt : ∀ j ∈ R, j < n) (hv : Believes n R bs v) :
    viewShares v = R.map (fun j => (sharesOf n R bs).getD j []) ∧
    (viewShares v).flatten = bs.filter (· ≠ "") := by
  have h1 : viewShares v = R.map (fun j => (sharesOf n R bs).getD j []) := sorted_goodMap hR hv
  exact ⟨h1, by rw [h1]; exact shares_flatten n R bs hR hne hlt⟩

/-- The state right after a recomputation.  Node `i` of the running set `R` (ascending, duplicate free, positions
    below `n`) has the reachable set `R` and the `nodeBackends` map `mapOfShares n R bs` stored with the distribution
    for `R`.  Then the share lists it uses for distributed requests are the shares of the running nodes in node order
    (in particular a permutation of them), and concatenated they are the configured backends without empty ids.
    (`own`, `nNodes`, `online` only describe the situation; the conclusion rests on the map alone, see
    `shares_of_believing_view`.) -/
theorem shares_of_converged_view (n : Nat) (R : List Nat) (bs : List String) (i : Nat) (v : NodeView)
    (hR : R.Pairwise (· < ·)) (hlt : ∀ j ∈ R, j < n) (hi : i ∈ R)
    (_hown : v.own = i) (_hn : v.nNodes = n) (_hon : v.online = R)
    (hv : v.nodeBackends = mapOfShares n R bs) :
    viewShares v = R.map (fun j => (sharesOf n R bs).getD j []) ∧
    (viewShares v).Perm (R.map fun j => (sharesOf n R bs).getD j []) ∧
    (viewShares v).flatten = bs.filter (· ≠ "") := by
  obtain ⟨h1, h2⟩ := shares_of_believing_view n R bs v hR (List.ne_nil_of_mem hi) hlt
    (believes_after_recompute n R bs v hR hlt hv)
  exact ⟨h1, List.Perm.of_eq h1, h2⟩

/-- The state after a confirming round (`C18Nodes.believed_is_served`, `cluster_views_agree`): the lookup of every
    running node gives its share; assumed in addition: the keys of the map are exactly the running nodes, in any order
    (later checks move entries to the end of the map).  The conclusion is the same as right after the recomputation:
    sorting by node makes the order of the map irrelevant. -/
theorem shares_of_confirmed_view (n : Nat) (R : List Nat) (bs : List String) (i : Nat) (v : NodeView)
    (hR : R.Pairwise (· < ·)) (hlt : ∀ j ∈ R, j < n) (hi : i ∈ R)
    (_hown : v.own = i) (_hn : v.nNodes = n) (_hon : v.online = R)
    (hkeys : (v.nodeBackends.map (·.1)).Perm R)
    (hl : ∀ j ∈ R, v.nodeBackends.lookup j = some ((sharesOf n R bs).getD j [])) :
    viewShares v = R.map (fun j => (sharesOf n R bs).getD j []) ∧
    (viewShares v).Perm (R.map fun j => (sharesOf n R bs).getD j []) ∧
    (viewShares v).flatten = bs.filter (· ≠ "") := by
  obtain ⟨h1, h2⟩ := shares_of_believing_view n R bs v hR (List.ne_nil_of_mem hi) hlt
    (believes_of_lookup n R bs v hR hkeys hl)
  exact ⟨h1, List.Perm.of_eq h1, h2⟩

/-! ## 2. they split the backends -/

/-- If the configured backend ids `bs` are exactly the ids of the dataset's backends, distinct and none of them empty,
    the share lists of a node that is right about the running nodes satisfy the partition hypothesis of
    `Lmd.Props.C18Dist` for every request to a table that is answered per backend: the sub requests name every
    selected backend exactly once. -/
theorem converged_shares_partition (ds : Dataset) (t : Table) (req : Request) (n : Nat) (R : List Nat)
    (bs : List String) (v : NodeView) (hR : R.Pairwise (· < ·)) (hne : R ≠ []) (hlt : ∀ j ∈ R, j < n)
    (hv : Believes n R bs v) (hbs : bs = ds.backends.map (·.id)) (hnd : bs.Nodup) (hnoempty : "" ∉ bs)
    (hT : PerBackend t) :
    Partition ds t req (viewShares v) := by
  have hflat : (viewShares v).flatten = bs := by
    rw [(shares_of_believing_view n R bs v hR hne hlt hv).2, List.filter_eq_self]
    intro b hb
    have : b ≠ "" := fun e => hnoempty (e ▸ hb)
    simpa using this
  apply Partition.of_config ds t req (viewShares v) hT
  · intro id hid
    rw [hflat, hbs] at hid
    obtain ⟨b, hb, e⟩ := List.mem_map.1 hid
    exact ⟨b, hb, e⟩
  · rw [hflat]; exact hnd
  · intro id hid e
    rw [hflat] at hid
    exact hnoempty (e ▸ hid)
  · intro b hb
    rw [hflat, hbs]
    exact List.mem_map.2 ⟨b, hb, rfl⟩

/-! ## 3. the composed statement -/

/-- what "answered like a single instance" means for a data request and a Stats request, given the share lists -/
def AnswersLikeSingle (m : EvalMode) (sm : StatsMode) (s : Schema) (ds : Dataset) (t : Table) (req : Request)
    (shares : List (List String)) : Prop :=
  ((req.limit = some 0 → req.offset = 0 ∨ m.earlyCut = false ∨ isDefaultSortOrder req = false ∨
      req.outFmt = .wrapped) →
    (distData m s ds t req shares).total = (dataQuery m s ds t req).total) ∧
  (distData m s ds t req shares).failed.Perm (dataQuery m s ds t req).failed ∧
  (distData m s ds t req shares).hits.map (·.keys) = (dataQuery m s ds t req).hits.map (·.keys) ∧
  (∀ x ∈ (distData m s ds t req shares).hits, x ∈ (dataQuery m s ds t req).pool) ∧
  (req.limit = none → req.offset = 0 →
    (distData m s ds t req shares).hits.Perm (dataQuery m s ds t req).hits) ∧
  (distStats sm s ds t req shares).crash = (statsQuery sm s ds t req).crash ∧
  (distStats sm s ds t req shares).failed.Perm (statsQuery sm s ds t req).failed ∧
  ((distStats sm s ds t req shares).rows.map (·.1)).Perm ((statsQuery sm s ds t req).rows.map (·.1)) ∧
  ((distStats sm s ds t req shares).rows.map (·.1)).Nodup ∧
  ∀ key s₁ s₂, (key, s₁) ∈ (distStats sm s ds t req shares).rows →
    (key, s₂) ∈ (statsQuery sm s ds t req).rows → s₁.map Acc.final = s₂.map Acc.final

/-- under the partition hypothesis a distributed request is answered like a single instance answers it: the
    theorems of `Lmd.Props.C18Dist` in one statement -/
theorem answersLikeSingle_of_partition (m : EvalMode) (sm : StatsMode) (s : Schema) (ds : Dataset) (t : Table)
    (req : Request) (shares : List (List String)) (hT : PerBackend t) (hp : Partition ds t req shares) :
    AnswersLikeSingle m sm s ds t req shares :=
  ⟨C18Dist.dist_total m s ds t req shares hT hp, C18Dist.dist_failed m s ds t req shares hT hp,
    (C18Dist.dist_window_sorted m s ds t req shares hT hp).1, (C18Dist.dist_window_sorted m s ds t req shares hT hp).2,
    fun hl ho => (C18Dist.dist_window_nolimit m s ds t req shares hT hp hl ho).1,
    C18Dist.distStats_eq sm s ds t req shares hT hp⟩

/-- Property C18 end to end, for a converged cluster.

    Assumed about the world: `R` is the non-empty set of running nodes among `n` configured ones; the asked node's
    `nodeBackends` map is right about `R` (`Believes`: its last distribution was computed for `R`, i.e. the node was
    answered by exactly the other running nodes, and later checks stored what the senders serve); the configured
    backend ids `bs` are those of the dataset `ds`, distinct and not empty; the table is answered per backend (lmd
    distributes no other requests, see `node_answer_like_single`).

    Concluded about the answer the client gets from the asked node, for every request (any filter, Sort, Limit,
    Offset, columns, Stats, evaluation mode), compared with the answer of one lmd holding all backends:
    * data request, `distData … (viewShares v)` against `dataQuery`: the same `total_count` (except in the
      `Limit: 0` with offset case `C18Dist.dist_total` describes); the same failed backends with the same messages
      up to order; position by position the same sort keys in the returned window, in particular equally many rows;
      every returned row is a row of the single answer's sorted pool; without Limit and Offset the same rows, each as
      often;
    * Stats request, `distStats` against `statsQuery`: the same crash flag, the same failed backends up to order, the
      same keys (each once), and under every key the slots print the same values (`Acc.final`). -/
theorem converged_cluster_answers_like_single (m : EvalMode) (sm : StatsMode) (s : Schema) (ds : Dataset)
    (t : Table) (req : Request) (n : Nat) (R : List Nat) (bs : List String) (v : NodeView)
    (hR : R.Pairwise (· < ·)) (hne : R ≠ []) (hlt : ∀ j ∈ R, j < n) (hv : Believes n R bs v)
    (hbs : bs = ds.backends.map (·.id)) (hnd : bs.Nodup) (hnoempty : "" ∉ bs) (hT : PerBackend t) :
    ((req.limit = some 0 → req.offset = 0 ∨ m.earlyCut = false ∨ isDefaultSortOrder req = false ∨
        req.outFmt = .wrapped) →
      (distData m s ds t req (viewShares v)).total = (dataQuery m s ds t req).total) ∧
    (distData m s ds t req (viewShares v)).failed.Perm (dataQuery m s ds t req).failed ∧
    (distData m s ds t req (viewShares v)).hits.map (·.keys) = (dataQuery m s ds t req).hits.map (·.keys) ∧
    (∀ x ∈ (distData m s ds t req (viewShares v)).hits, x ∈ (dataQuery m s ds t req).pool) ∧
    (req.limit = none → req.offset = 0 →
      (distData m s ds t req (viewShares v)).hits.Perm (dataQuery m s ds t req).hits) ∧
    (distStats sm s ds t req (viewShares v)).crash = (statsQuery sm s ds t req).crash ∧
    (distStats sm s ds t req (viewShares v)).failed.Perm (statsQuery sm s ds t req).failed ∧
    ((distStats sm s ds t req (viewShares v)).rows.map (·.1)).Perm ((statsQuery sm s ds t req).rows.map (·.1)) ∧
    ((distStats sm s ds t req (viewShares v)).rows.map (·.1)).Nodup ∧
    ∀ key s₁ s₂, (key, s₁) ∈ (distStats sm s ds t req (viewShares v)).rows →
      (key, s₂) ∈ (statsQuery sm s ds t req).rows → s₁.map Acc.final = s₂.map Acc.final :=
  answersLikeSingle_of_partition m sm s ds t req (viewShares v) hT
    (converged_shares_partition ds t req n R bs v hR hne hlt hv hbs hnd hnoempty hT)

/-- The same from the beginning of the cluster's life.  The running nodes `R` start (each knows its position and the
    number of configured nodes) and run rounds of availability checks; in every round every running node is answered
    by exactly the other running nodes, and from the second round on a reply carries nothing or what its sender
    serves.  Then after the first round, and after any number of further rounds, a request sent to any running node
    `i` is answered like one lmd holding all backends answers it (`AnswersLikeSingle`, the conclusion of
    `converged_cluster_answers_like_single`). -/
theorem started_cluster_answers_like_single (m : EvalMode) (sm : StatsMode) (s : Schema) (ds : Dataset) (t : Table)
    (req : Request) (n : Nat) (R : List Nat) (bs : List String) (i : Nat) (first : List PingReply)
    (later : List (List PingReply)) (hR : R.Pairwise (· < ·)) (hlt : ∀ j ∈ R, j < n) (hi : i ∈ R)
    (hfirst : (first.map (·.pos)).Perm (R.erase i))
    (hlater : ∀ rs ∈ later, (rs.map (·.pos)).Perm (R.erase i) ∧
      ∀ r ∈ rs, r.peers = none ∨ r.peers = some ((sharesOf n R bs).getD r.pos []))
    (hbs : bs = ds.backends.map (·.id)) (hnd : bs.Nodup) (hnoempty : "" ∉ bs) (hT : PerBackend t) :
    AnswersLikeSingle m sm s ds t req (viewShares
      (later.foldl (fun v rs => v.check bs rs) (({ own := i, nNodes := n } : NodeView).check bs first))) :=
  converged_cluster_answers_like_single m sm s ds t req n R bs _ hR (List.ne_nil_of_mem hi) hlt
    (converged_after_rounds n R bs i first later hR hlt hi hfirst hlater).believes hbs hnd hnoempty hT

/-! ## requests the node answers itself -/

/-- does a cluster node distribute this request?  (`BuildResponse`; the same test as `distributes` of
    Driver/Ops.lean: the `tables` and `columns` tables and requests that name backends of this node only are
    answered locally) -/
def distributes (t : Table) (req : Request) (ours : List String) : Bool :=
  t.name != "tables" && t.name != "columns" && (req.backends.isEmpty || !(req.backends.all ours.contains))

/-- the data answer of a cluster node holding the view `v` (as `evalData` of Driver/Ops.lean chooses it) -/
def nodeData (m : EvalMode) (s : Schema) (ds : Dataset) (t : Table) (req : Request) (v : NodeView) : DataResult :=
  if distributes t req v.assigned then distData m s ds t req (viewShares v) else dataQuery m s ds t req

/-- the Stats answer of a cluster node holding the view `v` -/
def nodeStats (m : StatsMode) (s : Schema) (ds : Dataset) (t : Table) (req : Request) (v : NodeView) : StatsResult :=
  if distributes t req v.assigned then distStats m s ds t req (viewShares v) else statsQuery m s ds t req

/-- Without the hypothesis on the table: a node of the converged cluster distributes only requests to tables that are
    answered per backend and answers all others like a single instance by construction, so for every table and every
    request its answer has the total, the failed backends (up to order) and, position by position, the sort keys of
    the single answer, from whose pool every returned row comes; and its Stats answer has the same crash flag, failed
    backends, keys and printed values. -/
theorem node_answer_like_single (m : EvalMode) (sm : StatsMode) (s : Schema) (ds : Dataset)
    (t : Table) (req : Request) (n : Nat) (R : List Nat) (bs : List String) (v : NodeView)
    (hR : R.Pairwise (· < ·)) (hne : R ≠ []) (hlt : ∀ j ∈ R, j < n) (hv : Believes n R bs v)
    (hbs : bs = ds.backends.map (·.id)) (hnd : bs.Nodup) (hnoempty : "" ∉ bs) :
    ((req.limit = some 0 → req.offset = 0 ∨ m.earlyCut = false ∨ isDefaultSortOrder req = false ∨
        req.outFmt = .wrapped) →
      (nodeData m s ds t req v).total = (dataQuery m s ds t req).total) ∧
    (nodeData m s ds t req v).failed.Perm (dataQuery m s ds t req).failed ∧
    (nodeData m s ds t req v).hits.map (·.keys) = (dataQuery m s ds t req).hits.map (·.keys) ∧
    (∀ x ∈ (nodeData m s ds t req v).hits, x ∈ (dataQuery m s ds t req).pool) ∧
    (nodeStats sm s ds t req v).crash = (statsQuery sm s ds t req).crash ∧
    (nodeStats sm s ds t req v).failed.Perm (statsQuery sm s ds t req).failed ∧
    ((nodeStats sm s ds t req v).rows.map (·.1)).Perm ((statsQuery sm s ds t req).rows.map (·.1)) ∧
    ∀ key s₁ s₂, (key, s₁) ∈ (nodeStats sm s ds t req v).rows →
      (key, s₂) ∈ (statsQuery sm s ds t req).rows → s₁.map Acc.final = s₂.map Acc.final := by
  cases hd : distributes t req v.assigned with
  | true =>
    have hT : PerBackend t := by
      simp only [distributes, Bool.and_eq_true, bne_iff_ne, ne_eq] at hd
      exact ⟨hd.1.1, hd.1.2⟩
    obtain ⟨a1, a2, a3, a4, _, a6, a7, a8, _, a10⟩ :=
      converged_cluster_answers_like_single m sm s ds t req n R bs v hR hne hlt hv hbs hnd hnoempty hT
    have e1 : nodeData m s ds t req v = distData m s ds t req (viewShares v) := by
      simp only [nodeData, hd, if_true]
    have e2 : nodeStats sm s ds t req v = distStats sm s ds t req (viewShares v) := by
      simp only [nodeStats, hd, if_true]
    rw [e1, e2]
    exact ⟨a1, a2, a3, a4, a6, a7, a8, a10⟩
  | false =>
    have e1 : nodeData m s ds t req v = dataQuery m s ds t req := by
      simp only [nodeData, hd, Bool.false_eq_true, if_false]
    have e2 : nodeStats sm s ds t req v = statsQuery sm s ds t req := by
      simp only [nodeStats, hd, Bool.false_eq_true, if_false]
    rw [e1, e2]
    refine ⟨fun _ => rfl, List.Perm.refl _, rfl, ?_, rfl, List.Perm.refl _, List.Perm.refl _, ?_⟩
    · intro x hx
      exact (dataQuery_hits_sublist_pool m s ds t req).subset hx
    · intro key s₁ s₂ h1 h2
      rw [statsQuery_rows_functional sm s ds t req key s₁ s₂ h1 h2]

/-! ## non-vacuity -/

namespace Ex

/-- the three backends of `C18Dist.exDs` -/
def bs3 : List String := ["a", "b", "c"]

/-- node 0 of 2 right after it distributed `a`, `b`, `c` among the nodes 0 and 1 -/
def v0 : NodeView :=
  { own := 0, nNodes := 2, online := [0, 1], nodeBackends := mapOfShares 2 [0, 1] bs3, assigned := ["a", "b"] }

/-- node 1 of 2 right after the same distribution -/
def v1 : NodeView :=
  { own := 1, nNodes := 2, online := [0, 1], seen := [(0, 7)], nodeBackends := mapOfShares 2 [0, 1] bs3,
    assigned := ["c"] }

/-- node 1 after a confirming round: the entry of node 0 was stored anew and sits at the end of the map now -/
def v1' : NodeView :=
  { own := 1, nNodes := 2, online := [0, 1], seen := [(0, 7)], nodeBackends := [(1, ["c"]), (0, ["a", "b"])],
    assigned := ["c"] }

/-- a map with right lookups for the nodes 0 and 1 and a stale entry for a node 2 that does not run -/
def stale : NodeView :=
  { own := 0, nNodes := 3, online := [0, 1], nodeBackends := [(0, ["a", "b"]), (1, ["c"]), (2, ["a"])],
    assigned := ["a", "b"] }

end Ex

/-- the distribution of the example: node 0 serves `a` and `b`, node 1 serves `c` -/
example : mapOfShares 2 [0, 1] Ex.bs3 = [(0, ["a", "b"]), (1, ["c"])] ∧
    ([0, 1].map fun j => (sharesOf 2 [0, 1] Ex.bs3).getD j []) = [["a", "b"], ["c"]] := by decide

/-- `shares_of_converged_view`: 2 nodes, both running, three backends; the asked node 0 uses the share lists
    `[["a","b"],["c"]]` -/
example : viewShares Ex.v0 = [["a", "b"], ["c"]] ∧ (viewShares Ex.v0).flatten = ["a", "b", "c"] := by
  obtain ⟨h1, _, h2⟩ := shares_of_converged_view 2 [0, 1] Ex.bs3 0 Ex.v0 (by decide) (by decide) (by decide)
    rfl rfl rfl rfl
  rw [h2, h1]
  decide

/-- the view `Ex.v1'` is what node 1 really has after a second round in which node 0 answers with its share: the
    check keeps the distribution and stores the reply's list at the end of the map -/
example : (Ex.v1.check Ex.bs3 [⟨0, 7, some ["a", "b"]⟩]).nodeBackends = Ex.v1'.nodeBackends := by
  have hs : newOnline Ex.v1 [⟨0, 7, some ["a", "b"]⟩] = [0, 1] :=
    newOnline_eq_of_perm Ex.v1 _ [0, 1] (by decide) (by decide) (by decide)
  rw [check_kept Ex.v1 _ _ (by decide) hs]
  decide

/-- `shares_of_confirmed_view`, `believes_of_lookup`: the hypotheses hold for that view of node 1 (keys `[1, 0]`, a
    permutation of the running nodes; right lookups), and it uses the same share lists as node 0 -/
example : viewShares Ex.v1' = [["a", "b"], ["c"]] := by
  obtain ⟨h1, _, _⟩ := shares_of_confirmed_view 2 [0, 1] Ex.bs3 1 Ex.v1' (by decide) (by decide) (by decide)
    rfl rfl rfl (by decide) (by decide)
  rw [h1]
  decide

/-- `believes_after_check`, `converged_after_recompute`, `converged_after_rounds`: the hypotheses on the replies hold
    for node 0 of the example that is answered by node 1, first without a list, then with node 1's share -/
example : Converged 2 [0, 1] Ex.bs3 0
    ([[(⟨1, 7, some ["c"]⟩ : PingReply)]].foldl (fun v rs => v.check Ex.bs3 rs)
      (({ own := 0, nNodes := 2 } : NodeView).check Ex.bs3 [⟨1, 7, none⟩])) :=
  converged_after_rounds 2 [0, 1] Ex.bs3 0 [⟨1, 7, none⟩] [[⟨1, 7, some ["c"]⟩]] (by decide) (by decide) (by decide)
    (by decide) (by decide)

/-- `cluster_believes_after_round`: the hypotheses hold for the two nodes of the example, each answered by the other
    one with what it serves -/
example :
    let views : Nat → NodeView := fun i =>
      { own := i, nNodes := 2, online := [0, 1], nodeBackends := mapOfShares 2 [0, 1] Ex.bs3,
        assigned := (sharesOf 2 [0, 1] Ex.bs3).getD i [] }
    let replies : Nat → List PingReply := fun i => if i = 0 then [⟨1, 7, some ["c"]⟩] else [⟨0, 7, some ["a", "b"]⟩]
    (∀ i ∈ [0, 1], Converged 2 [0, 1] Ex.bs3 i (views i) ∧ NodeView.Inv Ex.bs3 (views i)) ∧
    (∀ i ∈ [0, 1], ((replies i).map (·.pos)).Perm (([0, 1] : List Nat).erase i)) ∧
    (∀ i ∈ [0, 1], ∀ r ∈ replies i, r.peers = some (views r.pos).assigned) := by
  refine ⟨fun i _ => ⟨⟨rfl, rfl, rfl, believes_after_recompute 2 [0, 1] Ex.bs3 _ (by decide) (by decide) rfl⟩, ⟨rfl⟩⟩,
    by decide, by decide⟩

/-- `converged_shares_partition`: the hypotheses hold for the example cluster and the dataset of
    `Lmd.Props.C18Dist` (backends `a`, `b`, `c`), whatever the request -/
example (req : Request) : Partition C18Dist.exDs C18Dist.exT req [["a", "b"], ["c"]] := by
  have h := converged_shares_partition C18Dist.exDs C18Dist.exT req 2 [0, 1] Ex.bs3 Ex.v0 (by decide) (by decide)
    (by decide) (believes_after_recompute 2 [0, 1] Ex.bs3 Ex.v0 (by decide) (by decide) rfl) (by decide) (by decide)
    (by decide) C18Dist.exPerBackend
  have e : viewShares Ex.v0 = [["a", "b"], ["c"]] := by
    rw [(shares_of_believing_view 2 [0, 1] Ex.bs3 Ex.v0 (by decide) (by decide) (by decide)
      (believes_after_recompute 2 [0, 1] Ex.bs3 Ex.v0 (by decide) (by decide) rfl)).1]
    decide
  rwa [e] at h

/-- `converged_cluster_answers_like_single`: all hypotheses hold for the example cluster (2 nodes, `R = [0,1]`,
    backends `a`, `b`, `c`, shares `[["a","b"],["c"]]`), for every request and evaluation mode -/
example (m : EvalMode) (sm : StatsMode) (s : Schema) (req : Request) :
    AnswersLikeSingle m sm s C18Dist.exDs C18Dist.exT req (viewShares Ex.v0) :=
  converged_cluster_answers_like_single m sm s C18Dist.exDs C18Dist.exT req 2 [0, 1] Ex.bs3 Ex.v0 (by decide)
    (by decide) (by decide) (believes_after_recompute 2 [0, 1] Ex.bs3 Ex.v0 (by decide) (by decide) rfl) (by decide)
    (by decide) (by decide) C18Dist.exPerBackend

/-- `started_cluster_answers_like_single`: the same for node 1 of the example from its start, through two rounds -/
example (m : EvalMode) (sm : StatsMode) (s : Schema) (req : Request) :
    AnswersLikeSingle m sm s C18Dist.exDs C18Dist.exT req (viewShares
      ([[(⟨0, 7, some ["a", "b"]⟩ : PingReply)]].foldl (fun v rs => v.check Ex.bs3 rs)
        (({ own := 1, nNodes := 2 } : NodeView).check Ex.bs3 [⟨0, 7, none⟩]))) :=
  started_cluster_answers_like_single m sm s C18Dist.exDs C18Dist.exT req 2 [0, 1] Ex.bs3 1 [⟨0, 7, none⟩]
    [[⟨0, 7, some ["a", "b"]⟩]] (by decide) (by decide) (by decide) (by decide) (by decide) (by decide) (by decide)
    (by decide) C18Dist.exPerBackend

/-- the two answers computed: with the shares of the example the two nodes report 2 + 1 rows, the single instance 3;
    two of them are returned -/
example : (distData (EvalMode.code Quirks.none) default C18Dist.exDs C18Dist.exT { limit := some 2 }
      [["a", "b"], ["c"]]).total = 3 ∧
    (dataQuery (EvalMode.code Quirks.none) default C18Dist.exDs C18Dist.exT { limit := some 2 }).total = 3 ∧
    (distData (EvalMode.code Quirks.none) default C18Dist.exDs C18Dist.exT { limit := some 2 }
      [["a", "b"], ["c"]]).hits.length = 2 := by
  decide

/-- `node_answer_like_single`: a request that names backends of the asked node only is not distributed, one that
    names no backend is -/
example : distributes C18Dist.exT { backends := ["a"] } Ex.v0.assigned = false ∧
    distributes C18Dist.exT {} Ex.v0.assigned = true := by decide

/-- The assumption on the keys in `believes_of_lookup` / `shares_of_confirmed_view` is needed: with right lookups for
    the running nodes 0 and 1 but a stale entry for a node 2 that does not run, the share lists name backend `a`
    twice, and `Partition` fails. -/
example : (∀ j ∈ [0, 1], Ex.stale.nodeBackends.lookup j = some ((sharesOf 3 [0, 1] Ex.bs3).getD j [])) ∧
    ¬ Partition C18Dist.exDs C18Dist.exT {} (viewShares Ex.stale) := by
  refine ⟨by decide, fun h => ?_⟩
  have e : viewShares Ex.stale = [["a", "b"], ["c"], ["a"]] := by
    unfold viewShares
    rw [List.mergeSort_of_pairwise (by decide)]
    rfl
  have := h.nodup
  rw [e] at this
  revert this
  decide

end Lmd.C18Compose
