/-
  C03 — delta updates converge to the backend and never tear an object.

  9.  `tsBlocks_exact`, `tsBlocks_count`, `tsBlocks_separated`: the blocks `composeTimestampFilter` builds
      cover exactly the given timestamps, are at most as many as the timestamps, and (for strictly
      ascending input) are never adjacent.
  10. `applyDelta_copies_current`, `row_after_cells`: what `prepareDataUpdateSet` + `insertDeltaDataResult`
      write: same number of rows, rows that are not addressed are untouched, an addressed row gets the
      coerced values of the reply (all dynamic columns for the full decision, the numeric ones else).
  11. `no_tear_step`: on a backend without `last_update`, the numbers-only decision is only taken when
      `last_check` and every int / int64 dynamic column of the reply equal the cached ones.
  12. `delta_success_stamps`, `delta_window_used`, `delta_reply_window`, `windows_contiguous`: the window
      of a delta run and the adjacency of the windows of consecutive successful runs;
      `fullscan_detects`, `fullscan_refetches`: the periodic full scan.

  13. `aligned_preserved`, `aligned_after_sync`, `aligned_after_init`: the invariant of the positional pairing;
      `converges_step_partial` (with `scan_detected_rows_refreshed`, `delivered_rows_refreshed`,
      `others_untouched_or_own`): what ONE hosts / services step with a due full scan does to every row;
      `converges_quiescent_ints_partial`, `converges_quiescent_partial`: under the backend contracts
      `ChangeVisible` / `StampsTell` the dynamic columns of the table equal the backend's after that step.

  A `converges` theorem over several runs is not proved; the end of this file says what is missing.

  Helper lemmas live in `Lmd.Lemmas.PeerLemmas` and `Lmd.Lemmas.ConvergeLemmas`.
-/
import Lmd.Lemmas.PeerLemmas
import Lmd.Lemmas.ConvergeLemmas

namespace Lmd.C03
open Lmd Lmd.PeerL

/-! ## 9. the timestamp filter -/

/-- A timestamp satisfies the filter `composeTimestampFilter ts` (it lies in one of the blocks `lo ≤ t ≤ hi`) if
    and only if it is one of `ts` — for lists of any length.  (This needs no order on `ts`; lmd passes a sorted list
    without duplicates, for which the blocks are also minimal, see `tsBlocks_separated`.) -/
theorem tsBlocks_exact (ts : List Int) (t : Int) :
    (∃ blk ∈ tsBlocks ts, blk.1 ≤ t ∧ t ≤ blk.2) ↔ t ∈ ts := by
  cases ts with
  | nil => simp [tsBlocks]
  | cons x xs =>
    have := go_mem t xs x x (Int.le_refl x)
    unfold inBlocks at this
    unfold tsBlocks
    rw [this, List.mem_cons]
    constructor
    · rintro (h | h)
      · exact .inl (by omega)
      · exact .inr h
    · rintro (h | h)
      · exact .inl ⟨by omega, by omega⟩
      · exact .inr h

example : (∃ blk ∈ tsBlocks [3, 4, 5, 9, 10, 20], blk.1 ≤ 4 ∧ 4 ≤ blk.2) ∧
    tsBlocks [3, 4, 5, 9, 10, 20] = [(3, 5), (9, 10), (20, 20)] := by decide

/-- The filter has at most as many blocks as there are timestamps. -/
theorem tsBlocks_count (ts : List Int) : (tsBlocks ts).length ≤ ts.length := by
  cases ts with
  | nil => simp [tsBlocks]
  | cons x xs =>
    unfold tsBlocks
    have := go_length xs x x
    simp only [List.length_cons]; omega

/-- For strictly ascending timestamps the blocks are well formed, in ascending order and no two of them touch
    (`hi + 1 < lo'`): no shorter filter describes the same set. -/
theorem tsBlocks_separated (ts : List Int) (h : ts.Pairwise (· < ·)) :
    (tsBlocks ts).Pairwise (fun a b => a.2 + 1 < b.1) ∧ ∀ blk ∈ tsBlocks ts, blk.1 ≤ blk.2 := by
  cases ts with
  | nil => simp [tsBlocks]
  | cons x xs =>
    rw [List.pairwise_cons] at h
    unfold tsBlocks
    obtain ⟨h1, h2⟩ := go_separated xs x x (Int.le_refl x) h.1 h.2
    exact ⟨h1, fun blk hb => (h2 blk hb).2⟩

example : ([3, 4, 5, 9, 10, 20] : List Int).Pairwise (· < ·) := by decide

/-! ## 10. what a delta reply writes -/

/-- `prepareDataUpdateSet` + `insertDeltaDataResult`.  If a reply is accepted (`some rows`), then there is the list
    `upd` of (row index, reply row) pairs — every reply row exactly once — such that
    * the table keeps its number of rows;
    * a row no pair addresses is unchanged;
    * a row addressed by exactly one pair `(i, r)` is `rowAfter old r`: the cached row with the values of `r` copied
      according to the decision (see `row_after_cells`);
    * when the reply has as many rows as the table, rows are matched by position and every row is addressed exactly
      once; otherwise every pair addresses a cached row that carries the reply row's primary key.
    So every value a step writes into the cache is the backend's value in the reply of that step's fetch. -/
theorem applyDelta_copies_current (w : World) (flags : Nat) (tab : Table) (cached : List Row) (reply : List ReplyRow)
    (rows : List Row) (h : applyDelta w flags tab cached reply = some rows) :
    ∃ upd : List (Nat × ReplyRow),
      (upd.map (·.2)).Perm reply ∧
      rows.length = cached.length ∧
      (∀ j, (∀ x ∈ upd, x.1 ≠ j) → rows[j]? = cached[j]?) ∧
      (∀ x ∈ upd, OnlyOnce upd x → ∀ old, cached[x.1]? = some old →
        rows[x.1]? = some (rowAfter w flags tab old x.2)) ∧
      (reply.length = cached.length → upd.map (·.1) = List.range cached.length ∧ ∀ x ∈ upd, OnlyOnce upd x) ∧
      (reply.length ≠ cached.length → ∀ x ∈ upd, ∃ c, cached[x.1]? = some c ∧ c.key tab = replyKey tab x.2) := by
  rw [applyDelta_eq] at h
  cases ha : addressed tab cached reply with
  | none => rw [ha] at h; cases h
  | some upd =>
    rw [ha] at h
    simp only [Option.map_some, Option.some.injEq] at h
    subst h
    obtain ⟨s1, s2, s3⟩ := addressed_spec ha
    refine ⟨upd, s1, foldl_deltaStep_length w flags tab upd cached,
      fun j hj => foldl_deltaStep_other w flags tab j upd cached hj,
      fun x _ hx old hold => foldl_deltaStep_once w flags tab upd cached x old hx hold,
      fun hl => ⟨s2 hl, fun x hx => onlyOnce_of_nodup upd x (by rw [s2 hl]; exact List.nodup_range) hx⟩, s3⟩

/-- a world whose hosts table has a key and two dynamic columns, one numeric and one string -/
def exWorld : World :=
  { cfg := {}, mainRestart := 100,
    schema := { tables := [
      { name := "hosts", primaryKey := ["name"],
        cols := [{ name := "name", dtype := .str, storage := .loc, fetch := "Static" },
                 { name := "state", dtype := .int, storage := .loc, fetch := "Dynamic" },
                 { name := "plugin_output", dtype := .str, storage := .loc, fetch := "Dynamic" }] }] } }

/-- the hosts table of `exWorld` -/
def exHosts : Table := tableOf exWorld "hosts"

example : (applyDelta exWorld 0 exHosts
    [{ cells := [("name", .s "a"), ("state", .i 0), ("plugin_output", .s "ok")] }]
    [[("name", Lean.Json.str "a"), ("state", Lean.Json.num 2), ("plugin_output", Lean.Json.str "down")]]).isSome = true := by
  rw [applyDelta_eq]
  simp only [addressed, sortedDelta, List.map_cons, List.map_nil, List.mergeSort_singleton]
  decide

/-- The cached row after a reply row `r` addressed it, cell by cell (column names of the table unique):
    * skipped (`decision = none`): the row is unchanged;
    * full (`some true`): every dynamic column the reply delivers holds `coerce` of the delivered value;
    * numbers only (`some false`): every numeric dynamic column the reply delivers holds `coerce` of the delivered
      value, every other dynamic column is unchanged;
    * in every case a cell that is not a dynamic column, or that the reply does not deliver, is unchanged. -/
theorem row_after_cells (w : World) (flags : Nat) (tab : Table) (old : Row) (r : ReplyRow)
    (hnames : ((dynamicCols w.schema flags tab.name).map (·.name)).Nodup) :
    (decision w flags tab old r = none → rowAfter w flags tab old r = old) ∧
    (decision w flags tab old r = some true →
      ∀ col ∈ dynamicCols w.schema flags tab.name, ∀ k j, r.find? (·.1 == col.name) = some (k, j) →
        (rowAfter w flags tab old r).cell? col.name = some (coerce col.dtype j)) ∧
    (decision w flags tab old r = some false →
      ∀ col ∈ dynamicCols w.schema flags tab.name,
        (isNumericCol col = true → ∀ k j, r.find? (·.1 == col.name) = some (k, j) →
          (rowAfter w flags tab old r).cell? col.name = some (coerce col.dtype j)) ∧
        (isNumericCol col = false → (rowAfter w flags tab old r).cell? col.name = old.cell? col.name)) ∧
    (∀ n, (n ∉ (dynamicCols w.schema flags tab.name).map (·.name) ∨ r.find? (·.1 == n) = none) →
      (rowAfter w flags tab old r).cell? n = old.cell? n) := by
  refine ⟨fun hd => ?_, fun hd col hc k j hr => ?_, fun hd col hc => ⟨fun hnum k j hr => ?_, fun hnum => ?_⟩,
    fun n hn => ?_⟩
  · unfold rowAfter; rw [hd]
  · unfold rowAfter; rw [hd]
    exact updateRow_cell_written true r col k j _ old hnames hc rfl hr
  · unfold rowAfter; rw [hd]
    exact updateRow_cell_written false r col k j _ old hnames hc (by simp [hnum]) hr
  · unfold rowAfter; rw [hd]
    apply updateRow_cell_untouched
    intro c' hc' hne
    left
    have : c' = col := nodup_name_eq hnames hc' hc hne
    rw [this, hnum]; rfl
  · unfold rowAfter
    split
    · rfl
    · apply updateRow_cell_untouched
      intro c' hc' hne
      rcases hn with hn | hn
      · exact absurd (by rw [← hne]; exact List.mem_map_of_mem hc') hn
      · exact .inr hn

example : ((dynamicCols exWorld.schema 0 exHosts.name).map (·.name)).Nodup ∧
    (dynamicCols exWorld.schema 0 exHosts.name).length = 2 := by decide

/-! ## 11. no torn rows from the numbers-only update -/

/-- On a backend without `last_update` (for a table that stores `last_check`) an addressed row gets either the full
    update — every delivered dynamic column, strings included, is copied — or the numbers-only update, and the
    latter only when `last_check` and every int / int64 dynamic column of the reply already equal the cached values.
    So a reply in which a number changed without a new check result (acknowledgement, downtime depth, modified
    attributes, …) is copied as a whole: the row never mixes the new numbers with the old strings. -/
theorem no_tear_step (w : World) (flags : Nat) (tab : Table) (old : Row) (r : ReplyRow)
    (hLU : hasLU w flags tab = false) (hLC : hasLC tab = true) :
    rowAfter w flags tab old r = updateRow (dynamicCols w.schema flags tab.name) true old r ∨
    (rowAfter w flags tab old r = updateRow (dynamicCols w.schema flags tab.name) false old r ∧
      replyInt r "last_check" = old.int "last_check" ∧
      ∀ col ∈ dynamicCols w.schema flags tab.name,
        (col.dtype = .int → checkInt8 (replyInt r col.name) = old.int col.name) ∧
        (col.dtype = .int64 → replyInt r col.name = old.int col.name)) := by
  have hd := decision_noLU (w := w) (flags := flags) (tab := tab) old r hLU hLC
  unfold rowAfter
  rw [hd]
  simp only []
  cases hb : (replyInt r "last_check" != old.int "last_check" ||
      intChanged (dynamicCols w.schema flags tab.name) old r) with
  | true => exact .inl rfl
  | false =>
    rw [Bool.or_eq_false_iff] at hb
    exact .inr ⟨rfl, by simpa using hb.1, intChanged_false hb.2⟩

/-- a world whose hosts table stores `last_check`, on a backend without `last_update` -/
def exWorld2 : World :=
  { cfg := {}, mainRestart := 100,
    schema := { tables := [
      { name := "hosts", primaryKey := ["name"],
        cols := [{ name := "name", dtype := .str, storage := .loc, fetch := "Static" },
                 { name := "last_check", dtype := .int64, storage := .loc, fetch := "Dynamic" },
                 { name := "acknowledged", dtype := .int, storage := .loc, fetch := "Dynamic" },
                 { name := "plugin_output", dtype := .str, storage := .loc, fetch := "Dynamic" }] }] } }

example : hasLU exWorld2 0 (tableOf exWorld2 "hosts") = false ∧ hasLC (tableOf exWorld2 "hosts") = true := by decide

/-- the repaired case: an acknowledgement without a new check result (same `last_check`) gets the full update -/
example : decision exWorld2 0 (tableOf exWorld2 "hosts")
    { cells := [("name", .s "a"), ("last_check", .i 50), ("acknowledged", .i 0), ("plugin_output", .s "x")] }
    [("name", Lean.Json.str "a"), ("last_check", Lean.Json.num 50), ("acknowledged", Lean.Json.num 1),
     ("plugin_output", Lean.Json.str "x")] = some true := by decide

/-! ## 12. windows and the full scan -/

/-- the time window of a delta run from `fromT` at `now`: `[fromT - UpdateOffset, now - UpdateOffset)` -/
def deltaWindow (w : World) (fromT now : Int) : Int × Int := (fromT - w.cfg.updateOffset, now - w.cfg.updateOffset)

/-- A successful `UpdateDelta` sets the update time to `now` (and the peer `Up`, seen now). -/
theorem delta_success_stamps (w : World) (now : Int) (p : PeerSt) (b : BackendSt) (c : Cache) (fromT : Int)
    (h : (updateDelta w now p b c fromT).err = .none) :
    (updateDelta w now p b c fromT).p.lastUpdate = now ∧ (updateDelta w now p b c fromT).p.lastOnline = now ∧
      (updateDelta w now p b c fromT).p.status = .up := by
  obtain ⟨a, _, c1, _, e, _⟩ := updateDelta_ok h
  exact ⟨e, c1, a⟩

example : (updateDelta exWorld0 130 { exPeer0 with lastUpdate := 130 } exBackend0 [] 120).err = .none := exDelta_ok

/-- `UpdateDelta(from, now)` with `from > 0` asks for hosts and for services with the window
    `[from - offset, now - offset)` and scan threshold `from - offset` (`winStep` is the hosts / services step of
    `updateDelta`, see `updateDelta_eq`). -/
theorem delta_window_used (w : World) (now fromT : Int) (p : PeerSt) (b : BackendSt) (c : Cache) (t : String)
    (h : fromT > 0) :
    winStep w now fromT p b c t =
      deltaTable w now p b c t (some (deltaWindow w fromT now)) (deltaWindow w fromT now).1 := by
  unfold winStep deltaWindow
  rw [if_pos h, if_pos h]

example : (120 : Int) > 0 := by decide

/-- What a window request returns: exactly the backend's objects whose time stamp lies in `[lo, hi)`, or that are
    being checked right now (when asked for), or whose `last_check` is one of the extra values of the full scan. -/
theorem delta_reply_window (rows : List ReplyRow) (tsCol : String) (lo hi : Int) (executing : Bool)
    (extra : List Int) (r : ReplyRow) :
    r ∈ deltaReply rows tsCol (some (lo, hi)) executing extra ↔
      r ∈ rows ∧ ((lo ≤ replyInt r tsCol ∧ replyInt r tsCol < hi) ∨
        (executing = true ∧ replyInt r "is_executing" = 1) ∨ replyInt r "last_check" ∈ extra) :=
  deltaReply_mem rows tsCol lo hi executing extra r

/-- the conditions under which a loop pass is a plain delta run: awake, `Up` with data `c`, the minute of the last
    timeperiod refresh, the next run due, no periodic full update pending, no forced full fetch -/
def DeltaPass (w : World) (now : Int) (p : PeerSt) (c : Cache) : Prop :=
  p.cache = some c ∧ p.status = .up ∧ idlesAt w now p = false ∧ p.lastTpMinute = (now / 60) % 60 ∧
    ¬ now < p.lastUpdate + w.cfg.updateInterval ∧
    ¬ (w.cfg.fullUpdateInterval > 0 ∧ now > p.lastFullUpdate + w.cfg.fullUpdateInterval) ∧ p.forceFull = false

/-- Driven by the update loop, consecutive successful delta runs use adjacent windows: a delta pass at `now1` runs
    `UpdateDelta` from the previous update time; if it succeeds, the update time is `now1`, and a following delta
    pass at `now2` runs `UpdateDelta` from `now1` — its window starts where the previous one ended. -/
theorem windows_contiguous (w : World) (now1 now2 : Int) (p : PeerSt) (b1 b2 : BackendSt) (c c' : Cache)
    (h1 : DeltaPass w now1 p c)
    (hok : (updateDelta w now1 { p with lastUpdate := now1 } b1 c p.lastUpdate).err = .none)
    (h2 : DeltaPass w now2 (tick w now1 p b1).p c') :
    tick w now1 p b1 = deltaRun w now1 { p with lastUpdate := now1 } b1 c p.lastUpdate ∧
    (tick w now1 p b1).p.lastUpdate = now1 ∧
    tick w now2 (tick w now1 p b1).p b2 =
      deltaRun w now2 { (tick w now1 p b1).p with lastUpdate := now2 } b2 c' now1 ∧
    (deltaWindow w now1 now2).1 = (deltaWindow w p.lastUpdate now1).2 := by
  obtain ⟨a1, a2, a3, a4, a5, a6, a7⟩ := h1
  have e1 := tick_delta w now1 p b1 c a1 a2 a3 a4 a5 a6 a7
  have hl : (tick w now1 p b1).p.lastUpdate = now1 := by
    rw [e1]; exact (deltaRun_of_ok hok).2.2
  obtain ⟨b1', b2', b3, b4, b5, b6, b7⟩ := h2
  have e2 := tick_delta w now2 (tick w now1 p b1).p b2 c' b1' b2' b3 b4 b5 b6 b7
  rw [hl] at e2
  exact ⟨e1, hl, e2, rfl⟩

/-- non-vacuity: the pass at 130 over `exPeer0` (awake, `Up`, last updated at 120) against `exBackend0` is a delta
    pass that succeeds, and the pass at 140 over the resulting peer is a delta pass again -/
example : ∃ c', DeltaPass exWorld0 130 exPeer0 [] ∧
    (updateDelta exWorld0 130 { exPeer0 with lastUpdate := 130 } exBackend0 [] exPeer0.lastUpdate).err = .none ∧
    DeltaPass exWorld0 140 (tick exWorld0 130 exPeer0 exBackend0).p c' := by
  obtain ⟨a1, a2, a3, a4, a5, a6, a7, ⟨c', b1⟩, b2, b3, b4, b5, b7⟩ := exTick_fields
  exact ⟨c', ⟨a1, a2, a3, a4, a5, a6, a7⟩, exDelta_ok, ⟨b1, b2, b3, b4, b5, by decide, b7⟩⟩

/-- the scripted backend of the scan example: one host -/
def exBackend : BackendSt :=
  { tables := [("status", [[("program_start", Lean.Json.num 5), ("nagios_pid", Lean.Json.num 7)]]),
               ("hosts", [[("name", Lean.Json.str "a"), ("state", Lean.Json.num 0), ("plugin_output", Lean.Json.str "ok")]])],
    cols := [] }

/-- The full scan detects: when the scan of a hosts / services step is due and answered (with no more objects than
    cached), the step asks — besides the window — for the `last_check` values `scanMissing` lists, and a value `v` is
    listed exactly when some object, paired by position with its cached row, has `last_check = v` before the window
    (`v < threshold`) and differs from the cached row in one of the scan columns (`last_check`, downtime depth,
    acknowledged, active checks / notifications enabled, modified attributes, …). -/
theorem fullscan_detects (w : World) (now : Int) (p : PeerSt) (b : BackendSt) (c : Cache) (t : String)
    (window : Option (Int × Int)) (threshold : Int)
    (hdue : ¬ lastFullOf p t > now - 60) (hq : (query w now p b).2.2 = none)
    (hlen : ¬ (c.get t).length < (b.rows t).length) :
    (deltaTable w now p b c t window threshold =
      let q := query w now p b
      let missing := scanMissing w t p.flags q.1.flags threshold (b.rows t) (c.get t)
      if missing.isEmpty then plainStep w now c t window p.flags q.1 q.2.1 [] false
      else plainStep w now c t window p.flags q.1 q.2.1 (if tsFilterLen missing > 150 then missing.take 149 else missing) true) ∧
    ∀ v, v ∈ scanMissing w t p.flags (query w now p b).1.flags threshold (b.rows t) (c.get t) ↔
      ∃ x ∈ (sortedReply w t (b.rows t)).zip (c.get t), replyInt x.1 "last_check" = v ∧ v < threshold ∧
        scanChanged (tableOf w t)
          (scanColumns (tsColumn w p.flags == "last_check")
            (((query w now p b).1.flags &&& flagBit w.schema "HasLastUpdateColumn") != 0)) x.2 x.1 = true :=
  ⟨deltaTable_scan w now p b c t window threshold hdue hq hlen, fun _ => scanMissing_mem ..⟩

example : ¬ lastFullOf ({ lastFullHostUpdate := 10 } : PeerSt) "hosts" > (100 : Int) - 60 ∧
    (query exWorld 100 { lastFullHostUpdate := 10 } exBackend).2.2 = none ∧
    ¬ (Cache.get [("hosts", [{ cells := [] }])] "hosts").length < (exBackend.rows "hosts").length := by decide

/-- The full scan refetches: every backend object whose `last_check` is one of the extra values is part of the
    reply of the request, whatever its time stamp. -/
theorem fullscan_refetches (rows : List ReplyRow) (tsCol : String) (lo hi : Int) (executing : Bool)
    (extra : List Int) (r : ReplyRow) (hr : r ∈ rows) (hx : replyInt r "last_check" ∈ extra) :
    r ∈ deltaReply rows tsCol (some (lo, hi)) executing extra :=
  (deltaReply_mem rows tsCol lo hi executing extra r).2 ⟨hr, .inr (.inr hx)⟩

/-! ## 13. one hosts / services step converges towards the backend

  Notation of this section, for the step `deltaTable w now p b c t window threshold` whose full scan is due:
  `sortedReply w t (b.rows t)` are the backend's objects in primary-key order (what the scan request returns),
  `stepScanCols` the scan columns, `stepMissing` the `last_check` values the scan lists (`scanMissing`),
  `delivered … r` says that the delta request of the step returns the backend row `r` (it lies in the window —
  `windowHit` — or its `last_check` is listed), `applyFlags` are the peer's flags when the reply is applied,
  `CellsAgree cols row r`: `row` holds `coerce` of the value `r` delivers in every column of `cols` that `r`
  delivers, `IntsAgree`: the same for the numbers of the int / int64 columns. -/

/-- The pairing invariant survives a successful hosts / services step (full scan due or not): if the cached rows and
    the backend's objects in primary-key order carry the same distinct keys position by position, they still do
    afterwards — the step rewrites dynamic columns only, and (`KeyStatic`, a decidable fact about the schema) no
    primary-key column, nor the base column of a lower-case shadow key column, is fetched as "Dynamic".  (`KeyStatic`
    does not mention the peer's flags: a reconnect during the step may reset them.) -/
theorem aligned_preserved (w : World) (now : Int) (p : PeerSt) (b : BackendSt) (c : Cache) (t : String)
    (window : Option (Int × Int)) (threshold : Int) (hK : KeyStatic (tableOf w t))
    (hA : Aligned w t (b.rows t) (c.get t)) (hok : (deltaTable w now p b c t window threshold).err = .none) :
    Aligned w t ((deltaTable w now p b c t window threshold).b.rows t)
      ((deltaTable w now p b c t window threshold).cache.get t) :=
  aligned_step w now p b c t window threshold hK hA hok

/-- The initial synchronisation establishes the pairing invariant: the table `CreateObjectByType` stores for a list
    of backend objects is aligned with that list, when the key columns are plain locally stored string columns
    (`KeyColsPlain`) and the objects have pairwise distinct primary keys. -/
theorem aligned_after_sync (w : World) (t : String) (rows : List ReplyRow) (hP : KeyColsPlain (tableOf w t))
    (hnd : (rows.map (replyKey (tableOf w t))).Nodup) : Aligned w t rows (syncTable (tableOf w t) rows) :=
  aligned_syncTable w t rows hP hnd

/-- The same for a whole successful `InitAllTables`: the hosts / services table it publishes (after the comments /
    downtimes id lists were rebuilt) is aligned with the backend's objects. -/
theorem aligned_after_init (w : World) (now : Int) (p : PeerSt) (b : BackendSt) (t : String)
    (ht : t = "hosts" ∨ t = "services") (hP : KeyColsPlain (tableOf w t))
    (hc : "comments" ∉ (tableOf w t).primaryKey) (hd : "downtimes" ∉ (tableOf w t).primaryKey)
    (hnd : ((b.rows t).map (replyKey (tableOf w t))).Nodup) (hok : (initAllTables w now p b).err = .none) :
    ∃ c : Cache, (initAllTables w now p b).p.cache = some c ∧
      Aligned w t ((initAllTables w now p b).b.rows t) (c.get t) :=
  aligned_initAllTables w now p b t ht hP hc hd hnd hok

/-- non-vacuity of `aligned_after_sync` / `aligned_after_init`: the hosts table of `exWorld` has a plain string key that
    is neither `comments` nor `downtimes`, the backend's hosts have distinct keys, and `InitAllTables` succeeds -/
example : KeyColsPlain (tableOf exWorld "hosts") ∧ "comments" ∉ (tableOf exWorld "hosts").primaryKey ∧
    "downtimes" ∉ (tableOf exWorld "hosts").primaryKey ∧
    ((exBackend.rows "hosts").map (replyKey (tableOf exWorld "hosts"))).Nodup ∧
    (initAllTables exWorld 100 {} exBackend).err = .none := by decide

/-- The assumptions of the convergence theorems about ONE hosts / services step `deltaTable w now p b c t window
    threshold`; all but the first are decidable facts about the concrete step. -/
structure ScanStep (w : World) (now : Int) (p : PeerSt) (b : BackendSt) (c : Cache) (t : String) (threshold : Int) :
    Prop where
  /-- the cached table is aligned with the backend's objects (same number, same distinct keys position by position) -/
  aligned : Aligned w t (b.rows t) (c.get t)
  /-- the full scan is due: the last one is at least a minute old -/
  due : ¬ lastFullOf p t > now - 60
  /-- the scan request is answered -/
  scanAnswered : (query w now p b).2.2 = none
  /-- the delta request that follows is answered -/
  deltaAnswered : (query w now (query w now p b).1 (query w now p b).2.1).2.2 = none
  /-- the timestamp filter built from the scan's list stays under the cap of 150 lines, so nothing is cut off -/
  underCap : tsFilterLen (stepMissing w now p b c t threshold) ≤ 150
  /-- every scan column the table has (as int / int64) is one of the dynamic columns refreshed under the flags in force -/
  scanColsDynamic : ScanColsDynamic w t (stepScanCols w now p b) (applyFlags w now p b)
  /-- the dynamic columns have distinct names -/
  namesNodup : ((dynamicCols w.schema (applyFlags w now p b) (tableOf w t).name).map (·.name)).Nodup

/-- Which backend rows the delta request of a scanning step returns: `delivered` is membership in the reply. -/
theorem delivered_exact (w : World) (now : Int) (p : PeerSt) (b : BackendSt) (c : Cache) (t : String)
    (window : Option (Int × Int)) (threshold : Int) (r : ReplyRow) :
    r ∈ deltaReply (b.rows t) (tsColumn w p.flags) window (stepExecuting w p.flags) (stepMissing w now p b c t threshold) ↔
      r ∈ b.rows t ∧ delivered w now p b c t window threshold r = true := by
  rw [deltaReply_eq_filter, List.mem_filter]; rfl

/-! ### a concrete step: two hosts, `a` acknowledged on the backend since the last fetch without a new check result -/

/-- host `a` on the backend: checked at 50, acknowledged meanwhile -/
def exHostA : ReplyRow :=
  [("name", Lean.Json.str "a"), ("last_check", Lean.Json.num 50), ("acknowledged", Lean.Json.num 1),
   ("plugin_output", Lean.Json.str "x")]

/-- host `b` on the backend: checked at 40, nothing changed -/
def exHostB : ReplyRow :=
  [("name", Lean.Json.str "b"), ("last_check", Lean.Json.num 40), ("acknowledged", Lean.Json.num 0),
   ("plugin_output", Lean.Json.str "y")]

/-- the backend of the example -/
def exBackend2 : BackendSt := { tables := [("hosts", [exHostA, exHostB])], cols := [] }

/-- the cached row of host `a`: not yet acknowledged -/
def exRowA : Row :=
  { cells := [("name", .s "a"), ("last_check", .i 50), ("acknowledged", .i 0), ("plugin_output", .s "x")] }

/-- the cached row of host `b` -/
def exRowB : Row :=
  { cells := [("name", .s "b"), ("last_check", .i 40), ("acknowledged", .i 0), ("plugin_output", .s "y")] }

/-- the table set of the example -/
def exCache2 : Cache := [("hosts", [exRowA, exRowB])]

/-- the peer of the example: last full scan of the hosts at 10 -/
def exPeer2 : PeerSt := { lastFullHostUpdate := 10 }

theorem exSorted : sortedReply exWorld2 "hosts" (exBackend2.rows "hosts") = [exHostA, exHostB] := by
  have : exBackend2.rows "hosts" = [exHostA, exHostB] := rfl
  rw [this]
  exact sortedReply_of_sorted (by decide)

theorem exAligned : Aligned exWorld2 "hosts" (exBackend2.rows "hosts") (exCache2.get "hosts") := by
  apply aligned_of_keys
  · rw [exSorted]; decide
  · decide

/-- non-vacuity of `ScanStep` (hence of the theorems below): the step at 200 with window `[100, 110)` and threshold 100
    over the example satisfies every assumption -/
theorem exScanStep : ScanStep exWorld2 200 exPeer2 exBackend2 exCache2 "hosts" 100 where
  aligned := exAligned
  due := by decide
  scanAnswered := by decide
  deltaAnswered := by decide
  underCap := stepMissing_under_cap _ _ _ _ _ _ _ (by decide)
  scanColsDynamic := by decide
  namesNodup := by decide

/-- non-vacuity of `aligned_preserved`: the key column `name` of the example's hosts table is static, the table is
    aligned, and the step succeeds (`converges_step_partial` below) -/
example : KeyStatic (tableOf exWorld2 "hosts") ∧
    Aligned exWorld2 "hosts" (exBackend2.rows "hosts") (exCache2.get "hosts") := ⟨by decide, exAligned⟩

/-- in the example the scan detects host `a` — `acknowledged` differs, `last_check = 50` lies before the threshold 100 —
    and `a` is not in the window `[100, 110)` -/
example : scanChanged (tableOf exWorld2 "hosts") (stepScanCols exWorld2 200 exPeer2 exBackend2) exRowA exHostA = true ∧
    replyInt exHostA "last_check" < 100 ∧
    windowHit (tsColumn exWorld2 exPeer2.flags) (some (100, 110)) (stepExecuting exWorld2 exPeer2.flags) exHostA = false := by
  decide

theorem exDyn :
    dynamicCols exWorld2.schema (applyFlags exWorld2 200 exPeer2 exBackend2) (tableOf exWorld2 "hosts").name =
      [{ name := "last_check", dtype := .int64, storage := .loc, fetch := "Dynamic" },
       { name := "acknowledged", dtype := .int, storage := .loc, fetch := "Dynamic" },
       { name := "plugin_output", dtype := .str, storage := .loc, fetch := "Dynamic" }] := by decide

/-- the two positions of the example -/
theorem exPositions {i : Nat} {r : ReplyRow} {old : Row}
    (hi : (sortedReply exWorld2 "hosts" (exBackend2.rows "hosts"))[i]? = some r)
    (hold : (exCache2.get "hosts")[i]? = some old) :
    (r = exHostA ∧ old = exRowA) ∨ (r = exHostB ∧ old = exRowB) := by
  rw [exSorted] at hi
  have hc : exCache2.get "hosts" = [exRowA, exRowB] := rfl
  rw [hc] at hold
  match i, hi, hold with
  | 0, hi, hold => left; simp at hi hold; exact ⟨hi.symm, hold.symm⟩
  | 1, hi, hold => right; simp at hi hold; exact ⟨hi.symm, hold.symm⟩
  | n + 2, hi, _ => simp at hi

/-- ONE successful hosts / services step with a due full scan (assumptions: `ScanStep`).  The step succeeds, the
    table keeps its size, and for every position `i` — backend row `r` (objects in primary-key order), cached row
    `old`, which is the row of the same object — the new row `new` at position `i` satisfies:
    * if the scan detects the object (`old` differs from `r` in a scan column and `last_check` lies before the
      window), the row is delivered and gets the full decision;
    * a row in the window is delivered;
    * a delivered row becomes `rowAfter old r` — `old` rewritten from the backend row of the SAME object, according
      to the decision (`row_after_cells`) — and with the full decision it holds the backend's current value
      (`coerce`) in every dynamic column `r` delivers; whatever the decision, its int / int64 dynamic columns show
      the backend's numbers;
    * a row that is not delivered stays as it is.
    Partial: this is one step, under the assumptions listed in `ScanStep` (in particular the cap is not reached). -/
theorem converges_step_partial (w : World) (now : Int) (p : PeerSt) (b : BackendSt) (c : Cache) (t : String)
    (window : Option (Int × Int)) (threshold : Int) (h : ScanStep w now p b c t threshold) :
    (deltaTable w now p b c t window threshold).err = .none ∧
    ((deltaTable w now p b c t window threshold).cache.get t).length = (c.get t).length ∧
    ∀ (i : Nat) (r : ReplyRow) (old : Row), (sortedReply w t (b.rows t))[i]? = some r → (c.get t)[i]? = some old →
      old.key (tableOf w t) = replyKey (tableOf w t) r ∧
      ∃ new, ((deltaTable w now p b c t window threshold).cache.get t)[i]? = some new ∧
        (scanChanged (tableOf w t) (stepScanCols w now p b) old r = true → replyInt r "last_check" < threshold →
          delivered w now p b c t window threshold r = true ∧
          decision w (applyFlags w now p b) (tableOf w t) old r = some true) ∧
        (windowHit (tsColumn w p.flags) window (stepExecuting w p.flags) r = true →
          delivered w now p b c t window threshold r = true) ∧
        (delivered w now p b c t window threshold r = true →
          new = rowAfter w (applyFlags w now p b) (tableOf w t) old r ∧
          IntsAgree (dynamicCols w.schema (applyFlags w now p b) (tableOf w t).name) new r ∧
          (decision w (applyFlags w now p b) (tableOf w t) old r = some true →
            CellsAgree (dynamicCols w.schema (applyFlags w now p b) (tableOf w t).name) new r)) ∧
        (delivered w now p b c t window threshold r = false → new = old) := by
  obtain ⟨h1, _, h3, h4⟩ := scanStep_rows w now p b c t window threshold h.aligned h.due h.scanAnswered
    h.deltaAnswered h.underCap
  refine ⟨h1, h3, fun i r old hi hold => ⟨h.aligned.key i r old hi hold, _, h4 i r old hi hold, ?_, ?_, ?_, ?_⟩⟩
  · exact fun hs hlt => ⟨delivered_of_scan hi hold hs hlt,
      decision_of_intChanged (scanChanged_intChanged h.scanColsDynamic hs)⟩
  · intro hw; unfold delivered; rw [hw]; rfl
  · intro hd
    rw [hd]
    exact ⟨rfl, rowAfter_intsAgree w _ _ old r h.namesNodup,
      fun hdec => rowAfter_full_cellsAgree w _ _ old r h.namesNodup hdec⟩
  · intro hd; rw [hd]; rfl

/-- The scan-detected rows are refreshed: an object whose cached row differs from the backend's row in a scan column
    while its `last_check` lies before the window is refetched by the step, and afterwards its cached row holds the
    backend's current value in every dynamic column the backend row delivers.  (Before the repair of
    `prepareDataUpdateSet` such a row was skipped on backends with `last_update` when neither stamp moved.) -/
theorem scan_detected_rows_refreshed (w : World) (now : Int) (p : PeerSt) (b : BackendSt) (c : Cache) (t : String)
    (window : Option (Int × Int)) (threshold : Int) (h : ScanStep w now p b c t threshold)
    (i : Nat) (r : ReplyRow) (old : Row) (hi : (sortedReply w t (b.rows t))[i]? = some r) (hold : (c.get t)[i]? = some old)
    (hs : scanChanged (tableOf w t) (stepScanCols w now p b) old r = true) (hlt : replyInt r "last_check" < threshold) :
    ∃ new, ((deltaTable w now p b c t window threshold).cache.get t)[i]? = some new ∧
      ∀ col ∈ dynamicCols w.schema (applyFlags w now p b) (tableOf w t).name, ∀ k j,
        r.find? (·.1 == col.name) = some (k, j) → new.cell? col.name = some (coerce col.dtype j) := by
  obtain ⟨_, new, hn, h1, _, h3, _⟩ := (converges_step_partial w now p b c t window threshold h).2.2 i r old hi hold
  obtain ⟨hd, hdec⟩ := h1 hs hlt
  exact ⟨new, hn, (h3 hd).2.2 hdec⟩

/-- in the example the step stores the acknowledgement of host `a`, although `a` lies outside the window -/
example : ∃ new, ((deltaTable exWorld2 200 exPeer2 exBackend2 exCache2 "hosts" (some (100, 110)) 100).cache.get "hosts")[0]? =
      some new ∧ new.cell? "acknowledged" = some (.i 1) := by
  obtain ⟨new, h1, h2⟩ := scan_detected_rows_refreshed exWorld2 200 exPeer2 exBackend2 exCache2 "hosts" (some (100, 110)) 100
    exScanStep 0 exHostA exRowA (by rw [exSorted]; rfl) rfl (by decide) (by decide)
  exact ⟨new, h1, h2 { name := "acknowledged", dtype := .int, storage := .loc, fetch := "Dynamic" }
    (by rw [exDyn]; decide) "acknowledged" (Lean.Json.num 1) rfl⟩

/-- The delivered rows are refreshed from their own backend row: the new row is `rowAfter old r`; cell by cell
    (`row_after_cells`): full decision — every delivered dynamic column holds the backend's value; numbers only —
    the numeric ones do; skipped — unchanged; in every case the int / int64 dynamic columns show the backend's numbers. -/
theorem delivered_rows_refreshed (w : World) (now : Int) (p : PeerSt) (b : BackendSt) (c : Cache) (t : String)
    (window : Option (Int × Int)) (threshold : Int) (h : ScanStep w now p b c t threshold)
    (i : Nat) (r : ReplyRow) (old : Row) (hi : (sortedReply w t (b.rows t))[i]? = some r) (hold : (c.get t)[i]? = some old)
    (hd : delivered w now p b c t window threshold r = true) :
    ((deltaTable w now p b c t window threshold).cache.get t)[i]? =
      some (rowAfter w (applyFlags w now p b) (tableOf w t) old r) ∧
    IntsAgree (dynamicCols w.schema (applyFlags w now p b) (tableOf w t).name)
      (rowAfter w (applyFlags w now p b) (tableOf w t) old r) r ∧
    (decision w (applyFlags w now p b) (tableOf w t) old r = some true →
      CellsAgree (dynamicCols w.schema (applyFlags w now p b) (tableOf w t).name)
        (rowAfter w (applyFlags w now p b) (tableOf w t) old r) r) := by
  obtain ⟨_, new, hn, _, _, h3, _⟩ := (converges_step_partial w now p b c t window threshold h).2.2 i r old hi hold
  obtain ⟨e, h5, h6⟩ := h3 hd
  subst e
  exact ⟨hn, h5, h6⟩

/-- Objects are never mixed up: after the step every position holds either its old row or that row rewritten from
    the backend row of the object with the same primary key — and the old row exactly when the backend row was not
    delivered. -/
theorem others_untouched_or_own (w : World) (now : Int) (p : PeerSt) (b : BackendSt) (c : Cache) (t : String)
    (window : Option (Int × Int)) (threshold : Int) (h : ScanStep w now p b c t threshold)
    (i : Nat) (r : ReplyRow) (old : Row) (hi : (sortedReply w t (b.rows t))[i]? = some r) (hold : (c.get t)[i]? = some old) :
    old.key (tableOf w t) = replyKey (tableOf w t) r ∧
    ∃ new, ((deltaTable w now p b c t window threshold).cache.get t)[i]? = some new ∧
      (new = old ∨ new = rowAfter w (applyFlags w now p b) (tableOf w t) old r) ∧
      (delivered w now p b c t window threshold r = false → new = old) := by
  obtain ⟨hk, new, hn, _, _, h3, h4⟩ := (converges_step_partial w now p b c t window threshold h).2.2 i r old hi hold
  refine ⟨hk, new, hn, ?_, h4⟩
  cases hd : delivered w now p b c t window threshold r with
  | true => exact .inr (h3 hd).1
  | false => exact .inl (h4 hd)

/-- The backend contract of the delta update ("a change is visible"): every object whose cached row differs from its
    backend row in some delivered dynamic column either differs in a scan column while its `last_check` lies before
    the window, or lies in the window.  An assumption about the monitoring core. -/
def ChangeVisible (w : World) (now : Int) (p : PeerSt) (b : BackendSt) (c : Cache) (t : String)
    (window : Option (Int × Int)) (threshold : Int) : Prop :=
  ∀ (i : Nat) (r : ReplyRow) (old : Row), (sortedReply w t (b.rows t))[i]? = some r → (c.get t)[i]? = some old →
    ¬ CellsAgree (dynamicCols w.schema (applyFlags w now p b) (tableOf w t).name) old r →
    (scanChanged (tableOf w t) (stepScanCols w now p b) old r = true ∧ replyInt r "last_check" < threshold) ∨
      windowHit (tsColumn w p.flags) window (stepExecuting w p.flags) r = true

/-- The second contract ("the stamps tell"): a delivered row that `prepareDataUpdateSet` skips (backend with
    `last_update`: `last_update`, `last_check` and all int / int64 columns unchanged) has no other dynamic column
    changed either, and a delivered row that gets the numbers-only update (no `last_update`: `last_check` and all
    int / int64 columns unchanged) has no non-numeric dynamic column changed.  An assumption about the monitoring
    core: strings change only together with a stamp or a number. -/
def StampsTell (w : World) (now : Int) (p : PeerSt) (b : BackendSt) (c : Cache) (t : String)
    (window : Option (Int × Int)) (threshold : Int) : Prop :=
  ∀ (i : Nat) (r : ReplyRow) (old : Row), (sortedReply w t (b.rows t))[i]? = some r → (c.get t)[i]? = some old →
    delivered w now p b c t window threshold r = true →
    (decision w (applyFlags w now p b) (tableOf w t) old r = none →
      CellsAgree (dynamicCols w.schema (applyFlags w now p b) (tableOf w t).name) old r) ∧
    (decision w (applyFlags w now p b) (tableOf w t) old r = some false →
      CellsAgree ((dynamicCols w.schema (applyFlags w now p b) (tableOf w t).name).filter fun c => !isNumericCol c) old r)

/-- non-vacuity of the contract `ChangeVisible`: in the example the only object that differs (`a`) is detected by the scan -/
example : ChangeVisible exWorld2 200 exPeer2 exBackend2 exCache2 "hosts" (some (100, 110)) 100 := by
  intro i r old hi hold hne
  rcases exPositions hi hold with ⟨rfl, rfl⟩ | ⟨rfl, rfl⟩
  · left; decide
  · exfalso
    apply hne
    rw [exDyn]
    intro col hc k j hf
    simp only [List.mem_cons, List.not_mem_nil, or_false] at hc
    rcases hc with rfl | rfl | rfl <;> cases hf <;> rfl

/-- non-vacuity of the contract `StampsTell`: in the example the only delivered row (`a`) gets the full decision -/
example : StampsTell exWorld2 200 exPeer2 exBackend2 exCache2 "hosts" (some (100, 110)) 100 := by
  intro i r old hi hold hd
  rcases exPositions hi hold with ⟨rfl, rfl⟩ | ⟨rfl, rfl⟩
  · have : decision exWorld2 (applyFlags exWorld2 200 exPeer2 exBackend2) (tableOf exWorld2 "hosts") exRowA exHostA =
        some true := by decide
    rw [this]
    exact ⟨nofun, nofun⟩
  · have : delivered exWorld2 200 exPeer2 exBackend2 exCache2 "hosts" (some (100, 110)) 100 exHostB = false := by
      unfold delivered
      rw [Bool.or_eq_false_iff]
      refine ⟨by decide, ?_⟩
      rw [← Bool.not_eq_true, List.contains_iff_mem]
      unfold stepMissing
      rw [scanMissing_mem, exSorted]
      decide
    rw [this] at hd; cases hd

/-- Quiescence, numbers: under `ScanStep` and the contract `ChangeVisible`, after the step EVERY cached row shows the
    backend's number in every int / int64 dynamic column its backend row delivers, and every row that was not
    delivered or got the full decision holds the backend's value in ALL dynamic columns its backend row delivers.
    Partial: one step under `ScanStep`; for delivered rows that were skipped or updated in their numbers only,
    nothing is claimed here about the other columns (see `converges_quiescent_partial`). -/
theorem converges_quiescent_ints_partial (w : World) (now : Int) (p : PeerSt) (b : BackendSt) (c : Cache) (t : String)
    (window : Option (Int × Int)) (threshold : Int) (h : ScanStep w now p b c t threshold)
    (hV : ChangeVisible w now p b c t window threshold) :
    (deltaTable w now p b c t window threshold).err = .none ∧
    ∀ (i : Nat) (r : ReplyRow) (old : Row), (sortedReply w t (b.rows t))[i]? = some r → (c.get t)[i]? = some old →
      ∃ new, ((deltaTable w now p b c t window threshold).cache.get t)[i]? = some new ∧
        IntsAgree (dynamicCols w.schema (applyFlags w now p b) (tableOf w t).name) new r ∧
        ((delivered w now p b c t window threshold r = false ∨
            decision w (applyFlags w now p b) (tableOf w t) old r = some true) →
          CellsAgree (dynamicCols w.schema (applyFlags w now p b) (tableOf w t).name) new r) := by
  obtain ⟨h1, _, h2⟩ := converges_step_partial w now p b c t window threshold h
  refine ⟨h1, fun i r old hi hold => ?_⟩
  obtain ⟨_, new, hn, s1, s2, s3, s4⟩ := h2 i r old hi hold
  refine ⟨new, hn, ?_⟩
  cases hd : delivered w now p b c t window threshold r with
  | true =>
    obtain ⟨_, a2, a3⟩ := s3 hd
    exact ⟨a2, fun hx => hx.elim (fun hf => by cases hf) a3⟩
  | false =>
    have hagree : CellsAgree (dynamicCols w.schema (applyFlags w now p b) (tableOf w t).name) old r := by
      apply Classical.byContradiction
      intro hne
      rcases hV i r old hi hold hne with ⟨hs, hlt⟩ | hw
      · rw [(s1 hs hlt).1] at hd; cases hd
      · rw [s2 hw] at hd; cases hd
    rw [s4 hd]
    exact ⟨hagree.ints, fun _ => hagree⟩

/-- Quiescence: under `ScanStep` and the two backend contracts `ChangeVisible` and `StampsTell`, after ONE successful
    hosts / services step every cached row holds, in every dynamic column its backend row delivers, the value
    `UpdateValues` stores for the backend's current value — the dynamic part of the table equals the backend's.
    Partial: one step under the assumptions of `ScanStep` (aligned table, scan due, both requests answered, cap not
    reached, scan columns dynamic); what is missing for "the table equals the backend's" is listed at the end of
    this file. -/
theorem converges_quiescent_partial (w : World) (now : Int) (p : PeerSt) (b : BackendSt) (c : Cache) (t : String)
    (window : Option (Int × Int)) (threshold : Int) (h : ScanStep w now p b c t threshold)
    (hV : ChangeVisible w now p b c t window threshold) (hT : StampsTell w now p b c t window threshold) :
    (deltaTable w now p b c t window threshold).err = .none ∧
    ((deltaTable w now p b c t window threshold).cache.get t).length = (c.get t).length ∧
    ∀ (i : Nat) (r : ReplyRow), (sortedReply w t (b.rows t))[i]? = some r →
      ∃ new, ((deltaTable w now p b c t window threshold).cache.get t)[i]? = some new ∧
        CellsAgree (dynamicCols w.schema (applyFlags w now p b) (tableOf w t).name) new r := by
  obtain ⟨h1, hl, h2⟩ := converges_step_partial w now p b c t window threshold h
  obtain ⟨_, h3⟩ := converges_quiescent_ints_partial w now p b c t window threshold h hV
  refine ⟨h1, hl, fun i r hi => ?_⟩
  obtain ⟨old, hold, _⟩ := h.aligned.cached_at hi
  obtain ⟨hk, new, hn, _, _, s3, s4⟩ := h2 i r old hi hold
  obtain ⟨new', hn', _, q2⟩ := h3 i r old hi hold
  rw [hn] at hn'
  cases Option.some.inj hn'
  refine ⟨new, hn, ?_⟩
  cases hd : delivered w now p b c t window threshold r with
  | false => exact q2 (.inl hd)
  | true =>
    rw [(s3 hd).1]
    obtain ⟨t1, t2⟩ := hT i r old hi hold hd
    exact rowAfter_cellsAgree w _ _ old r h.namesNodup t1 t2

/-! ## convergence — what is proved and what is missing

  Proved (section 13), for ONE hosts / services step of the model whose full scan is due:
  * the positional pairing of the scan (`scan.zip cached`) and of a same-size reply pairs every object with ITS cached
    row — under the invariant `Aligned` (same number of rows, same primary key position by position, keys distinct).
    `Aligned` is established by the initial synchronisation (`aligned_after_sync` for `CreateObjectByType`,
    `aligned_after_init` for a whole successful `InitAllTables`, given plain string key columns and distinct keys on
    the backend) and preserved by every successful hosts / services step (`aligned_preserved`, given that no key
    column is dynamic);
  * under `Aligned` the reply of the step is always accepted, a row the scan detects is refetched AND copied in full —
    also on backends with `last_update` when neither stamp moved, since `prepareDataUpdateSet` now looks at the int
    columns in every branch and the scan columns are dynamic int columns (`ScanColsDynamic`) —, a delivered row is
    rewritten from the backend row of the same object, every other row is untouched (`converges_step_partial`);
  * hence, if every difference between cache and backend is visible to the step (`ChangeVisible`) and stamps /
    numbers tell about the strings (`StampsTell`), after the step every cached row holds the backend's current
    value in every dynamic column the backend delivers (`converges_quiescent_partial`); without `StampsTell` still
    all int / int64 columns do (`converges_quiescent_ints_partial`).

  Still missing for "after two quiet delta runs the table equals the backend's":
  * the cap: with more than 150 filter lines only the first 149 listed `last_check` values are refetched; the
    theorems assume `tsFilterLen missing ≤ 150` (true for tables with fewer than 150 objects,
    `stepMissing_under_cap`).  Beyond that convergence is a progress statement over several runs (every run refetches
    149 values more, the next scan is a minute later) which is not proved;
  * `ChangeVisible` and `StampsTell` are assumptions about the monitoring core, not facts about lmd: a change that
    touches neither a scan column nor the time stamp of the window (a string edited in place, a float) is found by
    no delta step; the model cannot exclude it;
  * the composition over a whole `UpdateDelta` run and over consecutive runs: `Aligned` is shown to be kept by the
    hosts / services steps only — `UpdateFullTable`, the comments / downtimes delta with `rebuildLists`, the
    timeperiod refresh and a later `InitAllTables` would each need their (easy) preservation lemma, and the window
    contiguity of section 12 would have to be combined with `ChangeVisible` for the steps whose scan is not due;
  * only dynamic columns that the backend row delivers are covered; static columns are written once by the initial
    synchronisation, and the comments / downtimes id lists are rebuilt from their own tables (property C12);
  * `IntsAgree` speaks about what `Row.int` shows (a missing or ill-typed cell reads as 0), `CellsAgree` about the
    stored cells; that every cached row is well typed is an invariant of `coerceRow` / `updateRow` not stated here;
  * backends that deliver MORE objects than cached (the step marks the peer broken) or fewer (the reply is matched
    by key; `Aligned` asks for equal numbers) are outside these theorems.
-/

end Lmd.C03
