/-
  C03 — delta updates converge to the backend and never tear an object.

  9.  `tsBlocks_exact`, `tsBlocks_count`, `tsBlocks_separated`: the blocks `composeTimestampFilter` builds
      cover exactly the given timestamps, are at most as many as the timestamps, and (for strictly
      ascending input) are never adjacent.
  10. `applyDelta_copies_current`, `row_after_cells`: what `prepareDataUpdateSet` + `insertDeltaDataResult`
      write: same number of rows, rows that are not addressed are untouched, an addressed row gets the
      coerced values of the reply (all dynamic columns for the full decision, the numeric ones else).
  11. `no_tear_step`: on a backend without `last_update`, the numbers-only decision is only taken when
      `last_check` and every int / int64 dynamic column of the reply equal the cached ones.
  12. `delta_success_stamps`, `delta_window_used`, `delta_reply_window`, `windows_contiguous`: the window
      of a delta run and the adjacency of the windows of consecutive successful runs;
      `fullscan_detects`, `fullscan_refetches`: the periodic full scan.

  A full `converges` theorem is not proved; the end of this file says what is missing.

  Helper lemmas live in `Lmd.Lemmas.PeerLemmas`.
-/
import Lmd.Lemmas.PeerLemmas

namespace Lmd.C03
open Lmd Lmd.PeerL

/-! ## 9. the timestamp filter -/

/-- A timestamp satisfies the filter `composeTimestampFilter ts` (it lies in one of the blocks `lo ≤ t ≤ hi`) if
    and only if it is one of `ts` — for lists of any length.  (This needs no order on `ts`; lmd passes a sorted list
    without duplicates, for which the blocks are also minimal, see `tsBlocks_separated`.) -/
theorem tsBlocks_exact (ts : List Int) (t : Int) :
    (∃ blk ∈ tsBlocks ts, blk.1 ≤ t ∧ t ≤ blk.2) ↔ t ∈ ts := by
  cases ts with
  | nil => simp [tsBlocks]
  | cons x xs =>
    have := go_mem t xs x x (Int.le_refl x)
    unfold inBlocks at this
    unfold tsBlocks
    rw [this, List.mem_cons]
    constructor
    · rintro (h | h)
      · exact .inl (by omega)
      · exact .inr h
    · rintro (h | h)
      · exact .inl ⟨by omega, by omega⟩
      · exact .inr h

example : (∃ blk ∈ tsBlocks [3, 4, 5, 9, 10, 20], blk.1 ≤ 4 ∧ 4 ≤ blk.2) ∧
    tsBlocks [3, 4, 5, 9, 10, 20] = [(3, 5), (9, 10), (20, 20)] := by decide

/-- The filter has at most as many blocks as there are timestamps. -/
theorem tsBlocks_count (ts : List Int) : (tsBlocks ts).length ≤ ts.length := by
  cases ts with
  | nil => simp [tsBlocks]
  | cons x xs =>
    unfold tsBlocks
    have := go_length xs x x
    simp only [List.length_cons]; omega

/-- For strictly ascending timestamps the blocks are well formed, in ascending order and no two of them touch
    (`hi + 1 < lo'`): no shorter filter describes the same set. -/
theorem tsBlocks_separated (ts : List Int) (h : ts.Pairwise (· < ·)) :
    (tsBlocks ts).Pairwise (fun a b => a.2 + 1 < b.1) ∧ ∀ blk ∈ tsBlocks ts, blk.1 ≤ blk.2 := by
  cases ts with
  | nil => simp [tsBlocks]
  | cons x xs =>
    rw [List.pairwise_cons] at h
    unfold tsBlocks
    obtain ⟨h1, h2⟩ := go_separated xs x x (Int.le_refl x) h.1 h.2
    exact ⟨h1, fun blk hb => (h2 blk hb).2⟩

example : ([3, 4, 5, 9, 10, 20] : List Int).Pairwise (· < ·) := by decide

/-! ## 10. what a delta reply writes -/

/-- `prepareDataUpdateSet` + `insertDeltaDataResult`.  If a reply is accepted (`some rows`), then there is the list
    `upd` of (row index, reply row) pairs — every reply row exactly once — such that
    * the table keeps its number of rows;
    * a row no pair addresses is unchanged;
    * a row addressed by exactly one pair `(i, r)` is `rowAfter old r`: the cached row with the values of `r` copied
      according to the decision (see `row_after_cells`);
    * when the reply has as many rows as the table, rows are matched by position and every row is addressed exactly
      once; otherwise every pair addresses a cached row that carries the reply row's primary key.
    So every value a step writes into the cache is the backend's value in the reply of that step's fetch. -/
theorem applyDelta_copies_current (w : World) (flags : Nat) (tab : Table) (cached : List Row) (reply : List ReplyRow)
    (rows : List Row) (h : applyDelta w flags tab cached reply = some rows) :
    ∃ upd : List (Nat × ReplyRow),
      (upd.map (·.2)).Perm reply ∧
      rows.length = cached.length ∧
      (∀ j, (∀ x ∈ upd, x.1 ≠ j) → rows[j]? = cached[j]?) ∧
      (∀ x ∈ upd, OnlyOnce upd x → ∀ old, cached[x.1]? = some old →
        rows[x.1]? = some (rowAfter w flags tab old x.2)) ∧
      (reply.length = cached.length → upd.map (·.1) = List.range cached.length ∧ ∀ x ∈ upd, OnlyOnce upd x) ∧
      (reply.length ≠ cached.length → ∀ x ∈ upd, ∃ c, cached[x.1]? = some c ∧ c.key tab = replyKey tab x.2) := by
  rw [applyDelta_eq] at h
  cases ha : addressed tab cached reply with
  | none => rw [ha] at h; cases h
  | some upd =>
    rw [ha] at h
    simp only [Option.map_some, Option.some.injEq] at h
    subst h
    obtain ⟨s1, s2, s3⟩ := addressed_spec ha
    refine ⟨upd, s1, foldl_deltaStep_length w flags tab upd cached,
      fun j hj => foldl_deltaStep_other w flags tab j upd cached hj,
      fun x _ hx old hold => foldl_deltaStep_once w flags tab upd cached x old hx hold,
      fun hl => ⟨s2 hl, fun x hx => onlyOnce_of_nodup upd x (by rw [s2 hl]; exact List.nodup_range) hx⟩, s3⟩

/-- a world whose hosts table has a key and two dynamic columns, one numeric and one string -/
def exWorld : World :=
  { cfg := {}, mainRestart := 100,
    schema := { tables := [
      { name := "hosts", primaryKey := ["name"],
        cols := [{ name := "name", dtype := .str, storage := .loc, fetch := "Static" },
                 { name := "state", dtype := .int, storage := .loc, fetch := "Dynamic" },
                 { name := "plugin_output", dtype := .str, storage := .loc, fetch := "Dynamic" }] }] } }

/-- the hosts table of `exWorld` -/
def exHosts : Table := tableOf exWorld "hosts"

example : (applyDelta exWorld 0 exHosts
    [{ cells := [("name", .s "a"), ("state", .i 0), ("plugin_output", .s "ok")] }]
    [[("name", Lean.Json.str "a"), ("state", Lean.Json.num 2), ("plugin_output", Lean.Json.str "down")]]).isSome = true := by
  rw [applyDelta_eq]
  simp only [addressed, sortedDelta, List.map_cons, List.map_nil, List.mergeSort_singleton]
  decide

/-- The cached row after a reply row `r` addressed it, cell by cell (column names of the table unique):
    * skipped (`decision = none`): the row is unchanged;
    * full (`some true`): every dynamic column the reply delivers holds `coerce` of the delivered value;
    * numbers only (`some false`): every numeric dynamic column the reply delivers holds `coerce` of the delivered
      value, every other dynamic column is unchanged;
    * in every case a cell that is not a dynamic column, or that the reply does not deliver, is unchanged. -/
theorem row_after_cells (w : World) (flags : Nat) (tab : Table) (old : Row) (r : ReplyRow)
    (hnames : ((dynamicCols w.schema flags tab.name).map (·.name)).Nodup) :
    (decision w flags tab old r = none → rowAfter w flags tab old r = old) ∧
    (decision w flags tab old r = some true →
      ∀ col ∈ dynamicCols w.schema flags tab.name, ∀ k j, r.find? (·.1 == col.name) = some (k, j) →
        (rowAfter w flags tab old r).cell? col.name = some (coerce col.dtype j)) ∧
    (decision w flags tab old r = some false →
      ∀ col ∈ dynamicCols w.schema flags tab.name,
        (isNumericCol col = true → ∀ k j, r.find? (·.1 == col.name) = some (k, j) →
          (rowAfter w flags tab old r).cell? col.name = some (coerce col.dtype j)) ∧
        (isNumericCol col = false → (rowAfter w flags tab old r).cell? col.name = old.cell? col.name)) ∧
    (∀ n, (n ∉ (dynamicCols w.schema flags tab.name).map (·.name) ∨ r.find? (·.1 == n) = none) →
      (rowAfter w flags tab old r).cell? n = old.cell? n) := by
  refine ⟨fun hd => ?_, fun hd col hc k j hr => ?_, fun hd col hc => ⟨fun hnum k j hr => ?_, fun hnum => ?_⟩,
    fun n hn => ?_⟩
  · unfold rowAfter; rw [hd]
  · unfold rowAfter; rw [hd]
    exact updateRow_cell_written true r col k j _ old hnames hc rfl hr
  · unfold rowAfter; rw [hd]
    exact updateRow_cell_written false r col k j _ old hnames hc (by simp [hnum]) hr
  · unfold rowAfter; rw [hd]
    apply updateRow_cell_untouched
    intro c' hc' hne
    left
    have : c' = col := nodup_name_eq hnames hc' hc hne
    rw [this, hnum]; rfl
  · unfold rowAfter
    split
    · rfl
    · apply updateRow_cell_untouched
      intro c' hc' hne
      rcases hn with hn | hn
      · exact absurd (by rw [← hne]; exact List.mem_map_of_mem hc') hn
      · exact .inr hn

example : ((dynamicCols exWorld.schema 0 exHosts.name).map (·.name)).Nodup ∧
    (dynamicCols exWorld.schema 0 exHosts.name).length = 2 := by decide

/-! ## 11. no torn rows from the numbers-only update -/

/-- On a backend without `last_update` (for a table that stores `last_check`) an addressed row gets either the full
    update — every delivered dynamic column, strings included, is copied — or the numbers-only update, and the
    latter only when `last_check` and every int / int64 dynamic column of the reply already equal the cached values.
    So a reply in which a number changed without a new check result (acknowledgement, downtime depth, modified
    attributes, …) is copied as a whole: the row never mixes the new numbers with the old strings. -/
theorem no_tear_step (w : World) (flags : Nat) (tab : Table) (old : Row) (r : ReplyRow)
    (hLU : hasLU w flags tab = false) (hLC : hasLC tab = true) :
    rowAfter w flags tab old r = updateRow (dynamicCols w.schema flags tab.name) true old r ∨
    (rowAfter w flags tab old r = updateRow (dynamicCols w.schema flags tab.name) false old r ∧
      replyInt r "last_check" = old.int "last_check" ∧
      ∀ col ∈ dynamicCols w.schema flags tab.name,
        (col.dtype = .int → checkInt8 (replyInt r col.name) = old.int col.name) ∧
        (col.dtype = .int64 → replyInt r col.name = old.int col.name)) := by
  have hd := decision_noLU (w := w) (flags := flags) (tab := tab) old r hLU hLC
  unfold rowAfter
  rw [hd]
  simp only []
  cases hb : (replyInt r "last_check" != old.int "last_check" ||
      intChanged (dynamicCols w.schema flags tab.name) old r) with
  | true => exact .inl rfl
  | false =>
    rw [Bool.or_eq_false_iff] at hb
    exact .inr ⟨rfl, by simpa using hb.1, intChanged_false hb.2⟩

/-- a world whose hosts table stores `last_check`, on a backend without `last_update` -/
def exWorld2 : World :=
  { cfg := {}, mainRestart := 100,
    schema := { tables := [
      { name := "hosts", primaryKey := ["name"],
        cols := [{ name := "name", dtype := .str, storage := .loc, fetch := "Static" },
                 { name := "last_check", dtype := .int64, storage := .loc, fetch := "Dynamic" },
                 { name := "acknowledged", dtype := .int, storage := .loc, fetch := "Dynamic" },
                 { name := "plugin_output", dtype := .str, storage := .loc, fetch := "Dynamic" }] }] } }

example : hasLU exWorld2 0 (tableOf exWorld2 "hosts") = false ∧ hasLC (tableOf exWorld2 "hosts") = true := by decide

/-- the repaired case: an acknowledgement without a new check result (same `last_check`) gets the full update -/
example : decision exWorld2 0 (tableOf exWorld2 "hosts")
    { cells := [("name", .s "a"), ("last_check", .i 50), ("acknowledged", .i 0), ("plugin_output", .s "x")] }
    [("name", Lean.Json.str "a"), ("last_check", Lean.Json.num 50), ("acknowledged", Lean.Json.num 1),
     ("plugin_output", Lean.Json.str "x")] = some true := by decide

/-! ## 12. windows and the full scan -/

/-- the time window of a delta run from `fromT` at `now`: `[fromT - UpdateOffset, now - UpdateOffset)` -/
def deltaWindow (w : World) (fromT now : Int) : Int × Int := (fromT - w.cfg.updateOffset, now - w.cfg.updateOffset)

/-- A successful `UpdateDelta` sets the update time to `now` (and the peer `Up`, seen now). -/
theorem delta_success_stamps (w : World) (now : Int) (p : PeerSt) (b : BackendSt) (c : Cache) (fromT : Int)
    (h : (updateDelta w now p b c fromT).err = .none) :
    (updateDelta w now p b c fromT).p.lastUpdate = now ∧ (updateDelta w now p b c fromT).p.lastOnline = now ∧
      (updateDelta w now p b c fromT).p.status = .up := by
  obtain ⟨a, _, c1, _, e, _⟩ := updateDelta_ok h
  exact ⟨e, c1, a⟩

example : (updateDelta exWorld0 130 { exPeer0 with lastUpdate := 130 } exBackend0 [] 120).err = .none := exDelta_ok

/-- `UpdateDelta(from, now)` with `from > 0` asks for hosts and for services with the window
    `[from - offset, now - offset)` and scan threshold `from - offset` (`winStep` is the hosts / services step of
    `updateDelta`, see `updateDelta_eq`). -/
theorem delta_window_used (w : World) (now fromT : Int) (p : PeerSt) (b : BackendSt) (c : Cache) (t : String)
    (h : fromT > 0) :
    winStep w now fromT p b c t =
      deltaTable w now p b c t (some (deltaWindow w fromT now)) (deltaWindow w fromT now).1 := by
  unfold winStep deltaWindow
  rw [if_pos h, if_pos h]

example : (120 : Int) > 0 := by decide

/-- What a window request returns: exactly the backend's objects whose time stamp lies in `[lo, hi)`, or that are
    being checked right now (when asked for), or whose `last_check` is one of the extra values of the full scan. -/
theorem delta_reply_window (rows : List ReplyRow) (tsCol : String) (lo hi : Int) (executing : Bool)
    (extra : List Int) (r : ReplyRow) :
    r ∈ deltaReply rows tsCol (some (lo, hi)) executing extra ↔
      r ∈ rows ∧ ((lo ≤ replyInt r tsCol ∧ replyInt r tsCol < hi) ∨
        (executing = true ∧ replyInt r "is_executing" = 1) ∨ replyInt r "last_check" ∈ extra) :=
  deltaReply_mem rows tsCol lo hi executing extra r

/-- the conditions under which a loop pass is a plain delta run: awake, `Up` with data `c`, the minute of the last
    timeperiod refresh, the next run due, no periodic full update pending, no forced full fetch -/
def DeltaPass (w : World) (now : Int) (p : PeerSt) (c : Cache) : Prop :=
  p.cache = some c ∧ p.status = .up ∧ idlesAt w now p = false ∧ p.lastTpMinute = (now / 60) % 60 ∧
    ¬ now < p.lastUpdate + w.cfg.updateInterval ∧
    ¬ (w.cfg.fullUpdateInterval > 0 ∧ now > p.lastFullUpdate + w.cfg.fullUpdateInterval) ∧ p.forceFull = false

/-- Driven by the update loop, consecutive successful delta runs use adjacent windows: a delta pass at `now1` runs
    `UpdateDelta` from the previous update time; if it succeeds, the update time is `now1`, and a following delta
    pass at `now2` runs `UpdateDelta` from `now1` — its window starts where the previous one ended. -/
theorem windows_contiguous (w : World) (now1 now2 : Int) (p : PeerSt) (b1 b2 : BackendSt) (c c' : Cache)
    (h1 : DeltaPass w now1 p c)
    (hok : (updateDelta w now1 { p with lastUpdate := now1 } b1 c p.lastUpdate).err = .none)
    (h2 : DeltaPass w now2 (tick w now1 p b1).p c') :
    tick w now1 p b1 = deltaRun w now1 { p with lastUpdate := now1 } b1 c p.lastUpdate ∧
    (tick w now1 p b1).p.lastUpdate = now1 ∧
    tick w now2 (tick w now1 p b1).p b2 =
      deltaRun w now2 { (tick w now1 p b1).p with lastUpdate := now2 } b2 c' now1 ∧
    (deltaWindow w now1 now2).1 = (deltaWindow w p.lastUpdate now1).2 := by
  obtain ⟨a1, a2, a3, a4, a5, a6, a7⟩ := h1
  have e1 := tick_delta w now1 p b1 c a1 a2 a3 a4 a5 a6 a7
  have hl : (tick w now1 p b1).p.lastUpdate = now1 := by
    rw [e1]; exact (deltaRun_of_ok hok).2.2
  obtain ⟨b1', b2', b3, b4, b5, b6, b7⟩ := h2
  have e2 := tick_delta w now2 (tick w now1 p b1).p b2 c' b1' b2' b3 b4 b5 b6 b7
  rw [hl] at e2
  exact ⟨e1, hl, e2, rfl⟩

/-- non-vacuity: the pass at 130 over `exPeer0` (awake, `Up`, last updated at 120) against `exBackend0` is a delta
    pass that succeeds, and the pass at 140 over the resulting peer is a delta pass again -/
example : ∃ c', DeltaPass exWorld0 130 exPeer0 [] ∧
    (updateDelta exWorld0 130 { exPeer0 with lastUpdate := 130 } exBackend0 [] exPeer0.lastUpdate).err = .none ∧
    DeltaPass exWorld0 140 (tick exWorld0 130 exPeer0 exBackend0).p c' := by
  obtain ⟨a1, a2, a3, a4, a5, a6, a7, ⟨c', b1⟩, b2, b3, b4, b5, b7⟩ := exTick_fields
  exact ⟨c', ⟨a1, a2, a3, a4, a5, a6, a7⟩, exDelta_ok, ⟨b1, b2, b3, b4, b5, by decide, b7⟩⟩

/-- the scripted backend of the scan example: one host -/
def exBackend : BackendSt :=
  { tables := [("status", [[("program_start", Lean.Json.num 5), ("nagios_pid", Lean.Json.num 7)]]),
               ("hosts", [[("name", Lean.Json.str "a"), ("state", Lean.Json.num 0), ("plugin_output", Lean.Json.str "ok")]])],
    cols := [] }

/-- The full scan detects: when the scan of a hosts / services step is due and answered (with no more objects than
    cached), the step asks — besides the window — for the `last_check` values `scanMissing` lists, and a value `v` is
    listed exactly when some object, paired by position with its cached row, has `last_check = v` before the window
    (`v < threshold`) and differs from the cached row in one of the scan columns (`last_check`, downtime depth,
    acknowledged, active checks / notifications enabled, modified attributes, …). -/
theorem fullscan_detects (w : World) (now : Int) (p : PeerSt) (b : BackendSt) (c : Cache) (t : String)
    (window : Option (Int × Int)) (threshold : Int)
    (hdue : ¬ lastFullOf p t > now - 60) (hq : (query w now p b).2.2 = none)
    (hlen : ¬ (c.get t).length < (b.rows t).length) :
    (deltaTable w now p b c t window threshold =
      let q := query w now p b
      let missing := scanMissing w t p.flags q.1.flags threshold (b.rows t) (c.get t)
      if missing.isEmpty then plainStep w now c t window p.flags q.1 q.2.1 [] false
      else plainStep w now c t window p.flags q.1 q.2.1 (if tsFilterLen missing > 150 then missing.take 149 else missing) true) ∧
    ∀ v, v ∈ scanMissing w t p.flags (query w now p b).1.flags threshold (b.rows t) (c.get t) ↔
      ∃ x ∈ (sortedReply w t (b.rows t)).zip (c.get t), replyInt x.1 "last_check" = v ∧ v < threshold ∧
        scanChanged (tableOf w t)
          (scanColumns (tsColumn w p.flags == "last_check")
            (((query w now p b).1.flags &&& flagBit w.schema "HasLastUpdateColumn") != 0)) x.2 x.1 = true :=
  ⟨deltaTable_scan w now p b c t window threshold hdue hq hlen, fun _ => scanMissing_mem ..⟩

example : ¬ lastFullOf ({ lastFullHostUpdate := 10 } : PeerSt) "hosts" > (100 : Int) - 60 ∧
    (query exWorld 100 { lastFullHostUpdate := 10 } exBackend).2.2 = none ∧
    ¬ (Cache.get [("hosts", [{ cells := [] }])] "hosts").length < (exBackend.rows "hosts").length := by decide

/-- The full scan refetches: every backend object whose `last_check` is one of the extra values is part of the
    reply of the request, whatever its time stamp. -/
theorem fullscan_refetches (rows : List ReplyRow) (tsCol : String) (lo hi : Int) (executing : Bool)
    (extra : List Int) (r : ReplyRow) (hr : r ∈ rows) (hx : replyInt r "last_check" ∈ extra) :
    r ∈ deltaReply rows tsCol (some (lo, hi)) executing extra :=
  (deltaReply_mem rows tsCol lo hi executing extra r).2 ⟨hr, .inr (.inr hx)⟩

/-! ## convergence — what is missing

  `converges` (backend unchanged during two consecutive successful delta runs whose full scan is due ⇒ the
  table equals the backend's) is not proved.  The pieces above give, for one run: which objects are detected
  (`fullscan_detects`), that they are refetched (`fullscan_refetches`), and that a refetched object that is
  addressed once and gets the full decision holds the backend's values (`applyDelta_copies_current`,
  `row_after_cells`).  Missing for the composition:
  * the positional pairing of the scan (`scan.zip cached`) and of a same-size reply pairs an object with *its*
    cached row only if the cache is sorted by the same key order as the reply and keys are unique — an invariant
    of the table set that `syncTable` establishes and every step would have to be shown to preserve;
  * with `last_update` support a detected object is skipped by `decision` when neither `last_update` nor
    `last_check` changed, so convergence needs the backend contract "every change bumps `last_update`";
  * the scan columns must be dynamic int / int64 columns of the schema for `intChanged` to see what
    `scanChanged` saw;
  * the 149-block cap turns convergence into a progress statement over several runs.
-/

end Lmd.C03
