/- C03 — property theorems (under construction). -/
import Lmd.PeerLoop
namespace Lmd.C03
end Lmd.C03
