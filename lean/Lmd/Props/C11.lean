/- C11 — property theorems (under construction). -/
import Lmd.PeerLoop
namespace Lmd.C11
end Lmd.C11
