/-
  C11 — a restarted or reconfigured backend is reloaded as a whole.

  6. `init_all_or_nothing`, `served_old_or_new`, `new_set_is_backend`:
       `InitAllTables` publishes the complete new set (every table synchronised from the backend's object
       set) or leaves the old set in place / drops it — never a partial new set.
  7. `rebuild_fail_flagged`: a failed rebuild leaves an error text and the peer is not `Up`.
  8. `restart_detected_status`, `restart_detected_count`: a status refresh that sees another core start or
       pid, and any full refresh with another number of rows, answers `restartRequired` and writes no row;
       `restart_rebuilds`: the loop then rebuilds at once.
  9. `failed_rebuild_remembers_restart`: a rebuild that fails while the previous set is still published keeps
       the core start / pid the peer remembered before, so the next status refresh detects the restart again.

  Helper lemmas live in `Lmd.Lemmas.PeerLemmas`.
-/
import Lmd.Lemmas.PeerLemmas

namespace Lmd.C11
open Lmd Lmd.PeerL

/-- a small world for the examples: no schema (every table has no columns), default configuration -/
def exWorld : World := { cfg := {}, schema := { tables := [] }, mainRestart := 100 }

/-- a backend that answers, with one status row -/
def exBackend : BackendSt :=
  { tables := [("status", [[("program_start", Lean.Json.num 5), ("nagios_pid", Lean.Json.num 7)]])], cols := [] }

/-- the same backend closing the connection on the fourth request -/
def exFailing : BackendSt := { exBackend with failAfter := some 3 }

/-! ## 6. all or nothing -/

/-- `InitAllTables`, from any peer state against any backend behaviour, ends in one of two ways.
    Success: the published set is exactly the set built from the backend's object set — `freshCache w b` holds
    `syncTable` of the backend's rows for every table of `updateTables`, `rebuildLists` then fills the comment
    and downtime id lists — and the requests did not change the backend's objects.
    Failure: the published set is the one from before the rebuild, or none (dropped by the stale rule or because
    the backend is not ready); no table of the half-built set is visible. -/
theorem init_all_or_nothing (w : World) (now : Int) (p : PeerSt) (b : BackendSt) :
    ((initAllTables w now p b).err = .none ∧
        (initAllTables w now p b).p.cache = some (rebuildLists (freshCache w b)) ∧
        (initAllTables w now p b).b.tables = b.tables) ∨
    ((initAllTables w now p b).err ≠ .none ∧
        ((initAllTables w now p b).p.cache = p.cache ∨ (initAllTables w now p b).p.cache = none)) := by
  obtain ⟨h1, h2, h3⟩ := initAllTables_spec w now p b
  by_cases he : (initAllTables w now p b).err = .none
  · exact .inl ⟨he, (h2 he).1, h1⟩
  · exact .inr ⟨he, (h3 he).1⟩

/-- non-vacuity: both outcomes occur — a rebuild that succeeds, and one that fails at a later request and leaves
    the (here: empty) old state -/
example : (initAllTables exWorld 100 {} exBackend).err = .none := by decide
example : (initAllTables exWorld 100 {} exFailing).err ≠ .none ∧
    (initAllTables exWorld 100 {} exFailing).p.cache = none := by decide

/-- What a client can be served for this backend after a rebuild attempt is the complete previous set, nothing,
    or the complete new set. -/
theorem served_old_or_new (w : World) (now : Int) (p : PeerSt) (b : BackendSt) :
    (initAllTables w now p b).p.cache = p.cache ∨ (initAllTables w now p b).p.cache = none ∨
      (initAllTables w now p b).p.cache = some (rebuildLists (freshCache w b)) := by
  rcases init_all_or_nothing w now p b with ⟨_, h, _⟩ | ⟨_, h | h⟩
  · exact .inr (.inr h)
  · exact .inl h
  · exact .inr (.inl h)

/-- The complete new set, table by table: every table other than hosts and services is the synchronised object
    set of the backend (`syncTable`: coerced rows sorted by primary key); hosts and services are the synchronised
    object sets with the comment and downtime id lists rebuilt from the synchronised comments and downtimes. -/
theorem new_set_is_backend (w : World) (b : BackendSt) :
    (∀ t, t ∈ updateTables → t ≠ "hosts" → t ≠ "services" →
      (rebuildLists (freshCache w b)).get t = syncTable (tableOf w t) (b.rows t)) ∧
    (rebuildLists (freshCache w b)).get "hosts" =
      (buildIdLists "downtimes" (syncTable (tableOf w "downtimes") (b.rows "downtimes"))
        (buildIdLists "comments" (syncTable (tableOf w "comments") (b.rows "comments"))
          (syncTable (tableOf w "hosts") (b.rows "hosts")) (syncTable (tableOf w "services") (b.rows "services"))).1
        (buildIdLists "comments" (syncTable (tableOf w "comments") (b.rows "comments"))
          (syncTable (tableOf w "hosts") (b.rows "hosts")) (syncTable (tableOf w "services") (b.rows "services"))).2).1 ∧
    (rebuildLists (freshCache w b)).get "services" =
      (buildIdLists "downtimes" (syncTable (tableOf w "downtimes") (b.rows "downtimes"))
        (buildIdLists "comments" (syncTable (tableOf w "comments") (b.rows "comments"))
          (syncTable (tableOf w "hosts") (b.rows "hosts")) (syncTable (tableOf w "services") (b.rows "services"))).1
        (buildIdLists "comments" (syncTable (tableOf w "comments") (b.rows "comments"))
          (syncTable (tableOf w "hosts") (b.rows "hosts")) (syncTable (tableOf w "services") (b.rows "services"))).2).2 := by
  have hc := freshCache_get w b "comments" (by decide)
  have hd := freshCache_get w b "downtimes" (by decide)
  have hh := freshCache_get w b "hosts" (by decide)
  have hs := freshCache_get w b "services" (by decide)
  refine ⟨fun t ht h1 h2 => ?_, ?_, ?_⟩
  · rw [rebuildLists_get_other _ _ h1 h2, freshCache_get w b t ht]
  · rw [rebuildLists_get_hosts, hc, hd, hh, hs]
  · rw [rebuildLists_get_services, hc, hd, hh, hs]

/-! ## 7. a failed rebuild is flagged -/

/-- A failed rebuild always leaves an error text.  It leaves the peer `Up` only if the peer was `Up` without
    data before — a state no history reaches (C13 `up_implies_synced`). -/
theorem rebuild_fail_flagged_general (w : World) (now : Int) (p : PeerSt) (b : BackendSt)
    (h : (initAllTables w now p b).err ≠ .none) :
    (initAllTables w now p b).p.lastError ≠ "" ∧
      ((initAllTables w now p b).p.status = .up → p.status = .up ∧ p.cache = none) := by
  obtain ⟨_, h2, h3⟩ := (initAllTables_spec w now p b).2.2 h
  exact ⟨h2, h3⟩

/-- A failed rebuild of a peer that satisfies the availability invariant (`Up` implies data and no error, which
    holds after every history) leaves the peer not `Up` and with an error text. -/
theorem rebuild_fail_flagged (w : World) (now : Int) (p : PeerSt) (b : BackendSt)
    (hinv : p.status = .up → p.cache.isSome ∧ p.lastError = "")
    (h : (initAllTables w now p b).err ≠ .none) :
    (initAllTables w now p b).p.status ≠ .up ∧ (initAllTables w now p b).p.lastError ≠ "" := by
  obtain ⟨h2, h3⟩ := rebuild_fail_flagged_general w now p b h
  refine ⟨fun hu => ?_, h2⟩
  obtain ⟨a, c⟩ := h3 hu
  have := (hinv a).1
  rw [c] at this; cases this

example : (({} : PeerSt).status = .up → ({} : PeerSt).cache.isSome ∧ ({} : PeerSt).lastError = "") ∧
    (initAllTables exWorld 100 {} exFailing).err ≠ .none := by decide

/-- The invariant is needed: a peer that is `Up` without data (unreachable) stays `Up` through a failed rebuild
    while the backend was seen recently. -/
example : (initAllTables exWorld 100 { status := .up, lastOnline := 100 } { exBackend with mode := "refuse" }).err ≠ .none ∧
    (initAllTables exWorld 100 { status := .up, lastOnline := 100 } { exBackend with mode := "refuse" }).p.status = .up := by
  decide

/-! ## 8. restart detection -/

/-- A status refresh that is answered with a single status row whose `program_start` or `nagios_pid` differs from
    what the peer remembers (both remembered values non-zero) returns `restartRequired`; the table set is
    unchanged — no value of that reply is written. -/
theorem restart_detected_status (w : World) (now : Int) (p : PeerSt) (b : BackendSt) (c : Cache) (st : ReplyRow)
    (hdyn : (dynamicCols w.schema p.flags "status").isEmpty = false)
    (hq : (query w now p b).2.2 = none) (hrow : b.rows "status" = [st])
    (hps : p.programStart ≠ 0) (hpid : p.corePid ≠ 0)
    (hdiff : replyInt st "program_start" ≠ p.programStart ∨ replyInt st "nagios_pid" ≠ p.corePid) :
    (updateFullTable w now p b c "status").err = .restartRequired ∧
      (updateFullTable w now p b c "status").cache = c := by
  rw [updateFullTable_restart_status w now p b c st hdyn hq hrow hps hpid hdiff]
  exact ⟨rfl, rfl⟩

/-- a world whose status table has one dynamic column -/
def exWorld2 : World :=
  { cfg := {}, mainRestart := 100,
    schema := { tables := [{ name := "status", cols := [{ name := "program_start", dtype := .int64, storage := .loc, fetch := "Dynamic" }] }] } }

example : exBackend.rows "status" = [[("program_start", Lean.Json.num 5), ("nagios_pid", Lean.Json.num 7)]] := by
  rfl
example : (dynamicCols exWorld2.schema ({ programStart := 4, corePid := 7 } : PeerSt).flags "status").isEmpty = false ∧
    (query exWorld2 100 { programStart := 4, corePid := 7 } exBackend).2.2 = none ∧
    replyInt [("program_start", Lean.Json.num 5), ("nagios_pid", Lean.Json.num 7)] "program_start" ≠ 4 := by decide

/-- A full refresh of any table that is answered with another number of rows than the table holds returns
    `restartRequired`; the table set is unchanged — no row of that reply is written.  This covers all three
    refresh paths of `UpdateFullTablesList`: plain tables, hosts / services, and the timeperiods. -/
theorem restart_detected_count (w : World) (now : Int) (p : PeerSt) (b : BackendSt) (c : Cache) (t : String)
    (hq : (query w now p b).2.2 = none) (hlen : (b.rows t).length ≠ (c.get t).length) :
    ((dynamicCols w.schema p.flags t).isEmpty = false →
      (updateFullTable w now p b c t).err = .restartRequired ∧ (updateFullTable w now p b c t).cache = c) ∧
    ((updateFullObjects w now p b c t).err = .restartRequired ∧ (updateFullObjects w now p b c t).cache = c) ∧
    (t = "timeperiods" →
      (updateTimeperiods w now p b c).err = .restartRequired ∧ (updateTimeperiods w now p b c).cache = c) := by
  refine ⟨fun hdyn => ?_, ?_, fun ht => ?_⟩
  · rw [updateFullTable_restart_count w now p b c t hdyn hq hlen]; exact ⟨rfl, rfl⟩
  · rw [updateFullObjects_restart_count w now p b c t hq hlen]; exact ⟨rfl, rfl⟩
  · subst ht
    rw [updateTimeperiods_restart_count w now p b c hq hlen]; exact ⟨rfl, rfl⟩

example : (query exWorld 100 {} exBackend).2.2 = none ∧
    (exBackend.rows "status").length ≠ (Cache.get [] "status").length := by decide

/-- The list refresh stops at the first table that asks for a rebuild and hands the request up: the tables before
    it were refreshed as wholes, the table itself and the ones after it are untouched. -/
theorem restart_stops_list (w : World) (now : Int) (p : PeerSt) (b : BackendSt) (c : Cache) (t : String) (ts : List String)
    (hq : (query w now p b).2.2 = none) (hlen : (b.rows t).length ≠ (c.get t).length)
    (hdyn : (dynamicCols w.schema p.flags t).isEmpty = false) :
    (updateFullList w now (t :: ts) p b c).err = .restartRequired ∧ (updateFullList w now (t :: ts) p b c).cache = c := by
  obtain ⟨h1, h2, h3⟩ := restart_detected_count w now p b c t hq hlen
  unfold updateFullList
  simp only []
  have hr : (if t == "timeperiods" then updateTimeperiods w now p b c
      else if t == "hosts" || t == "services" then updateFullObjects w now p b c t
      else updateFullTable w now p b c t).err = .restartRequired ∧
      (if t == "timeperiods" then updateTimeperiods w now p b c
      else if t == "hosts" || t == "services" then updateFullObjects w now p b c t
      else updateFullTable w now p b c t).cache = c := by
    split
    · rename_i ht; exact h3 (by simpa using ht)
    · split
      · exact h2
      · exact h1 hdyn
  generalize (if t == "timeperiods" then updateTimeperiods w now p b c
      else if t == "hosts" || t == "services" then updateFullObjects w now p b c t
      else updateFullTable w now p b c t) = r at hr ⊢
  obtain ⟨a, b1⟩ := hr
  simp only [a]
  exact ⟨trivial, b1⟩

/-- When the delta update of a loop pass asks for a rebuild, the pass runs `InitAllTables` at once, on the peer as
    the update left it; the pass's outcome is the rebuild's outcome (so 6 and 7 apply to it). -/
theorem restart_rebuilds (w : World) (now : Int) (p : PeerSt) (b : BackendSt) (c : Cache) (fromT : Int)
    (h : (updateDelta w now p b c fromT).err = .restartRequired) :
    (deltaRun w now p b c fromT).p =
        (initAllTables w now (withCache (updateDelta w now p b c fromT)) (updateDelta w now p b c fromT).b).p ∧
      (deltaRun w now p b c fromT).err =
        (initAllTables w now (withCache (updateDelta w now p b c fromT)) (updateDelta w now p b c fromT).b).err := by
  unfold deltaRun finishStep
  simp only [h]
  exact ⟨trivial, trivial⟩

/-! ## 9. a failed rebuild does not forget the restart -/

/-- A rebuild that fails while a data set is still published (the previous one) leaves the peer with the
    `program_start` and pid it remembered before the rebuild, not with the values the rebuild read from the
    restarted backend.  Consequently the restart stays detectable: whenever the next status refresh (at any later
    time, against any backend behaviour, over any table set) is answered with a single status row whose
    `program_start` or `nagios_pid` differs from those remembered values (both non-zero), it reports
    `restartRequired` again and writes nothing - the stale set is not silently updated with values of another
    core instance. -/
theorem failed_rebuild_remembers_restart (w : World) (now : Int) (p : PeerSt) (b : BackendSt)
    (he : (initAllTables w now p b).err ≠ .none) (hc : (initAllTables w now p b).p.cache.isSome = true) :
    ((initAllTables w now p b).p.programStart = p.programStart ∧ (initAllTables w now p b).p.corePid = p.corePid) ∧
    ∀ (now' : Int) (b' : BackendSt) (c : Cache) (st : ReplyRow),
      (dynamicCols w.schema (initAllTables w now p b).p.flags "status").isEmpty = false →
      (query w now' (initAllTables w now p b).p b').2.2 = none → b'.rows "status" = [st] →
      p.programStart ≠ 0 → p.corePid ≠ 0 →
      (replyInt st "program_start" ≠ p.programStart ∨ replyInt st "nagios_pid" ≠ p.corePid) →
      (updateFullTable w now' (initAllTables w now p b).p b' c "status").err = .restartRequired ∧
        (updateFullTable w now' (initAllTables w now p b).p b' c "status").cache = c := by
  obtain ⟨h1, h2⟩ := initAllTables_failed_remembers he hc
  refine ⟨⟨h1, h2⟩, fun now' b' c st hdyn hq hrow hps hpid hdiff => ?_⟩
  exact restart_detected_status w now' _ b' c st hdyn hq hrow (by rw [h1]; exact hps) (by rw [h2]; exact hpid)
    (by rw [h1, h2]; exact hdiff)

/-- a peer that is `Up` with a (here: empty) published set, seen just now, remembering core start 4 and pid 7 -/
def exPeerUp : PeerSt := { status := .up, cache := some [], lastError := "", lastOnline := 100, programStart := 4, corePid := 7 }

/-- non-vacuity: the rebuild against a backend that closes the connection on the fourth request fails with the
    old set still published; the backend's status row (core start 5) then differs from the remembered 4 -/
example : (initAllTables exWorld2 100 exPeerUp exFailing).err ≠ .none ∧
    (initAllTables exWorld2 100 exPeerUp exFailing).p.cache.isSome = true ∧
    (dynamicCols exWorld2.schema (initAllTables exWorld2 100 exPeerUp exFailing).p.flags "status").isEmpty = false ∧
    (query exWorld2 107 (initAllTables exWorld2 100 exPeerUp exFailing).p exBackend).2.2 = none ∧
    exPeerUp.programStart ≠ 0 ∧ exPeerUp.corePid ≠ 0 ∧
    replyInt [("program_start", Lean.Json.num 5), ("nagios_pid", Lean.Json.num 7)] "program_start" ≠ exPeerUp.programStart := by
  decide

/-- the clean-up is what makes this true: before it, the same failed rebuild has already overwritten the remembered
    core start with the new one (5), and the next status refresh would see nothing unusual -/
example : (initAllTablesRaw exWorld2 100 exPeerUp exFailing).p.programStart = 5 ∧
    (initAllTables exWorld2 100 exPeerUp exFailing).p.programStart = 4 := by decide

end Lmd.C11
