/-
  C09 — no request and no backend reply can take the daemon down: totality of the request path.

  Every function of the model is a total Lean function, so each of them returns for every input.  The
  places where the Go code can panic are explicit outcomes of the model: the value `Val.crash`,
  `getFloat = none`, `StatsResult.crash = true`.  The request parser has no such outcome at all: its
  result type is `Except ParseErr Request` with the two refusals `.bad` (answered with a 400 text) and
  `.unsupported` (the text is outside the class of inputs the model describes; the harness does not
  compare such a case).  This file states what is left to prove:

  1. `parse_verdict_total` …     every text is accepted as a well-formed request or refused with a message
                                 of a fixed list; the group / negate headers on short stacks are refused.
  2. `query_no_crash` …          evaluation of an accepted request on synchronised data has no crash outcome
                                 as long as the columns of the table are inside the model (`ColOK`).
  3. `reply_no_crash` …          whatever a backend sends, the stored rows read without a crash outcome.
  4. `regex_verdict_total` …     the regular-expression compiler and matcher on every pattern.
  5. `session_bad_request_ends`  a request that does not parse ends the connection.

  Helper lemmas live in `Lmd.Lemmas.TotalityLemmas`.
-/
import Lmd.Lemmas.TotalityLemmas
import Lmd.Lemmas.HeaderLemmas
import Lmd.Props.C09

namespace Lmd.C09Total
open Lmd Lmd.Total Lmd.Totality
open Lean (Json)

/-! ## 1. the verdict of the request parser -/

/-- For EVERY request text (any lines: empty ones, lines without a colon, unknown headers, numbers that do
    not parse, `And:` / `Or:` / `Negate:` / `StatsAnd:` / `StatsOr:` / `StatsNegate:` on stacks that are too
    short), every schema and every parser option (in particular `Quirks.current`) the request parser ends
    in exactly one of three verdicts, none of which is a crash outcome:
    * the request is accepted, and then it is well formed for evaluation: its table exists, every sort
      field carries the column it names, every aggregate is over a column of the table or the placeholder;
    * it is refused with `.bad msg` (a 400 answer) where `msg` is one of the 23 texts of `badMessages`;
    * it is outside the modelled class, `.unsupported why`, for one of five reasons (`UnsupportedWhy`): a
      `COMMAND` line, `WaitConditionAnd:` / `WaitConditionOr:`, a number in a syntax Go's `ParseFloat`
      might accept but the decimal reader does not, a regular expression outside the modelled syntax. -/
theorem parse_verdict_total (s : Schema) (o : ParseOpts) (text : String) :
    (∃ req t, parseRequest s o text = .ok req ∧ s.table? req.table = some t ∧
        (∀ sf ∈ req.sort, sf.col = t.col? sf.name ∧ sf.col.isSome = true) ∧ AggFrom t req.stats) ∨
    (∃ msg, parseRequest s o text = .error (.bad msg) ∧ msg ∈ badMessages) ∨
    (∃ why, parseRequest s o text = .error (.unsupported why) ∧ UnsupportedWhy why) := by
  cases h : parseRequest s o text with
  | ok req =>
    obtain ⟨t, ht, hs⟩ := parseRequest_ok s o text req h
    exact .inl ⟨req, t, rfl, ht, hs, parseRequest_aggFrom s o text req t h ht⟩
  | error e =>
    have hc := parseRequest_classified s o text e h
    cases e with
    | bad m => exact .inr (.inl ⟨m, rfl, hc⟩)
    | unsupported w => exact .inr (.inr ⟨w, rfl, hc⟩)

/-- non-vacuity: all three verdicts occur (with `Quirks.current`) -/
example : (match parseRequest Lmd.C09.exSchema { optimize := true, q := Quirks.current } "GET hosts\nStats: sum latency" with
      | .ok req => req.table == "hosts" && req.stats.length == 1 | .error _ => false) = true := by
  unfold parseRequest
  rw [Lmd.Headers.splitLines_eq]
  decide

example : (match parseRequest Lmd.C09.exSchema { optimize := true, q := Quirks.current } "GET hosts\nAnd: 1" with
      | .error (.bad m) => m == "not enough filter on stack" | _ => false) = true := by
  unfold parseRequest
  rw [Lmd.Headers.splitLines_eq]
  decide

example : (match parseRequest Lmd.C09.exSchema { optimize := true, q := Quirks.current } "COMMAND [0] x" with
      | .error (.unsupported w) => w == "command" | _ => false) = true := by
  unfold parseRequest
  rw [Lmd.Headers.splitLines_eq]
  decide

/-- Which header line gives which refusal, part 1: a line without a colon is refused with "syntax error",
    a line whose header word (the part before the first colon, lower case) is none of the 26 known headers
    is refused with "unrecognized header" — whatever the state of the request read so far. -/
theorem line_without_colon_or_unknown (o : ParseOpts) (t : Table) (req : Request) (line : String) :
    (∀ x, cut ':' line = (x, none) → parseHeaderLine o t req line = .error (.bad "syntax error")) ∧
    (∀ hdr rest, cut ':' line = (hdr, some rest) → goLower hdr ∉ knownHeaders →
      parseHeaderLine o t req line = .error (.bad "unrecognized header")) :=
  ⟨fun x hc => headerLine_nocolon o t req line x hc,
   fun hdr rest hc hk => headerLine_unknown o t req line hdr rest hc hk⟩

example : parseHeaderLine { optimize := true, q := Quirks.current } Lmd.C09.exHosts {} "no colon here"
      = .error (.bad "syntax error")
    ∧ parseHeaderLine { optimize := true, q := Quirks.current } Lmd.C09.exHosts {} "Frobnicate: 1"
      = .error (.bad "unrecognized header") :=
  ⟨(line_without_colon_or_unknown _ _ _ _).1 "no colon here" (by decide),
   (line_without_colon_or_unknown _ _ _ _).2 "Frobnicate" " 1" (by decide) (by decide)⟩

/-- Which header line gives which refusal, part 2: `And: n` / `Or: n` (`isAnd` says which) on a filter
    stack of any height.  A value that is not an integer, or a negative one, is refused; `n = 0` leaves
    the request exactly as it was; `n` larger than the number of filters on the stack is refused with
    "not enough filter on stack"; otherwise the top `n` filters are replaced by one group. -/
theorem and_or_guarded (o : ParseOpts) (t : Table) (req : Request) (line hdr rest : String) (isAnd : Bool)
    (hc : cut ':' line = (hdr, some rest)) (hh : goLower hdr = if isAnd then "and" else "or") :
    (atoi? (trimLeftSpaces rest) = none →
      parseHeaderLine o t req line = .error (.bad "must be a positive number")) ∧
    (∀ n : Int, atoi? (trimLeftSpaces rest) = some n →
      (n < 0 → parseHeaderLine o t req line = .error (.bad "must be a positive number")) ∧
      (n = 0 → parseHeaderLine o t req line = .ok req) ∧
      ((req.filter.length : Int) < n →
        parseHeaderLine o t req line = .error (.bad "not enough filter on stack")) ∧
      (0 < n → n ≤ (req.filter.length : Int) →
        parseHeaderLine o t req line = .ok { req with filter :=
          (List.take (req.filter.length - n.toNat) req.filter ++
            [Filter.grp isAnd (List.drop (req.filter.length - n.toNat) req.filter) false]) })) := by
  have hline : parseHeaderLine o t req line =
      (groupOp isAnd (trimLeftSpaces rest) req.filter).map (fun f => { req with filter := f }) := by
    cases isAnd
    · exact headerLine_or o t req line hdr rest hc (by simpa using hh)
    · exact headerLine_and o t req line hdr rest hc (by simpa using hh)
  rw [hline]
  refine ⟨fun h => by rw [groupOp_nan _ _ _ h]; rfl, fun n h => ⟨?_, ?_, ?_, ?_⟩⟩
  · intro hn; rw [groupOp_neg _ _ _ n h hn]; rfl
  · intro hn; subst hn; rw [groupOp_zero _ _ _ h]; rfl
  · intro hn; rw [groupOp_too_many _ _ _ n h hn]; rfl
  · intro hp hn; rw [groupOp_ok _ _ _ n h hp hn]; rfl

/-- non-vacuity: `And: 2` on an empty stack, `Or: 0`, `And: x` -/
example : parseHeaderLine { optimize := true, q := Quirks.current } Lmd.C09.exHosts {} "And: 2"
      = .error (.bad "not enough filter on stack") :=
  ((and_or_guarded _ _ _ "And: 2" "And" " 2" true (by decide) (by decide)).2 2 (by decide)).2.2.1 (by decide)

example : (match parseHeaderLine { optimize := true, q := Quirks.current } Lmd.C09.exHosts {} "Or: 0" with
      | .ok r => r.filter.length == 0 | .error _ => false) = true
    ∧ (match parseHeaderLine { optimize := true, q := Quirks.current } Lmd.C09.exHosts {} "And: x" with
      | .error (.bad m) => m == "must be a positive number" | _ => false) = true := by decide

/-- Which header line gives which refusal, part 3: `Negate:` with no filter on the stack and `StatsNegate:`
    with no stats entry on the stack are refused with "no filter/stats on stack to negate"; with a
    non-empty stack they are accepted and leave the height of the stack unchanged. -/
theorem negate_guarded (o : ParseOpts) (t : Table) (req : Request) (line hdr rest : String)
    (hc : cut ':' line = (hdr, some rest)) :
    (goLower hdr = "negate" →
      (req.filter = [] → parseHeaderLine o t req line = .error (.bad "no filter/stats on stack to negate")) ∧
      (req.filter ≠ [] → ∃ f, parseHeaderLine o t req line = .ok { req with filter := f } ∧
        f.length = req.filter.length)) ∧
    (goLower hdr = "statsnegate" →
      (req.stats = [] → parseHeaderLine o t req line = .error (.bad "no filter/stats on stack to negate")) ∧
      (req.stats ≠ [] → ∃ st, parseHeaderLine o t req line = .ok { req with stats := st } ∧
        st.length = req.stats.length)) := by
  constructor
  · intro hh
    rw [headerLine_negate o t req line hdr rest hc hh]
    constructor
    · intro he; rw [he, negateTop_nil]; rfl
    · intro hne
      cases hf : req.filter with
      | nil => exact absurd hf hne
      | cons f fs =>
        rw [negateTop_cons]
        exact ⟨_, rfl, mapLast_length _ _⟩
  · intro hh
    rw [headerLine_statsnegate o t req line hdr rest hc hh]
    constructor
    · intro he; simp [he]
    · intro hne
      have : req.stats.isEmpty = false := by simpa using hne
      simp only [this, Bool.false_eq_true, if_false]
      exact ⟨_, rfl, mapLast_length _ _⟩

example : parseHeaderLine { optimize := true, q := Quirks.current } Lmd.C09.exHosts {} "Negate:"
      = .error (.bad "no filter/stats on stack to negate")
    ∧ parseHeaderLine { optimize := true, q := Quirks.current } Lmd.C09.exHosts {} "StatsNegate:"
      = .error (.bad "no filter/stats on stack to negate") :=
  ⟨((negate_guarded _ _ _ "Negate:" "Negate" "" (by decide)).1 (by decide)).1 rfl,
   ((negate_guarded _ _ _ "StatsNegate:" "StatsNegate" "" (by decide)).2 (by decide)).1 rfl⟩

/-- Which header line gives which refusal, part 4: `StatsAnd: n` / `StatsOr: n` on a stats stack of any
    height.  Not an integer or negative: refused; `n` larger than the stack: refused with "not enough
    filter on stack"; `n = 0` is handled as the code does — it pushes the counter `state != 9999`
    (the result of `Stats: state != 9999` on the same stack). -/
theorem stats_group_guarded (o : ParseOpts) (t : Table) (req : Request) (line hdr rest : String) (isAnd : Bool)
    (hc : cut ':' line = (hdr, some rest)) (hh : goLower hdr = if isAnd then "statsand" else "statsor") :
    (atoi? (trimLeftSpaces rest) = none →
      parseHeaderLine o t req line = .error (.bad "must be a positive number")) ∧
    (∀ n : Int, atoi? (trimLeftSpaces rest) = some n →
      (n < 0 → parseHeaderLine o t req line = .error (.bad "must be a positive number")) ∧
      (n = 0 → parseHeaderLine o t req line =
        (parseStats o t "state != 9999" req.stats).map (fun st => { req with stats := st })) ∧
      ((req.stats.length : Int) < n →
        parseHeaderLine o t req line = .error (.bad "not enough filter on stack"))) := by
  have hline : parseHeaderLine o t req line =
      (statsGroupOp o t isAnd (trimLeftSpaces rest) req.stats).map (fun st => { req with stats := st }) := by
    cases isAnd
    · exact headerLine_statsor o t req line hdr rest hc (by simpa using hh)
    · exact headerLine_statsand o t req line hdr rest hc (by simpa using hh)
  rw [hline]
  refine ⟨fun h => by rw [statsGroupOp_nan _ _ _ _ _ h]; rfl, fun n h => ⟨?_, ?_, ?_⟩⟩
  · intro hn; rw [statsGroupOp_neg _ _ _ _ _ n h hn]; rfl
  · intro hn; subst hn; rw [statsGroupOp_zero _ _ _ _ _ h]
  · intro hn; rw [statsGroupOp_too_many _ _ _ _ _ n h hn]; rfl

example : parseHeaderLine { optimize := true, q := Quirks.current } Lmd.C09.exHosts {} "StatsAnd: 3"
      = .error (.bad "not enough filter on stack") :=
  ((stats_group_guarded _ _ _ "StatsAnd: 3" "StatsAnd" " 3" true (by decide) (by decide)).2 3 (by decide)).2.2
    (by decide)

/-- The header section as a whole: a blank line ends it (nothing behind it is read, not even a line that
    would be refused), and the first line that is refused decides the verdict of the section, whatever
    follows it. -/
theorem first_refused_line_decides (o : ParseOpts) (t : Table) (req : Request) :
    (∀ line rest, trimSpace line = "" → parseHeaderLines o t req (line :: rest) = .ok req) ∧
    (∀ pre req' line rest e, (∀ l ∈ pre, trimSpace l ≠ "") → parseHeaderLines o t req pre = .ok req' →
      trimSpace line ≠ "" → parseHeaderLine o t req' (trimSpace line) = .error e →
      parseHeaderLines o t req (pre ++ line :: rest) = .error e) :=
  ⟨fun line rest h => parseHeaderLines_blank o t req line rest h,
   fun pre req' line rest e hne hok hl he => parseHeaderLines_first_error o t pre req req' line rest e hne hok hl he⟩

example : (match parseHeaderLines { optimize := true, q := Quirks.current } Lmd.C09.exHosts {}
        ["Limit: 3", "Negate:", "Limit: 5"] with
      | .error (.bad m) => m == "no filter/stats on stack to negate" | _ => false) = true
    ∧ (match parseHeaderLines { optimize := true, q := Quirks.current } Lmd.C09.exHosts {}
        ["Limit: 3", "  ", "Negate:"] with
      | .ok r => r.limit == some 3 | _ => false) = true := by decide

/-! ## 2. evaluation of an accepted request -/

/-- every stored cell of every backend of the dataset is a proper value (what `synced_no_crash` proves for
    every dataset built from backend replies) -/
def DatasetClean (ds : Dataset) : Prop :=
  ∀ b ∈ ds.backends, ∀ p ∈ b.tables, ∀ r ∈ p.2, ∀ cell ∈ r.cells, ∀ w, cell.2 ≠ .crash w

theorem DatasetClean.backend {ds : Dataset} (hd : DatasetClean ds) {b : Backend} (hb : b ∈ ds.backends) :
    BackendClean b :=
  fun p hp r hr cell hc => (isCrash_false_iff _).2 (hd b hb p hp r hr cell hc)

/-- A column inside the model (`ColOK`: stored locally, a virtual column `virtVal` computes, or a reference to
    such a column) never reads as the panic marker on a row of a clean backend.  This is the one remaining
    hypothesis of the model: for columns outside `ColOK` the marker stands for "not modelled". -/
theorem getVal_no_crash (cx : Ctx) (t : Table) (r : Row) (c : Column) (hc : ColOK cx.schema t c)
    (hb : ∀ p ∈ cx.b.tables, ∀ r ∈ p.2, ∀ cell ∈ r.cells, ∀ w, cell.2 ≠ .crash w)
    (hr : ∀ cell ∈ r.cells, ∀ w, cell.2 ≠ .crash w) (w : String) : getVal cx t r c ≠ .crash w :=
  (isCrash_false_iff _).1 (getVal_ok cx t r c hc
    (fun p hp r hr cell hcell => (isCrash_false_iff _).2 (hb p hp r hr cell hcell))
    (fun cell hcell => (isCrash_false_iff _).2 (hr cell hcell))) w

/-- Data queries: for every request (accepted by the parser or not), every dataset whose stored cells are
    proper values and every evaluation mode (index on or off, negation push-down on or off, early cut on or
    off, any quirk setting — in particular `EvalMode.code Quirks.current` and `EvalMode.spec`), every row of
    the answer comes from a configured backend and from the scanned table, and every column of the answer
    (`requestColumns`) reads on it as a proper value — provided the columns of the table are inside the model. -/
theorem data_query_no_crash (m : EvalMode) (s : Schema) (ds : Dataset) (t : Table) (req : Request)
    (hcols : ∀ c ∈ t.cols, ColOK s t c) (hd : DatasetClean ds) :
    ∀ h ∈ (dataQuery m s ds t req).hits, ∀ c ∈ requestColumns t req, ∀ w,
      getVal { schema := s, ds := ds, b := h.b } t h.r c ≠ .crash w := by
  intro h hh c hc w
  obtain ⟨hb, hr⟩ := dataQuery_hit m s ds t req h hh
  have hbc : BackendClean h.b := hd.backend hb
  have hrow := tableRows_clean { schema := s, ds := ds, b := h.b } t hbc h.r hr
  have hok : ColOK s t c := by
    unfold requestColumns at hc
    split at hc
    · exact hcols c hc
    · obtain ⟨n, _, rfl⟩ := List.mem_map.1 hc
      rcases colWithFallback_mem t n with hm | he
      · exact hcols _ hm
      · rw [he]; exact emptyColumn_ok s t
  exact (isCrash_false_iff _).1 (getVal_ok { schema := s, ds := ds, b := h.b } t h.r c hok hbc hrow) w

/-- Stats queries: the crash flag stays off in every evaluation mode when every aggregated column is inside
    the model and the stored cells are proper values. -/
theorem stats_query_no_crash (m : StatsMode) (s : Schema) (ds : Dataset) (t : Table) (req : Request)
    (hagg : ∀ k col n, StatsEntry.agg k col n ∈ req.stats → ColOK s t col) (hd : DatasetClean ds) :
    (statsQuery m s ds t req).crash = false := by
  apply Lmd.C09.stats_no_crash
  intro b hb _ r hr k col n hm w
  have hbc : BackendClean b := hd.backend (selectBackends_subset ds t req b hb)
  have hrow := tableRows_clean { schema := s, ds := ds, b := b } t hbc r hr
  exact (isCrash_false_iff _).1 (getVal_ok { schema := s, ds := ds, b := b } t r col (hagg k col n hm) hbc hrow) w

/-- The whole request path.  For every text the parser accepts (any options), its table `t`, every dataset
    whose stored cells are proper values: if the columns of `t` are inside the model (the one hypothesis the
    model needs — `Quirks.current` switches no crash off or on, the quirk switches only change answers), then
    no evaluation of the request has a crash outcome: a Stats evaluation never sets its crash flag (every
    `StatsMode`), and every cell of every row of a data answer is a proper value (every `EvalMode`). -/
theorem query_no_crash (s : Schema) (o : ParseOpts) (text : String) (req : Request) (t : Table) (ds : Dataset)
    (hp : parseRequest s o text = .ok req) (ht : s.table? req.table = some t)
    (hcols : ∀ c ∈ t.cols, ColOK s t c) (hd : DatasetClean ds) :
    (∀ m : StatsMode, (statsQuery m s ds t req).crash = false) ∧
    (∀ m : EvalMode, ∀ h ∈ (dataQuery m s ds t req).hits, ∀ c ∈ requestColumns t req, ∀ w,
      getVal { schema := s, ds := ds, b := h.b } t h.r c ≠ .crash w) := by
  refine ⟨fun m => stats_query_no_crash m s ds t req ?_ hd, fun m => data_query_no_crash m s ds t req hcols hd⟩
  intro k col n hm
  rcases parseRequest_aggFrom s o text req t hp ht k col n hm with hc | he
  · exact hcols col hc
  · rw [he]; exact emptyColumn_ok s t

/-- non-vacuity: the columns of the example table are inside the model, the example data is clean, and the
    hypothesis on the columns is needed — a virtual column the model does not compute reads as the marker -/
example : (∀ c ∈ Lmd.C09.exHosts.cols, ColOK Lmd.C09.exSchema Lmd.C09.exHosts c) ∧
    DatasetClean (Lmd.C09.exData (.s "db01")) := by
  constructor
  · intro c hc
    have : c.storage = .loc := by
      revert c
      decide
    exact .inl this
  · intro b hb p hp r hr cell hc w
    simp only [Lmd.C09.exData, List.mem_singleton] at hb
    subst hb
    simp only [List.mem_singleton] at hp
    subst hp
    simp only [List.mem_cons, List.not_mem_nil, or_false] at hr
    rcases hr with rfl | rfl <;>
      (simp only [List.mem_cons, List.not_mem_nil, or_false] at hc
       rcases hc with rfl | rfl <;> simp)

example : isCrash (getVal { schema := { tables := [] }, ds := { backends := [] }, b := { id := "a", name := "a" } }
      { name := "hosts", cols := [] } { cells := [] } { name := "lmd_version", dtype := .str, storage := .virt }) = true := by
  decide

/-! ## 3. backend replies -/

/-- For every backend reply — any JSON value per cell (string where a number is expected, nested arrays,
    null, objects), rows with fewer or more cells than the table has columns, unknown column names — every row
    `syncTable` stores reads without a crash outcome on every locally stored column of whatever type and name
    (also columns the row has no cell for, and the lower-case shadow columns), in every query context. -/
theorem reply_no_crash (t : Table) (reply : List ReplyRow) (cx : Ctx) (c : Column) (hs : c.storage = .loc) :
    ∀ r ∈ syncTable t reply, ∀ w, getVal cx t r c ≠ .crash w := by
  intro r hr w
  exact Lmd.C09.getVal_no_crash_local cx t r c hs
    (fun cell hc => (isCrash_false_iff _).1 (syncTable_clean t reply r hr cell hc)) w

/-- The same for the complete cache of a backend: a dataset all of whose backends hold what `syncBackend`
    builds from their replies (whatever these are) satisfies `DatasetClean`, the hypothesis of
    `query_no_crash` on the data. -/
theorem synced_dataset_clean (s : Schema) (ds : Dataset)
    (h : ∀ b ∈ ds.backends, ∃ tables, b.tables = syncBackend s tables) : DatasetClean ds := by
  intro b hb p hp r hr cell hc w
  obtain ⟨tables, ht⟩ := h b hb
  rw [ht] at hp
  exact (isCrash_false_iff _).1 (syncBackend_clean s tables p hp r hr cell hc) w

/-- Composition: on data synchronised from arbitrary backend replies no accepted request has a crash
    outcome (columns of the table inside the model). -/
theorem synced_query_no_crash (s : Schema) (o : ParseOpts) (text : String) (req : Request) (t : Table)
    (ds : Dataset) (hp : parseRequest s o text = .ok req) (ht : s.table? req.table = some t)
    (hcols : ∀ c ∈ t.cols, ColOK s t c)
    (hsync : ∀ b ∈ ds.backends, ∃ tables, b.tables = syncBackend s tables) :
    (∀ m : StatsMode, (statsQuery m s ds t req).crash = false) ∧
    (∀ m : EvalMode, ∀ h ∈ (dataQuery m s ds t req).hits, ∀ c ∈ requestColumns t req, ∀ w,
      getVal { schema := s, ds := ds, b := h.b } t h.r c ≠ .crash w) :=
  query_no_crash s o text req t ds hp ht hcols (synced_dataset_clean s ds hsync)

/-- non-vacuity: a reply row that is too short, has a string for the number, a boolean for the string, a
    cell for an unknown column and a repeated cell is stored and read back: the number reads 0, the missing cell reads "" -/
example : (syncTable Lmd.C09.exHosts [[("latency", Json.str "abc"), ("nosuch", Json.null)],
                                       [("name", Json.bool true), ("latency", Json.num 2), ("name", Json.null)]]).map
      (fun r => ((localVal Lmd.C09.exHosts r (Lmd.C09.exHosts.colWithFallback "name")).asString,
                 (localVal Lmd.C09.exHosts r (Lmd.C09.exHosts.colWithFallback "latency")).asString))
    = [("", "0"), ("true", "2")] := by decide

/-! ## 4. regular expressions -/

/-- The compiler is total: for every pattern it returns a program, `invalid` (Go's `regexp.Compile` fails as
    well) or `unsupported` (syntax outside the modelled subset); and the matcher is a total function (it is
    defined by recursion on the text: one derivative per character, so it cannot loop): for every program and
    every text it answers yes or no. -/
theorem regex_verdict_total (pat : String) :
    ((∃ r, compileRegex pat = .ok r ∧ ∀ s, r.matches s = true ∨ r.matches s = false) ∨
      compileRegex pat = .invalid ∨ compileRegex pat = .unsupported) := by
  cases h : compileRegex pat with
  | ok r => exact .inl ⟨r, rfl, fun s => by cases r.matches s <;> simp⟩
  | invalid => exact .inr (.inl rfl)
  | unsupported => exact .inr (.inr rfl)

/-- The empty pattern compiles, to the program that matches every text (with or without `(?i)`). -/
theorem regex_empty_pattern :
    compileRegex "" = .ok { fold := false, re := .eps } ∧
    ∀ fold s, Regex.matches { fold := fold, re := .eps } s = true :=
  ⟨compileRegex_empty, matches_eps⟩

/-- Unbalanced brackets and dangling operators never compile, whatever follows: a pattern that starts with a
    closing bracket `)` or with one of `*`, `+`, `?` is `invalid`; a pattern that opens a character class
    `[` and contains no `]` behind it yields no program. -/
theorem regex_unbalanced (pat : String) (c : Char) (rest : List Char) (h : pat.toList = c :: rest) :
    (c = ')' → compileRegex pat = .invalid) ∧
    (c = '*' ∨ c = '+' ∨ c = '?' → compileRegex pat = .invalid) ∧
    (c = '[' → ']' ∉ rest → ∀ r, compileRegex pat ≠ .ok r) :=
  ⟨fun hc => compileRegex_close pat rest (by rw [h, hc]),
   fun hc => compileRegex_quant pat c rest h hc,
   fun hc hr r => compileRegex_unclosed pat rest (by rw [h, hc]) hr r⟩

/-- non-vacuity, and the unclosed group: `(`, `(a`, `a)`, `[a`, `*a`, `a**` are invalid; `a{2}` is outside
    the modelled syntax; `a|b` compiles -/
example : (match compileRegex "(" with | .invalid => true | _ => false) = true
    ∧ (match compileRegex "(a" with | .invalid => true | _ => false) = true
    ∧ (match compileRegex "a)" with | .invalid => true | _ => false) = true
    ∧ (match compileRegex "[a" with | .invalid => true | _ => false) = true
    ∧ (match compileRegex "*a" with | .invalid => true | _ => false) = true
    ∧ (match compileRegex "a**" with | .invalid => true | _ => false) = true
    ∧ (match compileRegex "a{2}" with | .unsupported => true | _ => false) = true
    ∧ (match compileRegex "a|b" with | .ok r => r.matches "xbx" && !r.matches "xyz" | _ => false) = true := by
  decide

/-- A filter is accepted only with a compiled program: for every table, every parser option and every
    `Filter:` value, a leaf the parser accepts whose operator is one of `~`, `!~`, `~~`, `!~~` (after the
    optimiser's rewriting) carries the program the compiler returned for some pattern.  And when the parser
    refuses a regular-expression leaf with `.bad`, the message is "invalid regular expression" and a
    pattern was handed to the compiler that it rejected as `invalid`. -/
theorem regex_filter_compiled (o : ParseOpts) (t : Table) (value : String) :
    (∀ l, parseFilterLeaf o t value = .ok l → isRegexOp l.op = true →
      ∃ r pat, l.rx = some r ∧ compileRegex pat = .ok r) ∧
    (∀ opt l sd m, setRegexFilter opt l sd = .error (.bad m) →
      m = "invalid regular expression" ∧ ∃ pat, compileRegex pat = .invalid) :=
  ⟨fun l h hop => parseFilterLeaf_ok o t value l h hop, fun opt l sd m h => setRegexFilter_bad opt l sd m h⟩

/-- non-vacuity: a pattern the compiler rejects as `invalid` exists for every continuation (the leaf-level
    instances are the lines `Filter: name ~ (` and `Filter: name ~ [a`; the compiler's verdicts on these
    patterns are evaluated in the example above) -/
example (rest : String) : compileRegex (String.ofList (')' :: rest.toList)) = .invalid :=
  compileRegex_close _ rest.toList (by simp)

/-! ## 5. sessions -/

/-- A request that does not parse ends the session: when the requests before it all parse and carry
    `KeepAlive: on`, they are answered in order, the bad request gets one error, and nothing that follows it on
    the connection is looked at. -/
theorem session_bad_request_ends (i : Nat) (pre post : List WireReq) (bad : WireReq)
    (hp : ∀ r ∈ pre, r.parses = true) (hk : ∀ r ∈ pre, r.keepAlive = true) (hb : bad.parses = false) :
    sessionPlan i (pre ++ bad :: post) =
      (List.range' i pre.length).map Action.answer ++ [Action.parseError (i + pre.length)] :=
  plan_bad_request i pre post bad hp hk hb

/-- For every sequence of requests on one connection: the number of frames written is at most the number of
    requests, and if the `j`-th request does not parse, at most `j + 1` frames are written and no frame
    belongs to a later request. -/
theorem session_frames_bounded (i : Nat) (reqs : List WireReq) :
    (sessionPlan i reqs).length ≤ reqs.length ∧
    ∀ j r, reqs[j]? = some r → r.parses = false →
      (sessionPlan i reqs).length ≤ j + 1 ∧ ∀ a ∈ sessionPlan i reqs, Lmd.Frame.Action.idx a ≤ i + j :=
  ⟨Lmd.Frame.plan_length_le i reqs, fun j r hj hb => plan_after_bad i reqs j r hj hb⟩

example : sessionPlan 0 [⟨true, true⟩, ⟨true, true⟩, ⟨false, true⟩, ⟨true, true⟩, ⟨true, false⟩]
    = [Action.answer 0, Action.answer 1, Action.parseError 2] :=
  session_bad_request_ends 0 [⟨true, true⟩, ⟨true, true⟩] [⟨true, true⟩, ⟨true, false⟩] ⟨false, true⟩
    (by decide) (by decide) rfl

end Lmd.C09Total
