/-
  C07 (whole-query statements) — the optimising parser plus the optimised evaluation against
  the plain parser plus the specification, on every dataset with several backends; the early
  cut for requests without sort fields.
  Helper lemmas live in `Lmd.Lemmas.WholeLemmas`, `Lmd.Lemmas.PlainParseLemmas` and
  `Lmd.Lemmas.PageLemmas`.
-/
import Lmd.Props.C06
import Lmd.Props.C07
import Lmd.Lemmas.WholeLemmas
import Lmd.Lemmas.PlainParseLemmas

namespace Lmd.C07Whole
open Lmd.Sort Lmd.Lemmas Lmd.Pages Lmd.Whole Lmd.PlainParse

/-- the optimising parser of the daemon -/
def optParse (s : Schema) (text : String) : PM Request :=
  parseRequest s { optimize := true, q := Quirks.current, specDots := false } text

/-- the plain parser (no rewriting of filter terms, no un-nesting); `sd` chooses how the dots of
    the host-name heuristic are read, which is irrelevant on texts without regular expressions -/
def plainParse (s : Schema) (sd : Bool) (text : String) : PM Request :=
  parseRequest s { optimize := false, q := Quirks.current, specDots := sd } text

/-- the evaluation of the daemon without the per-backend early cut (index pre-selection and
    negation push-down are on) -/
abbrev codeNoCut : EvalMode := noCut (EvalMode.code Quirks.current)

/-! ## 5. optimised request, optimised evaluation = plain request, specification -/

/-- Composition of the rewrite soundness results, for all backends at once.  Let `ro` and `rp` be
    two requests - intended: the same text parsed with and without `ParseOptimize` - that agree
    in table, sort, backends, limit, offset, output format and user (`SameBut`).  Then the
    optimised evaluation of `ro` (index pre-selection, negation push-down; early cut aside) and
    the specification's evaluation of `rp` (full scan, Boolean semantics) give the identical
    `dataQuery` answer - rows, order, pool, total, failed backends - provided that
    * `hsem`: on every row of every selected backend both filter lists accept the same rows
      (this is what the term rewrites - regular expression to substring / equality, lower-case
      columns, un-nesting - have to guarantee),
    * `hsorted`, `hshape`: every selected backend stores the table sorted by primary key, and
      hosts / services have their usual keys,
    * `hcov`: every term of `ro` the index can use is of a `Covered` shape (well-typed column,
      group tables consistent with the `groups` lists).
    Partial: these hypotheses remain; the early cut is treated separately below. -/
theorem optimized_request_same_answer_partial (s : Schema) (ds : Dataset) (t : Table)
    (ro rp : Request) (hsame : SameBut ro rp)
    (hsem : ∀ b ∈ availBackends ds t ro, ∀ r ∈ tableRows { schema := s, ds := ds, b := b } t,
      semList Quirks.current (mkView { schema := s, ds := ds, b := b } t r) ro.filter =
        semList Quirks.current (mkView { schema := s, ds := ds, b := b } t r) rp.filter)
    (hsorted : ∀ b ∈ availBackends ds t ro,
      (tableRows { schema := s, ds := ds, b := b } t).Pairwise (keyLt t))
    (hshape : KeyShape t)
    (hcov : ∀ b ∈ availBackends ds t ro, ∀ r ∈ tableRows { schema := s, ds := ds, b := b } t,
      ∀ kind, indexKind? t = some kind → ∀ l ∈ leavesOfList ro.filter,
        (leafIndexKeys { schema := s, ds := ds, b := b } kind t l).isSome →
          Covered { schema := s, ds := ds, b := b } t r kind l) :
    dataQuery codeNoCut s ds t ro = dataQuery EvalMode.spec s ds t rp := by
  apply dataQuery_of_gatherRows_eq _ _ s ds t ro rp hsame
  intro b hb
  have h1 := C07.gatherRows_code_nocut_eq_spec_sorted_partial { schema := s, ds := ds, b := b } t ro
    (hsorted b hb) hshape (hcov b hb)
  have h2 := gatherRows_congr_filter EvalMode.spec { schema := s, ds := ds, b := b } t ro rp hsame rfl
    (fun r hr => hsem b hb r hr)
  exact h1.trans h2

/-- The hypotheses of `optimized_request_same_answer_partial` are satisfiable: on the demo dataset
    (one backend, hosts `B` and `a`, key-sorted, consistent group table) with the request
    `Filter: name =~ b` / `Filter: state = 1` / `Filter: groups >= g` on both sides. -/
example : ∃ (ro rp : Request), SameBut ro rp ∧ ro.filter.length = 3 ∧
    (∀ b ∈ availBackends Demo.cx.ds Demo.hosts ro,
      ∀ r ∈ tableRows { schema := Demo.cx.schema, ds := Demo.cx.ds, b := b } Demo.hosts,
      semList Quirks.current (mkView { schema := Demo.cx.schema, ds := Demo.cx.ds, b := b } Demo.hosts r) ro.filter =
        semList Quirks.current (mkView { schema := Demo.cx.schema, ds := Demo.cx.ds, b := b } Demo.hosts r) rp.filter) ∧
    KeyShape Demo.hosts :=
  ⟨{ table := "hosts", filter := [.leaf (Demo.nameLeaf .eqNc "b") false, .leaf Demo.stateLeaf false,
      .leaf Demo.groupLeaf false] }, _, SameBut.refl _, rfl, fun _ _ _ _ => rfl,
    ⟨fun _ => rfl, fun h => absurd h (by decide)⟩⟩

/-- On plain texts the two parsers differ only by filter un-nesting: if a request text in which no
    header line carries a regular-expression operator (`~ !~ ~~ !~~`) or a case-insensitive
    substring operator (`ilike iunlike`) is accepted by both parsers, the optimised request is
    the plain request with `optimizeFilterIndentation` applied to its filter list. -/
theorem plain_text_parses_alike (s : Schema) (sd : Bool) (text : String) (ro rp : Request)
    (hplain : PlainText text) (ho : optParse s text = .ok ro) (hp : plainParse s sd text = .ok rp) :
    ro = { rp with filter := optimizeIndentation (Filter.depthList rp.filter + 1) rp.filter } :=
  parseRequest_plain s Quirks.current sd text ro rp hplain ho hp

/-- a decidable sufficient test for `PlainValue` -/
def plainValueB (v : String) : Bool :=
  match splitN ' ' 3 v with
  | _ :: o :: _ =>
    match parseOp o with
    | some (op, _) => plainOp op
    | none => true
  | _ => true

theorem plainValue_of_test (v : String) (h : plainValueB v = true) : PlainValue v := by
  intro c o r hs op b hp
  unfold plainValueB at h
  rw [hs] at h
  simp only [hp] at h
  exact h

/-- the header lines `Filter: state = 1`, `Filter: name != x`, `Or: 2`, `Columns: name`,
    `Limit: 1` are plain -/
example : PlainLines ["Filter: state = 1", "Filter: name != x", "Or: 2", "Columns: name", "Limit: 1"] := by
  intro line hl
  apply plainValue_of_test
  simp only [List.mem_cons, List.not_mem_nil, or_false] at hl
  rcases hl with rfl | rfl | rfl | rfl | rfl <;> decide

/-- `optimized_request_same_answer`, unconditional for the sub-class "no regular-expression
    operator, no index-able term": for every request text without `~ !~ ~~ !~~ ilike iunlike`
    that both parsers accept, and every dataset on which no term of the parsed filter is usable
    for an index look-up (on any selected backend), the daemon's evaluation of the optimised
    request (early cut aside) and the specification's evaluation of the plain request give the
    identical `dataQuery` answer.  No assumption on the order of the stores or on group tables. -/
theorem optimized_request_same_answer_plain (s : Schema) (sd : Bool) (text : String)
    (ro rp : Request) (hplain : PlainText text)
    (ho : optParse s text = .ok ro) (hp : plainParse s sd text = .ok rp)
    (ds : Dataset) (t : Table)
    (hnoidx : ∀ b ∈ availBackends ds t ro, ∀ kind, ∀ l ∈ leavesOfList ro.filter,
      leafIndexKeys { schema := s, ds := ds, b := b } kind t l = none) :
    dataQuery codeNoCut s ds t ro = dataQuery EvalMode.spec s ds t rp := by
  have he := plain_text_parses_alike s sd text ro rp hplain ho hp
  have hsame : SameBut ro rp := by rw [he]; exact ⟨rfl, rfl, rfl, rfl, rfl, rfl, rfl⟩
  apply dataQuery_of_gatherRows_eq _ _ s ds t ro rp hsame
  intro b hb
  apply gatherRows_code_eq_spec_noIndex _ t ro rp hsame (hnoidx b hb)
  intro r _
  rw [he]
  exact C07.optimizeIndentation_sound _ _ _ _

/-- a term on the `state` column is not usable for any index of the demo hosts table -/
example : ∀ kind, leafIndexKeys Demo.cx kind Demo.hosts Demo.stateLeaf = none := by
  intro kind; cases kind <;> decide

/-- The same for plain texts whose filter does contain index-able terms (`name = x`,
    `groups >= g`, ...): the answers are identical when every selected backend stores the table
    sorted by primary key and the index-able terms are of a `Covered` shape.
    Partial: the data hypotheses of index pre-selection remain (see
    `C07.preFiltered_incomplete_without_group_consistency` for why they cannot be dropped). -/
theorem optimized_request_same_answer_plain_indexed_partial (s : Schema) (sd : Bool)
    (text : String) (ro rp : Request) (hplain : PlainText text)
    (ho : optParse s text = .ok ro) (hp : plainParse s sd text = .ok rp)
    (ds : Dataset) (t : Table)
    (hsorted : ∀ b ∈ availBackends ds t ro,
      (tableRows { schema := s, ds := ds, b := b } t).Pairwise (keyLt t))
    (hshape : KeyShape t)
    (hcov : ∀ b ∈ availBackends ds t ro, ∀ r ∈ tableRows { schema := s, ds := ds, b := b } t,
      ∀ kind, indexKind? t = some kind → ∀ l ∈ leavesOfList ro.filter,
        (leafIndexKeys { schema := s, ds := ds, b := b } kind t l).isSome →
          Covered { schema := s, ds := ds, b := b } t r kind l) :
    dataQuery codeNoCut s ds t ro = dataQuery EvalMode.spec s ds t rp := by
  have he := plain_text_parses_alike s sd text ro rp hplain ho hp
  have hsame : SameBut ro rp := by rw [he]; exact ⟨rfl, rfl, rfl, rfl, rfl, rfl, rfl⟩
  refine optimized_request_same_answer_partial s ds t ro rp hsame ?_ hsorted hshape hcov
  intro b _ r _
  rw [he]
  exact C07.optimizeIndentation_sound _ _ _ _

/-- When the request has no `Limit:` the daemon applies no early cut, so the statements above
    hold for the daemon's evaluation as it is. -/
theorem code_eq_codeNoCut_without_limit (s : Schema) (ds : Dataset) (t : Table) (req : Request)
    (h : req.limit = none) :
    dataQuery (EvalMode.code Quirks.current) s ds t req = dataQuery codeNoCut s ds t req :=
  dataQuery_congr _ _ s ds t req
    (peerResults_of_cut_none _ s ds t req (peerCut_none_of_limit_none _ req h))

/-! ## 6. the early cut -/

/-- The early cut without Sort: for a request without sort fields, stopping each backend's scan
    after Limit + Offset rows does not change the returned rows at all - same rows, same order -
    on every dataset with any number of backends, in every evaluation mode. -/
theorem earlyCut_nosort_same_rows (m : EvalMode) (s : Schema) (ds : Dataset) (t : Table)
    (req : Request) (hs : req.sort = []) :
    (dataQuery m s ds t req).hits = (dataQuery (noCut m) s ds t req).hits :=
  dataQuery_cut_nosort_eq m s ds t req hs

/-- the cut is really applied in this situation: `Limit: 1` without Sort cuts every backend at one
    row in the daemon's mode -/
example : peerCut (EvalMode.code Quirks.current) { limit := some 1 } = some 1 := by decide

/-- With a sort order that is the table's default order, the early cut keeps the rows up to rows
    with equal keys, provided every backend delivers its rows in that order (restatement of
    `C06.earlyCut_sound` for the daemon's mode against the same mode without the cut). -/
theorem earlyCut_sorted_same_rows (s : Schema) (ds : Dataset) (t : Table) (req : Request)
    (hord : ∀ A ∈ backendHits (EvalMode.code Quirks.current) s ds t req,
      A.Pairwise (fun a b => Hit.le (dirsOf req) a b = true)) :
    PosRel (C06.KeyEq (dirsOf req)) (dataQuery (EvalMode.code Quirks.current) s ds t req).hits
      (dataQuery codeNoCut s ds t req).hits :=
  C06.earlyCut_sound _ s ds t req hord

/-- `total_count` with the early cut, in terms of the request: if the daemon cuts (Limit `l`
    given, `l + Offset > 0`, default sort order), the reported total is at most the true number
    of matching rows over all backends and at least `min (true number) (l + Offset + 1)`; with
    wrapped_json it is exact. -/
theorem earlyCut_total_bounds (s : Schema) (ds : Dataset) (t : Table) (req : Request) (l : Nat)
    (hl : req.limit = some l) (hpos : 0 < l + req.offset) (hd : isDefaultSortOrder req = true) :
    (dataQuery (EvalMode.code Quirks.current) s ds t req).total ≤ (dataQuery codeNoCut s ds t req).total ∧
    min (dataQuery codeNoCut s ds t req).total (l + req.offset + 1) ≤
      (dataQuery (EvalMode.code Quirks.current) s ds t req).total ∧
    (req.outFmt = .wrapped →
      (dataQuery (EvalMode.code Quirks.current) s ds t req).total = (dataQuery codeNoCut s ds t req).total) := by
  have hc : peerCut (EvalMode.code Quirks.current) req = some (l + req.offset) := by
    unfold peerCut resultLimit
    rw [hl, hd]
    have : (l + req.offset == 0) = false := by
      cases h : l + req.offset with
      | zero => omega
      | succ n => rfl
    simp [EvalMode.code, this]
  have hb := C06.total_count_cut_bounds _ s ds t req _ hc
  refine ⟨hb.1, hb.2, fun hw => ?_⟩
  rw [C06.total_count_spec _ s ds t req (Or.inr hw),
    C06.total_count_spec codeNoCut s ds t req (Or.inl rfl)]
  rfl

example : ({ table := "hosts", limit := some 2 } : Request).limit = some 2 ∧
    isDefaultSortOrder { table := "hosts", limit := some 2 } = true := ⟨rfl, rfl⟩

/-- Putting both halves together for plain texts without Sort: the rows the daemon returns for
    the optimised request - early cut included - are exactly the rows the specification returns
    for the plain request, when no filter term is usable for an index. -/
theorem optimized_request_same_rows_nosort_plain (s : Schema) (sd : Bool) (text : String)
    (ro rp : Request) (hplain : PlainText text)
    (ho : optParse s text = .ok ro) (hp : plainParse s sd text = .ok rp)
    (ds : Dataset) (t : Table) (hs : ro.sort = [])
    (hnoidx : ∀ b ∈ availBackends ds t ro, ∀ kind, ∀ l ∈ leavesOfList ro.filter,
      leafIndexKeys { schema := s, ds := ds, b := b } kind t l = none) :
    (dataQuery (EvalMode.code Quirks.current) s ds t ro).hits = (dataQuery EvalMode.spec s ds t rp).hits := by
  rw [earlyCut_nosort_same_rows _ s ds t ro hs]
  exact congrArg DataResult.hits
    (optimized_request_same_answer_plain s sd text ro rp hplain ho hp ds t hnoidx)

end Lmd.C07Whole
