/-
  C04 (whole query) — "A result is the union of exactly the selected, available backends."

  Composition theorems about `dataQuery` / `statsQuery` as a whole: the answer of a request against the
  answers of the same request with `Backends: b` for one backend at a time, what a smaller or larger
  `Backends:` header changes, rows against `failed`, and independence from the backends that are not read.
  `only req id` is the request `req` with the header `Backends: id`, `withBackends req ids` the request with
  the header `Backends: ids`.  Helper lemmas: Lmd/Lemmas/UnionLemmas.lean.
-/
import Lmd.Lemmas.UnionLemmas

namespace Lmd.C04Union
open Lmd Lmd.Sort Lmd.Dist Lmd.Union

/-! ## 1. the answer is the union of the single-backend answers -/

/-- For a data request without Sort, Limit and Offset on a per-backend table, with distinct backend ids:
    the rows of the answer are exactly the concatenation, in configuration order, of the rows the same
    request returns when it is restricted to one selected, available backend at a time (`Backends: b`), and
    `total_count` is the sum of the single totals.  (With two backends sharing an id the statement is false
    for the model: `Backends: id` then selects both.) -/
theorem answer_is_union (m : EvalMode) (s : Schema) (ds : Dataset) (t : Table) (req : Request)
    (ht : C04.Ordinary t) (hid : (ds.backends.map (·.id)).Nodup)
    (hs : req.sort = []) (hl : req.limit = none) (ho : req.offset = 0) :
    (dataQuery m s ds t req).hits =
        (availBackends ds t req).flatMap (fun b => (dataQuery m s ds t (only req b.id)).hits) ∧
    (dataQuery m s ds t req).total =
        ((availBackends ds t req).map (fun b => (dataQuery m s ds t (only req b.id)).total)).sum := by
  constructor
  · rw [hits_eq_sortHits m s ds t req hl ho, sortHits_nosort req hs, collected_eq_flatMap]
    apply flatMap_congr_mem
    intro b hb
    obtain ⟨_, hb', hav⟩ := avail_subset ds t req b hb
    rw [single_hits m s ds t req ht hid hl ho b hb', hav, if_pos rfl, sortHits_nosort req hs]
  · rw [dataQuery_total, totalOf_eq_sum]
    congr 1
    apply List.map_congr_left
    intro b hb
    obtain ⟨_, hb', hav⟩ := avail_subset ds t req b hb
    rw [single_total m s ds t req ht hid b hb', hav, if_pos rfl]

/-- The same over all selected backends, available or not: a selected backend that is down contributes the
    empty answer. -/
theorem answer_is_union_selected (m : EvalMode) (s : Schema) (ds : Dataset) (t : Table) (req : Request)
    (ht : C04.Ordinary t) (hid : (ds.backends.map (·.id)).Nodup)
    (hs : req.sort = []) (hl : req.limit = none) (ho : req.offset = 0) :
    (dataQuery m s ds t req).hits =
      (selectBackends ds t req).peers.flatMap (fun b => (dataQuery m s ds t (only req b.id)).hits) := by
  rw [(answer_is_union m s ds t req ht hid hs hl ho).1, availBackends, ← flatMap_ite]
  apply flatMap_congr_mem
  intro b hb
  have hb' := peers_mem_backends b hb
  rw [single_hits m s ds t req ht hid hl ho b hb']
  cases backendAvailable b t <;> simp

/-- With Sort (still without Limit and Offset): the rows of the answer are a permutation of the
    concatenation of the single-backend answers, each of which is the sorted list of that backend's rows. -/
theorem answer_is_union_sorted (m : EvalMode) (s : Schema) (ds : Dataset) (t : Table) (req : Request)
    (ht : C04.Ordinary t) (hid : (ds.backends.map (·.id)).Nodup)
    (hl : req.limit = none) (ho : req.offset = 0) :
    (dataQuery m s ds t req).hits.Perm
      ((availBackends ds t req).flatMap (fun b => (dataQuery m s ds t (only req b.id)).hits)) := by
  rw [hits_eq_sortHits m s ds t req hl ho, collected_eq_flatMap]
  refine (sortHits_perm req _).trans ?_
  apply perm_flatMap_left
  intro b hb
  obtain ⟨_, hb', hav⟩ := avail_subset ds t req b hb
  rw [single_hits m s ds t req ht hid hl ho b hb', hav, if_pos rfl]
  exact (sortHits_perm req _).symm

/-- `total_count` is the sum of the single-backend totals for *every* request (any Sort, Limit, Offset,
    output format, evaluation mode). -/
theorem total_is_sum (m : EvalMode) (s : Schema) (ds : Dataset) (t : Table) (req : Request)
    (ht : C04.Ordinary t) (hid : (ds.backends.map (·.id)).Nodup) :
    (dataQuery m s ds t req).total =
      ((availBackends ds t req).map (fun b => (dataQuery m s ds t (only req b.id)).total)).sum := by
  rw [dataQuery_total, totalOf_eq_sum]
  congr 1
  apply List.map_congr_left
  intro b hb
  obtain ⟨_, hb', hav⟩ := avail_subset ds t req b hb
  rw [single_total m s ds t req ht hid b hb', hav, if_pos rfl]

/-! ## 2. smaller and larger `Backends:` headers -/

/-- If the header `ids` selects only backends the request `req` selects too, then the answer with the
    header `ids` consists of exactly those rows of the answer of `req` whose backend the header `ids`
    selects, in the same order and with the same backend attribution (a row carries its backend).  No
    hypothesis on the ids: this holds with duplicate ids as well. -/
theorem smaller_header_rows (m : EvalMode) (s : Schema) (ds : Dataset) (t : Table) (req : Request)
    (ids : List String) (ht : C04.Ordinary t)
    (hs : req.sort = []) (hl : req.limit = none) (ho : req.offset = 0)
    (hsub : ∀ b ∈ ds.backends, C04.selected (withBackends req ids) b = true → C04.selected req b = true) :
    (dataQuery m s ds t (withBackends req ids)).hits =
      (dataQuery m s ds t req).hits.filter (fun h => C04.selected (withBackends req ids) h.b) :=
  hits_of_smaller m s ds t req ids ht hs hl ho hsub

/-- Monotonicity: selecting more backends only adds rows - the smaller answer is a sub-list of the larger
    one (same rows, same order, same attribution). -/
theorem more_backends_more_rows (m : EvalMode) (s : Schema) (ds : Dataset) (t : Table) (req : Request)
    (ids : List String) (ht : C04.Ordinary t)
    (hs : req.sort = []) (hl : req.limit = none) (ho : req.offset = 0)
    (hsub : ∀ b ∈ ds.backends, C04.selected (withBackends req ids) b = true → C04.selected req b = true) :
    (dataQuery m s ds t (withBackends req ids)).hits.Sublist (dataQuery m s ds t req).hits := by
  rw [smaller_header_rows m s ds t req ids ht hs hl ho hsub]
  exact List.filter_sublist

/-- The hypothesis of the two theorems above in terms of the headers: a non-empty header whose ids all
    occur in the (possibly empty = all) header of `req`. -/
theorem header_subset_selected (ds : Dataset) (req : Request) (ids : List String) (hne : ids ≠ [])
    (hsub : req.backends = [] ∨ ∀ id ∈ ids, id ∈ req.backends) :
    ∀ b ∈ ds.backends, C04.selected (withBackends req ids) b = true → C04.selected req b = true := by
  intro b _ h
  have he : ids.isEmpty = false := by cases ids <;> simp_all
  simp only [C04.selected, withBackends, he, Bool.false_or, List.contains_iff_mem] at h
  rcases hsub with h0 | h1
  · simp [C04.selected, h0]
  · simp [C04.selected, h1 b.id h]

/-- With Sort the same holds as a statement about membership: a row is in the smaller answer iff it is in
    the larger one and its backend is selected by the smaller header. -/
theorem smaller_header_mem (m : EvalMode) (s : Schema) (ds : Dataset) (t : Table) (req : Request)
    (ids : List String) (ht : C04.Ordinary t) (hl : req.limit = none) (ho : req.offset = 0)
    (hsub : ∀ b ∈ ds.backends, C04.selected (withBackends req ids) b = true → C04.selected req b = true)
    (h : Hit) :
    h ∈ (dataQuery m s ds t (withBackends req ids)).hits ↔
      h ∈ (dataQuery m s ds t req).hits ∧ C04.selected (withBackends req ids) h.b = true := by
  rw [hits_eq_sortHits m s ds t (withBackends req ids) hl ho, hits_eq_sortHits m s ds t req hl ho,
    (sortHits_perm _ _).mem_iff, (sortHits_perm _ _).mem_iff]
  constructor
  · intro hh
    obtain ⟨hb, hin⟩ := collected_source m s ds t _ h hh
    rw [mem_avail ds t _ ht] at hb
    refine ⟨(mem_collected m s ds t req h).mpr ⟨h.b, ?_, hin⟩, hb.2.1⟩
    rw [mem_avail ds t req ht]
    exact ⟨hb.1, hsub h.b hb.1 hb.2.1, hb.2.2⟩
  · rintro ⟨hh, hsel⟩
    obtain ⟨hb, hin⟩ := collected_source m s ds t req h hh
    rw [mem_avail ds t req ht] at hb
    refine (mem_collected m s ds t _ h).mpr ⟨h.b, ?_, hin⟩
    rw [mem_avail ds t _ ht]
    exact ⟨hb.1, hsel, hb.2.2⟩

/-- Removing one id from an explicit header removes exactly the rows of the backends with that id,
    provided some id is left (an empty header means "all backends", not "none"). -/
theorem remove_backend_rows (m : EvalMode) (s : Schema) (ds : Dataset) (t : Table) (req : Request)
    (id : String) (ht : C04.Ordinary t)
    (hs : req.sort = []) (hl : req.limit = none) (ho : req.offset = 0)
    (hne : req.backends.filter (· != id) ≠ []) :
    (dataQuery m s ds t (withBackends req (req.backends.filter (· != id)))).hits =
      (dataQuery m s ds t req).hits.filter (fun h => h.b.id != id) := by
  have hsub := header_subset_selected ds req (req.backends.filter (· != id)) hne
    (Or.inr (fun x hx => (List.mem_filter.mp hx).1))
  rw [smaller_header_rows m s ds t req _ ht hs hl ho hsub]
  apply List.filter_congr
  intro h hh
  rw [C04.rows_partition_filter m s ds t req ht hs hl ho] at hh
  simp only [List.mem_flatMap, List.mem_filter, Bool.and_eq_true] at hh
  obtain ⟨b, ⟨_, hsel, _⟩, hin⟩ := hh
  have hsrc := C04.hit_source m _ t req h hin
  simp only at hsrc
  subst hsrc
  have he : (req.backends.filter (· != id)).isEmpty = false := by
    cases hx : req.backends.filter (· != id) <;> simp_all
  have hreq : req.backends ≠ [] := by
    intro e; rw [e] at hne; simp at hne
  have hmem : h.b.id ∈ req.backends := by
    simp only [C04.selected, Bool.or_eq_true, List.isEmpty_iff, List.contains_iff_mem] at hsel
    rcases hsel with h0 | h1
    · exact absurd h0 hreq
    · exact h1
  simp only [C04.selected, withBackends, he, Bool.false_or]
  rw [Bool.eq_iff_iff]
  simp [List.mem_filter, hmem]

/-! ## 3. rows and `failed` -/

/-- For every request (any Sort, Limit, Offset), with distinct backend ids: no backend id appears both as
    the source of a returned row and in `failed`. -/
theorem rows_failed_disjoint (m : EvalMode) (s : Schema) (ds : Dataset) (t : Table) (req : Request)
    (hid : (ds.backends.map (·.id)).Nodup) (h : Hit) (hh : h ∈ (dataQuery m s ds t req).hits) :
    h.b.id ∉ (dataQuery m s ds t req).failed.map (·.1) := by
  obtain ⟨hav, _⟩ := collected_source m s ds t req h (mem_hits_collected m s ds t req h hh)
  obtain ⟨_, hb, havail⟩ := avail_subset ds t req h.b hav
  rw [C04.failed_down_exact, List.map_append, List.mem_append]
  rintro (hx | hx)
  · obtain ⟨p, hp, e⟩ := List.mem_map.mp hx
    have := ((C04.failed_exact ds t req).1 p).mp hp
    exact this.2.1 h.b hb e.symm
  · rw [List.map_map] at hx
    obtain ⟨b', hb', e⟩ := List.mem_map.mp hx
    rw [List.mem_filter] at hb'
    have e' : b'.id = h.b.id := e
    have hbb : b' ∈ ds.backends := peers_mem_backends b' hb'.1
    have : b' = h.b := eq_of_id_eq hid hbb hb e'
    subst this
    simp [havail] at hb'

/-- Every selected backend is in exactly one of the two classes, for every request: its id is listed in
    `failed` iff it is not available, and then no returned row is attributed to it. -/
theorem selected_failed_iff (m : EvalMode) (s : Schema) (ds : Dataset) (t : Table) (req : Request)
    (hid : (ds.backends.map (·.id)).Nodup) (b : Backend) (hb : b ∈ (selectBackends ds t req).peers) :
    (b.id ∈ (dataQuery m s ds t req).failed.map (·.1) ↔ backendAvailable b t = false) ∧
    (backendAvailable b t = false → ∀ h ∈ (dataQuery m s ds t req).hits, h.b ≠ b) := by
  have hbb : b ∈ ds.backends := peers_mem_backends b hb
  constructor
  · rw [C04.failed_down_exact]
    simp only [List.map_append, List.mem_append, List.mem_map, List.mem_filter]
    constructor
    · rintro (⟨p, hp, e⟩ | ⟨p, ⟨b', ⟨hb', hdown⟩, rfl⟩, e⟩)
      · have := ((C04.failed_exact ds t req).1 p).mp hp
        exact absurd e.symm (this.2.1 b hbb)
      · have : b' = b := eq_of_id_eq hid (peers_mem_backends b' hb') hbb e
        subst this
        simpa using hdown
    · intro hdown
      exact Or.inr ⟨C04.downEntry b, ⟨b, ⟨hb, by simp [hdown]⟩, rfl⟩, rfl⟩
  · intro hdown h hh e
    obtain ⟨hav, _⟩ := collected_source m s ds t req h (mem_hits_collected m s ds t req h hh)
    have := (avail_subset ds t req h.b hav).2.2
    rw [e, hdown] at this
    cases this

/-- ... and when it is available (request without Sort, Limit, Offset) the rows attributed to it are exactly
    the rows it contributes, possibly none. -/
theorem selected_contributes (m : EvalMode) (s : Schema) (ds : Dataset) (t : Table) (req : Request)
    (ht : C04.Ordinary t) (hid : (ds.backends.map (·.id)).Nodup)
    (hs : req.sort = []) (hl : req.limit = none) (ho : req.offset = 0)
    (b : Backend) (hb : b ∈ (selectBackends ds t req).peers) (hav : backendAvailable b t = true) :
    (dataQuery m s ds t req).hits.filter (fun h => h.b.id == b.id) =
      (gatherRows m { schema := s, ds := ds, b := b } t req).hits := by
  have hbb : b ∈ ds.backends := peers_mem_backends b hb
  have hsel : C04.selected req b = true := by
    rw [C04.peers_eq_filter ds t req ht, List.mem_filter] at hb
    exact hb.2
  have hsub : ∀ x ∈ ds.backends, C04.selected (withBackends req [b.id]) x = true → C04.selected req x = true := by
    intro x hx h
    have := selected_only req b.id x
    simp only [only] at this
    rw [this] at h
    have : x = b := eq_of_id_eq hid hx hbb (by simpa using h)
    rw [this]; exact hsel
  have h1 := smaller_header_rows m s ds t req [b.id] ht hs hl ho hsub
  have h2 := single_hits m s ds t req ht hid hl ho b hbb
  simp only [only] at h2
  rw [h2, hav, if_pos rfl, sortHits_nosort req hs] at h1
  rw [h1]
  apply List.filter_congr
  intro h _
  have := selected_only req b.id h.b
  simp only [only] at this
  rw [this]

/-- An id in `Backends:` that names no configured backend: the answer lists it in `failed`, once, with the
    text "bad request: backend <id> does not exist", and attributes no row to it; the known ids of the
    header are answered as usual (the model does not reject the request). -/
theorem unknown_backend_entry (m : EvalMode) (s : Schema) (ds : Dataset) (t : Table) (req : Request)
    (id : String) (hreq : id ∈ req.backends) (hunk : ∀ b ∈ ds.backends, b.id ≠ id) :
    (id, s!"bad request: backend {id} does not exist") ∈ (dataQuery m s ds t req).failed ∧
    ((dataQuery m s ds t req).failed.filter (fun p => p.1 == id)).length = 1 ∧
    ∀ h ∈ (dataQuery m s ds t req).hits, h.b.id ≠ id := by
  have hfe := C04.failed_exact ds t req
  have hmem : C04.unknownEntry id ∈ (selectBackends ds t req).failed :=
    (hfe.1 (C04.unknownEntry id)).mpr ⟨hreq, hunk, rfl⟩
  refine ⟨?_, ?_, ?_⟩
  · rw [C04.failed_down_exact]
    exact List.mem_append_left _ hmem
  · rw [C04.failed_down_exact, List.filter_append]
    have h2 : (((selectBackends ds t req).peers.filter (fun b => !backendAvailable b t)).map C04.downEntry).filter
        (fun p => p.1 == id) = [] := by
      rw [List.filter_eq_nil_iff]
      intro p hp
      simp only [List.mem_map, List.mem_filter] at hp
      obtain ⟨b, ⟨hb, _⟩, rfl⟩ := hp
      simpa [C04.downEntry] using hunk b (peers_mem_backends b hb)
    rw [h2, List.append_nil]
    have hn := hfe.2
    have hcount : ((selectBackends ds t req).failed.map (·.1)).count id = 1 := by
      rw [hn.count, if_pos]
      exact List.mem_map_of_mem (f := (·.1)) hmem
    rw [List.count_eq_length_filter, List.filter_map, List.length_map] at hcount
    exact hcount
  · intro h hh e
    obtain ⟨hav, _⟩ := collected_source m s ds t req h (mem_hits_collected m s ds t req h hh)
    exact hunk h.b (avail_subset ds t req h.b hav).2.1 e

/-- A non-empty header that names unknown ids only selects nothing: no rows, total 0 (it does not fall back
    to "all backends"). -/
theorem unknown_only_no_rows (m : EvalMode) (s : Schema) (ds : Dataset) (t : Table) (req : Request)
    (ht : C04.Ordinary t) (hne : req.backends ≠ [])
    (hunk : ∀ id ∈ req.backends, ∀ b ∈ ds.backends, b.id ≠ id) :
    (dataQuery m s ds t req).hits = [] ∧ (dataQuery m s ds t req).total = 0 := by
  have hav : availBackends ds t req = [] := by
    rw [avail_eq ds t req ht, List.filter_eq_nil_iff]
    intro b hb
    have he : req.backends.isEmpty = false := by cases hx : req.backends <;> simp_all
    simp only [C04.selected, he, Bool.false_or, Bool.and_eq_true, List.contains_iff_mem, not_and]
    intro hm
    exact absurd rfl (hunk b.id hm b hb)
  have htot : totalOf m s ds t req = 0 := by rw [totalOf_eq_sum, hav]; rfl
  constructor
  · apply List.eq_nil_iff_forall_not_mem.mpr
    intro h hh
    obtain ⟨hb, _⟩ := collected_source m s ds t req h (mem_hits_collected m s ds t req h hh)
    rw [hav] at hb
    cases hb
  · rw [dataQuery_total, htot]

/-! ## 4. the answer does not depend on backends that are not read -/

/-- Data requests: replace every configured backend `b` by `f b`, where `f` keeps ids, availability and
    error texts and leaves the selected available backends as they are (`Untouched`) - the tables, flags,
    names, addresses of all other backends (unselected ones, selected ones that are down) may change in
    any way, for any number of them at once.  The whole answer - rows with their attribution, order, total,
    `failed` - is unchanged, for every request and evaluation mode. -/
theorem unread_backends_irrelevant (m : EvalMode) (s : Schema) (ds : Dataset) (t : Table) (req : Request)
    (f : Backend → Backend) (ht : C04.Ordinary t) (hu : Untouched ds t req f) :
    dataQuery m s (mapStore ds f) t req = dataQuery m s ds t req :=
  dataQuery_mapStore m s ht hu

/-- The same for Stats requests: counters, groups, `failed` and the crash marker are unchanged. -/
theorem unread_backends_irrelevant_stats (m : StatsMode) (s : Schema) (ds : Dataset) (t : Table)
    (req : Request) (f : Backend → Backend) (ht : C04.Ordinary t) (hu : Untouched ds t req f) :
    statsQuery m s (mapStore ds f) t req = statsQuery m s ds t req :=
  statsQuery_mapStore m s ht hu

/-- Wiping the tables of every backend the request does not read is such a change. -/
theorem untouched_wipe (ds : Dataset) (t : Table) (req : Request) (ht : t.virt = .none) :
    Untouched ds t req
      (fun b => if C04.selected req b && backendAvailable b t then b else { b with tables := [], flags := 0 }) := by
  refine ⟨?_, ?_, ?_, ?_⟩
  · intro b _; split <;> rfl
  · intro b _
    split
    · rfl
    · simp [backendAvailable, ht]
  · intro b _; split <;> rfl
  · intro b _ h1 h2; simp [h1, h2]

/-! ## non-vacuity: backend "a" (hosts h1, h2), backend "b" (down), backend "c" (host h3) -/

section Examples
open Lmd.Demo

def backendC : Backend := { id := "c", name := "Site C", tables := [("hosts", [host "h3" ["alice"] []])] }
def ds3 : Dataset := { backends := [backendA, backendB, backendC], serviceAuthLoose := false }
def reqAll : Request := { table := "hosts" }

example : C04.Ordinary hostsT := by unfold C04.Ordinary; decide
example : (ds3.backends.map (·.id)).Nodup := by decide
example : reqAll.sort = [] ∧ reqAll.limit = none ∧ reqAll.offset = 0 := by decide
/-- the whole answer: h1, h2 from "a", h3 from "c"; "b" is reported -/
example :
    (dataQuery EvalMode.spec schema ds3 hostsT reqAll).hits.map (fun h => (h.b.id, h.r.str hostsT "name")) =
      [("a", "h1"), ("a", "h2"), ("c", "h3")] ∧
    (dataQuery EvalMode.spec schema ds3 hostsT reqAll).total = 3 ∧
    (dataQuery EvalMode.spec schema ds3 hostsT reqAll).failed = [("b", "peer is down: connection refused")] := by
  decide
/-- the single answers -/
example :
    (dataQuery EvalMode.spec schema ds3 hostsT (only reqAll "a")).hits.map (fun h => h.r.str hostsT "name") = ["h1", "h2"] ∧
    (dataQuery EvalMode.spec schema ds3 hostsT (only reqAll "b")).hits.length = 0 ∧
    (dataQuery EvalMode.spec schema ds3 hostsT (only reqAll "c")).hits.map (fun h => h.r.str hostsT "name") = ["h3"] := by
  decide
/-- `smaller_header_rows` / `remove_backend_rows`: the header `a, c` without `a` -/
example :
    let req : Request := { table := "hosts", backends := ["a", "c"] }
    req.backends.filter (· != "a") ≠ [] ∧
    (dataQuery EvalMode.spec schema ds3 hostsT (withBackends req (req.backends.filter (· != "a")))).hits.map
      (fun h => (h.b.id, h.r.str hostsT "name")) = [("c", "h3")] := by decide
/-- `unknown_backend_entry`: the known id is answered, the unknown one reported -/
example :
    let req : Request := { table := "hosts", backends := ["zzz", "c"] }
    (dataQuery EvalMode.spec schema ds3 hostsT req).hits.map (fun h => h.r.str hostsT "name") = ["h3"] ∧
    (dataQuery EvalMode.spec schema ds3 hostsT req).failed = [("zzz", "bad request: backend zzz does not exist")] := by
  decide
/-- the distinct-ids hypothesis of `answer_is_union` cannot be dropped: with "a" configured twice the whole
    answer has four rows, but each of the two `Backends: a` answers has all four as well -/
example :
    let dsDup : Dataset := { backends := [backendA, backendA], serviceAuthLoose := false }
    (dataQuery EvalMode.spec schema dsDup hostsT reqAll).hits.length = 4 ∧
    (dataQuery EvalMode.spec schema dsDup hostsT (only reqAll "a")).hits.length = 4 := by decide
/-- `untouched_wipe` applies to the hosts table -/
example : hostsT.virt = .none := rfl

end Examples

end Lmd.C04Union
