/-
  C02 (group member states) — the cross references of the virtual columns `members_with_state`
  (hostgroups, servicegroups), `services_with_state` and `services_with_info` (hosts) resolve to the
  right objects.

  `virtVal` mirrors `VirtualColMembersWithState` / `VirtualColServicesWithInfo` of
  pkg/lmd/datarow.go: every member (every service named in the host's `services` list) is looked up
  in the hosts / services table of the same backend; the LAST row with that name wins (Go's index
  map is filled in row order); a member that is not found leaves a null.
-/
import Lmd.Lemmas.MembersLemmas

namespace Lmd.C02Members
open Lean (Json JsonNumber)
open Lmd.SyncLemmas Lmd.MembersLemmas

/-! ## 0. a concrete backend for the non-vacuity examples -/

/-- hosts: text key `name`, `state`, `has_been_checked`, the list of service descriptions -/
def exHosts : Table :=
  { name := "hosts",
    cols := [{ name := "name", dtype := .str, storage := .loc },
             { name := "state", dtype := .int, storage := .loc },
             { name := "has_been_checked", dtype := .int, storage := .loc },
             { name := "services", dtype := .strList, storage := .loc },
             { name := "services_with_state", dtype := .ifaceList, storage := .virt },
             { name := "services_with_info", dtype := .ifaceList, storage := .virt }],
    primaryKey := ["name"] }

def exServices : Table :=
  { name := "services",
    cols := [{ name := "host_name", dtype := .str, storage := .loc },
             { name := "description", dtype := .str, storage := .loc },
             { name := "state", dtype := .int, storage := .loc },
             { name := "has_been_checked", dtype := .int, storage := .loc },
             { name := "plugin_output", dtype := .str, storage := .loc }],
    primaryKey := ["host_name", "description"] }

def exHostgroups : Table :=
  { name := "hostgroups",
    cols := [{ name := "name", dtype := .str, storage := .loc },
             { name := "members", dtype := .strList, storage := .loc },
             { name := "members_with_state", dtype := .ifaceList, storage := .virt }],
    primaryKey := ["name"] }

def exServicegroups : Table :=
  { name := "servicegroups",
    cols := [{ name := "name", dtype := .str, storage := .loc },
             { name := "members", dtype := .svcMemberList, storage := .loc },
             { name := "members_with_state", dtype := .ifaceList, storage := .virt }],
    primaryKey := ["name"] }

def exSchema : Schema := { tables := [exHosts, exServices, exHostgroups, exServicegroups] }

def exH1 : ReplyRow :=
  [("name", .str "h1"), ("state", .num ⟨0, 0⟩), ("has_been_checked", .num ⟨1, 0⟩),
   ("services", .arr #[.str "ping", .str "gone"])]
def exH2 : ReplyRow :=
  [("name", .str "h2"), ("state", .num ⟨1, 0⟩), ("has_been_checked", .num ⟨1, 0⟩), ("services", .arr #[])]

def exS1 : ReplyRow :=
  [("host_name", .str "h1"), ("description", .str "ping"), ("state", .num ⟨2, 0⟩),
   ("has_been_checked", .num ⟨1, 0⟩), ("plugin_output", .str "CRIT")]
def exS2 : ReplyRow :=
  [("host_name", .str "h2"), ("description", .str "ping"), ("state", .num ⟨0, 0⟩),
   ("has_been_checked", .num ⟨0, 0⟩), ("plugin_output", .str "OK")]

/-- one host group with the members h1, missing, h2 -/
def exGroup : Row := { cells := [("name", .s "all"), ("members", .sl ["h1", "missing", "h2"])] }

/-- one service group with the members (h2, ping), (h1, gone), (h1, ping) -/
def exSvcGroup : Row :=
  { cells := [("name", .s "pings"), ("members", .ml [("h2", "ping"), ("h1", "gone"), ("h1", "ping")])] }

/-- a backend with the two hosts and their two services, stored in key order -/
def exBackend : Backend :=
  { id := "a", name := "A",
    tables := [("hosts", [coerceRow exHosts exH1, coerceRow exHosts exH2]),
               ("services", [coerceRow exServices exS1, coerceRow exServices exS2]),
               ("hostgroups", [exGroup]), ("servicegroups", [exSvcGroup])] }

/-- another backend that also has a host called h1, in another state -/
def exOther : Backend :=
  { id := "b", name := "B",
    tables := [("hosts", [{ cells := [("name", .s "h1"), ("state", .i 2), ("has_been_checked", .i 1)] }])] }

def exCtx : Ctx := { schema := exSchema, ds := { backends := [exBackend, exOther] }, b := exBackend }

def exColMembers : Column := { name := "members_with_state", dtype := .ifaceList, storage := .virt }
def exColSvcState : Column := { name := "services_with_state", dtype := .ifaceList, storage := .virt }
def exColSvcInfo : Column := { name := "services_with_info", dtype := .ifaceList, storage := .virt }

/-! ## 1. host groups -/

/-- `members_with_state` of a host group is a list with one entry per member, in member order;
    entry `k` is `hostEntry` of member `k`: it is computed from the name of member `k` and the hosts
    of the backend alone, not from the other members. -/
theorem members_with_state_shape (cx : Ctx) (t : Table) (r : Row) (c : Column)
    (hc : c.name = "members_with_state") (ht : t.name = "hostgroups") :
    ∃ l, virtVal cx t r c = some (.jl l) ∧ l.length = (r.strList "members").length ∧
      ∀ (k : Nat) (n : String), (r.strList "members")[k]? = some n →
        l[k]? = some (hostEntry (cx.table "hosts") (cx.b.rows "hosts") n) :=
  ⟨_, virtVal_hostgroup_members cx t r c hc ht, (map_shape _ _).1, (map_shape _ _).2⟩

/-- `members_with_state` resolves member `k` (called `n`) to the right host: if the backend's hosts
    table has a row `h` called `n` and no later row is called `n`, entry `k` is
    `[n, h.state, h.has_been_checked]`; if no row is called `n`, entry `k` is null. -/
theorem members_with_state_faithful (cx : Ctx) (t : Table) (r : Row) (c : Column)
    (hc : c.name = "members_with_state") (ht : t.name = "hostgroups")
    (k : Nat) (n : String) (hk : (r.strList "members")[k]? = some n) :
    ∃ l, virtVal cx t r c = some (.jl l) ∧
      (∀ pre h post, cx.b.rows "hosts" = pre ++ h :: post → h.str (cx.table "hosts") "name" = n →
        (∀ x ∈ post, x.str (cx.table "hosts") "name" ≠ n) →
        l[k]? = some (Json.arr #[.str n, .num ⟨h.int "state", 0⟩, .num ⟨h.int "has_been_checked", 0⟩])) ∧
      ((∀ x ∈ cx.b.rows "hosts", x.str (cx.table "hosts") "name" ≠ n) → l[k]? = some Json.null) := by
  obtain ⟨l, hl, -, he⟩ := members_with_state_shape cx t r c hc ht
  refine ⟨l, hl, fun pre h post hrows hn hpost => ?_, fun hno => ?_⟩
  · rw [he k n hk, hrows, hostEntry_last _ pre post h n hn hpost]; rfl
  · rw [he k n hk, hostEntry_missing _ _ n hno]

/-- With unique host names (the state `syncTable` establishes, see
    `members_with_state_faithful_synced`) the host called `n` is the only candidate: entry `k` is
    `[n, h.state, h.has_been_checked]` for the host row `h` of that name, wherever it stands. -/
theorem members_with_state_faithful_unique (cx : Ctx) (t : Table) (r : Row) (c : Column)
    (hc : c.name = "members_with_state") (ht : t.name = "hostgroups")
    (k : Nat) (n : String) (hk : (r.strList "members")[k]? = some n)
    (hu : (cx.b.rows "hosts").Pairwise
      (fun a b => a.str (cx.table "hosts") "name" ≠ b.str (cx.table "hosts") "name"))
    (h : Row) (hm : h ∈ cx.b.rows "hosts") (hn : h.str (cx.table "hosts") "name" = n) :
    ∃ l, virtVal cx t r c = some (.jl l) ∧
      l[k]? = some (Json.arr #[.str n, .num ⟨h.int "state", 0⟩, .num ⟨h.int "has_been_checked", 0⟩]) := by
  obtain ⟨l, hl, -, he⟩ := members_with_state_shape cx t r c hc ht
  refine ⟨l, hl, ?_⟩
  rw [he k n hk, hostEntry_unique _ _ h n hu hm hn]; rfl

/-- After the initial fetch: if the backend's hosts are what `syncTable` stored for a reply with
    pairwise different keys (the hosts table being keyed by its text column `name`), then for the
    reply row called `n` entry `k` of `members_with_state` is `[n, state, has_been_checked]` of the
    stored (coerced) form of exactly that reply row. -/
theorem members_with_state_faithful_synced (cx : Ctx) (t : Table) (r : Row) (c : Column)
    (hc : c.name = "members_with_state") (ht : t.name = "hostgroups")
    (k : Nat) (n : String) (hk : (r.strList "members")[k]? = some n)
    (reply : List ReplyRow) (hrows : cx.b.rows "hosts" = syncTable (cx.table "hosts") reply)
    (nc : Column) (hpk : (cx.table "hosts").primaryKey = ["name"])
    (hcol : (cx.table "hosts").col? "name" = some nc) (hty : nc.dtype = .str)
    (hd : DistinctKeys (cx.table "hosts") reply)
    (row : ReplyRow) (hrow : row ∈ reply)
    (hn : (coerceRow (cx.table "hosts") row).str (cx.table "hosts") "name" = n) :
    ∃ l, virtVal cx t r c = some (.jl l) ∧
      l[k]? = some (Json.arr #[.str n, .num ⟨(coerceRow (cx.table "hosts") row).int "state", 0⟩,
        .num ⟨(coerceRow (cx.table "hosts") row).int "has_been_checked", 0⟩]) := by
  refine members_with_state_faithful_unique cx t r c hc ht k n hk ?_ _ ?_ hn
  · rw [hrows]; exact syncTable_unique_names _ reply nc hpk hcol hty hd
  · rw [hrows, (syncTable_perm_rows _ reply).mem_iff]; exact List.mem_map.mpr ⟨row, hrow, rfl⟩

/-- the hypotheses of `members_with_state_faithful` hold in the example backend: member 0 of the
    group is h1, the first (and only) hosts row of that name; member 1 is called "missing" and no
    hosts row has that name -/
example : (exGroup.strList "members")[0]? = some "h1" ∧
    exCtx.b.rows "hosts" = [] ++ coerceRow exHosts exH1 :: [coerceRow exHosts exH2] ∧
    (coerceRow exHosts exH1).str (exCtx.table "hosts") "name" = "h1" ∧
    (∀ x ∈ [coerceRow exHosts exH2], x.str (exCtx.table "hosts") "name" ≠ "h1") ∧
    (exGroup.strList "members")[1]? = some "missing" ∧
    (∀ x ∈ exCtx.b.rows "hosts", x.str (exCtx.table "hosts") "name" ≠ "missing") :=
  ⟨by decide, rfl, by decide, by decide, by decide, by decide⟩

/-- the hypotheses of `members_with_state_faithful_unique` and `members_with_state_faithful_synced`
    hold in the example backend (member 2 is h2, delivered first in the reply) -/
example : (exGroup.strList "members")[2]? = some "h2" ∧
    (exCtx.b.rows "hosts").Pairwise
      (fun a b => a.str (exCtx.table "hosts") "name" ≠ b.str (exCtx.table "hosts") "name") ∧
    (exCtx.table "hosts").primaryKey = ["name"] ∧
    (exCtx.table "hosts").col? "name" = some { name := "name", dtype := .str, storage := .loc } ∧
    DistinctKeys (exCtx.table "hosts") [exH2, exH1] ∧ exH2 ∈ [exH2, exH1] ∧
    (coerceRow (exCtx.table "hosts") exH2).str (exCtx.table "hosts") "name" = "h2" :=
  ⟨by decide, by decide, by decide, by decide, by unfold DistinctKeys; decide, by simp, by decide⟩

/-- Every entry of `members_with_state` of a host group is null or carries the state of a host row
    of the SAME backend (`cx.b`) with the member's name. -/
theorem members_with_state_from_same_backend (cx : Ctx) (t : Table) (r : Row) (c : Column)
    (hc : c.name = "members_with_state") (ht : t.name = "hostgroups")
    (k : Nat) (n : String) (hk : (r.strList "members")[k]? = some n) :
    ∃ l, virtVal cx t r c = some (.jl l) ∧
      (l[k]? = some Json.null ∨
       ∃ h ∈ cx.b.rows "hosts", h.str (cx.table "hosts") "name" = n ∧
         l[k]? = some (Json.arr #[.str n, .num ⟨h.int "state", 0⟩, .num ⟨h.int "has_been_checked", 0⟩])) := by
  obtain ⟨l, hl, -, he⟩ := members_with_state_shape cx t r c hc ht
  refine ⟨l, hl, ?_⟩
  rw [he k n hk]
  rcases hostEntry_cases (cx.table "hosts") (cx.b.rows "hosts") n with ⟨h0, -⟩ | ⟨h, hm, hn, hv⟩
  · exact Or.inl (by rw [h0])
  · exact Or.inr ⟨h, hm, hn, by rw [hv]; rfl⟩

/-! ## 2. service groups -/

/-- the members of a service group row are the stored `members` cell (a list of host name /
    description pairs); a row without such a cell has no members -/
theorem svcMembers_of_cell (r : Row) (ms : List (String × String))
    (h : r.cell? "members" = some (.ml ms)) : svcMembers r = ms := by
  simp [svcMembers, h]

/-- `members_with_state` of a service group is a list with one entry per member, in member order;
    entry `k` is `svcMemberEntry` of member `k`: it is computed from the (host name, description)
    pair of member `k` and the services of the backend alone. -/
theorem servicegroup_members_with_state_shape (cx : Ctx) (t : Table) (r : Row) (c : Column)
    (hc : c.name = "members_with_state") (ht : t.name = "servicegroups") :
    ∃ l, virtVal cx t r c = some (.jl l) ∧ l.length = (svcMembers r).length ∧
      ∀ (k : Nat) (m : String × String), (svcMembers r)[k]? = some m →
        l[k]? = some (svcMemberEntry (cx.table "services") (cx.b.rows "services") m) :=
  ⟨_, virtVal_servicegroup_members cx t r c hc ht, (map_shape _ _).1, (map_shape _ _).2⟩

/-- `members_with_state` resolves member `k` = `(hn, d)` of a service group to the right service:
    if the backend's services table has a row `x` with that host name and that description and no
    later row has both, entry `k` is `[hn, d, x.state, x.has_been_checked]`; if no row has both,
    entry `k` is null. -/
theorem servicegroup_members_with_state_faithful (cx : Ctx) (t : Table) (r : Row) (c : Column)
    (hc : c.name = "members_with_state") (ht : t.name = "servicegroups")
    (k : Nat) (hn d : String) (hk : (svcMembers r)[k]? = some (hn, d)) :
    ∃ l, virtVal cx t r c = some (.jl l) ∧
      (∀ pre x post, cx.b.rows "services" = pre ++ x :: post →
        (x.str (cx.table "services") "host_name" = hn ∧ x.str (cx.table "services") "description" = d) →
        (∀ y ∈ post, ¬ (y.str (cx.table "services") "host_name" = hn ∧
          y.str (cx.table "services") "description" = d)) →
        l[k]? = some (Json.arr #[.str hn, .str d, .num ⟨x.int "state", 0⟩,
          .num ⟨x.int "has_been_checked", 0⟩])) ∧
      ((∀ y ∈ cx.b.rows "services", ¬ (y.str (cx.table "services") "host_name" = hn ∧
          y.str (cx.table "services") "description" = d)) → l[k]? = some Json.null) := by
  obtain ⟨l, hl, -, he⟩ := servicegroup_members_with_state_shape cx t r c hc ht
  refine ⟨l, hl, fun pre x post hrows hx hpost => ?_, fun hno => ?_⟩
  · rw [he k _ hk, hrows, svcMemberEntry_last _ pre post x hn d hx hpost]; rfl
  · rw [he k _ hk, svcMemberEntry_missing _ _ hn d hno]

/-- With unique service keys the service `(hn, d)` is the only candidate: entry `k` is
    `[hn, d, x.state, x.has_been_checked]` for the service row `x` with that key, wherever it
    stands. -/
theorem servicegroup_members_with_state_faithful_unique (cx : Ctx) (t : Table) (r : Row) (c : Column)
    (hc : c.name = "members_with_state") (ht : t.name = "servicegroups")
    (k : Nat) (hn d : String) (hk : (svcMembers r)[k]? = some (hn, d))
    (hu : UniqueServices (cx.table "services") (cx.b.rows "services"))
    (x : Row) (hm : x ∈ cx.b.rows "services")
    (hx : x.str (cx.table "services") "host_name" = hn ∧ x.str (cx.table "services") "description" = d) :
    ∃ l, virtVal cx t r c = some (.jl l) ∧
      l[k]? = some (Json.arr #[.str hn, .str d, .num ⟨x.int "state", 0⟩,
        .num ⟨x.int "has_been_checked", 0⟩]) := by
  obtain ⟨l, hl, -, he⟩ := servicegroup_members_with_state_shape cx t r c hc ht
  refine ⟨l, hl, ?_⟩
  rw [he k _ hk, svcMemberEntry_unique _ _ x hn d hu hm hx]; rfl

/-- After the initial fetch the services of a backend have unique keys: if the services table is
    keyed by its text columns `host_name`, `description` and the reply has pairwise different keys,
    no two stored rows are the same service. -/
theorem services_unique_after_sync (st : Table) (reply : List ReplyRow) (c₁ c₂ : Column)
    (hpk : st.primaryKey = ["host_name", "description"])
    (hcol₁ : st.col? "host_name" = some c₁) (hty₁ : c₁.dtype = .str)
    (hcol₂ : st.col? "description" = some c₂) (hty₂ : c₂.dtype = .str)
    (hd : DistinctKeys st reply) :
    (syncTable st reply).Pairwise (fun a b => ¬ (a.str st "host_name" = b.str st "host_name" ∧
      a.str st "description" = b.str st "description")) :=
  syncTable_unique_services st reply c₁ c₂ hpk hcol₁ hty₁ hcol₂ hty₂ hd

/-- After the initial fetch the hosts of a backend have unique names: if the hosts table is keyed by
    its text column `name` and the reply has pairwise different keys, no two stored rows have the
    same name. -/
theorem hosts_unique_after_sync (ht : Table) (reply : List ReplyRow) (c : Column)
    (hpk : ht.primaryKey = ["name"]) (hcol : ht.col? "name" = some c) (hty : c.dtype = .str)
    (hd : DistinctKeys ht reply) :
    (syncTable ht reply).Pairwise (fun a b => a.str ht "name" ≠ b.str ht "name") :=
  syncTable_unique_names ht reply c hpk hcol hty hd

/-- Every entry of `members_with_state` of a service group is null or carries the state of a service
    row of the SAME backend with the member's host name and description. -/
theorem servicegroup_members_with_state_from_same_backend (cx : Ctx) (t : Table) (r : Row) (c : Column)
    (hc : c.name = "members_with_state") (ht : t.name = "servicegroups")
    (k : Nat) (hn d : String) (hk : (svcMembers r)[k]? = some (hn, d)) :
    ∃ l, virtVal cx t r c = some (.jl l) ∧
      (l[k]? = some Json.null ∨
       ∃ x ∈ cx.b.rows "services",
         (x.str (cx.table "services") "host_name" = hn ∧ x.str (cx.table "services") "description" = d) ∧
         l[k]? = some (Json.arr #[.str hn, .str d, .num ⟨x.int "state", 0⟩,
           .num ⟨x.int "has_been_checked", 0⟩])) := by
  obtain ⟨l, hl, -, he⟩ := servicegroup_members_with_state_shape cx t r c hc ht
  refine ⟨l, hl, ?_⟩
  rw [he k _ hk]
  rcases svcMemberEntry_cases (cx.table "services") (cx.b.rows "services") hn d with ⟨h0, -⟩ | ⟨x, hm, hx, hv⟩
  · exact Or.inl (by rw [h0])
  · exact Or.inr ⟨x, hm, hx, by rw [hv]; rfl⟩

/-- the hypotheses of the service group theorems hold in the example backend: member 2 is
    (h1, ping), the first services row; member 1 is (h1, gone), which no services row is; the
    service keys are unique -/
example : (svcMembers exSvcGroup)[2]? = some ("h1", "ping") ∧
    exCtx.b.rows "services" = [] ++ coerceRow exServices exS1 :: [coerceRow exServices exS2] ∧
    ((coerceRow exServices exS1).str (exCtx.table "services") "host_name" = "h1" ∧
      (coerceRow exServices exS1).str (exCtx.table "services") "description" = "ping") ∧
    (∀ y ∈ [coerceRow exServices exS2], ¬ (y.str (exCtx.table "services") "host_name" = "h1" ∧
      y.str (exCtx.table "services") "description" = "ping")) ∧
    (svcMembers exSvcGroup)[1]? = some ("h1", "gone") ∧
    (∀ y ∈ exCtx.b.rows "services", ¬ (y.str (exCtx.table "services") "host_name" = "h1" ∧
      y.str (exCtx.table "services") "description" = "gone")) ∧
    UniqueServices (exCtx.table "services") (exCtx.b.rows "services") :=
  ⟨by decide, rfl, by decide, by decide, by decide, by decide, by unfold UniqueServices; decide⟩

/-- the service group [(h2, ping), (h1, gone), (h1, ping)]: each found member carries the state of
    the service with that host AND that description, the unknown one leaves a null -/
example : virtVal exCtx exServicegroups exSvcGroup exColMembers =
    some (.jl [Json.arr #[.str "h2", .str "ping", .num ⟨0, 0⟩, .num ⟨0, 0⟩], Json.null,
               Json.arr #[.str "h1", .str "ping", .num ⟨2, 0⟩, .num ⟨1, 0⟩]]) := rfl

/-! ## 3. `services_with_state` / `services_with_info` of a host -/

/-- `services_with_state` of a host is a list with one entry per description in the host's
    `services` list, in list order; entry `k` is computed from the host's own name, description `k`
    and the services of the backend alone. -/
theorem services_with_state_shape (cx : Ctx) (t : Table) (r : Row) (c : Column)
    (hc : c.name = "services_with_state") (ht : t.name = "hosts") :
    ∃ l, virtVal cx t r c = some (.jl l) ∧ l.length = (r.strList "services").length ∧
      ∀ (k : Nat) (d : String), (r.strList "services")[k]? = some d →
        l[k]? = some (hostSvcEntry false (cx.table "services") (cx.b.rows "services") (r.str t "name") d) :=
  ⟨_, virtVal_services_with_state cx t r c hc ht, (map_shape _ _).1, (map_shape _ _).2⟩

/-- `services_with_info` of a host is a list with one entry per description in the host's
    `services` list, in list order; entry `k` is computed from the host's own name, description `k`
    and the services of the backend alone. -/
theorem services_with_info_shape (cx : Ctx) (t : Table) (r : Row) (c : Column)
    (hc : c.name = "services_with_info") (ht : t.name = "hosts") :
    ∃ l, virtVal cx t r c = some (.jl l) ∧ l.length = (r.strList "services").length ∧
      ∀ (k : Nat) (d : String), (r.strList "services")[k]? = some d →
        l[k]? = some (hostSvcEntry true (cx.table "services") (cx.b.rows "services") (r.str t "name") d) :=
  ⟨_, virtVal_services_with_info cx t r c hc ht, (map_shape _ _).1, (map_shape _ _).2⟩

/-- `services_with_state` resolves the `k`-th listed description `d` of the host called
    `r.str t "name"` to the right service: if the backend's services table has a row `x` with that
    host name and description `d` and no later row has both, entry `k` is
    `[d, x.state, x.has_been_checked]`; if no row has both, entry `k` is null. -/
theorem services_with_state_faithful (cx : Ctx) (t : Table) (r : Row) (c : Column)
    (hc : c.name = "services_with_state") (ht : t.name = "hosts")
    (k : Nat) (d : String) (hk : (r.strList "services")[k]? = some d) :
    ∃ l, virtVal cx t r c = some (.jl l) ∧
      (∀ pre x post, cx.b.rows "services" = pre ++ x :: post →
        (x.str (cx.table "services") "host_name" = r.str t "name" ∧
          x.str (cx.table "services") "description" = d) →
        (∀ y ∈ post, ¬ (y.str (cx.table "services") "host_name" = r.str t "name" ∧
          y.str (cx.table "services") "description" = d)) →
        l[k]? = some (Json.arr #[.str d, .num ⟨x.int "state", 0⟩, .num ⟨x.int "has_been_checked", 0⟩])) ∧
      ((∀ y ∈ cx.b.rows "services", ¬ (y.str (cx.table "services") "host_name" = r.str t "name" ∧
          y.str (cx.table "services") "description" = d)) → l[k]? = some Json.null) := by
  obtain ⟨l, hl, -, he⟩ := services_with_state_shape cx t r c hc ht
  refine ⟨l, hl, fun pre x post hrows hx hpost => ?_, fun hno => ?_⟩
  · rw [he k d hk, hrows, hostSvcEntry_last false _ pre post x _ d hx hpost]; rfl
  · rw [he k d hk, hostSvcEntry_missing false _ _ _ d hno]

/-- `services_with_info` resolves the `k`-th listed description `d` of the host to the right
    service: if the backend's services table has a row `x` with the host's name and description `d`
    and no later row has both, entry `k` is `[d, x.state, x.has_been_checked, x.plugin_output]`; if
    no row has both, entry `k` is null. -/
theorem services_with_info_faithful (cx : Ctx) (t : Table) (r : Row) (c : Column)
    (hc : c.name = "services_with_info") (ht : t.name = "hosts")
    (k : Nat) (d : String) (hk : (r.strList "services")[k]? = some d) :
    ∃ l, virtVal cx t r c = some (.jl l) ∧
      (∀ pre x post, cx.b.rows "services" = pre ++ x :: post →
        (x.str (cx.table "services") "host_name" = r.str t "name" ∧
          x.str (cx.table "services") "description" = d) →
        (∀ y ∈ post, ¬ (y.str (cx.table "services") "host_name" = r.str t "name" ∧
          y.str (cx.table "services") "description" = d)) →
        l[k]? = some (Json.arr #[.str d, .num ⟨x.int "state", 0⟩, .num ⟨x.int "has_been_checked", 0⟩,
          .str (x.str (cx.table "services") "plugin_output")])) ∧
      ((∀ y ∈ cx.b.rows "services", ¬ (y.str (cx.table "services") "host_name" = r.str t "name" ∧
          y.str (cx.table "services") "description" = d)) → l[k]? = some Json.null) := by
  obtain ⟨l, hl, -, he⟩ := services_with_info_shape cx t r c hc ht
  refine ⟨l, hl, fun pre x post hrows hx hpost => ?_, fun hno => ?_⟩
  · rw [he k d hk, hrows, hostSvcEntry_last true _ pre post x _ d hx hpost]; rfl
  · rw [he k d hk, hostSvcEntry_missing true _ _ _ d hno]

/-- With unique service keys: entry `k` of `services_with_state` is
    `[d, x.state, x.has_been_checked]` for the service row `x` of this host with description `d`,
    wherever it stands in the table. -/
theorem services_with_state_faithful_unique (cx : Ctx) (t : Table) (r : Row) (c : Column)
    (hc : c.name = "services_with_state") (ht : t.name = "hosts")
    (k : Nat) (d : String) (hk : (r.strList "services")[k]? = some d)
    (hu : UniqueServices (cx.table "services") (cx.b.rows "services"))
    (x : Row) (hm : x ∈ cx.b.rows "services")
    (hx : x.str (cx.table "services") "host_name" = r.str t "name" ∧
      x.str (cx.table "services") "description" = d) :
    ∃ l, virtVal cx t r c = some (.jl l) ∧
      l[k]? = some (Json.arr #[.str d, .num ⟨x.int "state", 0⟩, .num ⟨x.int "has_been_checked", 0⟩]) := by
  obtain ⟨l, hl, -, he⟩ := services_with_state_shape cx t r c hc ht
  refine ⟨l, hl, ?_⟩
  rw [he k d hk, hostSvcEntry_unique false _ _ x _ d hu hm hx]; rfl

/-- With unique service keys: entry `k` of `services_with_info` is
    `[d, x.state, x.has_been_checked, x.plugin_output]` for the service row `x` of this host with
    description `d`, wherever it stands in the table. -/
theorem services_with_info_faithful_unique (cx : Ctx) (t : Table) (r : Row) (c : Column)
    (hc : c.name = "services_with_info") (ht : t.name = "hosts")
    (k : Nat) (d : String) (hk : (r.strList "services")[k]? = some d)
    (hu : UniqueServices (cx.table "services") (cx.b.rows "services"))
    (x : Row) (hm : x ∈ cx.b.rows "services")
    (hx : x.str (cx.table "services") "host_name" = r.str t "name" ∧
      x.str (cx.table "services") "description" = d) :
    ∃ l, virtVal cx t r c = some (.jl l) ∧
      l[k]? = some (Json.arr #[.str d, .num ⟨x.int "state", 0⟩, .num ⟨x.int "has_been_checked", 0⟩,
        .str (x.str (cx.table "services") "plugin_output")]) := by
  obtain ⟨l, hl, -, he⟩ := services_with_info_shape cx t r c hc ht
  refine ⟨l, hl, ?_⟩
  rw [he k d hk, hostSvcEntry_unique true _ _ x _ d hu hm hx]; rfl

/-- Every entry of `services_with_state` / `services_with_info` of a host is null or built from a
    service row of the SAME backend that belongs to this host and has the listed description. -/
theorem services_with_state_from_same_backend (cx : Ctx) (t : Table) (r : Row) (c : Column)
    (hc : c.name = "services_with_state" ∨ c.name = "services_with_info") (ht : t.name = "hosts")
    (k : Nat) (d : String) (hk : (r.strList "services")[k]? = some d) :
    ∃ l, virtVal cx t r c = some (.jl l) ∧
      (l[k]? = some Json.null ∨
       ∃ x ∈ cx.b.rows "services",
         (x.str (cx.table "services") "host_name" = r.str t "name" ∧
           x.str (cx.table "services") "description" = d) ∧
         l[k]? = some (hostSvcArr (c.name == "services_with_info") (cx.table "services") d x)) := by
  have key : ∀ (info : Bool) (l : List Json),
      (∀ (k : Nat) (d : String), (r.strList "services")[k]? = some d →
        l[k]? = some (hostSvcEntry info (cx.table "services") (cx.b.rows "services") (r.str t "name") d)) →
      (l[k]? = some Json.null ∨
       ∃ x ∈ cx.b.rows "services",
         (x.str (cx.table "services") "host_name" = r.str t "name" ∧
           x.str (cx.table "services") "description" = d) ∧
         l[k]? = some (hostSvcArr info (cx.table "services") d x)) := by
    intro info l he
    rw [he k d hk]
    rcases hostSvcEntry_cases info (cx.table "services") (cx.b.rows "services") (r.str t "name") d with
      ⟨h0, -⟩ | ⟨x, hm, hx, hv⟩
    · exact Or.inl (by rw [h0])
    · exact Or.inr ⟨x, hm, hx, by rw [hv]⟩
  rcases hc with hc | hc
  · obtain ⟨l, hl, -, he⟩ := services_with_state_shape cx t r c hc ht
    refine ⟨l, hl, ?_⟩
    have : (c.name == "services_with_info") = false := by rw [hc]; decide
    rw [this]; exact key false l he
  · obtain ⟨l, hl, -, he⟩ := services_with_info_shape cx t r c hc ht
    refine ⟨l, hl, ?_⟩
    have : (c.name == "services_with_info") = true := by rw [hc]; decide
    rw [this]; exact key true l he

/-- the hypotheses of the host theorems hold for host h1 of the example backend: it lists the
    services ping (the first services row, of this host) and gone (no services row) -/
example : ((coerceRow exHosts exH1).strList "services")[0]? = some "ping" ∧
    (coerceRow exHosts exH1).str exHosts "name" = "h1" ∧
    ((coerceRow exHosts exH1).strList "services")[1]? = some "gone" ∧
    (∀ y ∈ exCtx.b.rows "services", ¬ (y.str (exCtx.table "services") "host_name" = "h1" ∧
      y.str (exCtx.table "services") "description" = "gone")) :=
  ⟨by decide, by decide, by decide, by decide⟩

/-- host h1 lists [ping, gone]: its own ping (critical), not the ping of h2; gone leaves a null -/
example : virtVal exCtx exHosts (coerceRow exHosts exH1) exColSvcState =
      some (.jl [Json.arr #[.str "ping", .num ⟨2, 0⟩, .num ⟨1, 0⟩], Json.null]) ∧
    virtVal exCtx exHosts (coerceRow exHosts exH1) exColSvcInfo =
      some (.jl [Json.arr #[.str "ping", .num ⟨2, 0⟩, .num ⟨1, 0⟩, .str "CRIT"], Json.null]) :=
  ⟨rfl, rfl⟩

/-! ## 4. only the rows of the same backend count -/

/-- The value of every modelled virtual column, in particular of `members_with_state`,
    `services_with_state` and `services_with_info`, depends only on the schema and on the backend
    the row belongs to (`cx.b`), not on the dataset `cx.ds` with the other backends: rows of
    different backends are never mixed up. -/
theorem member_state_independent_of_other_backends (cx cx' : Ctx) (t : Table) (r : Row) (c : Column)
    (hs : cx.schema = cx'.schema) (hb : cx.b = cx'.b) :
    virtVal cx t r c = virtVal cx' t r c := by
  simp only [virtVal, Ctx.table, hs, hb]

/-- two contexts over the same backend whose datasets differ (one also holds backend B, which has
    its own host h1 in state 2) -/
example : exCtx.schema = ({ exCtx with ds := { backends := [exBackend] } } : Ctx).schema ∧
    exCtx.b = ({ exCtx with ds := { backends := [exBackend] } } : Ctx).b ∧
    exCtx.ds.backends.length ≠ ({ exCtx with ds := { backends := [exBackend] } } : Ctx).ds.backends.length :=
  ⟨rfl, rfl, by decide⟩

/-- the same group row evaluated for backend B sees B's host h1 (state 2) and neither of A's hosts -/
example : virtVal { exCtx with b := exOther } exHostgroups exGroup exColMembers =
    some (.jl [Json.arr #[.str "h1", .num ⟨2, 0⟩, .num ⟨1, 0⟩], Json.null, Json.null]) := rfl

/-! ## 5. non-vacuity: the concrete backend -/

/-- the tables of the example backend are what `syncTable` stores for replies that deliver the
    rows out of key order, and these replies have pairwise different keys -/
example : syncTable exHosts [exH2, exH1] = exBackend.rows "hosts" ∧ DistinctKeys exHosts [exH2, exH1] ∧
    syncTable exServices [exS2, exS1] = exBackend.rows "services" ∧
    DistinctKeys exServices [exS2, exS1] := by
  have e : ∀ (t : Table) (r : List ReplyRow), t.primaryKey.isEmpty = false →
      syncTable t r = (r.map (coerceRow t)).mergeSort (keyLe t) := fun t r h => by simp [syncTable, h]
  refine ⟨?_, by unfold DistinctKeys; decide, ?_, by unfold DistinctKeys; decide⟩
  · rw [syncTable_perm_eq exHosts _ [exH1, exH2] (List.Perm.swap _ _ _) (by unfold DistinctKeys; decide), e _ _ (by decide),
      List.mergeSort_of_pairwise (by decide)]
    rfl
  · rw [syncTable_perm_eq exServices _ [exS1, exS2] (List.Perm.swap _ _ _) (by unfold DistinctKeys; decide), e _ _ (by decide),
      List.mergeSort_of_pairwise (by decide)]
    rfl

example : (exCtx.b.rows "hosts").map (·.str exHosts "name") = ["h1", "h2"] ∧
    (exCtx.b.rows "services").map (fun x => (x.str exServices "host_name", x.int "state")) =
      [("h1", 2), ("h2", 0)] := by decide

/-- the group [h1, missing, h2]: h1 is up and checked, the missing member leaves a null, h2 is down -/
example : virtVal exCtx exHostgroups exGroup exColMembers =
    some (.jl [Json.arr #[.str "h1", .num ⟨0, 0⟩, .num ⟨1, 0⟩], Json.null,
               Json.arr #[.str "h2", .num ⟨1, 0⟩, .num ⟨1, 0⟩]]) := rfl

end Lmd.C02Members
