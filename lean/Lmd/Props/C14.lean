/-
  C14 — concurrent queries and updates are safe and see whole objects.

  lmd achieves this by locking: a query takes the read locks of all tables it reads (`Request.affectedTables`,
  taken by `lockStores` in list order, the list is sorted by table id) and holds them until the response is
  serialised; an update applies the rows of one table under that table's write lock.

  Part A (namespace `Lmd.C14`, about the model `Lmd.Locks` of `affectedTables`), for all schemas, tables, requests:
   1  `reads_are_locked`, `reads_are_locked_id`, `reads_are_locked_of_schema`
        every table whose rows the evaluation reads is read-locked
   2  `locked_sorted`, `locked_nodup`      locks are taken in one global order, no table twice
   3  `locked_are_needed`                  nothing is locked beyond the rule
   4  `used_column_locked(_id)`, `filter_columns_locked(_id)`, `sort_columns_locked(_id)`,
      `stats_columns_locked(_id)`, `stats_agg_columns_locked(_id)`, `waitcondition_columns_locked(_id)`,
      `cross_virtual_locked(_id)`, `cross_virtual_ref_locked_id`, `filter_with_info_locked_id`
        the cases that were defective: tables read through filters, sorting, stats, wait conditions and the
        `*_with_info` / `*_with_state` columns

  Part B (about the protocol model `Lmd.LockProto`), for every execution from an initial state:
   5  `exclusion`, `exclusion_locks`       a write lock excludes readers and other writers
   6  `snapshot`, `snapshot_consistent`, `held_version_stable`, `ghost_faithful`, `writes_need_lock`
        all reads of one table by one query see the table as it was when the query locked it
   7  `no_deadlock`, `no_deadlock_canProgress`, `progress_terminates`, `deadlock_without_order`
        with ordered lock acquisition some process can always move forward, and after finitely many forward steps
        everything is finished; without the order a deadlock is reachable
-/
import Lmd.Lemmas.LockLemmas
import Lmd.Lemmas.LockProtoLemmas

namespace Lmd.C14
open Lmd Lmd.LockLemmas

export Lmd.LockLemmas (IdsInjective LeafIn)

/-! ## a concrete schema and request for the examples -/

def exHosts : Table :=
  { name := "hosts", tid := 1,
    cols := [{ name := "name", dtype := .str, storage := .loc }, { name := "state", dtype := .int, storage := .loc },
             { name := "comments_with_info", dtype := .json, storage := .virt }] }

def hostState : Column :=
  { name := "host_state", dtype := .int, storage := .ref, refTable := "hosts", refCol := "state" }

def hostComments : Column :=
  { name := "host_comments_with_info", dtype := .json, storage := .ref, refTable := "hosts",
    refCol := "comments_with_info" }

def exServices : Table :=
  { name := "services", tid := 2,
    cols := [{ name := "description", dtype := .str, storage := .loc }, hostState, hostComments],
    refs := [{ table := "hosts", cols := ["host_name"] }] }

def exComments : Table :=
  { name := "comments", tid := 0, cols := [{ name := "id", dtype := .int, storage := .loc }] }

def exDowntimes : Table :=
  { name := "downtimes", tid := 3, cols := [{ name := "id", dtype := .int, storage := .loc }] }

def exSchema : Schema := { tables := [exComments, exHosts, exServices, exDowntimes] }

/-- the term `host_state = 0` -/
def exLeaf : Leaf := { col := hostState, op := .eq, sval := "0" }

/-- `GET services / Columns: description / Filter: host_state = 0` -/
def exReq : Request := { table := "services", columns := ["description"], filter := [.leaf exLeaf false] }

/-- `GET services / Columns: description / Sort: host_state asc` -/
def exReqSort : Request :=
  { table := "services", columns := ["description"], sort := [{ name := "host_state", desc := false, col := some hostState }] }

/-- `GET services / Stats: host_state = 0 / Stats: sum host_state` -/
def exReqStats : Request :=
  { table := "services", stats := [.counter (.grp true [.leaf exLeaf false] false), .agg .sum hostState false] }

/-- `GET services / Columns: description / WaitCondition: host_state = 0` -/
def exReqWait : Request := { table := "services", columns := ["description"], waitCondition := [.leaf exLeaf false] }

/-- `GET services / Columns: description / Filter: host_comments_with_info != ""` -/
def exReqInfo : Request :=
  { table := "services", columns := ["description"],
    filter := [.leaf { col := hostComments, op := .ne, sval := "" } false] }

example : tablesRead exSchema exServices exReq = ["services", "hosts"] := by decide
example : affectedTables exSchema exServices exReq = ["hosts", "services"] := by decide
example : "hosts" ∈ affectedTables exSchema exServices exReq := by decide
example : affectedTables exSchema exServices exReqInfo = ["comments", "hosts", "services", "downtimes"] := by decide

/-! ## 1. every table that is read is locked -/

/-- `reads_are_locked`: every table whose rows the evaluation of a request reads (the table itself and the tables
    behind all columns used in the response, the filters, the stats, the wait condition and the sort keys) is
    among the tables `lockStores` read-locks - provided different table names read by the request have different
    table ids (`insertById` treats names with equal ids as one table; in lmd the id of a table is its position in
    the list of table names, see `reads_are_locked_of_schema`). -/
theorem reads_are_locked (s : Schema) (t : Table) (req : Request) (h : IdsInjective s (tablesRead s t req)) :
    ∀ x ∈ tablesRead s t req, x ∈ affectedTables s t req := by
  intro x hx
  rw [affectedTables_eq, lockFold_append]
  refine subset_lockFold _ (lockFold_exact _ [] ?_ hx)
  rw [List.nil_append]
  exact h

example : IdsInjective exSchema (tablesRead exSchema exServices exReq) := by
  unfold IdsInjective
  decide

/-- the hypothesis is needed: when two tables share one id, only the first name is put into the list -/
example : ∃ s : Schema, ∃ x ∈ tablesRead s exServices exReq, x ∉ affectedTables s exServices exReq :=
  ⟨{ tables := [{ exHosts with tid := 2 }, exServices] }, "hosts", by decide, by decide⟩

/-- `reads_are_locked_id`: without any assumption, for every table that is read some locked table has the same
    table id - that is, the same lock is held. -/
theorem reads_are_locked_id (s : Schema) (t : Table) (req : Request) :
    ∀ x ∈ tablesRead s t req, ∃ y ∈ affectedTables s t req, tableId s y = tableId s x := by
  intro x hx
  rw [affectedTables_eq, lockFold_append]
  obtain ⟨y, hy, hid⟩ := lockFold_has_id (s := s) _ [] hx
  exact ⟨y, subset_lockFold _ hy, hid⟩

example : ∃ x, x ∈ tablesRead exSchema exServices exReq := ⟨"hosts", by decide⟩

/-- `reads_are_locked_of_schema`: in a schema whose tables have pairwise different ids, a request that only reads
    tables of the schema has all of them locked. -/
theorem reads_are_locked_of_schema (s : Schema) (t : Table) (req : Request)
    (hs : ∀ t1 ∈ s.tables, ∀ t2 ∈ s.tables, t1.tid = t2.tid → t1.name = t2.name)
    (hn : ∀ n ∈ tablesRead s t req, (s.table? n).isSome = true) :
    ∀ x ∈ tablesRead s t req, x ∈ affectedTables s t req :=
  reads_are_locked s t req (idsInjective_of_schema hs hn)

example : (∀ t1 ∈ exSchema.tables, ∀ t2 ∈ exSchema.tables, t1.tid = t2.tid → t1.name = t2.name) ∧
    ∀ n ∈ tablesRead exSchema exServices exReq, (exSchema.table? n).isSome = true := by decide

/-! ## 2. one global lock order -/

/-- `locked_sorted`: the table ids of the locked tables are strictly increasing in the order in which the locks
    are taken: every request takes its locks in the same global order, and no lock twice. -/
theorem locked_sorted (s : Schema) (t : Table) (req : Request) :
    ((affectedTables s t req).map (tableId s)).Pairwise (· < ·) := by
  rw [List.pairwise_map, affectedTables_eq]
  exact lockFold_sorted (s := s) _ (acc := []) List.Pairwise.nil

example : (affectedTables exSchema exServices exReqInfo).map (tableId exSchema) = [0, 1, 2, 3] := by decide
example : (affectedTables exSchema exServices exReq).map (tableId exSchema) = [1, 2] := by decide

/-- `locked_nodup`: no table name occurs twice in the list of locked tables. -/
theorem locked_nodup (s : Schema) (t : Table) (req : Request) : (affectedTables s t req).Nodup := by
  have h := locked_sorted s t req
  rw [List.pairwise_map] at h
  exact h.imp (fun {a b} hab e => by rw [e] at hab; exact Nat.lt_irrefl _ hab)

/-! ## 3. nothing else is locked -/

/-- `locked_are_needed`: a locked table is the table of the request, a table read by one of the used columns, or -
    when the request carries an `AuthUser` - a table the request's table refers to. -/
theorem locked_are_needed (s : Schema) (t : Table) (req : Request) :
    ∀ x ∈ affectedTables s t req,
      x = t.name ∨ (∃ c ∈ usedColumns t req, x ∈ columnTables s c) ∨
      (req.authUser ≠ "" ∧ ∃ r ∈ t.refs, r.table = x) := by
  intro x hx
  rw [affectedTables_eq] at hx
  rcases mem_lockFold _ hx with h | h
  · cases h
  · rcases List.mem_append.1 h with h | h
    · unfold tablesRead at h
      rcases List.mem_cons.1 h with h | h
      · exact Or.inl h
      · obtain ⟨c, hc, hxc⟩ := List.mem_flatMap.1 h
        exact Or.inr (Or.inl ⟨c, hc, hxc⟩)
    · unfold authTables at h
      split at h
      · rename_i ha
        obtain ⟨r, hr, hrx⟩ := List.mem_map.1 h
        exact Or.inr (Or.inr ⟨by simpa using ha, r, hr, hrx⟩)
      · cases h

example : "hosts" ∈ affectedTables exSchema exServices { exReq with filter := [], authUser := "u" } ∧
    "hosts" ∉ affectedTables exSchema exServices { exReq with filter := [] } := by decide

/-! ## 4. the cases that were defective -/

/-- `used_column_locked`: every table that a used column reads is locked (table ids injective on the tables read). -/
theorem used_column_locked (s : Schema) (t : Table) (req : Request) (h : IdsInjective s (tablesRead s t req))
    {c : Column} (hc : c ∈ usedColumns t req) {x : String} (hx : x ∈ columnTables s c) :
    x ∈ affectedTables s t req :=
  reads_are_locked s t req h x (tablesRead_of_used hc hx)

/-- `used_column_locked_id`: for every table that a used column reads, a table with the same id (the same lock) is
    locked. -/
theorem used_column_locked_id (s : Schema) (t : Table) (req : Request)
    {c : Column} (hc : c ∈ usedColumns t req) {x : String} (hx : x ∈ columnTables s c) :
    ∃ y ∈ affectedTables s t req, tableId s y = tableId s x :=
  reads_are_locked_id s t req x (tablesRead_of_used hc hx)

/-- a term anywhere in a filter of the request is a used column -/
theorem filter_leaf_used (t : Table) (req : Request) {f : Filter} (hf : f ∈ req.filter) {l : Leaf} (hl : LeafIn l f) :
    l.col ∈ usedColumns t req := used_of_filter (leafIn_filtersColumns hf hl)

/-- a term anywhere in a `Stats:` counter of the request is a used column -/
theorem stats_leaf_used (t : Table) (req : Request) {f : Filter} (hf : StatsEntry.counter f ∈ req.stats) {l : Leaf}
    (hl : LeafIn l f) : l.col ∈ usedColumns t req := used_of_stats (statsColumns_counter hf (leafIn_filterColumns hl))

/-- a term anywhere in the wait condition of the request is a used column -/
theorem wait_leaf_used (t : Table) (req : Request) {f : Filter} (hf : f ∈ req.waitCondition) {l : Leaf}
    (hl : LeafIn l f) : l.col ∈ usedColumns t req := used_of_wait (leafIn_filtersColumns hf hl)

/-- `filter_columns_locked`: a filter term anywhere in the request's filters on a reference column (such as
    `host_state` of a service) has the referenced table locked. -/
theorem filter_columns_locked (s : Schema) (t : Table) (req : Request) (h : IdsInjective s (tablesRead s t req))
    {f : Filter} (hf : f ∈ req.filter) {l : Leaf} (hl : LeafIn l f) (hr : l.col.storage = .ref) :
    l.col.refTable ∈ affectedTables s t req :=
  used_column_locked s t req h (filter_leaf_used t req hf hl) (refTable_mem_columnTables s hr)

/-- the same without the assumption on table ids: the lock of the referenced table is held -/
theorem filter_columns_locked_id (s : Schema) (t : Table) (req : Request)
    {f : Filter} (hf : f ∈ req.filter) {l : Leaf} (hl : LeafIn l f) (hr : l.col.storage = .ref) :
    ∃ y ∈ affectedTables s t req, tableId s y = tableId s l.col.refTable :=
  used_column_locked_id s t req (filter_leaf_used t req hf hl) (refTable_mem_columnTables s hr)

example : Filter.leaf exLeaf false ∈ exReq.filter ∧ exLeaf.col.storage = .ref ∧ exLeaf.col.refTable = "hosts" :=
  ⟨List.mem_cons_self, by decide, by decide⟩
example : LeafIn exLeaf (.leaf exLeaf false) := .here false
example : LeafIn exLeaf (.grp true [.leaf exLeaf false] false) := .inGrp List.mem_cons_self (.here false)

/-- `sort_columns_locked`: a sort key that is a reference column has the referenced table locked. -/
theorem sort_columns_locked (s : Schema) (t : Table) (req : Request) (h : IdsInjective s (tablesRead s t req))
    {sf : SortField} (hs : sf ∈ req.sort) {c : Column} (hc : sf.col = some c) (hr : c.storage = .ref) :
    c.refTable ∈ affectedTables s t req :=
  used_column_locked s t req h (used_of_sort hs hc) (refTable_mem_columnTables s hr)

/-- the same without the assumption on table ids -/
theorem sort_columns_locked_id (s : Schema) (t : Table) (req : Request)
    {sf : SortField} (hs : sf ∈ req.sort) {c : Column} (hc : sf.col = some c) (hr : c.storage = .ref) :
    ∃ y ∈ affectedTables s t req, tableId s y = tableId s c.refTable :=
  used_column_locked_id s t req (used_of_sort hs hc) (refTable_mem_columnTables s hr)

example : affectedTables exSchema exServices exReqSort = ["hosts", "services"] ∧
    IdsInjective exSchema (tablesRead exSchema exServices exReqSort) := by
  unfold IdsInjective
  decide

/-- `stats_columns_locked`: a term anywhere in a `Stats:` counter on a reference column has the referenced table
    locked. -/
theorem stats_columns_locked (s : Schema) (t : Table) (req : Request) (h : IdsInjective s (tablesRead s t req))
    {f : Filter} (hf : StatsEntry.counter f ∈ req.stats) {l : Leaf} (hl : LeafIn l f) (hr : l.col.storage = .ref) :
    l.col.refTable ∈ affectedTables s t req :=
  used_column_locked s t req h (stats_leaf_used t req hf hl) (refTable_mem_columnTables s hr)

/-- the same without the assumption on table ids -/
theorem stats_columns_locked_id (s : Schema) (t : Table) (req : Request)
    {f : Filter} (hf : StatsEntry.counter f ∈ req.stats) {l : Leaf} (hl : LeafIn l f) (hr : l.col.storage = .ref) :
    ∃ y ∈ affectedTables s t req, tableId s y = tableId s l.col.refTable :=
  used_column_locked_id s t req (stats_leaf_used t req hf hl) (refTable_mem_columnTables s hr)

/-- `stats_agg_columns_locked`: an aggregation (`Stats: sum host_state`) over a reference column has the referenced
    table locked. -/
theorem stats_agg_columns_locked (s : Schema) (t : Table) (req : Request) (h : IdsInjective s (tablesRead s t req))
    {k : AggKind} {c : Column} {n : Bool} (hf : StatsEntry.agg k c n ∈ req.stats) (hr : c.storage = .ref) :
    c.refTable ∈ affectedTables s t req :=
  used_column_locked s t req h (used_of_stats (statsColumns_agg hf)) (refTable_mem_columnTables s hr)

/-- the same without the assumption on table ids -/
theorem stats_agg_columns_locked_id (s : Schema) (t : Table) (req : Request)
    {k : AggKind} {c : Column} {n : Bool} (hf : StatsEntry.agg k c n ∈ req.stats) (hr : c.storage = .ref) :
    ∃ y ∈ affectedTables s t req, tableId s y = tableId s c.refTable :=
  used_column_locked_id s t req (used_of_stats (statsColumns_agg hf)) (refTable_mem_columnTables s hr)

example : affectedTables exSchema exServices exReqStats = ["hosts", "services"] ∧
    IdsInjective exSchema (tablesRead exSchema exServices exReqStats) := by
  unfold IdsInjective
  decide

/-- `waitcondition_columns_locked`: a term anywhere in the wait condition on a reference column has the referenced
    table locked. -/
theorem waitcondition_columns_locked (s : Schema) (t : Table) (req : Request)
    (h : IdsInjective s (tablesRead s t req))
    {f : Filter} (hf : f ∈ req.waitCondition) {l : Leaf} (hl : LeafIn l f) (hr : l.col.storage = .ref) :
    l.col.refTable ∈ affectedTables s t req :=
  used_column_locked s t req h (wait_leaf_used t req hf hl) (refTable_mem_columnTables s hr)

/-- the same without the assumption on table ids -/
theorem waitcondition_columns_locked_id (s : Schema) (t : Table) (req : Request)
    {f : Filter} (hf : f ∈ req.waitCondition) {l : Leaf} (hl : LeafIn l f) (hr : l.col.storage = .ref) :
    ∃ y ∈ affectedTables s t req, tableId s y = tableId s l.col.refTable :=
  used_column_locked_id s t req (wait_leaf_used t req hf hl) (refTable_mem_columnTables s hr)

example : affectedTables exSchema exServices exReqWait = ["hosts", "services"] ∧
    IdsInjective exSchema (tablesRead exSchema exServices exReqWait) := by
  unfold IdsInjective
  decide

/-- `cross_virtual_locked`: a `*_with_info` / `*_with_state` column used anywhere in the request (response columns,
    filters, stats, wait condition, sort keys) locks hosts, services, comments and downtimes. -/
theorem cross_virtual_locked (s : Schema) (t : Table) (req : Request) (h : IdsInjective s (tablesRead s t req))
    {c : Column} (hc : c ∈ usedColumns t req) (hv : isCrossVirtual c = true) :
    "hosts" ∈ affectedTables s t req ∧ "services" ∈ affectedTables s t req ∧
    "comments" ∈ affectedTables s t req ∧ "downtimes" ∈ affectedTables s t req := by
  refine ⟨?_, ?_, ?_, ?_⟩ <;>
    exact used_column_locked s t req h hc (cross_mem_columnTables s hv (by decide))

/-- the same without the assumption on table ids: the four locks are held -/
theorem cross_virtual_locked_id (s : Schema) (t : Table) (req : Request)
    {c : Column} (hc : c ∈ usedColumns t req) (hv : isCrossVirtual c = true) :
    ∀ x ∈ crossTables, ∃ y ∈ affectedTables s t req, tableId s y = tableId s x :=
  fun _ hx => used_column_locked_id s t req hc (cross_mem_columnTables s hv hx)

example : isCrossVirtual { name := "comments_with_info", dtype := .json, storage := .virt } = true := by decide

/-- `cross_virtual_ref_locked_id`: a reference column whose target is a `*_with_info` / `*_with_state` column (such
    as `host_comments_with_info` of a service) used anywhere in the request holds the locks of hosts, services,
    comments and downtimes. -/
theorem cross_virtual_ref_locked_id (s : Schema) (t : Table) (req : Request)
    {c rc : Column} (hc : c ∈ usedColumns t req) (hr : c.storage = .ref)
    (hrc : (s.table? c.refTable).bind (·.col? c.refCol) = some rc) (hv : isCrossVirtual rc = true) :
    ∀ x ∈ crossTables, ∃ y ∈ affectedTables s t req, tableId s y = tableId s x :=
  fun _ hx => used_column_locked_id s t req hc (cross_mem_columnTables_ref s hr hrc hv hx)

example : hostComments ∈ usedColumns exServices exReqInfo ∧ hostComments.storage = .ref ∧
    ((exSchema.table? hostComments.refTable).bind (·.col? hostComments.refCol)).any isCrossVirtual = true := by
  decide

/-- `filter_with_info_locked_id`: a filter term anywhere in the request's filters on a `*_with_info` /
    `*_with_state` column holds the locks of hosts, services, comments and downtimes. -/
theorem filter_with_info_locked_id (s : Schema) (t : Table) (req : Request)
    {f : Filter} (hf : f ∈ req.filter) {l : Leaf} (hl : LeafIn l f) (hv : isCrossVirtual l.col = true) :
    ∀ x ∈ crossTables, ∃ y ∈ affectedTables s t req, tableId s y = tableId s x :=
  cross_virtual_locked_id s t req (filter_leaf_used t req hf hl) hv

/-! ## Part B: the protocol -/

open Lmd.LockProto

/-- two queries (locks 1,2 and lock 2) and an update of table 2 (step number 7) -/
def exProcs : List Proc :=
  [.reader { want := [1, 2] }, .reader { want := [2] }, .writer { lock := 2, stepNo := 7 }]

/-- a complete run: both queries lock, the update announces itself and has to wait for the second query, the first
    query has to wait for the update, everybody finishes -/
def exRun : List Action :=
  [.rAcquire 0, .rAcquire 1, .wAnnounce 2, .rRead 1 2, .rRelease 1, .wAcquire 2, .wWrite 2, .wRelease 2,
   .rAcquire 0, .rRead 0 1, .rRead 0 2, .rRead 0 2, .rRelease 0]

example : Initial (initState exProcs) := initial_initState _ _ (by decide)
example : SortedWants (initState exProcs) := sortedWants_of_B (by decide)

/-- non-vacuity: the run is an execution, and it ends with everything finished -/
example : ∃ s, Reach (initState exProcs) s ∧ allFinished s = true := by
  have h : ((exec (initState exProcs) exRun).any allFinished) = true := by decide
  obtain ⟨s, hs, hf⟩ := (Option.any_eq_true _ _).1 h
  exact ⟨s, reach_exec exRun Reach.refl hs, hf⟩

/-- in that run the first query cannot take lock 2 while the update waits for it -/
example : ((exec (initState exProcs) (exRun.take 3)).any (fun s => enabled s (.rAcquire 0))) = false := by decide

/-- what the first query saw: table 2 after the update (twice the same), table 1 untouched -/
example : ((exec (initState exProcs) exRun).bind (·.procs[0]?)).any
    (fun | .reader r => r.seen == [(2, 7), (2, 7), (1, 0)] | _ => false) = true := by decide

/-! ## 5. exclusion -/

/-- `exclusion`: in every reachable state, if a writer process holds lock `k` (it has taken the lock and not yet
    released it) then no reader process holds `k`, no other writer process holds `k`, and the lock itself records
    exactly this writer and no readers. -/
theorem exclusion {s0 s : State} (h0 : Initial s0) (hr : Reach s0 s) {p : Nat} {w : Writer}
    (hp : s.procs[p]? = some (.writer w)) (hh : w.phase = .holding ∨ w.phase = .written) :
    (∀ (q : Nat) (r : Reader), s.procs[q]? = some (.reader r) → w.lock ∉ r.held) ∧
    (∀ (q : Nat) (w' : Writer), s.procs[q]? = some (.writer w') → w'.lock = w.lock →
        (w'.phase = .holding ∨ w'.phase = .written) → q = p) ∧
    s.writer w.lock = some p ∧ s.readers w.lock = [] := by
  have hi := inv_reach h0 hr
  have h1 : s.writer w.lock = some p := (hi.writer_iff p w.lock).2 ⟨w, hp, rfl, hh⟩
  have h2 : s.readers w.lock = [] := hi.excl p w.lock h1
  refine ⟨?_, ?_, h1, h2⟩
  · intro q r hq hm
    have : q ∈ s.readers w.lock := (hi.readers_iff q w.lock).2 ⟨r, hq, hm⟩
    rw [h2] at this
    cases this
  · intro q w' hq hl hh'
    have : s.writer w.lock = some q := (hi.writer_iff q w.lock).2 ⟨w', hq, hl, hh'⟩
    rw [h1] at this
    exact (Option.some.inj this).symm

/-- `exclusion_locks`: the same on the level of the locks - a lock with a writer has no readers; and whoever is
    recorded at a lock is a process that believes to hold it. -/
theorem exclusion_locks {s0 s : State} (h0 : Initial s0) (hr : Reach s0 s) (k : Nat) :
    (∀ p, s.writer k = some p → s.readers k = []) ∧
    (∀ p, p ∈ s.readers k ↔ ∃ r, s.procs[p]? = some (.reader r) ∧ k ∈ r.held) ∧
    (∀ p, s.writer k = some p ↔
      ∃ w, s.procs[p]? = some (.writer w) ∧ w.lock = k ∧ (w.phase = .holding ∨ w.phase = .written)) := by
  have hi := inv_reach h0 hr
  exact ⟨fun p => hi.excl p k, fun p => hi.readers_iff p k, fun p => hi.writer_iff p k⟩

/-- non-vacuity: after `wAcquire` in the run above the writer holds lock 2 -/
example : ((exec (initState exProcs) (exRun.take 6)).any
    (fun s => s.writer 2 == some 2 && (s.readers 2).isEmpty && s.readers 1 == [0])) = true := by decide

/-! ## 6. snapshot -/

/-- `snapshot`: every version a query recorded for lock `k` is the version `k` had at the moment the query took
    the lock (the ghost entry in `atAcquire`), and that entry is unique.  So all values a query reads from one
    table come from the one state of the table at lock time; and since a table only changes in the single write
    step of an update that holds the write lock (`writes_need_lock`), that state lies between complete update
    batches: no object with columns from two update steps. -/
theorem snapshot {s0 s : State} (h0 : Initial s0) (hr : Reach s0 s) {p : Nat} {r : Reader}
    (hp : s.procs[p]? = some (.reader r)) {k v : Nat} (hs : (k, v) ∈ r.seen) :
    (k, v) ∈ r.atAcquire ∧ ∀ v', (k, v') ∈ r.atAcquire → v' = v := by
  have hi := inv_reach h0 hr
  have h1 := hi.seen_sub p r hp (k, v) hs
  exact ⟨h1, fun v' hv' => hi.acq_fun p r hp (k, v') hv' (k, v) h1 rfl⟩

/-- `snapshot_consistent`: two reads of the same table by one query return the same version. -/
theorem snapshot_consistent {s0 s : State} (h0 : Initial s0) (hr : Reach s0 s) {p : Nat} {r : Reader}
    (hp : s.procs[p]? = some (.reader r)) {k v v' : Nat} (hs : (k, v) ∈ r.seen) (hs' : (k, v') ∈ r.seen) :
    v = v' :=
  ((snapshot h0 hr hp hs').2 v (snapshot h0 hr hp hs).1)

/-- `held_version_stable`: while a query holds lock `k`, the table still has the version it had when the lock was
    taken. -/
theorem held_version_stable {s0 s : State} (h0 : Initial s0) (hr : Reach s0 s) {p : Nat} {r : Reader}
    (hp : s.procs[p]? = some (.reader r)) {k : Nat} (hk : k ∈ r.held) : (k, s.version k) ∈ r.atAcquire := by
  have hi := inv_reach h0 hr
  obtain ⟨v, hv⟩ := hi.held_acq p r hp k hk
  have := hi.acq_cur p r hp (k, v) hv hk
  simp only at this
  rw [this]
  exact hv

/-- `ghost_faithful`: the ghost field means what it says - `atAcquire` of a query changes only in the step in which
    the query takes a lock, and then the lock and the version of the table at that moment are recorded. -/
theorem ghost_faithful {s s' : State} {a : Action} (h : act s a = some s') {p : Nat} {r r' : Reader}
    (hp : s.procs[p]? = some (.reader r)) (hp' : s'.procs[p]? = some (.reader r')) :
    r'.atAcquire = r.atAcquire ∨
    (a = .rAcquire p ∧ ∃ k, r'.atAcquire = (k, s.version k) :: r.atAcquire ∧ r'.held = k :: r.held ∧
      r.want = k :: r'.want) := by
  cases a with
  | rAcquire q =>
    obtain ⟨r0, k, rest, hr0, hw, _, _, rfl⟩ := act_rAcquire h
    simp only [getElem?_set_of_some _ hr0] at hp'
    by_cases e : p = q
    · subst e
      rw [if_pos rfl] at hp'
      rw [hp] at hr0
      cases hr0
      cases hp'
      exact Or.inr ⟨rfl, k, rfl, rfl, hw⟩
    · rw [if_neg e, hp] at hp'
      cases hp'
      exact Or.inl rfl
  | rRead q k =>
    obtain ⟨r0, hr0, _, rfl⟩ := act_rRead h
    simp only [getElem?_set_of_some _ hr0] at hp'
    by_cases e : p = q
    · subst e
      rw [if_pos rfl] at hp'
      rw [hp] at hr0
      cases hr0
      cases hp'
      exact Or.inl rfl
    · rw [if_neg e, hp] at hp'
      cases hp'
      exact Or.inl rfl
  | rRelease q =>
    obtain ⟨r0, hr0, _, _, rfl⟩ := act_rRelease h
    simp only [getElem?_set_of_some _ hr0] at hp'
    by_cases e : p = q
    · subst e
      rw [if_pos rfl] at hp'
      rw [hp] at hr0
      cases hr0
      cases hp'
      exact Or.inl rfl
    · rw [if_neg e, hp] at hp'
      cases hp'
      exact Or.inl rfl
  | wAnnounce q =>
    obtain ⟨w, hw, _, rfl⟩ := act_wAnnounce h
    simp only [getElem?_set_of_some _ hw] at hp'
    by_cases e : p = q
    · subst e
      rw [hp] at hw
      cases hw
    · rw [if_neg e, hp] at hp'
      cases hp'
      exact Or.inl rfl
  | wAcquire q =>
    obtain ⟨w, hw, _, _, _, rfl⟩ := act_wAcquire h
    simp only [getElem?_set_of_some _ hw] at hp'
    by_cases e : p = q
    · subst e
      rw [hp] at hw
      cases hw
    · rw [if_neg e, hp] at hp'
      cases hp'
      exact Or.inl rfl
  | wWrite q =>
    obtain ⟨w, hw, _, rfl⟩ := act_wWrite h
    simp only [getElem?_set_of_some _ hw] at hp'
    by_cases e : p = q
    · subst e
      rw [hp] at hw
      cases hw
    · rw [if_neg e, hp] at hp'
      cases hp'
      exact Or.inl rfl
  | wRelease q =>
    obtain ⟨w, hw, _, rfl⟩ := act_wRelease h
    simp only [getElem?_set_of_some _ hw] at hp'
    by_cases e : p = q
    · subst e
      rw [hp] at hw
      cases hw
    · rw [if_neg e, hp] at hp'
      cases hp'
      exact Or.inl rfl

/-- `writes_need_lock`: the content of a table changes only in the write step of an update process that holds the
    table's write lock, and it changes to that update's step number as a whole. -/
theorem writes_need_lock {s0 s s' : State} (h0 : Initial s0) (hr : Reach s0 s) {a : Action} (h : act s a = some s')
    {k : Nat} (hv : s'.version k ≠ s.version k) :
    ∃ p w, a = .wWrite p ∧ s.procs[p]? = some (.writer w) ∧ w.lock = k ∧ w.phase = .holding ∧
      s.writer k = some p ∧ s.readers k = [] ∧ s'.version k = w.stepNo := by
  cases a with
  | rAcquire q => obtain ⟨_, _, _, _, _, _, _, rfl⟩ := act_rAcquire h; exact absurd rfl hv
  | rRead q k => obtain ⟨_, _, _, rfl⟩ := act_rRead h; exact absurd rfl hv
  | rRelease q => obtain ⟨_, _, _, _, rfl⟩ := act_rRelease h; exact absurd rfl hv
  | wAnnounce q => obtain ⟨_, _, _, rfl⟩ := act_wAnnounce h; exact absurd rfl hv
  | wAcquire q => obtain ⟨_, _, _, _, _, rfl⟩ := act_wAcquire h; exact absurd rfl hv
  | wRelease q => obtain ⟨_, _, _, rfl⟩ := act_wRelease h; exact absurd rfl hv
  | wWrite q =>
    obtain ⟨w, hw, hph, rfl⟩ := act_wWrite h
    simp only at hv
    by_cases e : k = w.lock
    · have hx := exclusion h0 hr hw (Or.inl hph)
      refine ⟨q, w, rfl, hw, e.symm, hph, ?_, ?_, ?_⟩
      · rw [e]; exact hx.2.2.1
      · rw [e]; exact hx.2.2.2
      · simp only [e, if_true]
    · rw [if_neg e] at hv
      exact absurd rfl hv

/-- non-vacuity of `snapshot`: in the run above the first query has recorded versions -/
example : ((exec (initState exProcs) exRun).bind (·.procs[0]?)).any
    (fun | .reader r => r.atAcquire == [(2, 7), (1, 0)] && (2, 7) ∈ r.seen | _ => false) = true := by decide

/-! ## 7. no deadlock -/

/-- `no_deadlock`: if every query takes its locks in strictly increasing order (`locked_sorted`), then in every
    reachable state in which some process has not finished, some process can do a step that moves it forward - an
    action other than a read: take or release a lock, announce an update, write.  (Reads are excluded because a
    query that holds a lock can always read; they are not progress.)  The model has writer preference as
    `sync.RWMutex` has it, in the strongest form - a query cannot take a lock an update is waiting for - which is
    the semantics under which the lock order matters (`deadlock_without_order`); under the simple semantics
    without writer preference strictly fewer actions are blocked. -/
theorem no_deadlock {s0 s : State} (h0 : Initial s0) (hs : SortedWants s0) (hr : Reach s0 s)
    (hun : ∃ (p : Nat) (x : Proc), s.procs[p]? = some x ∧ x.finished = false) : ∃ s', ProgressStep s s' :=
  progress (inv_reach h0 hr) (ordered_reach h0 hs hr) hun

/-- `no_deadlock_canProgress`: the same with the executable tests - not all finished, so some action other than a
    read is enabled. -/
theorem no_deadlock_canProgress {s0 s : State} (h0 : Initial s0) (hs : SortedWants s0) (hr : Reach s0 s)
    (hun : allFinished s = false) : canProgress s = true := by
  obtain ⟨s', hs'⟩ := no_deadlock h0 hs hr (exists_unfinished_of_not_allFinished hun)
  exact canProgress_of_progressStep hs'

/-- non-vacuity: after three steps of the run above nobody has finished and such a step is enabled -/
example : ((exec (initState exProcs) (exRun.take 3)).any (fun s => !allFinished s && canProgress s)) = true := by
  decide

/-- `progress_terminates`: in every execution from an initial state, the number of actions other than reads plus
    the work that remains is the work there was at the start; and no work remains exactly when every process has
    finished.  Together with `no_deadlock`: as long as something is unfinished a forward step is enabled, and after
    `work s0` forward steps everything is finished - every query gets its answer, every update is applied. -/
theorem progress_terminates {s0 s : State} (h0 : Initial s0) (as : List Action) (he : exec s0 as = some s) :
    (as.filter Action.isProgress).length + work s = work s0 ∧ (work s = 0 ↔ allFinished s = true) :=
  ⟨exec_work as (inv_init h0) he, work_eq_zero_iff s⟩

/-- non-vacuity: the run above has 9 actions other than reads, the work at the start is 9 -/
example : work (initState exProcs) = 9 ∧ (exRun.filter Action.isProgress).length = 9 ∧
    ((exec (initState exProcs) exRun).any (fun s => work s == 0)) = true := by decide

/-- two queries that take locks 1 and 2 in opposite orders, and an update for each of the two tables -/
def exBadProcs : List Proc :=
  [.reader { want := [1, 2] }, .reader { want := [2, 1] }, .writer { lock := 1, stepNo := 1 },
   .writer { lock := 2, stepNo := 2 }]

/-- `deadlock_without_order`: the order is needed.  With two queries locking tables 1 and 2 in opposite orders and
    one pending update per table, a state is reachable in which nobody has finished and no forward step is enabled:
    each query waits behind the update of its second table, each update waits for the other query. -/
theorem deadlock_without_order :
    Initial (initState exBadProcs) ∧
    ∃ s, Reach (initState exBadProcs) s ∧ allFinished s = false ∧ ¬ ∃ s', ProgressStep s s' := by
  refine ⟨initial_initState _ _ (by decide), ?_⟩
  have h : ((exec (initState exBadProcs) [.rAcquire 0, .rAcquire 1, .wAnnounce 2, .wAnnounce 3]).any
      (fun s => !allFinished s && !canProgress s)) = true := by decide
  obtain ⟨s, hs, hf⟩ := (Option.any_eq_true _ _).1 h
  simp only [Bool.and_eq_true, Bool.not_eq_true'] at hf
  exact ⟨s, reach_exec _ Reach.refl hs, hf.1, fun ⟨s', hs'⟩ => by
    rw [canProgress_of_progressStep hs'] at hf
    exact Bool.noConfusion hf.2⟩

example : ¬ SortedWants (initState exBadProcs) := fun h => by
  have := h (.reader { want := [2, 1] }) (List.mem_cons_of_mem _ List.mem_cons_self) _ rfl
  revert this
  decide

end Lmd.C14
