/-
  C14 — concurrent queries and updates are safe and see whole objects.  (theorems: see below)
-/
import Lmd.Locks

namespace Lmd.C14

end Lmd.C14
