/-
  C06 — Sort, Limit, Offset and total_count describe one consistent window.

  The Go code sorts with an unstable sort whose `Less` answers true on ties, so everything about
  the order of rows is stated up to ties, on the sequence of key tuples.  Helper lemmas live in
  `Lmd.Lemmas.Sort`.
-/
import Lmd.Props.C01
import Lmd.Lemmas.Sort

namespace Lmd.C06
open Lmd.Sort

/-! ## 1. one key -/

/-- Comparing a sort key with itself gives "equal" (numbers, strings and custom variables). -/
theorem cmpKeyAsc_refl (a : SortKey) : cmpKeyAsc a a = .eq := cmpKeyAsc_self a

/-- Exchanging the two keys exchanges the outcome of lmd's key comparison (less ↔ greater). -/
theorem cmpKeyAsc_swap (a b : SortKey) : cmpKeyAsc b a = (cmpKeyAsc a b).swap :=
  Lmd.Sort.cmpKeyAsc_swap a b

/-- On keys built with the same constructor, "not greater" is transitive: lmd's ascending key
    order is a total preorder per column type. -/
theorem cmpKeyAsc_trans (a b c : SortKey) (hab : tag a = tag b) (hbc : tag b = tag c)
    (h₁ : cmpKeyAsc a b ≠ .gt) (h₂ : cmpKeyAsc b c ≠ .gt) : cmpKeyAsc a c ≠ .gt :=
  cmpKeyAsc_le_trans a b c hab hbc h₁ h₂

/-- The custom-variable rule: a row without the variable (value "") sorts after every row that
    has it, in ascending order. -/
theorem cmpKeyAsc_cv_empty_last (a : String) (ha : a ≠ "") :
    cmpKeyAsc (.cv a) (.cv "") = .lt ∧ cmpKeyAsc (.cv "") (.cv a) = .gt := by
  have h : ("" : String) ≠ a := fun h => ha h.symm
  simp [cmpKeyAsc, ha, h]

/-- Without `tag` agreement transitivity really fails (a number, a string, a smaller number),
    which is why the theorems below carry the `Compatible` hypothesis. -/
example : cmpKeyAsc (.num 1) (.str "") ≠ .gt ∧ cmpKeyAsc (.str "") (.num 0) ≠ .gt ∧
    cmpKeyAsc (.num 1) (.num 0) = .gt := by decide

example : tag (.cv "b") = tag (.cv "") ∧ cmpKeyAsc (.cv "b") (.cv "") ≠ .gt := by decide

/-! ## 2. key tuples and `Hit.le` -/

/-- two key tuples have the same length and the same constructor at every position; this holds for
    all hits of one request (`collected_compatible`) -/
def Compatible (a b : List SortKey) : Prop := a.map tag = b.map tag

/-- Exchanging two key tuples exchanges the outcome of the lexicographic comparison, whatever the
    directions: the comparison never calls both `a before b` and `b before a`. -/
theorem cmpKeys_swap (dirs : List Bool) (a b : List SortKey) :
    cmpKeys dirs b a = (cmpKeys dirs a b).swap := Lmd.Sort.cmpKeys_swap dirs a b

/-- On compatible key tuples "not greater" is transitive for every choice of directions. -/
theorem cmpKeys_trans (dirs : List Bool) (a b c : List SortKey)
    (hab : Compatible a b) (hbc : Compatible b c)
    (h₁ : cmpKeys dirs a b ≠ .gt) (h₂ : cmpKeys dirs b c ≠ .gt) : cmpKeys dirs a c ≠ .gt :=
  cmpKeys_le_trans dirs a b c hab hbc h₁ h₂

example : Compatible [.str "a", .num 2] [.str "b", .num 1] ∧
    cmpKeys [true, false] [.str "b", .num 1] [.str "a", .num 2] ≠ .gt ∧
    cmpKeys [true, false] [.str "a", .num 2] [.str "a", .num 2] ≠ .gt := ⟨rfl, by decide, by decide⟩

/-- The row order of lmd is total: of two hits, one may always stand before the other. -/
theorem hitLe_total (dirs : List Bool) (a b : Hit) :
    Hit.le dirs a b = true ∨ Hit.le dirs b a = true := by
  rw [hitLe_iff, hitLe_iff, Lmd.Sort.cmpKeys_swap dirs a.keys b.keys]
  cases cmpKeys dirs a.keys b.keys <;> simp

/-- The row order of lmd is transitive on hits with compatible key tuples. -/
theorem hitLe_trans (dirs : List Bool) (a b c : Hit)
    (hab : Compatible a.keys b.keys) (hbc : Compatible b.keys c.keys)
    (h₁ : Hit.le dirs a b = true) (h₂ : Hit.le dirs b c = true) : Hit.le dirs a c = true := by
  rw [hitLe_iff] at h₁ h₂ ⊢
  exact cmpKeys_le_trans dirs _ _ _ hab hbc h₁ h₂

/-- All hits collected for one request have compatible key tuples, because the keys are built by
    the same `sortKeyOf` over the same sort fields. -/
theorem collected_compatible (m : EvalMode) (s : Schema) (ds : Dataset) (t : Table) (req : Request)
    (a b : Hit) (ha : a ∈ collected m s ds t req) (hb : b ∈ collected m s ds t req) :
    Compatible a.keys b.keys :=
  (hasSig_collected m s ds t req a ha).trans (hasSig_collected m s ds t req b hb).symm

/-! ## 3. the sorted pool -/

/-- the key tuples of two hits compare equal under the requested directions -/
def KeyEq (dirs : List Bool) (a b : Hit) : Prop := cmpKeys dirs a.keys b.keys = .eq

/-- Sorting hits that were all built from the same sort fields (same key signature `sig`) with
    lmd's row order yields a permutation of the hits in which every earlier row may stand before
    every later row. -/
theorem sorted_pool (dirs : List Bool) (sig : List Nat) (hits : List Hit)
    (hsig : ∀ h ∈ hits, HasSig sig h) :
    (hits.mergeSort (Hit.le dirs)).Perm hits ∧
      (hits.mergeSort (Hit.le dirs)).Pairwise (fun a b => Hit.le dirs a b = true) :=
  ⟨List.mergeSort_perm _ _, ordered_mergeSort_on (hitLe_totalPreorderOn dirs sig) hits hsig⟩

/-- three hits, two of them tied, two keys, the first descending -/
def exHits : List Hit :=
  [ { (default : Hit) with keys := [.str "a", .num 2] },
    { (default : Hit) with keys := [.str "b", .num 1] },
    { (default : Hit) with keys := [.str "a", .num 2] } ]

example : ∀ h ∈ exHits, HasSig [1, 0] h := by decide

example : (exHits.mergeSort (Hit.le [true, false])).map (·.keys) =
    [[.str "b", .num 1], [.str "a", .num 2], [.str "a", .num 2]] := by
  have h₁ : compare "a" "b" = Ordering.lt := by decide
  have h₂ : compare "b" "a" = Ordering.gt := by decide
  simp [exHits, List.mergeSort, List.MergeSort.Internal.splitInTwo, Hit.le, cmpKeys, cmpKeyAsc,
    h₁, h₂]

/-- For every request whose offset does not exceed the total, the pool `dataQuery` builds is the
    collected hits sorted by the requested order: a permutation of the collected hits that is
    pairwise ordered (also when the request has no sort fields, where every order is accepted). -/
theorem pool_sorted (m : EvalMode) (s : Schema) (ds : Dataset) (t : Table) (req : Request)
    (h : req.offset ≤ (dataQuery m s ds t req).total) :
    (dataQuery m s ds t req).pool.Perm (collected m s ds t req) ∧
      (dataQuery m s ds t req).pool.Pairwise (fun a b => Hit.le (dirsOf req) a b = true) := by
  rw [dataQuery_total] at h
  rw [dataQuery_pool m s ds t req h]
  exact sorted_pool _ (sigOf req) _ (hasSig_collected m s ds t req)

/-! ## 4. the sorted order is unique up to ties -/

/-- Any two lists that are permutations of each other and both ordered by a comparison that is a
    total preorder on their elements agree position by position up to ties: whatever (unstable)
    sort is used, the sequence of equivalence classes is the same. -/
theorem sorted_keys_unique {α : Type} {P : α → Prop} {le : α → α → Bool}
    (hle : TotalPreorderOn P le) (l₁ l₂ : List α) (hperm : l₁.Perm l₂) (hP : ∀ a ∈ l₁, P a)
    (h₁ : l₁.Pairwise (fun a b => le a b = true)) (h₂ : l₂.Pairwise (fun a b => le a b = true)) :
    PosRel (Tie P le) l₁ l₂ :=
  ordered_perm_posRel hle hperm hP h₁ h₂

/-- For lmd's hits: two orderings of the same hits that both respect the requested sort order have
    the same length and, at every position, key tuples that compare equal.  So the result of the
    Go code's unstable sort is determined up to rows with equal keys. -/
theorem sorted_hits_unique (dirs : List Bool) (sig : List Nat) (l₁ l₂ : List Hit)
    (hperm : l₁.Perm l₂) (hsig : ∀ h ∈ l₁, HasSig sig h)
    (h₁ : l₁.Pairwise (fun a b => Hit.le dirs a b = true))
    (h₂ : l₂.Pairwise (fun a b => Hit.le dirs a b = true)) :
    PosRel (KeyEq dirs) l₁ l₂ := by
  have := ordered_perm_posRel (hitLe_totalPreorderOn dirs sig) hperm hsig h₁ h₂
  exact ⟨this.1, fun i a b => ((tie_iff_cmpKeys_eq dirs sig _ _).mp (this.2 i a b)).2.2⟩

example : ∃ l₁ l₂ : List Hit, l₁.Perm l₂ ∧ (∀ h ∈ l₁, HasSig [1, 0] h) ∧
    l₁.Pairwise (fun a b => Hit.le [true, false] a b = true) ∧
    l₂.Pairwise (fun a b => Hit.le [true, false] a b = true) ∧ l₁.length = 3 :=
  ⟨[exHits[1], exHits[0], exHits[2]], [exHits[1], exHits[2], exHits[0]],
    (List.Perm.swap _ _ _).cons _ |>.symm, by decide, by decide, by decide, rfl⟩

/-! ## 5. the window -/

/-- When the offset does not exceed the total, the returned rows are exactly the sorted pool with
    `offset` rows dropped and then (if a limit is given) `limit` rows kept, and the pool is the
    collected hits sorted with the requested order. -/
theorem window_spec (m : EvalMode) (s : Schema) (ds : Dataset) (t : Table) (req : Request)
    (h : req.offset ≤ (dataQuery m s ds t req).total) :
    (dataQuery m s ds t req).pool = (collected m s ds t req).mergeSort (Hit.le (dirsOf req)) ∧
    (dataQuery m s ds t req).hits =
      match req.limit with
      | some l => ((dataQuery m s ds t req).pool.drop req.offset).take l
      | none => (dataQuery m s ds t req).pool.drop req.offset := by
  rw [dataQuery_total] at h
  exact ⟨dataQuery_pool m s ds t req h, dataQuery_hits m s ds t req h⟩

example (m : EvalMode) (s : Schema) (ds : Dataset) (t : Table) :
    ({ limit := some 2 } : Request).offset ≤ (dataQuery m s ds t { limit := some 2 }).total :=
  Nat.zero_le _

/-- The returned rows always form a sublist of the sorted pool (they keep its order and never
    repeat a pool position). -/
theorem window_sublist (m : EvalMode) (s : Schema) (ds : Dataset) (t : Table) (req : Request) :
    (dataQuery m s ds t req).hits.Sublist (dataQuery m s ds t req).pool := by
  by_cases h : req.offset ≤ totalOf m s ds t req
  · rw [dataQuery_hits m s ds t req h, window]
    cases req.limit with
    | none => exact List.drop_sublist _ _
    | some l => exact (List.take_sublist _ _).trans (List.drop_sublist _ _)
  · rw [(dataQuery_beyond m s ds t req (Nat.lt_of_not_le h)).1]
    exact List.nil_sublist _

/-- `Limit: 0` returns no rows. -/
theorem window_limit_zero (m : EvalMode) (s : Schema) (ds : Dataset) (t : Table) (req : Request)
    (hl : req.limit = some 0) : (dataQuery m s ds t req).hits = [] := by
  by_cases h : req.offset ≤ totalOf m s ds t req
  · rw [dataQuery_hits m s ds t req h, window, hl]
    exact List.take_zero
  · exact (dataQuery_beyond m s ds t req (Nat.lt_of_not_le h)).1

/-- An offset beyond the total returns no rows. -/
theorem window_offset_beyond (m : EvalMode) (s : Schema) (ds : Dataset) (t : Table) (req : Request)
    (h : req.offset > (dataQuery m s ds t req).total) : (dataQuery m s ds t req).hits = [] := by
  rw [dataQuery_total] at h
  exact (dataQuery_beyond m s ds t req h).1

/-- Every returned row is one of the rows collected from the backends. -/
theorem window_mem (m : EvalMode) (s : Schema) (ds : Dataset) (t : Table) (req : Request)
    (x : Hit) (hx : x ∈ (dataQuery m s ds t req).hits) : x ∈ collected m s ds t req := by
  by_cases h : req.offset ≤ totalOf m s ds t req
  · have hp := (window_sublist m s ds t req).subset hx
    rw [dataQuery_pool m s ds t req h] at hp
    exact List.mem_mergeSort.mp hp
  · rw [(dataQuery_beyond m s ds t req (Nat.lt_of_not_le h)).1] at hx
    cases hx

/-- No row is returned twice if no row was collected twice. -/
theorem window_nodup (m : EvalMode) (s : Schema) (ds : Dataset) (t : Table) (req : Request)
    (hnd : (collected m s ds t req).Nodup) : (dataQuery m s ds t req).hits.Nodup := by
  by_cases h : req.offset ≤ totalOf m s ds t req
  · refine List.Nodup.sublist (window_sublist m s ds t req) ?_
    rw [dataQuery_pool m s ds t req h]
    exact (List.mergeSort_perm _ _).nodup_iff.mpr hnd
  · rw [(dataQuery_beyond m s ds t req (Nat.lt_of_not_le h)).1]
    exact List.nodup_nil

/-- The number of returned rows is `min limit (pool size − offset)`. -/
theorem window_length (m : EvalMode) (s : Schema) (ds : Dataset) (t : Table) (req : Request)
    (h : req.offset ≤ (dataQuery m s ds t req).total) :
    (dataQuery m s ds t req).hits.length =
      match req.limit with
      | some l => min l ((collected m s ds t req).length - req.offset)
      | none => (collected m s ds t req).length - req.offset := by
  rw [dataQuery_total] at h
  rw [dataQuery_hits m s ds t req h, dataQuery_pool m s ds t req h, window]
  cases req.limit <;> simp

/-! ## 6. total_count -/

/-- When no per-backend cut is applied (the specification mode), or the output format is
    wrapped_json, `total_count` is the number of rows that pass filter and authorisation, summed
    over the selected available backends. -/
theorem total_count_spec (m : EvalMode) (s : Schema) (ds : Dataset) (t : Table) (req : Request)
    (h : m.earlyCut = false ∨ req.outFmt = .wrapped) :
    (dataQuery m s ds t req).total =
      ((availBackends ds t req).map fun b =>
        (matchingRows m { schema := s, ds := ds, b := b } t req.filter req.authUser).length).sum := by
  rw [dataQuery_total, totalOf, peerResults, ← List.sum_eq_foldl_nat, List.map_map]
  congr 1
  apply List.map_congr_left
  intro b _
  exact gatherRows_total m _ t req h

/-- `total_count` does not depend on Limit, Offset, Sort (or anything but table data, filter,
    authorised user and backend selection) under the same condition. -/
theorem total_count_indep (m : EvalMode) (s : Schema) (ds : Dataset) (t : Table) (req req' : Request)
    (h : m.earlyCut = false ∨ (req.outFmt = .wrapped ∧ req'.outFmt = .wrapped))
    (hf : req'.filter = req.filter) (hu : req'.authUser = req.authUser)
    (hb : req'.backends = req.backends) :
    (dataQuery m s ds t req').total = (dataQuery m s ds t req).total := by
  have e : availBackends ds t req' = availBackends ds t req := by
    simp [availBackends, selectBackends, hb]
  rw [total_count_spec m s ds t req (h.imp id And.left),
    total_count_spec m s ds t req' (h.imp id And.right), e, hf, hu]

example : EvalMode.spec.earlyCut = false := rfl

/-! ## 7. soundness of the per-backend early cut, on plain lists -/

/-- Binary top-k: the first `k` elements of the merge of two lists are already determined by the
    first `j ≥ k` and `l ≥ k` elements of the inputs (equality of lists; holds for every
    comparison, in particular for lmd's row order). -/
theorem topk_merge {α : Type} (le : α → α → Bool) (xs ys : List α) (k j l : Nat)
    (hj : k ≤ j) (hl : k ≤ l) :
    (List.merge xs ys le).take k = (List.merge (xs.take j) (ys.take l) le).take k :=
  take_merge_take le k xs ys j l hj hl

/-- n-way top-k with equality of lists, for the n-way merge obtained by folding `List.merge`. -/
theorem topk_mergeAll {α : Type} (le : α → α → Bool) (k : Nat) (As : List (List α)) :
    (mergeAll le As).take k = (mergeAll le (As.map (List.take k))).take k :=
  take_mergeAll_take le k As

/-- n-way top-k as `dataQuery` computes it: if every backend's list is ordered by a total preorder,
    the first `k` elements of the sorted concatenation agree, position by position up to ties,
    with the first `k` elements of the sorted concatenation of the lists cut to `k` elements. -/
theorem topk_sorted_concat {α : Type} {P : α → Prop} {le : α → α → Bool}
    (hle : TotalPreorderOn P le) (As : List (List α)) (hP : ∀ A ∈ As, ∀ a ∈ A, P a)
    (ho : ∀ A ∈ As, A.Pairwise (fun a b => le a b = true)) (k : Nat) :
    PosRel (Tie P le) ((As.flatten.mergeSort le).take k)
      (((As.map (List.take k)).flatten.mergeSort le).take k) :=
  take_mergeSort_flatten_take hle As hP ho k

/-- The same for lmd's hits: cutting every backend's (already ordered) hit list to `k` rows does
    not change the key sequence of the first `k` rows of the sorted result. -/
theorem topk_hits (dirs : List Bool) (sig : List Nat) (As : List (List Hit))
    (hsig : ∀ A ∈ As, ∀ a ∈ A, HasSig sig a)
    (ho : ∀ A ∈ As, A.Pairwise (fun a b => Hit.le dirs a b = true)) (k : Nat) :
    PosRel (KeyEq dirs) ((As.flatten.mergeSort (Hit.le dirs)).take k)
      (((As.map (List.take k)).flatten.mergeSort (Hit.le dirs)).take k) := by
  have := take_mergeSort_flatten_take (hitLe_totalPreorderOn dirs sig) As hsig ho k
  exact ⟨this.1, fun i a b => ((tie_iff_cmpKeys_eq dirs sig _ _).mp (this.2 i a b)).2.2⟩

example : ∃ As : List (List Hit), As.length = 2 ∧ (∀ A ∈ As, ∀ a ∈ A, HasSig [1, 0] a) ∧
    (∀ A ∈ As, A.Pairwise (fun a b => Hit.le [true, false] a b = true)) ∧
    (∀ A ∈ As, A.length = 2) :=
  ⟨[[exHits[1], exHits[0]], [exHits[1], exHits[2]]], rfl, by decide, by decide, by decide⟩

/-- The ordering hypothesis is needed: a backend list that is not in the requested order loses its
    smallest row to the cut. -/
example : ∃ As : List (List Hit),
    ¬ PosRel (KeyEq [false]) ((As.flatten.mergeSort (Hit.le [false])).take 1)
      (((As.map (List.take 1)).flatten.mergeSort (Hit.le [false])).take 1) := by
  refine ⟨[[{ (default : Hit) with keys := [.num 2] }, { (default : Hit) with keys := [.num 1] }]],
    fun h => ?_⟩
  have := h.2 0 (by simp) (by simp)
  have hc : compare (2 : Int) 1 = Ordering.gt := by decide
  simp [KeyEq, List.mergeSort, List.MergeSort.Internal.splitInTwo, Hit.le, cmpKeys, cmpKeyAsc,
    hc] at this

/-! ## 8. the early cut inside `dataQuery` -/

/-- Soundness of the per-backend early cut in `dataQuery` itself: if every available backend
    delivers its matching rows already in the requested order (the situation in which lmd applies
    the cut: the request order is the table's default order), then the rows returned with the cut
    and the rows returned without it have the same length and, position by position, key tuples
    that compare equal.  This also covers requests without sort fields, `Limit: 0`, and offsets
    beyond the (possibly smaller) total reported with the cut. -/
theorem earlyCut_sound (m : EvalMode) (s : Schema) (ds : Dataset) (t : Table) (req : Request)
    (hord : ∀ A ∈ backendHits m s ds t req,
      A.Pairwise (fun a b => Hit.le (dirsOf req) a b = true)) :
    PosRel (KeyEq (dirsOf req))
      (dataQuery m s ds t req).hits (dataQuery (noCut m) s ds t req).hits := by
  have := dataQuery_cut_posRel m s ds t req hord
  exact ⟨this.1, fun i a b => ((tie_iff_cmpKeys_eq _ _ _ _).mp (this.2 i a b)).2.2⟩

/-- two backends answering a one-row virtual table, cut at one row per backend -/
example : ∃ (ds : Dataset) (t : Table) (req : Request),
    peerCut (EvalMode.code Quirks.none) req = some 1 ∧
    (backendHits (EvalMode.code Quirks.none) default ds t req).map List.length = [1, 1] ∧
    ∀ A ∈ backendHits (EvalMode.code Quirks.none) default ds t req,
      A.Pairwise (fun a b => Hit.le (dirsOf req) a b = true) :=
  ⟨{ backends := [{ id := "a", name := "a" }, { id := "b", name := "b" }] },
    { name := "backends", cols := [], virt := .backends }, { limit := some 1 },
    by decide, by decide, by decide⟩

/-- With the early cut the reported total never exceeds the true number of matching rows, and it
    is exact whenever that number is at most `limit + offset`; otherwise it is still larger than
    `limit + offset`.  (Without wrapped_json the row loop stops right after the cut is exceeded,
    so `total_count` is only a lower bound there.) -/
theorem total_count_cut_bounds (m : EvalMode) (s : Schema) (ds : Dataset) (t : Table)
    (req : Request) (L : Nat) (hc : peerCut m req = some L) :
    (dataQuery m s ds t req).total ≤ (dataQuery (noCut m) s ds t req).total ∧
    min (dataQuery (noCut m) s ds t req).total (L + 1) ≤ (dataQuery m s ds t req).total := by
  rw [dataQuery_total, dataQuery_total]
  exact ⟨totalOf_le_noCut m s ds t req, totalOf_cut_ge m s ds t req L hc⟩

end Lmd.C06
