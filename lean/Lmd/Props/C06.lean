/- C06 — property theorems (under construction). -/
import Lmd.Props.C01
namespace Lmd.C06
end Lmd.C06
