/-
  C08 — a request with `AuthUser:` never shows an object the user is not a contact of.

  `mayView` below is the declarative statement of who may see what; the theorems say that the
  authorisation code (`checkAuth` and the functions it calls, mirrored from pkg/lmd/datarow.go)
  decides exactly `mayView`, and that the row loop keeps exactly the rows `mayView` accepts.
  Property theorems only; helper lemmas live in Lmd/Lemmas/Auth.lean.
-/
import Lmd.Props.C01
import Lmd.Lemmas.Auth

namespace Lmd.C08

/-! ## The specification -/

/-- the hosts row the daemon knows under the name `h` (the last one, should the name occur twice) -/
def hostRow (cx : Ctx) (h : String) : Option Row :=
  findByKey (cx.table "hosts") (cx.b.rows "hosts") [h]

/-- the services row the daemon knows under `(h, s)` -/
def svcRow (cx : Ctx) (h s : String) : Option Row :=
  findByKey (cx.table "services") (cx.b.rows "services") [h, s]

def hostgroupRow (cx : Ctx) (g : String) : Option Row :=
  findByKey (cx.table "hostgroups") (cx.b.rows "hostgroups") [g]

def servicegroupRow (cx : Ctx) (g : String) : Option Row :=
  findByKey (cx.table "servicegroups") (cx.b.rows "servicegroups") [g]

/-- the row lists `user` in its `contacts` column -/
def listsContact (user : String) (r : Row) : Bool := (r.strList "contacts").contains user

/-- host `h` exists and lists `user` as a contact -/
def hostContact (cx : Ctx) (user h : String) : Bool := (hostRow cx h).any (listsContact user)

/-- service `(h, s)` exists and lists `user` as a contact -/
def svcContact (cx : Ctx) (user h s : String) : Bool := (svcRow cx h s).any (listsContact user)

def viewHost (cx : Ctx) (user h : String) : Bool := hostContact cx user h

/-- strict service authorisation: contacts of the service; loose: also the contacts of its host.
    In loose mode a service whose host row is missing is not viewable (stated from the code). -/
def viewService (cx : Ctx) (user h s : String) : Bool :=
  if cx.ds.serviceAuthLoose then
    (hostRow cx h).isSome && (hostContact cx user h || svcContact cx user h s)
  else svcContact cx user h s

/-- the object a `(host, service description)` pair names: an empty description names the host
    (comments and downtimes of hosts; the code treats every empty description this way) -/
def viewObject (cx : Ctx) (user h s : String) : Bool :=
  if s = "" then viewHost cx user h else viewService cx user h s

/-- group rule: loose = some member viewable; strict = at least one member and all viewable
    (an empty group is not viewable in either mode) -/
def viewMembers {α : Type} (loose : Bool) (view : α → Bool) (ms : List α) : Bool :=
  if loose then ms.any view else !ms.isEmpty && ms.all view

def viewHostGroup (cx : Ctx) (user g : String) : Bool :=
  match hostgroupRow cx g with
  | none => false
  | some gr => viewMembers cx.ds.groupAuthLoose (viewHost cx user) (gr.strList "members")

def viewServiceGroup (cx : Ctx) (user g : String) : Bool :=
  match servicegroupRow cx g with
  | none => false
  | some gr =>
    viewMembers cx.ds.groupAuthLoose (fun (m : String × String) => viewObject cx user m.1 m.2) (gr.members "members")

/-- the tables whose rows are subject to authorisation -/
def authTables : List String :=
  ["hosts", "services", "hostgroups", "servicegroups", "hostsbygroup", "servicesbygroup",
   "servicesbyhostgroup", "downtimes", "comments"]

/-- may `user` see row `r` of table `t`?  (empty user = no `AuthUser:` header = everything) -/
def mayView (cx : Ctx) (t : Table) (user : String) (r : Row) : Bool :=
  if user = "" then true
  else
    match t.name with
    | "hosts" => viewHost cx user (r.str t "name")
    | "services" => viewObject cx user (r.str t "host_name") (r.str t "description")
    | "hostgroups" => viewHostGroup cx user (r.str t "name")
    | "servicegroups" => viewServiceGroup cx user (r.str t "name")
    | "hostsbygroup" => viewHost cx user (r.str t "name") && viewHostGroup cx user (r.str t "hostgroup_name")
    | "servicesbygroup" =>
      viewObject cx user (r.str t "host_name") (r.str t "description") &&
        viewServiceGroup cx user (r.str t "servicegroup_name")
    | "servicesbyhostgroup" =>
      viewObject cx user (r.str t "host_name") (r.str t "description") &&
        viewHostGroup cx user (r.str t "hostgroup_name")
    | "downtimes" | "comments" => viewObject cx user (r.str t "host_name") (r.str t "service_description")
    | _ => true

/-! ### the specification read as propositions -/

/-- "the hosts row with name `h`" is the last row of the backend's hosts store whose key is `h` -/
theorem hostRow_last (cx : Ctx) (h : String) (r : Row) :
    hostRow cx h = some r ↔
      ∃ pre post, cx.b.rows "hosts" = pre ++ r :: post ∧ r.key (cx.table "hosts") = [h] ∧
        ∀ x ∈ post, x.key (cx.table "hosts") ≠ [h] :=
  Lemmas.findByKey_eq_some _ _ _ _

/-- a host is viewable iff its row exists and names the user among its contacts -/
theorem viewHost_iff (cx : Ctx) (user h : String) :
    viewHost cx user h = true ↔ ∃ r, hostRow cx h = some r ∧ user ∈ r.strList "contacts" := by
  unfold viewHost hostContact listsContact
  cases hostRow cx h <;> simp

/-- strict mode: a service is viewable iff its own row names the user -/
theorem viewService_strict_iff (cx : Ctx) (user h s : String) (hm : cx.ds.serviceAuthLoose = false) :
    viewService cx user h s = true ↔ ∃ r, svcRow cx h s = some r ∧ user ∈ r.strList "contacts" := by
  unfold viewService svcContact listsContact
  cases svcRow cx h s <;> simp [hm]

/-- loose mode: the host must exist, and the host row or the service row names the user -/
theorem viewService_loose_iff (cx : Ctx) (user h s : String) (hm : cx.ds.serviceAuthLoose = true) :
    viewService cx user h s = true ↔
      ∃ hr, hostRow cx h = some hr ∧
        (user ∈ hr.strList "contacts" ∨ ∃ r, svcRow cx h s = some r ∧ user ∈ r.strList "contacts") := by
  unfold viewService hostContact svcContact listsContact
  cases hostRow cx h <;> cases svcRow cx h s <;> simp [hm]

/-- a host group is viewable iff it exists and, loose: some member host is viewable;
    strict: it has members and every member host is viewable -/
theorem viewHostGroup_iff (cx : Ctx) (user g : String) :
    viewHostGroup cx user g = true ↔
      ∃ gr, hostgroupRow cx g = some gr ∧
        (if cx.ds.groupAuthLoose then ∃ m ∈ gr.strList "members", viewHost cx user m = true
         else gr.strList "members" ≠ [] ∧ ∀ m ∈ gr.strList "members", viewHost cx user m = true) := by
  unfold viewHostGroup viewMembers
  cases hostgroupRow cx g <;> cases cx.ds.groupAuthLoose <;> simp

/-! ## 1. the member loop -/

/-- Strict group authorisation ("return true on the last index" in the Go loop) accepts a member
    list of any length iff it is non-empty and every member is authorised. -/
theorem groupLoop_strict {α : Type} (auth : α → Bool) (ms : List α) :
    groupLoop false auth ms = (!ms.isEmpty && ms.all auth) := Lemmas.groupLoop_false auth ms

/-- Loose group authorisation accepts a member list of any length iff some member is authorised. -/
theorem groupLoop_loose {α : Type} (auth : α → Bool) (ms : List α) :
    groupLoop true auth ms = ms.any auth := Lemmas.groupLoop_true auth ms

/-- both modes at once: the loop computes the declarative group rule -/
theorem groupLoop_eq_viewMembers {α : Type} (loose : Bool) (auth : α → Bool) (ms : List α) :
    groupLoop loose auth ms = viewMembers loose auth ms := by
  cases loose <;> simp [viewMembers, groupLoop_strict, groupLoop_loose]

/-! ## 2. the three authorisation functions -/

/-- `isAuthorizedFor(user, host, service)` decides exactly "user may view that host (empty service)
    or that service", in both `ServiceAuthorization` modes, for every dataset. -/
theorem isAuthorizedFor_spec (cx : Ctx) (user h s : String) :
    isAuthorizedFor cx user h s = viewObject cx user h s := by
  unfold isAuthorizedFor viewObject viewHost viewService hostContact svcContact hostRow svcRow listsContact
  by_cases hs : s = ""
  · subst hs
    cases findByKey (cx.table "hosts") (cx.b.rows "hosts") [h] with
    | none => simp
    | some r => by_cases hc : user ∈ r.strList "contacts" <;> simp [hc]
  · cases hm : cx.ds.serviceAuthLoose
    · cases findByKey (cx.table "services") (cx.b.rows "services") [h, s] <;> simp [hs]
    · cases findByKey (cx.table "hosts") (cx.b.rows "hosts") [h] with
      | none => simp [hs]
      | some r =>
        by_cases hc : user ∈ r.strList "contacts" <;>
          cases findByKey (cx.table "services") (cx.b.rows "services") [h, s] <;> simp [hs, hc]

/-- for a host (empty service description) the check is: the host row names the user -/
theorem isAuthorizedFor_host (cx : Ctx) (user h : String) :
    isAuthorizedFor cx user h "" = viewHost cx user h := by
  simp [isAuthorizedFor_spec, viewObject]

/-- for a proper service the check is `viewService` -/
theorem isAuthorizedFor_service (cx : Ctx) (user h s : String) (hs : s ≠ "") :
    isAuthorizedFor cx user h s = viewService cx user h s := by
  simp [isAuthorizedFor_spec, viewObject, hs]

/-- `isAuthorizedForHostGroup` decides exactly `viewHostGroup`, in both `GroupAuthorization` modes. -/
theorem hostGroup_spec (cx : Ctx) (user g : String) :
    isAuthorizedForHostGroup cx user g = viewHostGroup cx user g := by
  unfold isAuthorizedForHostGroup viewHostGroup hostgroupRow
  cases findByKey (cx.table "hostgroups") (cx.b.rows "hostgroups") [g] with
  | none => rfl
  | some gr =>
    simp only [groupLoop_eq_viewMembers]
    congr 1
    funext m
    exact isAuthorizedFor_host cx user m

/-- `isAuthorizedForServiceGroup` decides exactly `viewServiceGroup`. -/
theorem serviceGroup_spec (cx : Ctx) (user g : String) :
    isAuthorizedForServiceGroup cx user g = viewServiceGroup cx user g := by
  unfold isAuthorizedForServiceGroup viewServiceGroup servicegroupRow
  cases findByKey (cx.table "servicegroups") (cx.b.rows "servicegroups") [g] with
  | none => rfl
  | some gr =>
    simp only [groupLoop_eq_viewMembers]
    congr 1
    funext m
    exact isAuthorizedFor_spec cx user m.1 m.2

/-! ## 3. `checkAuth` -/

/-- For every table, every user and every row, `DataRow.checkAuth` accepts the row iff the
    specification `mayView` does. -/
theorem checkAuth_eq_mayView (cx : Ctx) (t : Table) (user : String) (r : Row) :
    checkAuth cx t user r = mayView cx t user r := by
  unfold checkAuth mayView
  simp only [beq_iff_eq, isAuthorizedFor_spec, hostGroup_spec, serviceGroup_spec, viewObject, if_true]
  rfl

/-! ## 4. the row loop -/

/-- with the negation defect repaired both ways of evaluating the filter list agree with its meaning -/
theorem rowMatches_eq_sem (m : EvalMode) (hq : m.q.negOr = false) (v : View) (fs : List Filter) :
    rowMatches m v fs = semList m.q v fs := by
  unfold rowMatches matchAll semList
  split
  · congr 1
    funext f
    simp [C01.matchF_eq_sem m.q hq v f false]
  · rfl

/-- Full scan, no early cut, negation repaired: the rows one backend contributes to a request with
    `AuthUser: u` are exactly the rows of the table that satisfy the filter and that `u` may view,
    in store order - nothing more, nothing less. -/
theorem auth_rows (m : EvalMode) (cx : Ctx) (t : Table) (req : Request)
    (hi : m.useIndex = false) (hc : m.earlyCut = false) (hq : m.q.negOr = false) :
    (gatherRows m cx t req).hits.map (·.r) =
      (tableRows cx t).filter (fun r =>
        semList m.q (mkView cx t r) req.filter && mayView cx t req.authUser r) := by
  simp [gatherRows, hi, hc, rowMatches_eq_sem m hq, checkAuth_eq_mayView, Function.comp_def]

/-- In every evaluation mode (also with index pre-selection and the early limit cut, i.e. the code
    as it runs) every row a backend returns for `AuthUser: u` is one `u` may view. -/
theorem auth_sound (m : EvalMode) (cx : Ctx) (t : Table) (req : Request) (h : Hit)
    (hh : h ∈ (gatherRows m cx t req).hits) : mayView cx t req.authUser h.r = true := by
  have key : ∀ (l : List Row) (p : Row → Bool) (g : Row → Hit), (∀ r, (g r).r = r) →
      ∀ x ∈ (l.filter (fun r => p r && checkAuth cx t req.authUser r)).map g,
        mayView cx t req.authUser x.r = true := by
    intro l p g hg x hx
    simp only [List.mem_map, List.mem_filter, Bool.and_eq_true] at hx
    obtain ⟨r, ⟨_, _, hr⟩, rfl⟩ := hx
    rw [hg, ← checkAuth_eq_mayView]; exact hr
  unfold gatherRows at hh
  simp only at hh
  split at hh
  · exact key _ _ _ (fun _ => rfl) h hh
  · exact key _ _ _ (fun _ => rfl) h (List.mem_of_mem_take hh)

/-- Headline for the hosts table: a host returned to `AuthUser: u` exists in the store and its
    (last) row names `u` among its contacts. -/
theorem hosts_only_contacts (m : EvalMode) (cx : Ctx) (t : Table) (req : Request) (h : Hit)
    (ht : t.name = "hosts") (hu : req.authUser ≠ "") (hh : h ∈ (gatherRows m cx t req).hits) :
    ∃ hr, hostRow cx (h.r.str t "name") = some hr ∧ req.authUser ∈ hr.strList "contacts" := by
  have := auth_sound m cx t req h hh
  simp only [mayView, hu, if_false, ht] at this
  exact (viewHost_iff cx _ _).1 this

/-- Headline for the services table: a service (non-empty description) returned to `AuthUser: u` is
    viewable by `u` in the sense of `viewService` (see `viewService_strict_iff` / `_loose_iff`). -/
theorem services_only_contacts (m : EvalMode) (cx : Ctx) (t : Table) (req : Request) (h : Hit)
    (ht : t.name = "services") (hu : req.authUser ≠ "") (hd : h.r.str t "description" ≠ "")
    (hh : h ∈ (gatherRows m cx t req).hits) :
    viewService cx req.authUser (h.r.str t "host_name") (h.r.str t "description") = true := by
  have := auth_sound m cx t req h hh
  simp only [mayView, hu, if_false, ht, viewObject, hd] at this
  exact this

/-- on a table that is not subject to authorisation every row passes `checkAuth` -/
theorem checkAuth_other (cx : Ctx) (t : Table) (user : String) (r : Row) (ht : t.name ∉ authTables) :
    checkAuth cx t user r = true := by
  simp only [authTables, List.mem_cons, List.not_mem_nil, or_false, not_or] at ht
  obtain ⟨h1, h2, h3, h4, h5, h6, h7, h8, h9⟩ := ht
  unfold checkAuth
  split
  · rfl
  · split <;> first | rfl | (exfalso; simp_all)

/-- For every table outside the nine listed ones (contacts, status, timeperiods, backends, ...) an
    `AuthUser:` header changes nothing in what a backend returns. -/
theorem no_contacts_unaffected (m : EvalMode) (cx : Ctx) (t : Table) (req : Request)
    (ht : t.name ∉ authTables) :
    gatherRows m cx t req = gatherRows m cx t { req with authUser := "" } := by
  have h1 : ∀ u, checkAuth cx t u = fun _ => true := fun u => funext (fun r => checkAuth_other cx t u r ht)
  have h2 : resultLimit { req with authUser := "" } = resultLimit req := rfl
  simp only [gatherRows, h1, h2]

/-! ## non-vacuity on the demo dataset (Lmd.Demo: hosts h1 (alice), h2 (bob), group g = {h1, h2}) -/

section Examples
open Lmd.Demo

/-- alice sees her host and not bob's -/
example : mayView (cx false) hostsT "alice" hostH1 = true ∧ mayView (cx false) hostsT "alice" hostH2 = false := by
  decide
/-- a host group with one authorised and one unauthorised member: hidden in strict, shown in loose mode -/
example : viewHostGroup (cx false) "alice" "g" = false ∧ viewHostGroup (cx true) "alice" "g" = true := by
  decide
/-- an empty group is hidden in both modes; an unknown group too -/
example : viewHostGroup (cx false) "alice" "empty" = false ∧ viewHostGroup (cx true) "alice" "empty" = false ∧
    viewHostGroup (cx true) "alice" "nosuch" = false := by decide
/-- strict service authorisation: alice sees (h2, s2) which names her, not (h1, s1) on her own host -/
example : viewService (cx false) "alice" "h2" "s2" = true ∧ viewService (cx false) "alice" "h1" "s1" = false := by
  decide
/-- `auth_rows` is applicable to the specification mode and the result is not trivial -/
example : (gatherRows EvalMode.spec (cx false) hostsT { table := "hosts", authUser := "alice" }).hits.map
    (fun h => h.r.str hostsT "name") = ["h1"] := by decide
example : EvalMode.spec.useIndex = false ∧ EvalMode.spec.earlyCut = false ∧ EvalMode.spec.q.negOr = false := by
  decide
/-- `no_contacts_unaffected` applies to the contacts table, which has rows -/
example : contactsT.name ∉ authTables ∧
    (gatherRows EvalMode.spec (cx false) contactsT { table := "contacts", authUser := "alice" }).hits.length = 2 := by
  decide

end Examples

end Lmd.C08
