/- C08 — property theorems (under construction). -/
import Lmd.Props.C01
namespace Lmd.C08
end Lmd.C08
