/-
  C05 (whole query) — "Stats equal the aggregates over exactly the filtered rows."

  Composition theorems about `statsQuery` as a whole.  For a Stats request `req`:
  * `dataReq req` is the corresponding data request (same table, filter, auth user, backends; no Stats, Sort,
    Limit, Offset) and `dataMode m` its evaluation mode (same quirks, candidate selection and filter
    evaluation as the Stats mode `m`);
  * `hitView s ds t h` is a returned row as the view the filters and stats columns are evaluated on,
    `hitKey s ds t req h` its group-by key (the values of the request's columns, joined);
  * `valsOf q e V` are the values the stats column `e` takes from the rows `V` (a `0` per row matching a
    counter's filter; the numeric column value per row for an aggregate) and `slotOf q e V` is the
    accumulator that has been fed exactly these values (`C05.accOf`).
  * `FlatCounting m t req` says every row is counted with the flat stats list under the Boolean semantics.
  Helper lemmas: Lmd/Lemmas/UnionStatsLemmas.lean.
-/
import Lmd.Lemmas.UnionStatsLemmas

namespace Lmd.C05Whole
open Lmd Lmd.Sort Lmd.Dist Lmd.C05 Lmd.Union

/-! ## 0. when rows are counted with the flat list -/

/-- The specification evaluation (no grouping, Boolean filter semantics) counts flat, whatever the quirks
    and the candidate selection. -/
theorem flat_counting_spec (m : StatsMode) (t : Table) (req : Request) (hg : m.grouped = false)
    (hp : m.pushDown = false) : FlatCounting m t req := flatCounting_spec m t req hg hp

/-- The daemon's evaluation (negation push-down) without the grouping optimiser counts flat once the
    negation defect is repaired. -/
theorem flat_counting_code (m : StatsMode) (t : Table) (req : Request) (hg : m.grouped = false)
    (hq : m.q.negOr = false) : FlatCounting m t req := flatCounting_code m t req hg hq

/-- With the grouping optimiser as well, when every leaf of the stats list is determined by its key
    (the hypothesis of `C05.grouping_sound_of_keyDetermined`). -/
theorem flat_counting_grouped (m : StatsMode) (t : Table) (req : Request) (hq : m.q.negOr = false)
    (mk : String → Op → String → String → Bool → Leaf)
    (hs : StatsOK (fun l => l = mk l.col.name l.op l.sval l.tag l.isEmpty) req.stats) :
    FlatCounting m t req := flatCounting_grouped m t req hq mk hs

/-! ## 1. what a slot holds and prints -/

/-- The slot `slotOf q e V` of a stats column that has seen exactly the rows `V` prints the arithmetic
    aggregate over these rows: for a counter the number of rows its filter holds for, for an aggregate the
    sum / minimum / maximum of the column values, sum over count for an average, `0` for no rows. -/
theorem slot_prints_aggregate (q : Quirks) (e : StatsEntry) (V : List View) :
    (slotOf q e V).final = specFinal e.accKind (valsOf q e V) := final_accOf _ _

/-- a counter prints the number of rows among `V` for which its filter holds -/
theorem counter_prints_count (q : Quirks) (f : Filter) (V : List View) :
    (slotOf q (.counter f) V).final = (((V.filter (fun v => sem q v f)).length : Int), 1) := by
  rw [slot_prints_aggregate]
  simp [StatsEntry.accKind, valsOf, specFinal]

/-- an aggregate prints the arithmetic aggregate of the column values of the rows `V` -/
theorem agg_prints_aggregate (q : Quirks) (k : AggKind) (col : Column) (n : Bool) (V : List View) :
    (slotOf q (.agg k col n) V).final = specFinal k.acc (V.filterMap (fun v => getFloat v col)) :=
  slot_prints_aggregate q _ V

/-! ## 2. Stats are the fold over the rows the data request returns -/

/-- Flat Stats request (no columns), not crashing, rows counted flat (see section 0): the answer is one
    line whose slots have seen exactly the rows the corresponding data request returns - each row once, the
    rows of all selected, available backends and of no other.  With `slot_prints_aggregate`: every counter
    is the number of returned rows matching its filter, every sum / min / max / avg is taken over the
    values of exactly the returned rows.  Restricted by the hypothesis `FlatCounting`, without which the
    statement is false for the model (negation defect; grouping of look-alike leaves, see
    `C05.grouping_unsound_without_congruence`). -/
theorem stats_is_fold_of_data_partial (m : StatsMode) (s : Schema) (ds : Dataset) (t : Table) (req : Request)
    (hflat : FlatCounting m t req) (hcols : req.columns = [])
    (hc : (statsQuery m s ds t req).crash = false) :
    (statsQuery m s ds t req).rows =
      [("", req.stats.map (fun e => slotOf m.q e
        ((dataQuery (dataMode m) s ds t (dataReq req)).hits.map (hitView s ds t))))] :=
  stats_rows_flat m s ds t req hflat hcols hc

/-- The same without side condition for the specification evaluation of Stats (no grouping, Boolean
    semantics; any quirks, with or without index pre-selection). -/
theorem stats_is_fold_of_data (m : StatsMode) (hg : m.grouped = false) (hp : m.pushDown = false)
    (s : Schema) (ds : Dataset) (t : Table) (req : Request) (hcols : req.columns = [])
    (hc : (statsQuery m s ds t req).crash = false) :
    (statsQuery m s ds t req).rows =
      [("", req.stats.map (fun e => slotOf m.q e
        ((dataQuery (dataMode m) s ds t (dataReq req)).hits.map (hitView s ds t))))] :=
  stats_is_fold_of_data_partial m s ds t req (flatCounting_spec m t req hg hp) hcols hc

/-- The printed line: the values `statsSpec` asks for, over the returned rows. -/
theorem stats_prints_fold_of_data_partial (m : StatsMode) (s : Schema) (ds : Dataset) (t : Table)
    (req : Request) (hflat : FlatCounting m t req) (hcols : req.columns = [])
    (hc : (statsQuery m s ds t req).crash = false) :
    (statsQuery m s ds t req).rows.map (fun p => (p.1, p.2.map Acc.final)) =
      [("", req.stats.map (fun e => specFinal e.accKind (valsOf m.q e
        ((dataQuery (dataMode m) s ds t (dataReq req)).hits.map (hitView s ds t)))))] := by
  rw [stats_is_fold_of_data_partial m s ds t req hflat hcols hc]
  simp [List.map_map, Function.comp_def, slot_prints_aggregate]

/-- Grouped Stats (with columns), not crashing, rows counted flat: the keys of the answer are pairwise
    distinct; a key has a line iff some returned row of the corresponding data request has that key; and
    the slots of that line have seen exactly the returned rows with that key. -/
theorem stats_groups_of_data_partial (m : StatsMode) (s : Schema) (ds : Dataset) (t : Table) (req : Request)
    (hflat : FlatCounting m t req) (hcols : req.columns ≠ [])
    (hc : (statsQuery m s ds t req).crash = false) :
    (keys (statsQuery m s ds t req).rows).Nodup ∧
    (∀ key, key ∈ keys (statsQuery m s ds t req).rows ↔
      ∃ h ∈ (dataQuery (dataMode m) s ds t (dataReq req)).hits, hitKey s ds t req h = key) ∧
    (∀ key, key ∈ keys (statsQuery m s ds t req).rows →
      lookup (statsQuery m s ds t req).rows key =
        some (req.stats.map (fun e => slotOf m.q e
          (((dataQuery (dataMode m) s ds t (dataReq req)).hits.filter
            (fun h => hitKey s ds t req h == key)).map (hitView s ds t))))) := by
  have hl := stats_lookup_cols m s ds t req hflat hcols hc
  have hiff : ∀ key, key ∈ keys (statsQuery m s ds t req).rows ↔
      ∃ h ∈ (dataQuery (dataMode m) s ds t (dataReq req)).hits, hitKey s ds t req h = key := by
    intro key
    rw [← lookup_isSome_iff, hl key]
    unfold slotsOpt dataViews
    constructor
    · intro h
      split at h
      · cases h
      · rename_i hne
        rw [List.isEmpty_map] at hne
        cases hx : (dataQuery (dataMode m) s ds t (dataReq req)).hits.filter
            (fun h => hitKey s ds t req h == key) with
        | nil => simp [hx] at hne
        | cons x xs =>
          have : x ∈ (dataQuery (dataMode m) s ds t (dataReq req)).hits.filter
              (fun h => hitKey s ds t req h == key) := by rw [hx]; simp
          rw [List.mem_filter] at this
          exact ⟨x, this.1, by simpa using this.2⟩
    · rintro ⟨h, hh, hk⟩
      have : h ∈ (dataQuery (dataMode m) s ds t (dataReq req)).hits.filter
          (fun h => hitKey s ds t req h == key) := by
        rw [List.mem_filter]; exact ⟨hh, by simpa using hk⟩
      rw [if_neg]
      · rfl
      · rw [List.isEmpty_map, List.isEmpty_iff]
        intro e
        rw [e] at this
        cases this
  refine ⟨stats_keys_nodup m s ds t req hc, hiff, ?_⟩
  intro key hk
  have := (lookup_isSome_iff _ key).mpr hk
  rw [hl key] at this ⊢
  unfold slotsOpt at this ⊢
  split
  · rename_i he
    rw [if_pos he] at this
    cases this
  · rfl

/-! ## 3. Stats over the union are the merge of the per-backend Stats -/

/-- Grouped Stats, per-backend table, distinct ids, not crashing: answering the request once per selected,
    available backend (`Backends: b`) and merging these answers from left to right with `MergeStats` gives
    exactly the answer of the whole request (none of the single requests crashes).  No hypothesis on how
    rows are counted. -/
theorem stats_union_is_merge (m : StatsMode) (s : Schema) (ds : Dataset) (t : Table) (req : Request)
    (ht : C04.Ordinary t) (hid : (ds.backends.map (·.id)).Nodup) (hcols : req.columns ≠ [])
    (hc : (statsQuery m s ds t req).crash = false) :
    (statsQuery m s ds t req).rows =
        ((availBackends ds t req).map (fun b => (statsQuery m s ds t (only req b.id)).rows)).foldl mergeStats [] ∧
      ∀ b ∈ availBackends ds t req, (statsQuery m s ds t (only req b.id)).crash = false :=
  rows_eq_merge_singles m s ds t req ht hid hcols hc

/-- Flat Stats (no columns), per-backend table, distinct ids, not crashing, rows counted flat: every single
    request `Backends: b` answers one line `("", x b)` without crashing, and the one line of the whole
    answer holds, slot by slot, these lines merged from left to right into fresh slots the way `MergeStats`
    merges (`zipMerge`: `cur.apply s.stats s.count`) - for count, sum, min, max, and for avg through its
    sum and count.  Restricted by `FlatCounting` (see `stats_is_fold_of_data_partial`). -/
theorem stats_union_is_merge_flat_partial (m : StatsMode) (s : Schema) (ds : Dataset) (t : Table)
    (req : Request) (ht : C04.Ordinary t) (hid : (ds.backends.map (·.id)).Nodup)
    (hflat : FlatCounting m t req) (hcols : req.columns = [])
    (hc : (statsQuery m s ds t req).crash = false) :
    ∃ x : Backend → Accs,
      (∀ b ∈ availBackends ds t req,
        (statsQuery m s ds t (only req b.id)).rows = [("", x b)] ∧
          (statsQuery m s ds t (only req b.id)).crash = false) ∧
      (statsQuery m s ds t req).rows =
        [("", ((availBackends ds t req).map x).foldl zipMerge (req.stats.map (fun e => Acc.init e.accKind)))] :=
  flat_rows_merge_singles m s ds t req ht hid hflat hcols hc

/-- Slot level, for any split of the rows into parts (one per backend): merging the slots of the parts is
    the slot of all rows, for counters, sums, minima, maxima and averages alike. -/
theorem slots_union_is_merge (q : Quirks) (stats : List StatsEntry) (V W : List View) :
    zipMerge (stats.map (slotOf q · V)) (stats.map (slotOf q · W)) = stats.map (slotOf q · (V ++ W)) :=
  zipMerge_slots q stats V W

/-- An average travels as (sum, count): the merged slot holds the sum of the sums and the sum of the
    counts, and prints their quotient - as an equation between rationals
    `n/d = (sum₁ + sum₂)/(count₁ + count₂)`. -/
theorem avg_through_sum_and_count (xs ys : List Int) :
    ((accOf .avg xs).apply (accOf .avg ys).stats (accOf .avg ys).count) =
        { kind := .avg, stats := (accOf .avg xs).stats + (accOf .avg ys).stats,
          count := (accOf .avg xs).count + (accOf .avg ys).count } ∧
    (xs ++ ys ≠ [] →
      ((accOf .avg xs).apply (accOf .avg ys).stats (accOf .avg ys).count).final =
        ((xs.foldl (· + ·) 0) + (ys.foldl (· + ·) 0), xs.length + ys.length)) := by
  constructor
  · simp [accOf_avg, Acc.apply]
  · intro hne
    have hlen : ¬ (xs.length + ys.length = 0) := by
      intro h
      apply hne
      have h1 : xs.length = 0 := by omega
      have h2 : ys.length = 0 := by omega
      rw [List.length_eq_zero_iff] at h1 h2
      simp [h1, h2]
    simp only [accOf_avg, Acc.apply, Acc.final]
    have hb : (xs.length + ys.length == 0) = false := by simpa using hlen
    simp [hb]

/-! ## 4. order does not matter -/

/-- Any permutation of the rows gives the same slot - hence the same printed value - for every kind of
    stats column (count, sum, min, max, avg). -/
theorem stats_perm_rows (q : Quirks) (e : StatsEntry) {V W : List View} (h : V.Perm W) :
    slotOf q e V = slotOf q e W := slotOf_perm q e h

/-- the accumulator itself does not depend on the order of the values -/
theorem acc_perm_values (k : AccKind) {xs ys : List Int} (h : xs.Perm ys) : accOf k xs = accOf k ys :=
  accOf_perm k h

/-- Whole query, backend order: listing the same backends in another order in the configuration does not
    change a Stats answer - the crash marker is the same and, when not crashing and counting flat, every key
    has the same line (for a flat request: the answer is literally the same).  Stated for a permutation of
    the configured backends; a permutation of the cached rows of one backend is covered at the level of the
    fold by `stats_perm_rows` only (the model's row lists carry the index order the cross references use). -/
theorem stats_backend_order_partial (m : StatsMode) (s : Schema) (ds ds' : Dataset) (t : Table) (req : Request)
    (ht : C04.Ordinary t) (hre : Reordered ds ds') (hflat : FlatCounting m t req)
    (hc : (statsQuery m s ds t req).crash = false) :
    (statsQuery m s ds' t req).crash = false ∧
    (∀ key, lookup (statsQuery m s ds' t req).rows key = lookup (statsQuery m s ds t req).rows key) ∧
    (req.columns = [] → (statsQuery m s ds' t req).rows = (statsQuery m s ds t req).rows) := by
  have hc' : (statsQuery m s ds' t req).crash = false := by rw [crash_reordered m s t req ht hre]; exact hc
  have hflatRows : req.columns = [] → (statsQuery m s ds' t req).rows = (statsQuery m s ds t req).rows := by
    intro hcols
    have h1 := stats_rows_flat m s ds' t req hflat hcols hc'
    have h2 := stats_rows_flat m s ds t req hflat hcols hc
    have e1 : (dataQuery (dataMode m) s ds' t (dataReq req)).hits.map (hitView s ds' t) =
        availViews m s ds' t req "" := data_allViews m s ds' t req hcols
    have e2 : (dataQuery (dataMode m) s ds t (dataReq req)).hits.map (hitView s ds t) =
        availViews m s ds t req "" := data_allViews m s ds t req hcols
    rw [e1] at h1
    rw [e2] at h2
    have hV := availViews_reordered m s t req ht hre ""
    have hmap : req.stats.map (fun e => slotOf m.q e (availViews m s ds' t req "")) =
        req.stats.map (fun e => slotOf m.q e (availViews m s ds t req "")) :=
      List.map_congr_left (fun e _ => slotOf_perm m.q e hV)
    exact h1.trans ((congrArg (fun x => [("", x)]) hmap).trans h2.symm)
  refine ⟨hc', ?_, hflatRows⟩
  intro key
  by_cases hcols : req.columns = []
  · exact congrArg (fun r => lookup r key) (hflatRows hcols)
  · have h1 := stats_lookup_cols m s ds' t req hflat hcols hc' key
    have h2 := stats_lookup_cols m s ds t req hflat hcols hc key
    rw [dataViews_eq] at h1 h2
    exact h1.trans ((slotsOpt_perm m.q req.stats (availViews_reordered m s t req ht hre key)).trans h2.symm)

/-! ## non-vacuity: backends "a" (hosts h1, h2), "b" (down), "c" (host h3) -/

section Examples
open Lmd.Demo

def backendC : Backend := { id := "c", name := "Site C", tables := [("hosts", [host "h3" ["alice"] []])] }
def ds3 : Dataset := { backends := [backendA, backendB, backendC], serviceAuthLoose := false }
def ds3' : Dataset := { backends := [backendB, backendA, backendC], serviceAuthLoose := false }
def specMode : StatsMode := { q := Quirks.none, useIndex := false, pushDown := false, grouped := false }
def nameIs (x : String) : Leaf := { col := strCol "name", op := .eq, sval := x }
/-- `Stats: name = h1`, `Stats: name != h1` -/
def reqFlat : Request :=
  { table := "hosts", stats := [.counter (.leaf (nameIs "h1") false), .counter (.leaf (nameIs "h1") true)] }
/-- the same, grouped by `Columns: name` -/
def reqGrouped : Request := { reqFlat with columns := ["name"] }

example : C04.Ordinary hostsT := by unfold C04.Ordinary; decide
example : (ds3.backends.map (·.id)).Nodup := by decide
example : specMode.grouped = false ∧ specMode.pushDown = false := by decide
example : Reordered ds3 ds3' := ⟨List.Perm.swap _ _ _, rfl, rfl⟩
/-- the hypotheses of `stats_is_fold_of_data` hold and the answer counts the three returned rows -/
example : reqFlat.columns = [] ∧ (statsQuery specMode schema ds3 hostsT reqFlat).crash = false ∧
    (statsQuery specMode schema ds3 hostsT reqFlat).rows = [("", [counterSlot 1, counterSlot 2])] ∧
    (dataQuery (dataMode specMode) schema ds3 hostsT (dataReq reqFlat)).hits.length = 3 := by decide
/-- the hypotheses of `stats_groups_of_data_partial` / `stats_union_is_merge` hold: three groups -/
example : reqGrouped.columns ≠ [] ∧ (statsQuery specMode schema ds3 hostsT reqGrouped).crash = false ∧
    keys (statsQuery specMode schema ds3 hostsT reqGrouped).rows = ["h1", "h2", "h3"] := by decide
/-- the single flat answers: one row matching on "a", none on "b" (down, not asked), one other on "c" -/
example : (statsQuery specMode schema ds3 hostsT (only reqFlat "a")).rows = [("", [counterSlot 1, counterSlot 1])] ∧
    (statsQuery specMode schema ds3 hostsT (only reqFlat "c")).rows = [("", [counterSlot 0, counterSlot 1])] := by
  decide
/-- an average over two parts -/
example : ((accOf .avg [1000, 2000]).apply (accOf .avg [6000]).stats (accOf .avg [6000]).count).final = (9000, 3) := by
  decide

end Examples

end Lmd.C05Whole
