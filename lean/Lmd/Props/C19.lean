/-
  C19 — export followed by import reproduces the cache.

  The export writes every exportable cell of a cached row as `valJson v`
  (`WriteJSONLocalColumn`); the import reads the file like a backend reply and coerces every value
  with `coerce` (`NewDataRow` / `UpdateValues`, modelled by `coerceRow`).
-/
import Lmd.Lemmas.SyncLemmas

namespace Lmd.C19
open Lean (Json JsonNumber)
open Lmd.SyncLemmas

/-! ## 0. a concrete table for the examples -/

def exHosts : Table :=
  { name := "hosts",
    cols := [{ name := "name", dtype := .str, storage := .loc },
             { name := "name_lc", dtype := .str, storage := .loc },
             { name := "state", dtype := .int, storage := .loc },
             { name := "latency", dtype := .float, storage := .loc },
             { name := "contacts", dtype := .strList, storage := .loc },
             { name := "comments", dtype := .int64List, storage := .loc },
             { name := "services_with_info", dtype := .ifaceList, storage := .loc },
             { name := "peer_key", dtype := .str, storage := .virt }],
    primaryKey := ["name"] }

def exReply : ReplyRow :=
  [("name", .str "Alpha"), ("state", .num ⟨1, 0⟩), ("latency", .num ⟨125, 2⟩),
   ("contacts", .arr #[.str "admin", .str "ops"]), ("comments", .arr #[.num ⟨1, 0⟩, .num ⟨300, 0⟩]),
   ("peer_key", .str "ignored")]

/-! ## 1. one cell -/

/-- `coerce_valJson_roundtrip`: a value that came out of the coercion for a column type survives
    export and import unchanged — for every column type: texts, int8 and int64 numbers, floats (in
    the milli representation), string lists, integer lists, service member lists, interface lists,
    and (trivially, it is never stored) custom variables. -/
theorem coerce_valJson_roundtrip (t : DataType) (j : Json) :
    coerce t (valJson (coerce t j)) = coerce t j :=
  coerce_valJson_coerce t j

/-- the exported form of an int8, of a float and of a string list -/
theorem valJson_shape (n m : Int) (l : List String) :
    valJson (.i n) = .num ⟨n, 0⟩ ∧ valJson (.f m) = .num ⟨m, 3⟩ ∧
    valJson (.sl l) = .arr (l.map Json.str).toArray := ⟨rfl, rfl, rfl⟩

/-- The ingredients: `checkInt8Bounds` is idempotent, an integer written as a JSON number is read
    back exactly, and a float written with three fraction digits is read back exactly. -/
theorem number_roundtrip (n m : Int) :
    checkInt8 (checkInt8 n) = checkInt8 n ∧
    milliTrunc (jsonToMilli (valJson (.i n))) = n ∧
    jsonToMilli (valJson (.f m)) = m :=
  ⟨checkInt8_idem n, int_roundtrip n, jsonNumMilli_milli m⟩

example : coerce .int (valJson (coerce .int (.num ⟨300, 0⟩))) = .i 0 ∧
    coerce .float (valJson (coerce .float (.num ⟨125, 2⟩))) = .f 1250 := by
  rw [coerce_valJson_roundtrip, coerce_valJson_roundtrip]
  constructor
  · simp [coerce, jsonToMilli, jsonNumMilli, milliTrunc, checkInt8, Int.tdiv]
  · simp [coerce, jsonToMilli, jsonNumMilli]

/-! ## 2. one row -/

/-- `row_roundtrip`: re-importing the exported cells of a cached row reproduces the row cell by
    cell (same names, same values, same order), provided every cell belongs to a locally stored
    column of the table and holds a value that came out of that column's coercion — which is what
    `coerceRow` and the update functions store. -/
theorem row_roundtrip (t : Table) (r : Row)
    (h : ∀ p ∈ r.cells, ∃ c j, t.col? p.1 = some c ∧ c.storage = .loc ∧ p.2 = coerce c.dtype j) :
    coerceRow t (exported r) = r := by
  apply coerceRow_exported
  intro p hp
  obtain ⟨c, j, hc, hl, hv⟩ := h p hp
  exact ⟨c, hc, hl, by rw [hv]; exact coerce_valJson_coerce c.dtype j⟩

/-- the exported cells are the `valJson` of the stored cells, name by name -/
theorem exported_eq (r : Row) : exported r = r.cells.map (fun (n, v) => (n, valJson v)) := rfl

/-- Every row stored by the initial synchronisation satisfies the hypothesis of `row_roundtrip`:
    exporting and re-importing it gives the same row. -/
theorem synced_row_roundtrip (t : Table) (reply : ReplyRow) :
    coerceRow t (exported (coerceRow t reply)) = coerceRow t reply :=
  row_roundtrip t _ (coerceRow_cells_typed t reply)

/-- Every table stored by the initial synchronisation is reproduced by export + import (the
    imported rows are sorted by primary key again, which leaves the already sorted rows alone). -/
theorem synced_table_roundtrip (t : Table) (reply : List ReplyRow) :
    (syncTable t reply).map (fun r => coerceRow t (exported r)) = syncTable t reply := by
  refine (List.map_congr_left (fun r hr => ?_)).trans (List.map_id _)
  obtain ⟨rr, _, rfl⟩ := List.mem_map.mp ((syncTable_perm_rows t reply).mem_iff.mp hr)
  exact synced_row_roundtrip t rr

/-- The id lists written by `buildIdLists` survive as well: a row whose `comments` cell was
    replaced by an id list still round-trips, when the table stores `comments` as an integer list. -/
theorem row_roundtrip_setCell (t : Table) (r : Row) (n : String) (l : List Int)
    (h : ∀ p ∈ r.cells, ∃ c j, t.col? p.1 = some c ∧ c.storage = .loc ∧ p.2 = coerce c.dtype j)
    (hn : ∃ c, t.col? n = some c ∧ c.storage = .loc ∧ c.dtype = .int64List) :
    coerceRow t (exported (r.setCell n (.il l))) = r.setCell n (.il l) := by
  apply coerceRow_exported
  intro p hp
  unfold Row.setCell at hp
  rcases List.mem_append.mp hp with hp | hp
  · obtain ⟨c, j, hc, hl, hv⟩ := h p (List.mem_filter.mp hp).1
    exact ⟨c, hc, hl, by rw [hv]; exact coerce_valJson_coerce c.dtype j⟩
  · obtain ⟨c, hc, hl, hd⟩ := hn
    have : p = (n, .il l) := by simpa using hp
    subst this
    refine ⟨c, hc, hl, ?_⟩
    rw [hd]
    show Val.il (jsonToIntList (.arr (l.map intJson).toArray)) = .il l
    rw [intList_roundtrip]

/-- a host row with text, int8, float, string list and id list cells (the delivered virtual
    column is not stored) -/
example : (coerceRow exHosts exReply).cells.map (·.1) = ["name", "state", "latency", "contacts", "comments"] ∧
    coerceRow exHosts (exported (coerceRow exHosts exReply)) = coerceRow exHosts exReply :=
  ⟨by decide, synced_row_roundtrip _ _⟩

/-! ## 3. the lower-case shadow columns -/

/-- `lc_recomputed`, dependence: the value of a `_lc` shadow column is computed from the cell of its
    base column only. -/
theorem lc_depends_on_base (t : Table) (r r' : Row) (c base : Column)
    (hs : hasSuffix c.name "_lc" = true) (hb : t.col? (trimSuffix c.name "_lc") = some base)
    (h : r.cell? base.name = r'.cell? base.name) : localVal t r c = localVal t r' c :=
  localVal_lc_congr t r r' c base hs hb h

/-- `lc_recomputed`: the shadow columns are not exported; whatever subset `keep` of the columns is
    exported, as long as it contains the base column, the shadow column has the same value on the
    re-imported row as on the original row. -/
theorem lc_recomputed (t : Table) (r : Row) (c base : Column) (keep : String → Bool)
    (h : ∀ p ∈ r.cells, ∃ c j, t.col? p.1 = some c ∧ c.storage = .loc ∧ p.2 = coerce c.dtype j)
    (hs : hasSuffix c.name "_lc" = true) (hb : t.col? (trimSuffix c.name "_lc") = some base)
    (hk : keep base.name = true) :
    localVal t (coerceRow t (exported { cells := r.cells.filter (fun p => keep p.1) })) c =
      localVal t r c := by
  rw [row_roundtrip t _ (fun p hp => h p (List.mem_filter.mp hp).1)]
  exact localVal_lc_congr t _ _ c base hs hb (cell?_filter r keep base.name hk)

/-- `name_lc` of the example host is "alpha" before and after the round trip without `name_lc` -/
example : hasSuffix "name_lc" "_lc" = true ∧
    exHosts.col? (trimSuffix "name_lc" "_lc") = some { name := "name", dtype := .str, storage := .loc } ∧
    (localVal exHosts (coerceRow exHosts exReply) { name := "name_lc", dtype := .str, storage := .loc }).asString
      = "alpha" := by decide

end Lmd.C19
