/- C19 — property theorems (under construction). -/
import Lmd.Sync
namespace Lmd.C19
end Lmd.C19
