import Lmd.Props.C13Run
#print axioms Lmd.C13Run.trace_describes_run
#print axioms Lmd.C13Run.idle_cadence
#print axioms Lmd.C13Run.idle_cadence_events
#print axioms Lmd.C13Run.idle_pass_runs_iff_due
#print axioms Lmd.C13Run.idle_pass_without_run_is_silent
#print axioms Lmd.C13Run.event_trichotomy
#print axioms Lmd.C13Run.failure_keeps_data_only_if_fresh
#print axioms Lmd.C13Run.stale_failure_drops_data
#print axioms Lmd.C13Run.bounded_staleness
#print axioms Lmd.C13Run.status_table
#print axioms Lmd.C13Run.up_not_failed
#print axioms Lmd.C13Run.recovery_run
#print axioms Lmd.C13Run.first_query_after_idle
#print axioms Lmd.C13Run.first_query_refresh
#print axioms Lmd.C13Run.woken_peer_next_pass_runs
#print axioms Lmd.C13Run.query_keeps_awake
