import Lmd.Props.C06
#print axioms Lmd.C01.matchF_eq_sem
