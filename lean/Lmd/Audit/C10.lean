import Lmd.Props.C10
