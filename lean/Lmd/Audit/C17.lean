import Lmd.Props.C17
