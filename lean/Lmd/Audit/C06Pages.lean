import Lmd.Props.C06Pages

#print axioms Lmd.C06Pages.pages_tile_partial
#print axioms Lmd.C06Pages.pages_same_total_partial
#print axioms Lmd.C06Pages.pages_disjoint_partial
#print axioms Lmd.C06Pages.page_with_cut_matches_slice
#print axioms Lmd.C06Pages.limit_ge_total_same
#print axioms Lmd.C06Pages.offset_zero_is_absent
#print axioms Lmd.C06Pages.limit_zero_same_total
#print axioms Lmd.C06Pages.offset_beyond_result
#print axioms Lmd.C06Pages.cmpKeys_single_mirror
#print axioms Lmd.C06Pages.cmpKeys_lexicographic
#print axioms Lmd.C06Pages.cmpKeys_flip_at
#print axioms Lmd.C06Pages.cmpKeys_all_mirror
#print axioms Lmd.C06Pages.sorted_mirror
#print axioms Lmd.C06Pages.desc_is_reverse_of_asc_partial
#print axioms Lmd.C06Pages.columns_irrelevant
