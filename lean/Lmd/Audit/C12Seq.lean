import Lmd.Props.C12Seq
#print axioms Lmd.C12Seq.sync_sequence_exact
#print axioms Lmd.C12Seq.sync_sequence_origin
#print axioms Lmd.C12Seq.sync_sequence_values
#print axioms Lmd.C12Seq.sync_sequence_history_independent
#print axioms Lmd.C12Seq.sync_reply_order
#print axioms Lmd.C12Seq.sync_sequence_reply_order
#print axioms Lmd.C12Seq.entryStep_comments
#print axioms Lmd.C12Seq.entryStep_downtimes
#print axioms Lmd.C12Seq.lists_follow_sequence
#print axioms Lmd.C12Seq.lists_follow_each_step
#print axioms Lmd.C12Seq.removed_id_in_no_list
#print axioms Lmd.C12Seq.added_id_in_its_object_only
#print axioms Lmd.C12Seq.entries_round_is_entryStep
