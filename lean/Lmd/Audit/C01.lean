import Lmd.Props.C01
#print axioms Lmd.C01.matchF_eq_sem
#print axioms Lmd.C01.allF_eq
#print axioms Lmd.C01.anyF_eq
#print axioms Lmd.C01.matchAll_eq_semList
#print axioms Lmd.C01.nested_negate_counterexample
#print axioms Lmd.C01.gatherRows_scan_eq_filter
#print axioms Lmd.C01.hit_values_unchanged
