import Lmd.Props.C01
#print axioms Lmd.C01.matchF_eq_sem
