import Lmd.Props.C04
#print axioms Lmd.C01.matchF_eq_sem
