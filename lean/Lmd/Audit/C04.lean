import Lmd.Props.C04
#print axioms Lmd.C01.matchF_eq_sem
#print axioms Lmd.C04.peers_eq_filter
#print axioms Lmd.C04.selected_exact
#print axioms Lmd.C04.peers_sublist
#print axioms Lmd.C04.peers_nodup
#print axioms Lmd.C04.peer_ids_nodup
#print axioms Lmd.C04.dup_header
#print axioms Lmd.C04.dup_header_cons
#print axioms Lmd.C04.failed_exact
#print axioms Lmd.C04.failed_down_exact
#print axioms Lmd.C04.mem_failed_iff
#print axioms Lmd.C04.hit_source
#print axioms Lmd.C04.rows_partition
#print axioms Lmd.C04.rows_partition_filter
#print axioms Lmd.C04.hit_from_selected
#print axioms Lmd.C04.others_unaffected
#print axioms Lmd.C04.others_changed_unaffected
