import Lmd.Props.C15
