import Lmd.Props.C03Run
#print axioms Lmd.C03.query_keeps_rows
#print axioms Lmd.C03.updateDelta_keeps_backend
#print axioms Lmd.C03.updateDelta_preserves_aligned
#print axioms Lmd.C03.ScanCond.toStep
#print axioms Lmd.C03.converges_run_partial
#print axioms Lmd.C03.converges_two_runs
#print axioms Lmd.C03.converges_run_then_stays_partial
#print axioms Lmd.C03.scan_progress_step_partial
#print axioms Lmd.C03.scan_progress_finite_partial
