import Lmd.Props.C05Whole
#print axioms Lmd.C05Whole.flat_counting_spec
#print axioms Lmd.C05Whole.flat_counting_code
#print axioms Lmd.C05Whole.flat_counting_grouped
#print axioms Lmd.C05Whole.slot_prints_aggregate
#print axioms Lmd.C05Whole.counter_prints_count
#print axioms Lmd.C05Whole.agg_prints_aggregate
#print axioms Lmd.C05Whole.stats_is_fold_of_data_partial
#print axioms Lmd.C05Whole.stats_is_fold_of_data
#print axioms Lmd.C05Whole.stats_prints_fold_of_data_partial
#print axioms Lmd.C05Whole.stats_groups_of_data_partial
#print axioms Lmd.C05Whole.stats_union_is_merge
#print axioms Lmd.C05Whole.stats_union_is_merge_flat_partial
#print axioms Lmd.C05Whole.slots_union_is_merge
#print axioms Lmd.C05Whole.avg_through_sum_and_count
#print axioms Lmd.C05Whole.stats_perm_rows
#print axioms Lmd.C05Whole.acc_perm_values
#print axioms Lmd.C05Whole.stats_backend_order_partial
