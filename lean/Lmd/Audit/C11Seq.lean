import Lmd.Props.C11Seq
#print axioms Lmd.C11Seq.step_old_or_new
#print axioms Lmd.C11Seq.query_never_rebuilds
#print axioms Lmd.C11Seq.run_served_one_build
#print axioms Lmd.C11Seq.run_served
#print axioms Lmd.C11Seq.inplace_keeps_object_counts
#print axioms Lmd.C11Seq.run_served_object_counts
#print axioms Lmd.C11Seq.status_restart_required
#print axioms Lmd.C11Seq.restart_required_serves_new_set
#print axioms Lmd.C11Seq.status_restart_serves_new_set
#print axioms Lmd.C11Seq.count_restart_serves_new_set
#print axioms Lmd.C11Seq.status_restart_persists
#print axioms Lmd.C11Seq.tick_restart_serves_new_set
