import Lmd.Props.C16Whole
#print axioms Lmd.C16Whole.passthrough_answer_complete
#print axioms Lmd.C16Whole.passthrough_sorted_answer
#print axioms Lmd.C16Whole.passthrough_limit_first_n
#print axioms Lmd.C16Whole.sort_keys_not_in_output
#print axioms Lmd.C16Whole.passthrough_stats_whole
#print axioms Lmd.C16Whole.passthrough_counters_sum
#print axioms Lmd.C16Whole.passthrough_stats_order_independent
#print axioms Lmd.C16Whole.failing_backend_contributes_nothing
