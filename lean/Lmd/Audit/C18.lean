import Lmd.Props.C18
#print axioms Lmd.C18.length_nodes
#print axioms Lmd.C18.quotas_cover
#print axioms Lmd.C18.assignment_partition_general
#print axioms Lmd.C18.assignment_partition
#print axioms Lmd.C18.assignment_count
#print axioms Lmd.C18.assignment_unique
#print axioms Lmd.C18.offline_gets_nothing
#print axioms Lmd.C18.owner_online
#print axioms Lmd.C18.evenness_quota
#print axioms Lmd.C18.evenness
#print axioms Lmd.C18.lengths_eq_quotas
#print axioms Lmd.C18.evenness_remainder
#print axioms Lmd.C18.takeover
#print axioms Lmd.C18.deterministic_view
