import Lmd.Props.C18
