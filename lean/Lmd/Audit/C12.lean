import Lmd.Props.C12
#print axioms Lmd.C12.exEntryTable
#print axioms Lmd.C12.change_detected
#print axioms Lmd.C12.no_monotone_counterexample
#print axioms Lmd.C12.sync_exact
#print axioms Lmd.C12.sync_empty
#print axioms Lmd.C12.sync_remove_newest
#print axioms Lmd.C12.sync_nodup
#print axioms Lmd.C12.lists_follow_tables
#print axioms Lmd.C12.lists_follow
#print axioms Lmd.C12.lists_follow_downtimes
