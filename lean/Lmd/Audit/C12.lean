import Lmd.Props.C12
