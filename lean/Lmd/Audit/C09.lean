import Lmd.Props.C09
#print axioms Lmd.C09.getFloat_total
#print axioms Lmd.C09.coerce_no_crash
#print axioms Lmd.C09.coerceRow_no_crash
#print axioms Lmd.C09.synced_no_crash
#print axioms Lmd.C09.getVal_no_crash_local
#print axioms Lmd.C09.getVal_no_crash_ref
#print axioms Lmd.C09.getVal_virt_crash_iff
#print axioms Lmd.C09.getVal_crash_iff
#print axioms Lmd.C09.stats_no_crash
#print axioms Lmd.C09.stats_no_crash_counted
#print axioms Lmd.C09.stats_no_crash_local
#print axioms Lmd.C09.parse_ok_wellformed
#print axioms Lmd.C09.command_headers_guarded
#print axioms Lmd.C09.session_ends
#print axioms Lmd.C09.init_total
