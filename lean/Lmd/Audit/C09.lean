import Lmd.Props.C09
