import Lmd.Props.C02
