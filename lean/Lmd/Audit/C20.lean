import Lmd.Props.C20
