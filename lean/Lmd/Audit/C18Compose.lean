import Lmd.Props.C18Compose
#print axioms Lmd.C18Compose.believes_after_recompute
#print axioms Lmd.C18Compose.believes_of_lookup
#print axioms Lmd.C18Compose.lookup_of_believes
#print axioms Lmd.C18Compose.believes_after_check
#print axioms Lmd.C18Compose.converged_after_recompute
#print axioms Lmd.C18Compose.converged_after_rounds
#print axioms Lmd.C18Compose.cluster_believes_after_round
#print axioms Lmd.C18Compose.shares_of_believing_view
#print axioms Lmd.C18Compose.shares_of_converged_view
#print axioms Lmd.C18Compose.shares_of_confirmed_view
#print axioms Lmd.C18Compose.converged_shares_partition
#print axioms Lmd.C18Compose.answersLikeSingle_of_partition
#print axioms Lmd.C18Compose.converged_cluster_answers_like_single
#print axioms Lmd.C18Compose.started_cluster_answers_like_single
#print axioms Lmd.C18Compose.node_answer_like_single
