import Lmd.Props.C13
