import Lmd.Props.C05
#print axioms Lmd.C01.matchF_eq_sem
