import Lmd.Props.C10Body

#print axioms Lmd.C10Body.data_rows_width
#print axioms Lmd.C10Body.data_rows_cells
#print axioms Lmd.C10Body.header_row_shape
#print axioms Lmd.C10Body.header_row_sent
#print axioms Lmd.C10Body.json_answer_shape
#print axioms Lmd.C10Body.wrapped_answer_shape
#print axioms Lmd.C10Body.wrapped_keys
#print axioms Lmd.C10Body.total_count_ge_rows
#print axioms Lmd.C10Body.answer_value_format
#print axioms Lmd.C10Body.stats_rows_width
#print axioms Lmd.C10Body.stats_cells_numbers
#print axioms Lmd.C10Body.stats_group_cells_strings
#print axioms Lmd.C10Body.stats_single_row
#print axioms Lmd.C10Body.stats_no_header
#print axioms Lmd.C10Body.value_shape
#print axioms Lmd.C10Body.cell_shape
#print axioms Lmd.C10Body.local_cell_shape
#print axioms Lmd.C10Body.answer_cell_shapes
#print axioms Lmd.C10Body.answer_cells_never_bool
#print axioms Lmd.C10Body.data_answer_framed
#print axioms Lmd.C10Body.data_answer_plain
#print axioms Lmd.C10Body.answer_body_format
#print axioms Lmd.C10Body.error_answer_framed
#print axioms Lmd.C10Body.error_answer_plain
#print axioms Lmd.C10Body.limit_offset_rows
#print axioms Lmd.C10Body.limit_offset_same_source
