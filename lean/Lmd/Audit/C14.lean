import Lmd.Props.C14
