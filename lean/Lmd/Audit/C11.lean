import Lmd.Props.C11
#print axioms Lmd.C11.init_all_or_nothing
#print axioms Lmd.C11.served_old_or_new
#print axioms Lmd.C11.new_set_is_backend
#print axioms Lmd.C11.rebuild_fail_flagged_general
#print axioms Lmd.C11.rebuild_fail_flagged
#print axioms Lmd.C11.restart_detected_status
#print axioms Lmd.C11.restart_detected_count
#print axioms Lmd.C11.restart_stops_list
#print axioms Lmd.C11.restart_rebuilds
#print axioms Lmd.C11.failed_rebuild_remembers_restart
