import Lmd.Props.C11
