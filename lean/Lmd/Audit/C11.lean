import Lmd.Props.C11
import Lmd.Props.C11Seq
#print axioms Lmd.C11.init_all_or_nothing
#print axioms Lmd.C11.served_old_or_new
#print axioms Lmd.C11.new_set_is_backend
#print axioms Lmd.C11.rebuild_fail_flagged_general
#print axioms Lmd.C11.rebuild_fail_flagged
#print axioms Lmd.C11.restart_detected_status
#print axioms Lmd.C11.restart_detected_count
#print axioms Lmd.C11.restart_stops_list
#print axioms Lmd.C11.restart_rebuilds
#print axioms Lmd.C11.failed_rebuild_remembers_restart
#print axioms Lmd.C11Seq.step_old_or_new
#print axioms Lmd.C11Seq.query_never_rebuilds
#print axioms Lmd.C11Seq.run_served_one_build
#print axioms Lmd.C11Seq.run_served
#print axioms Lmd.C11Seq.inplace_keeps_object_counts
#print axioms Lmd.C11Seq.run_served_object_counts
#print axioms Lmd.C11Seq.status_restart_required
#print axioms Lmd.C11Seq.restart_required_serves_new_set
#print axioms Lmd.C11Seq.status_restart_serves_new_set
#print axioms Lmd.C11Seq.count_restart_serves_new_set
#print axioms Lmd.C11Seq.status_restart_persists
#print axioms Lmd.C11Seq.tick_restart_serves_new_set
