import Lmd.Props.C07Whole

#print axioms Lmd.C07Whole.optimized_request_same_answer_partial
#print axioms Lmd.C07Whole.plain_text_parses_alike
#print axioms Lmd.C07Whole.plainValue_of_test
#print axioms Lmd.C07Whole.optimized_request_same_answer_plain
#print axioms Lmd.C07Whole.optimized_request_same_answer_plain_indexed_partial
#print axioms Lmd.C07Whole.code_eq_codeNoCut_without_limit
#print axioms Lmd.C07Whole.earlyCut_nosort_same_rows
#print axioms Lmd.C07Whole.earlyCut_sorted_same_rows
#print axioms Lmd.C07Whole.earlyCut_total_bounds
#print axioms Lmd.C07Whole.optimized_request_same_rows_nosort_plain
