import Lmd.Props.C04Union
#print axioms Lmd.C04Union.answer_is_union
#print axioms Lmd.C04Union.answer_is_union_selected
#print axioms Lmd.C04Union.answer_is_union_sorted
#print axioms Lmd.C04Union.total_is_sum
#print axioms Lmd.C04Union.smaller_header_rows
#print axioms Lmd.C04Union.more_backends_more_rows
#print axioms Lmd.C04Union.header_subset_selected
#print axioms Lmd.C04Union.smaller_header_mem
#print axioms Lmd.C04Union.remove_backend_rows
#print axioms Lmd.C04Union.rows_failed_disjoint
#print axioms Lmd.C04Union.selected_failed_iff
#print axioms Lmd.C04Union.selected_contributes
#print axioms Lmd.C04Union.unknown_backend_entry
#print axioms Lmd.C04Union.unknown_only_no_rows
#print axioms Lmd.C04Union.unread_backends_irrelevant
#print axioms Lmd.C04Union.unread_backends_irrelevant_stats
#print axioms Lmd.C04Union.untouched_wipe
