import Lmd.Props.C19
