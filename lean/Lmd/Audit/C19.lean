import Lmd.Props.C19
#print axioms Lmd.C19.coerce_valJson_roundtrip
#print axioms Lmd.C19.valJson_shape
#print axioms Lmd.C19.number_roundtrip
#print axioms Lmd.C19.row_roundtrip
#print axioms Lmd.C19.exported_eq
#print axioms Lmd.C19.synced_row_roundtrip
#print axioms Lmd.C19.synced_table_roundtrip
#print axioms Lmd.C19.row_roundtrip_setCell
#print axioms Lmd.C19.lc_depends_on_base
#print axioms Lmd.C19.lc_recomputed
