import Lmd.Props.C18Dist
#print axioms Lmd.C18Dist.exPartition
#print axioms Lmd.C18Dist.dist_failed
#print axioms Lmd.C18Dist.dist_total
#print axioms Lmd.C18Dist.dist_window_sorted
#print axioms Lmd.C18Dist.dist_window_nolimit
#print axioms Lmd.C18Dist.dist_window_unsorted
#print axioms Lmd.C18Dist.distStats_eq
#print axioms Lmd.C18Dist.merge_is_monoid_sum
