import Lmd.Props.C08
#print axioms Lmd.C01.matchF_eq_sem
