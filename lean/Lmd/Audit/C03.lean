import Lmd.Props.C03
#print axioms Lmd.C03.tsBlocks_exact
#print axioms Lmd.C03.tsBlocks_count
#print axioms Lmd.C03.tsBlocks_separated
#print axioms Lmd.C03.applyDelta_copies_current
#print axioms Lmd.C03.row_after_cells
#print axioms Lmd.C03.no_tear_step
#print axioms Lmd.C03.delta_success_stamps
#print axioms Lmd.C03.delta_window_used
#print axioms Lmd.C03.delta_reply_window
#print axioms Lmd.C03.windows_contiguous
#print axioms Lmd.C03.fullscan_detects
#print axioms Lmd.C03.fullscan_refetches
