import Lmd.Props.C03
