import Lmd.Props.C16
