import Lmd.Props.C07
#print axioms Lmd.C01.matchF_eq_sem
