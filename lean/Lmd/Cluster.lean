/-
  Lmd.Cluster — `Nodes.redistribute` (pkg/lmd/nodes.go): which node of a cluster is responsible for
  which backend, given which nodes are online.
-/
import Lmd.Basic

namespace Lmd

/-- how many backends each node gets (`assignedNumberBackends`): offline nodes none; when there are at least
    as many online nodes as backends one each, otherwise ⌊B/N⌋ each and one more for the first B mod N online nodes -/
def quotasFrom (base : Nat) : Nat → List Bool → List Nat
  | _, [] => []
  | rem, false :: rest => 0 :: quotasFrom base rem rest
  | 0, true :: rest => base :: quotasFrom base 0 rest
  | rem + 1, true :: rest => (base + 1) :: quotasFrom base rem rest

def quotas (online : List Bool) (nBackends : Nat) : List Nat :=
  let nAvail := (online.filter id).length
  if nAvail ≥ nBackends then online.map fun on => if on then 1 else 0
  else
    -- ⌊B/N⌋ each, the first B mod N online nodes take one more
    quotasFrom (nBackends / nAvail) (nBackends % nAvail) online

/-- hand the backends out consecutively according to the quotas (`assignedBackends`); backends with an empty id are skipped -/
def handOut : List Nat → List String → List (List String)
  | [], _ => []
  | q :: qs, bs => (bs.take q).filter (· != "") :: handOut qs (bs.drop q)

/-- `redistribute`: per node (in configuration order) the backends it is responsible for -/
def redistribute (online : List Bool) (backends : List String) : List (List String) :=
  handOut (quotas online backends.length) backends

end Lmd
