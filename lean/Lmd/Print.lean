/-
  Lmd.Print — `Request.String` / `Filter.String` / `strValue` of pkg/lmd/{request,filter}.go: the
  textual Livestatus form lmd generates from a parsed request (queries to backends, pass-through
  tables, cluster sub-requests).
-/
import Lmd.Parse

namespace Lmd

/-- `regexp.QuoteMeta` -/
def quoteMeta (s : String) : String :=
  String.ofList (s.toList.flatMap fun c =>
    if ['\\', '.', '+', '*', '?', '(', ')', '|', '[', ']', '{', '}', '^', '$'].contains c then ['\\', c] else [c])

def Op.isContains : Op → Bool
  | .ct | .nct | .ctNc | .nctNc => true
  | _ => false

/-- `Filter.strValue`; substring matches are printed with regular-expression operators, so their text is quoted -/
def Leaf.strValue (l : Leaf) : String :=
  if l.isEmpty then l.tag
  else
    let v := if l.op.isContains then quoteMeta l.sval else l.sval
    let full := if l.col.dtype == .customVar then l.tag ++ " " ++ v else v
    -- a blank at the end of the line would be lost by the next parse; the parser removes the ".*" again
    let full := if l.op.isContains && (full.toList.getLast?.map isGoSpace).getD false then full ++ ".*" else full
    if l.op.isContains && l.col.dtype != .customVar && (full.toList.head?.map isGoSpace).getD false then ".*" ++ full else full

/-- one leaf line: `<prefix>: <column> <op>[ <value>]` -/
def Leaf.printLine (kw : String) (l : Leaf) : String :=
  let v := l.strValue
  -- filters on the internal lower-case columns stem from case-insensitive filters and are printed as such;
  -- operators without a case-insensitive counterpart keep the lower-case column
  let (name, op) :=
    if hasSuffix l.col.name "_lc" && l.sval == goLower l.sval then
      (match l.op with
       | .eq => (trimSuffix l.col.name "_lc", "=~")
       | .ne => (trimSuffix l.col.name "_lc", "!=~")
       | .ct | .re => (trimSuffix l.col.name "_lc", "~~")
       | .nct | .nre => (trimSuffix l.col.name "_lc", "!~~")
       | o => (l.col.name, o.text))
    else (l.col.name, l.op.text)
  kw ++ ": " ++ name ++ " " ++ op ++ (if v == "" then "" else " " ++ v) ++ "\n"

mutual
  /-- `Filter.String(prefix)` for filter trees; `stats = true` prints the Stats flavour of the keywords -/
  def Filter.print (stats : Bool) : Filter → String
    | .leaf l n =>
      l.printLine (if stats then "Stats" else "Filter") ++ (if n then (if stats then "StatsNegate:\n" else "Negate:\n") else "")
    | .grp isAnd fs n =>
      match fs with
      | [] => ""     -- a group without members cannot be built by the parser
      | _ =>
        Filter.printList stats fs ++ (if stats then "Stats" else "") ++ (if isAnd then "And" else "Or") ++ ": " ++ toString fs.length ++ "\n"
          ++ (if n then (if stats then "StatsNegate:\n" else "Negate:\n") else "")
  def Filter.printList (stats : Bool) : List Filter → String
    | [] => ""
    | f :: fs => Filter.print stats f ++ Filter.printList stats fs
end

def AggKind.text : AggKind → String
  | .avg => "avg" | .sum => "sum" | .min => "min" | .max => "Max"

def StatsEntry.print : StatsEntry → String
  | .counter f => f.print true
  | .agg k c n => "Stats: " ++ k.text ++ " " ++ c.name ++ "\n" ++ (if n then "StatsNegate:\n" else "")

def OutFmt.text : OutFmt → String
  | .dflt | .json => "json" | .wrapped => "wrapped_json" | .python => "python" | .python3 => "python3"

/-- `Request.String` for GET requests -/
def Request.print (req : Request) : String :=
  "GET " ++ req.table ++ "\n"
  ++ (if req.fixed16 then "ResponseHeader: fixed16\n" else "")
  ++ (if req.outFmt != .dflt then "OutputFormat: " ++ req.outFmt.text ++ "\n" else "")
  ++ (if req.columns.isEmpty then "" else "Columns: " ++ joinWith " " req.columns ++ "\n")
  ++ (if req.backends.isEmpty then "" else "Backends: " ++ joinWith " " req.backends ++ "\n")
  ++ (match req.limit with | some l => "Limit: " ++ toString l ++ "\n" | none => "")
  ++ (if req.offset > 0 then "Offset: " ++ toString req.offset ++ "\n" else "")
  ++ (if req.colHeaders then "ColumnHeaders: on\n" else "")
  ++ (if req.keepAlive then "KeepAlive: on\n" else "")
  ++ Filter.printList false req.filter
  ++ String.join (req.stats.map StatsEntry.print)
  ++ (if req.waitTrigger != "" then "WaitTrigger: " ++ req.waitTrigger ++ "\n" else "")
  ++ (if req.waitObject != "" then "WaitObject: " ++ req.waitObject ++ "\n" else "")
  ++ (if req.waitTimeout > 0 then "WaitTimeout: " ++ toString req.waitTimeout ++ "\n" else "")
  ++ (if req.waitConditionNegate then "WaitConditionNegate:\n" else "")
  ++ (if req.authUser != "" then "AuthUser: " ++ req.authUser ++ "\n" else "")
  -- wait conditions (single terms; groups of them are outside the modelled requests) come behind the user
  ++ String.join (req.waitCondition.map fun f => match f with
      | .leaf l _ => l.printLine "WaitCondition"
      | .grp .. => "")
  ++ String.join (req.sort.map fun sf => "Sort: " ++ sf.name ++ (if sf.args != "" then " " ++ sf.args else "") ++ " " ++ (if sf.desc then "desc" else "asc") ++ "\n")
  ++ "\n"

end Lmd
