/-
  Lmd.Frame — response framing (`Response.send`: the fixed16 header and the trailing newline) and the
  keep-alive loop of a client connection (`ClientConnection.answer` / `processRequests`) as a fold over
  the requests read from the connection.
-/
import Lmd.Basic

namespace Lmd

/-- left-pad with spaces to a width (`%11d`) -/
def padLeft (width : Nat) (s : String) : String :=
  String.ofList (List.replicate (width - s.length) ' ') ++ s

/-- `fmt.Sprintf("%d %11d", code, size+1) + "\n"`: the 16 byte status line; `size` = bytes of the body
    before the trailing newline -/
def fixed16Header (code size : Nat) : String :=
  toString code ++ " " ++ padLeft 11 (toString (size + 1)) ++ "\n"

/-- the bytes `Response.send` writes for a body (as a character list of single-byte characters) -/
def sendBytes (fixed16 : Bool) (code : Nat) (body : String) : String :=
  (if fixed16 then fixed16Header code body.utf8ByteSize else "") ++ body ++ "\n"

/-- what the connection loop sees of one request on the wire -/
structure WireReq where
  parses : Bool        -- `NewRequest` accepted it
  keepAlive : Bool     -- it carried `KeepAlive: on`
  deriving Repr, DecidableEq, Inhabited

inductive Action
  | answer (i : Nat)   -- the i-th request is answered (success or error response with its own framing)
  | parseError (i : Nat)  -- the i-th request does not parse: one plain error text, then the connection ends
  deriving Repr, DecidableEq, Inhabited

/-- `ClientConnection.answer`: requests are read one at a time; a request that does not parse is answered
    with an error text and ends the loop; a request without `KeepAlive: on` is answered and ends the loop -/
def sessionPlan : Nat → List WireReq → List Action
  | _, [] => []
  | i, r :: rest =>
    if !r.parses then [Action.parseError i]
    else if r.keepAlive then Action.answer i :: sessionPlan (i + 1) rest
    else [Action.answer i]

end Lmd
