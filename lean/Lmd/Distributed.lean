/-
  Lmd.Distributed — cluster mode (pkg/lmd/nodes.go, request.go):
  * what a node knows about the cluster and how `checkNodeAvailability` updates it (`NodeView.check`),
  * how a request that concerns backends of several nodes is answered: `getDistributedResponse`,
    `buildDistributedRequestData`, `mergeDistributedResponse`, `PostProcessing` / `CalculateFinalStats`
    (`distData`, `distStats`).
  Nodes are identified by their position in the configured node list.
-/
import Lmd.Cluster
import Lmd.Query
import Lmd.Stats

namespace Lmd

/-! ## the view of a node -/

/-- `Nodes`: what one node believes about the cluster -/
structure NodeView where
  own : Nat
  nNodes : Nat
  online : List Nat := []                          -- `onlineNodes`, ascending positions (this node included)
  seen : List (Nat × Nat) := []                    -- partner ↦ the identifier it answered with last (`NodeAddress.id`)
  nodeBackends : List (Nat × List String) := []    -- `nodeBackends`
  assigned : List String := []                     -- `assignedBackends`
  deriving Repr, Inhabited, DecidableEq

/-- a partner that answered the ping: its identifier and its own `assignedBackends` (`none`: JSON null) -/
structure PingReply where
  pos : Nat
  ident : Nat
  peers : Option (List String)
  deriving Repr, Inhabited, DecidableEq

def onlineFlags (n : Nat) (online : List Nat) : List Bool := (List.range n).map online.contains

def setEntry (m : List (Nat × List String)) (k : Nat) (v : List String) : List (Nat × List String) :=
  m.filter (·.1 != k) ++ [(k, v)]

/-- did this partner answer with another identifier than last time? (`partner node restarted`) -/
def restarted (seen : List (Nat × Nat)) (r : PingReply) : Bool :=
  match seen.lookup r.pos with
  | some g => g != r.ident
  | none => false

/-- the shares `redistribute` computes for a set of reachable nodes, and the `nodeBackends` map it stores: an entry for
    every node with a quota -/
def sharesOf (nNodes : Nat) (online : List Nat) (backends : List String) : List (List String) :=
  redistribute (onlineFlags nNodes online) backends

def mapOfShares (nNodes : Nat) (online : List Nat) (backends : List String) : List (Nat × List String) :=
  let qs := quotas (onlineFlags nNodes online) backends.length
  let shares := sharesOf nNodes online backends
  (List.range nNodes).filterMap fun i => if qs.getD i 0 > 0 then some (i, shares.getD i []) else none

/-- `checkNodeAvailability`: `replies` are the partners that answered (any order).  A restarted partner loses its entry and
    forces a new distribution; every partner's own list replaces what this node believed about it; the distribution is
    computed anew when it was forced or the set of reachable nodes changed. -/
def NodeView.check (v : NodeView) (backends : List String) (replies : List PingReply) : NodeView :=
  let forced := replies.any (restarted v.seen)
  let nb := replies.foldl (fun m r => if restarted v.seen r then m.filter (·.1 != r.pos) else m) v.nodeBackends
  let nb := replies.foldl (fun m r => match r.peers with
    | some l => setEntry m r.pos l
    | none => m) nb
  let seen := replies.foldl (fun s r => s.filter (·.1 != r.pos) ++ [(r.pos, r.ident)]) v.seen
  let newOnline := (v.own :: replies.map (·.pos)).mergeSort (fun a b => a ≤ b)
  let v := { v with seen := seen, nodeBackends := nb }
  if forced || newOnline != v.online then
    { v with online := newOnline, nodeBackends := mapOfShares v.nNodes newOnline backends,
             assigned := (sharesOf v.nNodes newOnline backends).getD v.own [] }
  else v

/-! ## distributed requests -/

/-- `getSubBackends`: the backends of a node's share the request asks for -/
def subBackends (req : Request) (share : List String) : List String :=
  share.filter fun b => b != "" && (req.backends.isEmpty || req.backends.contains b)

/-- `buildDistributedRequestData`: the request a node answers for its share: no offset, the limit extended by the offset
    (a limit of 0 is not passed on) -/
def subRequestFor (req : Request) (sub : List String) : Request :=
  { req with backends := sub, offset := 0,
             limit := match req.limit with
               | some l => if l != 0 then some (l + req.offset) else none
               | none => none }

/-- a data request: every node with a share answers its sub request, the asked node merges the rows, sorts them with the
    keys of the request, adds up the totals and cuts the window -/
def distData (m : EvalMode) (s : Schema) (ds : Dataset) (t : Table) (req : Request) (shares : List (List String)) : DataResult :=
  let sel := selectBackends ds t req
  let parts := shares.filterMap fun share =>
    let sub := subBackends req share
    if sub.isEmpty then none else some (dataQuery m s ds t (subRequestFor req sub))
  let rows := parts.flatMap (·.hits)
  let total := (parts.map (·.total)).foldl (· + ·) 0
  let failed := sel.failed ++ parts.flatMap (·.failed)
  let dirs := req.sort.map (·.desc)
  let sorted := if req.sort.isEmpty then rows else rows.mergeSort (Hit.le dirs)
  let everything := parts.flatMap (·.pool)
  let pool := if req.sort.isEmpty then everything else everything.mergeSort (Hit.le dirs)
  let afterOffset := if req.offset > total then [] else sorted.drop req.offset
  let window := match req.limit with
    | some l => afterOffset.take l
    | none => afterOffset
  { hits := window, pool := pool, total := total, failed := failed }

/-- `mergeDistributedResponse` for Stats: every reply row is applied to a fresh copy of the accumulators of its key -/
def mergeDist (kinds : List AccKind) (acc : StatsMap) (rows : StatsMap) : StatsMap :=
  rows.foldl (fun acc (key, slots) =>
    let cur := match acc.find? (·.1 == key) with
      | some (_, c) => c
      | none => kinds.map Acc.init
    let new := (cur.zip slots).map fun (c, s) => c.apply s.stats s.count
    if acc.any (·.1 == key) then acc.map (fun (k, c) => if k == key then (k, new) else (k, c))
    else acc ++ [(key, new)]) acc

def distStats (m : StatsMode) (s : Schema) (ds : Dataset) (t : Table) (req : Request) (shares : List (List String)) : StatsResult :=
  let sel := selectBackends ds t req
  let parts := shares.filterMap fun share =>
    let sub := subBackends req share
    if sub.isEmpty then none else some (statsQuery m s ds t { req with backends := sub })
  let failed := sel.failed ++ parts.flatMap (·.failed)
  if parts.any (·.crash) then { rows := [], failed := failed, crash := true }
  else
    let kinds := req.stats.map (·.accKind)
    let merged := parts.foldl (fun acc p => mergeDist kinds acc p.rows) []
    let merged := if req.columns.isEmpty && merged.isEmpty then [("", kinds.map Acc.init)] else merged
    { rows := merged, failed := failed }

end Lmd
