/-
  Lmd.Reload — what a configuration reload (SIGHUP → `mainLoop` runs again → `initializePeers`,
  `initializeListeners`, pkg/lmd/main.go) does to the peer map and the listeners.

  A connection whose definition is unchanged (`Connection.Equals`) keeps its `Peer` object - and with it the cache,
  the counters and the running update loop; every other configured connection gets a new `Peer`; peers of
  connections that are no longer configured are dropped; the order of the peer map is the order of the configuration.
  A `Peer` object is identified by a generation number (a fresh one for every `NewPeer`).
-/
import Lmd.Basic

namespace Lmd

/-- a configured connection, as far as `Connection.Equals` compares it here -/
structure Conn where
  id : String
  name : String
  sources : List String
  flags : List String
  deriving DecidableEq, Repr, Inhabited

inductive Decision
  | keep (gen : Nat)       -- the existing peer object stays
  | create (gen : Nat)     -- a new peer object is made (and synchronised from its source)
  deriving DecidableEq, Repr, Inhabited

def Decision.gen : Decision → Nat
  | .keep g => g
  | .create g => g

/-- `initializePeers`: the decision for every configured connection, in configuration order, and the next free
    generation number -/
def reloadPlan (old : List (Conn × Nat)) : List Conn → Nat → List (Conn × Decision) × Nat
  | [], next => ([], next)
  | c :: rest, next =>
    match old.find? (fun (o : Conn × Nat) => o.1.id == c.id) with
    | some (o, g) =>
      if o = c then
        let (ds, n) := reloadPlan old rest next
        ((c, .keep g) :: ds, n)
      else
        let (ds, n) := reloadPlan old rest (next + 1)
        ((c, .create next) :: ds, n)
    | none =>
      let (ds, n) := reloadPlan old rest (next + 1)
      ((c, .create next) :: ds, n)

/-- the peer map after the reload -/
def reloadResult (old : List (Conn × Nat)) (conns : List Conn) (next : Nat) : List (Conn × Nat) × Nat :=
  let (ds, n) := reloadPlan old conns next
  (ds.map fun (c, d) => (c, d.gen), n)

/-- `initializeListeners`: listeners that are still configured stay open, the others are closed, new ones are opened -/
structure ListenerPlan where
  kept : List String
  opened : List String
  closed : List String
  deriving DecidableEq, Repr, Inhabited

def reloadListeners (old new : List String) : ListenerPlan :=
  let new := new.eraseDups
  { kept := new.filter old.contains, opened := new.filter (fun l => !old.contains l), closed := old.filter (fun l => !new.contains l) }

/-- the listeners that are open afterwards -/
def ListenerPlan.nowOpen (p : ListenerPlan) : List String := p.kept ++ p.opened

end Lmd
