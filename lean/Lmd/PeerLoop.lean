/-
  Lmd.PeerLoop — the update loop body of a peer (`periodicUpdate` + `initTablesIfRestartRequiredError`),
  `UpdateFull`, the timeperiod refresh, `handleBrokenPeer`, idle handling and what a client query does
  to a peer (`prepareResponse` / `SpinUpPeers` / `ResumeFromIdle`).
-/
import Lmd.Peer

namespace Lmd

/-- `UpdateFullTable` for hosts / services goes through `prepareDataUpdateSet` like a delta reply of all objects -/
def updateFullObjects (w : World) (now : Int) (p : PeerSt) (b : BackendSt) (c : Cache) (tname : String) : DeltaResult :=
  let tab := (w.schema.table? tname).getD { name := tname, cols := [] }
  let (p, b, e) := query w now p b
  match e with
  | some _ => { p := p, b := b, cache := c, err := .failed "full" }
  | none =>
    let cached := c.get tname
    if (b.rows tname).length != cached.length then { p := p, b := b, cache := c, err := .restartRequired }
    else
      match applyDelta w p.flags tab cached (b.rows tname) with
      | none => { p := p, b := b, cache := c, err := .failed "unknown object" }
      | some rows => { p := p, b := b, cache := c.set tname rows, err := .none }

/-- timeperiods: a change of the `in` flag refreshes the hosts and services that use the period -/
def updateTimeperiods (w : World) (now : Int) (p : PeerSt) (b : BackendSt) (c : Cache) : DeltaResult :=
  let tab := (w.schema.table? "timeperiods").getD { name := "timeperiods", cols := [] }
  let dyn := dynamicCols w.schema p.flags "timeperiods"
  let (p, b, e) := query w now p b
  match e with
  | some _ => { p := p, b := b, cache := c, err := .failed "timeperiods" }
  | none =>
    let reply := (b.rows "timeperiods").map (fun r => (coerceRow tab r, r)) |>.mergeSort (fun a b => keyLe tab a.1 b.1) |>.map (·.2)
    let cached := c.get "timeperiods"
    if reply.length != cached.length then { p := p, b := b, cache := c, err := .restartRequired }
    else
      let changed := ((cached.zip reply).filter fun (old, r) =>
        dyn.any (fun col => match col.dtype with
          | .int => checkInt8 (replyInt r col.name) != old.int col.name
          | .int64 => replyInt r col.name != old.int col.name
          | _ => false)).map (fun (old, _) => old.str tab "name")
      let c := c.set "timeperiods" ((cached.zip reply).map fun (old, r) => updateRow dyn true old r)
      -- `UpdateFullTable(timeperiods)` remembers the minute of the refresh
      let p := { p with lastTpMinute := (now / 60) % 60 }
      -- refresh the objects that use a changed period (one query per table and period, no full scan)
      let rec periods : List String → PeerSt → BackendSt → Cache → DeltaResult
        | [], p, b, c => { p := p, b := b, cache := c, err := .none }
        | name :: rest, p, b, c =>
          let one := fun (p : PeerSt) (b : BackendSt) (c : Cache) (tname : String) =>
            let t := (w.schema.table? tname).getD { name := tname, cols := [] }
            let (p, b, e) := query w now p b
            match e with
            | some _ => ({ p := p, b := b, cache := c, err := .failed "period refresh" } : DeltaResult)
            | none =>
              let rows := (b.rows tname).filter (fun r => replyStr r "check_period" == name || replyStr r "notification_period" == name)
              match applyDelta w p.flags t (c.get tname) rows with
              | none => { p := p, b := b, cache := c, err := .failed "unknown object" }
              | some rs => { p := p, b := b, cache := c.set tname rs, err := .none }
          let r := one p b c "hosts"
          match r.err with
          | .none =>
            let r := one r.p r.b r.cache "services"
            match r.err with
            | .none => periods rest r.p r.b r.cache
            | _ => r
          | _ => r
      periods changed p b c

/-- `UpdateFullTablesList` -/
def updateFullList (w : World) (now : Int) : List String → PeerSt → BackendSt → Cache → DeltaResult
  | [], p, b, c => { p := p, b := b, cache := c, err := .none }
  | t :: ts, p, b, c =>
    let r :=
      if t == "timeperiods" then updateTimeperiods w now p b c
      else if t == "hosts" || t == "services" then updateFullObjects w now p b c t
      else updateFullTable w now p b c t
    match r.err with
    | .none => updateFullList w now ts r.p r.b r.cache
    | _ => r

structure TickResult where
  p : PeerSt
  b : BackendSt
  ran : Bool
  err : StepErr

def withCache (r : DeltaResult) : PeerSt :=
  -- a failure may have dropped the data (stale) or marked the peer broken; otherwise the updated tables are in place
  if r.p.cache.isSome then { r.p with cache := some r.cache } else r.p

/-- `handleBrokenPeer` -/
def handleBroken (w : World) (now : Int) (p : PeerSt) (b : BackendSt) : InitResult :=
  let (p, b, e) := query w now p b
  match e with
  | some _ => { p := p, b := b, err := .failed "waiting for reload" }
  | none =>
    if p.lastFullUpdate < now - 300 then initAllTables w now p b
    else
      match b.rows "status" with
      | st :: _ =>
        if replyInt st "program_start" != p.programStart || replyInt st "nagios_pid" != p.corePid then initAllTables w now p b
        else { p := p, b := b, err := .failed "waiting for peer to recover" }
      | [] => { p := p, b := b, err := .failed "unknown result" }

/-- `periodicUpdate` followed by `initTablesIfRestartRequiredError` -/
def tick (w : World) (now : Int) (p : PeerSt) (b : BackendSt) : TickResult :=
  let lastUpdate := p.lastUpdate
  -- `periodicUpdate` reads the status and the data pointer once, at the top: a failure later in the same
  -- run (which may drop the data and set Down) does not change the path taken, the run goes on with the detached set
  let status0 := p.status
  let cache0 := p.cache
  -- updateIdleStatus
  let shouldIdle := (p.lastQuery == 0 && w.mainRestart < now - w.cfg.idleTimeout) || (p.lastQuery > 0 && p.lastQuery < now - w.cfg.idleTimeout)
  let p := if !p.idling && shouldIdle then { p with idling := true } else p
  let minute := (now / 60) % 60
  let finish := fun (p : PeerSt) (b : BackendSt) (ran : Bool) (err : StepErr) =>
    match err with
    | .restartRequired =>
      let r := initAllTables w now p b
      ({ p := r.p, b := r.b, ran := ran, err := r.err } : TickResult)
    | e => { p := p, b := b, ran := ran, err := e }
  -- timeperiods, host and service groups once per minute
  let tp : Option TickResult × PeerSt × BackendSt × Option Cache :=
    match cache0 with
    | some c =>
      if !p.idling && p.lastTpMinute != minute then
        let p := { p with lastTpMinute := minute }
        let r := updateFullList w now ["timeperiods", "hostgroups", "servicegroups"] p b c
        match r.err with
        | .none =>
          let p := withCache r
          let hasLt := (p.flags &&& flagBit w.schema "HasLocaltimeColumn") != 0
          let (p, b, e) := if hasLt then query w now p r.b else (p, r.b, none)
          (match e with
           | some _ => (some (finish p b false (.failed "localtime")), p, b, some r.cache)
           | none => (none, p, b, some r.cache))
        | e => (some (finish (withCache r) r.b false e), r.p, r.b, some r.cache)
      else (none, p, b, some c)
    | none => (none, p, b, none)
  match tp with
  | (some res, _, _, _) => res
  | (none, p, b, cache1) =>
    let nextUpdate := lastUpdate + (if p.idling then w.cfg.idleInterval else w.cfg.updateInterval)
    if now < nextUpdate then { p := p, b := b, ran := false, err := .none }
    else
      let p := { p with lastUpdate := now }
      let doInit := fun (p : PeerSt) (b : BackendSt) =>
        let r := initAllTables w now p b
        finish r.p r.b true r.err
      let doDelta := fun (p : PeerSt) (b : BackendSt) (c : Cache) (fromT : Int) =>
        let r := updateDelta w now p b c fromT
        finish (withCache r) r.b true r.err
      match status0 with
      | .broken =>
        let r := handleBroken w now p b
        finish r.p r.b true r.err
      | .down | .pending => doInit p b
      | .warning =>
        (match cache1 with
         | none => doInit p b
         | some c => doDelta p b c lastUpdate)
      | .up | .syncing =>
        (match cache1 with
         | none => doInit p b
         | some c =>
           if !p.idling && w.cfg.fullUpdateInterval > 0 && now > p.lastFullUpdate + w.cfg.fullUpdateInterval then
             let r := updateFullList w now updateTables p b c
             match r.err with
             | .none =>
               let p := withCache r
               if r.p.cache.isNone then finish p r.b true (.failed "peer went offline during the update")
               else finish { (p.recovered now) with lastUpdate := now, lastFullUpdate := now } r.b true .none
             | e => finish (withCache r) r.b true e
           else
             let (fromT, p) := if p.forceFull then ((0 : Int), { p with forceFull := false }) else (lastUpdate, p)
             doDelta p b c fromT)

/-- what a client query on a cached (non virtual) table does to a selected peer before it is answered -/
def clientQuery (w : World) (now : Int) (p : PeerSt) (b : BackendSt) : PeerSt × BackendSt :=
  if p.idling then
    let p := { p with lastQuery := now, idling := false }
    -- ResumeFromIdle
    let (p, b) :=
      match p.status, p.cache with
      | .up, some c =>
        let r := updateFullList w now ["timeperiods"] p b c
        (match r.err with
         | .none =>
           let p := withCache r
           (match p.cache with
            | some c' =>
              let r2 := updateDelta w now p r.b c' p.lastUpdate
              (withCache r2, r2.b)
            | none => (p, r.b))
         | _ => (withCache r, r.b))
      | _, _ => ({ p with lastUpdate := now - w.cfg.updateInterval }, b)
    ({ p with lastQuery := now }, b)
  else ({ p with lastQuery := now }, b)

end Lmd
