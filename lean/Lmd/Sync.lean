/-
  Lmd.Sync — the initial synchronisation of one backend: `CreateObjectByType` (rows sorted by primary
  key with `ResultSet.SortByPrimaryKey`, then `DataStore.InsertData` with the `interface2*` coercions of
  `Lmd.coerce`) and `buildDowntimeCommentsList` (the comment / downtime id lists of hosts and services).
-/
import Lmd.Store

namespace Lmd
open Lean (Json)

/-- one row of a backend reply: the requested columns paired with the delivered JSON values -/
abbrev ReplyRow := List (String × Json)

/-- `NewDataRow` / `UpdateValues`: coerce the delivered values of the locally stored columns -/
def coerceRow (t : Table) (r : ReplyRow) : Row :=
  { cells := r.filterMap fun (n, j) =>
      match t.col? n with
      | some c => if c.storage == .loc then some (n, coerce c.dtype j) else none
      | none => none }

/-- one primary-key component for sorting (`ResultSetSorted.Less`): numeric columns compare as numbers, strings bytewise -/
inductive KeyPart
  | num (m : Int)
  | str (s : String)
  deriving DecidableEq, Repr, Inhabited

def keyPartOf (t : Table) (r : Row) (n : String) : KeyPart :=
  match t.col? n with
  | some c =>
    match c.dtype, localVal t r c with
    | .int, .i v | .int64, .i v => .num (v * 1000)
    | .float, .f m => .num m
    | _, v => .str v.asString
  | none => .str ""

def cmpKeyPart : KeyPart → KeyPart → Ordering
  | .num a, .num b => compare a b
  | .str a, .str b => compare a b
  | _, _ => .eq

def cmpKeyParts : List KeyPart → List KeyPart → Ordering
  | a :: as, b :: bs =>
    match cmpKeyPart a b with
    | .eq => cmpKeyParts as bs
    | o => o
  | _, _ => .eq

def Row.sortKey (t : Table) (r : Row) : List KeyPart := t.primaryKey.map (keyPartOf t r)

/-- the order `SortByPrimaryKey` establishes -/
def keyLe (t : Table) (a b : Row) : Bool := cmpKeyParts (a.sortKey t) (b.sortKey t) != .gt

/-- `CreateObjectByType`: what the cache holds for a table after the initial fetch -/
def syncTable (t : Table) (reply : List ReplyRow) : List Row :=
  let rows := reply.map (coerceRow t)
  if t.primaryKey.isEmpty then rows else rows.mergeSort (keyLe t)

/-- ids (column `id`) of the entries of a comments/downtimes store attached to host `h` / service `(h, s)`, in store order -/
def attachedIds (entries : List Row) (host service : String) : List Int :=
  (entries.filter fun e =>
    (match e.cell? "host_name" with | some (.s v) => v | _ => "") == host &&
    (match e.cell? "service_description" with | some (.s v) => v | _ => "") == service).map (·.int "id")

def Row.setCell (r : Row) (n : String) (v : Val) : Row :=
  { cells := (r.cells.filter (·.1 != n)) ++ [(n, v)] }

/-- `buildDowntimeCommentsList name`: rewrite the `comments` / `downtimes` id list of every host and service -/
def buildIdLists (name : String) (entries hosts services : List Row) : List Row × List Row :=
  let hs := hosts.map fun h =>
    h.setCell name (.il (attachedIds entries (match h.cell? "name" with | some (.s v) => v | _ => "") ""))
  let ss := services.map fun s =>
    let hn := match s.cell? "host_name" with | some (.s v) => v | _ => ""
    let d := match s.cell? "description" with | some (.s v) => v | _ => ""
    -- a service with an empty description can never be addressed: entries with service_description "" belong to the host
    s.setCell name (.il (if d == "" then [] else attachedIds entries hn d))
  (hs, ss)

/-- the complete cache of one backend after `InitAllTables` -/
def syncBackend (s : Schema) (tables : List (String × List ReplyRow)) : List (String × List Row) :=
  let synced := tables.map fun (n, reply) => (n, syncTable ((s.table? n).getD { name := n, cols := [] }) reply)
  let get := fun n => match synced.find? (·.1 == n) with | some (_, rs) => rs | none => []
  let (h1, s1) := buildIdLists "comments" (get "comments") (get "hosts") (get "services")
  let (h2, s2) := buildIdLists "downtimes" (get "downtimes") h1 s1
  synced.map fun (n, rs) => if n == "hosts" then (n, h2) else if n == "services" then (n, s2) else (n, rs)

end Lmd
