/-
  Lmd.Query — answering a parsed request on a dataset: backend selection (`ExpandRequestedBackends`,
  `prepareResponse`), index pre-selection (`GetPreFilteredData` / `TryFilterIndex`), the row loop of
  `gatherResultRows` (filter, auth, limit), sorting and windowing (`RawResultSet.PostProcessing`),
  authorisation (`checkAuth`), and the same pipeline without any optimisation as the specification.
-/
import Lmd.Parse
import Lmd.Store

namespace Lmd
open Lean (Json)

/-! ## Authorisation (`DataRow.checkAuth`) -/

/-- `isAuthorizedFor(authUser, host, service)` -/
def isAuthorizedFor (cx : Ctx) (user host service : String) : Bool :=
  let hostPart : Option Bool :=
    if service == "" || cx.ds.serviceAuthLoose then
      match findByKey (cx.table "hosts") (cx.b.rows "hosts") [host] with
      | none => some false                -- host not found: not authorised (returns early)
      | some h => if (h.strList "contacts").contains user then some true else none
    else none
  match hostPart with
  | some b => b
  | none =>
    if service != "" then
      match findByKey (cx.table "services") (cx.b.rows "services") [host, service] with
      | none => false
      | some s => (s.strList "contacts").contains user
    else false

/-- the loop of `isAuthorizedForHostGroup` / `...ServiceGroup` over the members, with the
    "return true on the last index" formulation of strict mode -/
def groupLoop (loose : Bool) (auth : α → Bool) : List α → Bool
  | [] => false
  | [m] => auth m
  | m :: ms => if loose then (auth m || groupLoop loose auth ms) else (auth m && groupLoop loose auth ms)

def isAuthorizedForHostGroup (cx : Ctx) (user group : String) : Bool :=
  match findByKey (cx.table "hostgroups") (cx.b.rows "hostgroups") [group] with
  | none => false
  | some g => groupLoop cx.ds.groupAuthLoose (fun h => isAuthorizedFor cx user h "") (g.strList "members")

def Row.members (r : Row) (n : String) : List (String × String) :=
  match r.cell? n with
  | some (.ml v) => v
  | _ => []

def isAuthorizedForServiceGroup (cx : Ctx) (user group : String) : Bool :=
  match findByKey (cx.table "servicegroups") (cx.b.rows "servicegroups") [group] with
  | none => false
  | some g => groupLoop cx.ds.groupAuthLoose (fun (m : String × String) => isAuthorizedFor cx user m.1 m.2) (g.members "members")

/-- `DataRow.checkAuth` -/
def checkAuth (cx : Ctx) (t : Table) (user : String) (r : Row) : Bool :=
  if user == "" then true
  else
    let s := fun n => r.str t n
    match t.name with
    | "hosts" => isAuthorizedFor cx user (s "name") ""
    | "services" => isAuthorizedFor cx user (s "host_name") (s "description")
    | "hostgroups" => isAuthorizedForHostGroup cx user (s "name")
    | "servicegroups" => isAuthorizedForServiceGroup cx user (s "name")
    | "hostsbygroup" => isAuthorizedFor cx user (s "name") "" && isAuthorizedForHostGroup cx user (s "hostgroup_name")
    | "servicesbygroup" =>
      isAuthorizedFor cx user (s "host_name") (s "description") && isAuthorizedForServiceGroup cx user (s "servicegroup_name")
    | "servicesbyhostgroup" =>
      isAuthorizedFor cx user (s "host_name") (s "description") && isAuthorizedForHostGroup cx user (s "hostgroup_name")
    | "downtimes" | "comments" => isAuthorizedFor cx user (s "host_name") (s "service_description")
    | _ => true

/-! ## Index pre-selection (`GetPreFilteredData`) -/

/-- `indexLowerCase[lower]`: names whose lower-case form is `lower` and which differ from it (hosts only) -/
def lowerIndex (names : List String) (lower : String) : List String :=
  names.filter (fun n => goLower n == lower && goLower n != n)

inductive IndexKind | hosts | services | primary
  deriving DecidableEq

/-- the keys one leaf contributes (`appendIndexHostsFromHostColumns` etc.); `none` = leaf not indexable -/
def leafIndexKeys (cx : Ctx) (kind : IndexKind) (t : Table) (l : Leaf) : Option (List String) :=
  let hostNames := (cx.b.rows "hosts").map (fun r => r.str (cx.table "hosts") "name")
  let lcIdx := fun (s : String) => if t.name == "hosts" then lowerIndex hostNames (goLower s) else []
  let hostgroupMembers := fun (pred : String → Bool) =>
    ((cx.b.rows "hostgroups").filter (fun g => pred (g.str (cx.table "hostgroups") "name"))).flatMap (fun g => g.strList "members")
  let lastHostgroup := fun (name : String) =>
    match findByKey (cx.table "hostgroups") (cx.b.rows "hostgroups") [name] with
    | some g => g.strList "members"
    | none => []
  match kind with
  | .hosts =>
    match l.col.name with
    | "name" =>
      match l.op with
      | .eq => some [l.sval]
      | .eqNc => some (l.sval :: goLower l.sval :: lcIdx l.sval)
      | _ => none
    | "name_lc" =>
      match l.op with
      | .eq | .eqNc => some (l.sval :: goLower l.sval :: lcIdx l.sval)
      | _ => none
    | "groups" =>
      match l.op with
      | .ge => some (lastHostgroup l.sval)
      | .re | .reNc | .ct | .ctNc => some (hostgroupMembers (fun g => matchString l g))
      | _ => none
    | _ => none
  | .services =>
    match l.col.name with
    | "host_name" =>
      match l.op with
      | .eq => some [l.sval]
      | .re | .ct => some (hostNames.filter (fun h => matchString l h))
      | _ => none
    | "host_name_lc" =>
      match l.op with
      | .re | .ct | .reNc | .ctNc | .eqNc | .eq => some (hostNames.filter (fun h => matchString l (goLower h)))
      | _ => none
    | "host_groups" =>
      match l.op with
      | .ge => some (lastHostgroup l.sval)
      | .re | .reNc | .ct | .ctNc => some (hostgroupMembers (fun g => matchString l g))
      | _ => none
    | "groups" =>
      match l.op with
      | .ge =>
        match findByKey (cx.table "servicegroups") (cx.b.rows "servicegroups") [l.sval] with
        | some g => some ((g.members "members").map (·.1))
        | none => some []
      | .re | .reNc | .ct | .ctNc =>
        some (((cx.b.rows "servicegroups").filter (fun g => matchString l (g.str (cx.table "servicegroups") "name"))).flatMap
          (fun g => (g.members "members").map (·.1)))
      | _ => none
    | _ => none
  | .primary =>
    match t.primaryKey with
    | [key] =>
      if l.col.name == key then
        match l.op with
        | .eq => some [l.sval]
        | _ => none
      else none
    | _ => none

mutual
  /-- `TryFilterIndex`: `(usable, keys)` -/
  def tryIndex (f : Leaf → Option (List String)) (breakOnNone : Bool) : List Filter → Nat → Option (Nat × List String)
    | [], found => some (found, [])
    | .leaf l neg :: rest, found =>
      if neg then none
      else
        match f l with
        | some ks => (tryIndex f breakOnNone rest (found + 1)).map fun (n, more) => (n, ks ++ more)
        | none => if breakOnNone then none else tryIndex f breakOnNone rest found
    | .grp isAnd fs neg :: rest, found =>
      if neg then none
      else
        match tryIndexGroup f (!isAnd) fs with
        | none => none
        | some ks => (tryIndex f breakOnNone rest (found + 1)).map fun (n, more) => (n, ks ++ more)
  /-- the recursive call for a group: succeeds only if at least one usable filter was found -/
  def tryIndexGroup (f : Leaf → Option (List String)) (breakOnNone : Bool) (fs : List Filter) : Option (List String) :=
    match tryIndex f breakOnNone fs 0 with
    | some (n, ks) => if n > 0 then some ks else none
    | none => none
end

def insertSorted (s : String) : List String → List String
  | [] => [s]
  | x :: xs => if s < x then s :: x :: xs else if s == x then x :: xs else x :: insertSorted s xs

/-- sorted, de-duplicated list (`sort.Strings` over the keys of the `uniqRows` map) -/
def sortDedup (l : List String) : List String := l.foldl (fun acc s => insertSorted s acc) []

/-- the candidate rows `GetPreFilteredData` returns -/
def preFiltered (cx : Ctx) (t : Table) (rows : List Row) (filter : List Filter) : List Row :=
  if filter.isEmpty then rows
  else
    let kind? : Option IndexKind :=
      if t.virt != .none then none     -- virtual stores have their own table names; by-group tables never match below
      else if t.name == "hosts" then some .hosts
      else if t.name == "services" then some .services
      else if t.primaryKey.length == 1 then some .primary
      else none
    match kind? with
    | none => rows
    | some kind =>
      match tryIndexGroup (leafIndexKeys cx kind t) false filter with
      | none => rows
      | some keys =>
        let keys := sortDedup keys
        match kind with
        | .services =>
          keys.flatMap fun host =>
            let svcs := rows.filter (fun r => r.str t "host_name" == host)
            let descs := sortDedup (svcs.map (fun r => r.str t "description"))
            descs.filterMap (fun d => findByKey t rows [host, d])
        | _ => keys.filterMap (fun k => findByKey t rows [k])

/-! ## Backend selection -/

structure Selection where
  peers : List Backend                 -- `selectedPeers`, in configuration order
  failed : List (String × String)      -- `BackendErrors` for unknown ids

/-- `ExpandRequestedBackends` + `prepareResponse` (single node, no MultiBackend peers) -/
def selectBackends (ds : Dataset) (t : Table) (req : Request) : Selection :=
  let known := fun id => ds.backends.any (·.id == id)
  let wanted := if req.backends.isEmpty then ds.backends.map (·.id) else req.backends.filter known
  let unknown := (req.backends.filter (fun id => !known id)).eraseDups
  let peers := ds.backends.filter (fun b => wanted.contains b.id)
  let peers := if t.name == "tables" || t.name == "columns" then ds.backends.take 1 else peers
  { peers := peers, failed := unknown.map (fun id => (id, s!"bad request: backend {id} does not exist")) }

/-- `Peer.GetDataStore`: is the table of this backend available? -/
def backendAvailable (b : Backend) (t : Table) : Bool :=
  match t.virt with
  | .backends | .columns => true
  | .groupby => b.state == .up || b.state == .warning
  | .none => b.hasData

/-! ## Sorting (`RawResultSet.Less`) -/

inductive SortKey
  | num (m : Int)
  | str (s : String)
  | cv (s : String)
  deriving DecidableEq, Repr, Inhabited

def sortKeyOf (v : View) (sf : SortField) : SortKey :=
  match sf.col with
  | none => .str ""
  | some c =>
    match c.dtype with
    | .int | .int64 | .float =>
      match v.get c with
      | .i x => .num (x * 1000)
      | .f m => .num m
      | _ => .num 0
    | .customVar =>
      match v.get c with
      | .cv ns vs => .cv (cvLookup sf.args ns vs)
      | _ => .cv ""
    | .strList =>
      -- `strings.Join(GetStringList(col), "\x00")`: a list the object does not have (optional column its backend lacks,
      -- reference that does not exist) is the empty list
      match v.get c with
      | .emptyList _ => .str ""
      | x => .str x.asString
    | _ => .str (v.get c).asString

/-- three-way comparison of one key in *ascending* sense; for custom variables "" sorts last -/
def cmpKeyAsc : SortKey → SortKey → Ordering
  | .num a, .num b => compare a b
  | .str a, .str b => compare a b
  | .cv a, .cv b =>
    if a == b then .eq
    else if a == "" then .gt
    else if b == "" then .lt
    else compare a b
  | _, _ => .eq

/-- lexicographic comparison of key tuples with per-key direction -/
def cmpKeys : List Bool → List SortKey → List SortKey → Ordering
  | d :: ds, a :: as, b :: bs =>
    match cmpKeyAsc a b with
    | .eq => cmpKeys ds as bs
    | o => if d then o.swap else o
  | _, _, _ => .eq

/-- a row selected for the result, with the data needed later -/
structure Hit where
  b : Backend
  r : Row
  keys : List SortKey
  deriving Inhabited

def Hit.le (dirs : List Bool) (a b : Hit) : Bool := cmpKeys dirs a.keys b.keys != .gt

/-! ## The row loop -/

/-- `Request.IsDefaultSortOrder` -/
def isDefaultSortOrder (req : Request) : Bool :=
  match req.sort with
  | [] => true
  | sfs =>
    match req.table, sfs with
    | "services", [a, b] => a.name == "host_name" && !a.desc && b.name == "description" && !b.desc
    | "hosts", [a] => a.name == "name" && !a.desc
    | _, _ => false

/-- `optimizeResultLimit`: the per-backend cut, if any -/
def resultLimit (req : Request) : Option Nat :=
  match req.limit with
  | some l => if isDefaultSortOrder req then some (l + req.offset) else none
  | none => none

structure PeerResult where
  hits : List Hit
  total : Nat

/-- which evaluation: the code (`optimized`: index pre-selection, negation push-down, early cut)
    or the specification (full scan, Boolean semantics, no cut) -/
structure EvalMode where
  q : Quirks
  useIndex : Bool
  pushDown : Bool
  earlyCut : Bool

def EvalMode.code (q : Quirks) : EvalMode := { q := q, useIndex := true, pushDown := true, earlyCut := true }
def EvalMode.spec : EvalMode := { q := Quirks.none, useIndex := false, pushDown := false, earlyCut := false }

def rowMatches (m : EvalMode) (v : View) (fs : List Filter) : Bool :=
  if m.pushDown then matchAll m.q v fs else semList m.q v fs

/-- `gatherResultRows` for one backend -/
def gatherRows (m : EvalMode) (cx : Ctx) (t : Table) (req : Request) : PeerResult :=
  let rows := tableRows cx t
  let cands := if m.useIndex then preFiltered cx t rows req.filter else rows
  let matching := cands.filter fun r =>
    rowMatches m (mkView cx t r) req.filter && checkAuth cx t req.authUser r
  let hits := matching.map fun r => { b := cx.b, r := r, keys := req.sort.map (sortKeyOf (mkView cx t r)) : Hit }
  let cut : Option Nat :=
    if m.earlyCut then
      match resultLimit req with
      | some l => if l == 0 then none else some l
      | none => none
    else none
  match cut with
  | none => { hits := hits, total := hits.length }
  | some l =>
    -- without wrapped_json the loop stops right after the limit is exceeded
    let total := if req.outFmt == .wrapped then hits.length else min hits.length (l + 1)
    { hits := hits.take l, total := total }

structure DataResult where
  hits : List Hit                      -- final rows, in order
  pool : List Hit                      -- all collected rows after sorting, before offset/limit
  total : Nat
  failed : List (String × String)
  deriving Inhabited

/-- `buildLocalResponse` + `RawResultSet.PostProcessing` -/
def dataQuery (m : EvalMode) (s : Schema) (ds : Dataset) (t : Table) (req : Request) : DataResult :=
  let sel := selectBackends ds t req
  let avail := sel.peers.filter (fun b => backendAvailable b t)
  let failed := sel.failed ++ (sel.peers.filter (fun b => !backendAvailable b t)).map (fun b => (b.id, s!"peer is down: {b.err}"))
  let results := avail.map fun b => gatherRows m { schema := s, ds := ds, b := b } t req
  let all := results.flatMap (·.hits)
  let total := (results.map (·.total)).foldl (· + ·) 0
  if req.offset > total then { hits := [], pool := [], total := total, failed := failed }
  else
    let dirs := req.sort.map (·.desc)
    let sorted := if req.sort.isEmpty then all else all.mergeSort (Hit.le dirs)
    let afterOffset := sorted.drop req.offset
    let window := match req.limit with
      | some l => afterOffset.take l
      | none => afterOffset
    { hits := window, pool := sorted, total := total, failed := failed }

end Lmd
