/-
  Lmd.Filter — the filter language: operators, leaves, trees, and their evaluation.

  `matchLeaf` mirrors `Filter.Match` and the `Match*` functions of pkg/lmd/filter.go,
  `matchF` mirrors `DataRow.MatchFilter` of pkg/lmd/datarow.go (negation push-down),
  `sem` is the plain Boolean semantics the properties talk about.
-/
import Lmd.Regex

namespace Lmd

/-- filter operators (pkg/lmd/filter.go `Operator`) -/
inductive Op
  | eq | ne | eqNc | neNc
  | re | nre | reNc | nreNc
  | ct | nct | ctNc | nctNc
  | lt | le | gt | ge
  | gcn
  deriving DecidableEq, Repr, Inhabited

/-- behaviours of the current code that contradict a property; `true` = behave like the code today.
    A defect repaired by a `fix:` commit has its switch removed from `Quirks.current`. -/
structure Quirks where
  negOr : Bool            -- C01: negate is OR-ed down the tree instead of XOR-ed
  int8Trunc : Bool        -- C01: IntCol filter values are truncated to 8 bit
  idListInt8 : Bool       -- C01: id-list filters compare the 8-bit value
  optNumZero : Bool       -- C01: filters on absent optional numeric columns compare 0 with 0
  deriving Repr, Inhabited, DecidableEq

/-- the code as it is today -/
def Quirks.current : Quirks := { negOr := false, int8Trunc := false, idListInt8 := false, optNumZero := false }
/-- the code with every listed defect repaired -/
def Quirks.none : Quirks := { negOr := false, int8Trunc := false, idListInt8 := false, optNumZero := false }

/-- a single filter term -/
structure Leaf where
  col : Column
  op : Op
  sval : String := ""
  tag : String := ""           -- custom variable name
  isEmpty : Bool := false
  num : Int := 0               -- parsed number in milli units (0 if none was parsed)
  rx : Option Regex := none    -- compiled regular expression
  colOptional : Nat := 0       -- copy of the optional flags of the column named in the request
  deriving Inhabited

/-- filter trees; `neg` is the `Negate:` mark on that node -/
inductive Filter
  | leaf (l : Leaf) (neg : Bool)
  | grp (isAnd : Bool) (fs : List Filter) (neg : Bool)
  deriving Inhabited

/-- how a row exposes its values to filters, stats and sorting: the typed value of a column as the
    Go getters return it (references and virtual columns resolved) -/
structure View where
  get : Column → Val
  flags : Nat                 -- optional-column flags of the backend the row belongs to

/-! ### string forms (`DataRow.GetString`) -/

def Val.asString : Val → String
  | .s v => v
  | .i v => intToDec v
  | .f m => milliToGo m
  | .sl v => joinWith sep0 v
  | .il v => "[" ++ joinWith sep0 (v.map intToDec) ++ "]"    -- strings.Fields(fmt.Sprint(list)) joined with \x00
  | .ml v => "[" ++ joinWith " " (v.map fun (a, b) => "[" ++ a ++ " " ++ b ++ "]") ++ "]"
  | .jl _ => "[]"
  | .cv _ _ => ""
  | .crash _ => ""
  | .emptyList t => t

/-- `DataRow.getStatsKey`: the part of a Stats group key that stands for one column - the text of the value with the separator of
    the key (which also joins the elements of a list) replaced by a comma, so that a key has one part per column -/
def Val.keyString (v : Val) : String :=
  String.ofList (v.asString.toList.map (fun c => if c == Char.ofNat 0 then ',' else c))

/-! ### leaf matching -/

def matchEmptyFilter : Op → Bool
  | .ne | .gt | .ge => true
  | _ => false

def Leaf.rxMatch (l : Leaf) (v : String) : Bool :=
  match l.rx with
  | some r => r.matches v
  | none => false

/-- `Filter.MatchString` -/
def matchString (l : Leaf) (v : String) : Bool :=
  match l.op with
  | .eq => v == l.sval
  | .ne => v != l.sval
  | .eqNc => equalFold v l.sval
  | .neNc => !equalFold v l.sval
  | .re | .reNc => l.rxMatch v
  | .nre | .nreNc => !l.rxMatch v
  | .lt => decide (v < l.sval)
  | .le => decide (v ≤ l.sval)
  | .gt => decide (v > l.sval)
  | .ge => decide (v ≥ l.sval)
  | .ct => strContains v l.sval
  | .nct => !strContains v l.sval
  | .ctNc => strContains (goLower v) l.sval
  | .nctNc => !strContains (goLower v) l.sval
  | .gcn => false

/-- numeric comparison; `none` for the operators that fall through to the string form -/
def cmpInt (op : Op) (a b : Int) : Option Bool :=
  match op with
  | .eq => some (a == b)
  | .ne => some (a != b)
  | .lt => some (decide (a < b))
  | .le => some (decide (a ≤ b))
  | .gt => some (decide (a > b))
  | .ge => some (decide (a ≥ b))
  | _ => none

/-- the right-hand side an IntCol comparison uses: `int8(filterValue)` today, the number itself when repaired -/
def Leaf.int8Rhs (q : Quirks) (l : Leaf) : Int :=
  if q.int8Trunc then wrap8 (milliTrunc l.num) else milliTrunc l.num

/-- `Filter.MatchInt8` / `MatchInt64` (value is an integer, right-hand side `rhs`) -/
def matchIntWith (l : Leaf) (rhs : Int) (v : Int) : Bool :=
  match cmpInt l.op v rhs with
  | some b => b
  | none => matchString l (intToDec v)

/-- `Filter.MatchFloat` on milli values -/
def matchFloat (l : Leaf) (m : Int) : Bool :=
  match cmpInt l.op m l.num with
  | some b => b
  | none => matchString l (milliToGo m)

/-- `Filter.MatchStringList` -/
def matchStringList (l : Leaf) (list : List String) : Bool :=
  match l.op with
  | .eq => l.sval == "" && list.isEmpty
  | .ne => l.sval == "" && !list.isEmpty
  | .ge => list.any (fun v => l.sval == v)
  | .gcn | .le => !list.any (fun v => l.sval == v)
  | .re | .reNc | .ct | .ctNc => list.any (fun v => matchString l v)
  | .nre | .nreNc | .nct | .nctNc => list.all (fun v => matchString l v)
  | _ => false

/-- `Filter.MatchInt64List` -/
def matchIntList (q : Quirks) (l : Leaf) (list : List Int) : Bool :=
  let rhs := if q.idListInt8 then wrap8 (milliTrunc l.num) else milliTrunc l.num
  match l.op with
  | .eq => l.isEmpty && list.isEmpty
  | .ne => l.isEmpty && !list.isEmpty
  | .ge => list.any (fun v => rhs == v)
  | .gcn => !list.any (fun v => rhs == v)
  | _ => false

/-- `DataRow.GetCustomVarValue` on the two parallel lists -/
def cvLookup (tag : String) : List String → List String → String
  | [], _ => ""
  | n :: ns, vs =>
    if n == tag then (match vs with | [] => "" | v :: _ => v)
    else cvLookup tag ns (vs.drop 1)

/-- `Filter.Match` — dispatch on the column's data type -/
def matchLeafCore (q : Quirks) (get : Column → Val) (l : Leaf) : Bool :=
  match l.col.dtype with
  | .str | .strLarge | .json => matchString l (get l.col).asString
  | .strList =>
    match get l.col with
    | .sl v => matchStringList l v
    | _ => matchStringList l []
  | .int =>
    if l.isEmpty then matchEmptyFilter l.op
    else match get l.col with
      | .i v => matchIntWith l (l.int8Rhs q) v
      | .f m => matchIntWith l (l.int8Rhs q) (wrap8 (milliTrunc m))
      | _ => false
  | .int64 =>
    if l.isEmpty then matchEmptyFilter l.op
    else match get l.col with
      | .i v => matchIntWith l (milliTrunc l.num) v
      | .f m => matchIntWith l (milliTrunc l.num) (milliTrunc m)
      | _ => false
  | .float =>
    if l.isEmpty then matchEmptyFilter l.op
    else match get l.col with
      | .f m => matchFloat l m
      | .i v => matchFloat l (v * 1000)
      | _ => false
  | .int64List =>
    match get l.col with
    | .il v => matchIntList q l v
    | _ => matchIntList q l []
  | .customVar =>
    match get l.col with
    | .cv ns vs => matchString l (cvLookup l.tag ns vs)
    | _ => matchString l ""
  | .ifaceList => false      -- not modelled (generators do not filter on interface lists)
  | .svcMemberList => false

/-- the value an absent optional column has for *filtering*: the virtual `empty` column converted to the type -/
def optAbsentVal : DataType → Val
  | .str | .strLarge | .json => .s ""
  | .int | .int64 => .i 0
  | .float => .f 0
  | .strList => .sl []
  | .int64List => .il []
  | .svcMemberList => .ml []
  | .ifaceList => .jl []
  | .customVar => .cv [] []

def hasFlag (flags need : Nat) : Bool := need == 0 || (flags &&& need) != 0

/-- leaf evaluation including the optional-column fallback of `DataRow.MatchFilter`:
    on a backend that lacks the column, a duplicate filter is matched against the `empty` column;
    the duplicate does not carry the parsed numbers (quirk `optNumZero`). -/
def matchLeaf (q : Quirks) (v : View) (l : Leaf) : Bool :=
  if l.colOptional != 0 && !hasFlag v.flags l.colOptional then
    if q.optNumZero then matchLeafCore q (fun _ => optAbsentVal l.col.dtype) { l with num := 0 }
    else matchLeafCore q (fun _ => l.col.dtype.emptyVal) l
  else matchLeafCore q v.get l

/-! ### trees -/

/-- how an inherited negation combines with the node's own mark: OR today (`negOr`), XOR when repaired -/
def combineNeg (q : Quirks) (inherited own : Bool) : Bool :=
  if q.negOr then inherited || own else inherited != own

mutual
  /-- `DataRow.MatchFilter(filter, negate)` -/
  def matchF (q : Quirks) (v : View) (negIn : Bool) : Filter → Bool
    | .leaf l n =>
      let neg := combineNeg q negIn n
      if neg then !matchLeaf q v l else matchLeaf q v l
    | .grp isAnd fs n =>
      let neg := combineNeg q negIn n
      let isAnd' := if neg then !isAnd else isAnd
      if isAnd' then allF q v neg fs else anyF q v neg fs
  def allF (q : Quirks) (v : View) (neg : Bool) : List Filter → Bool
    | [] => true
    | f :: fs => matchF q v neg f && allF q v neg fs
  def anyF (q : Quirks) (v : View) (neg : Bool) : List Filter → Bool
    | [] => false
    | f :: fs => matchF q v neg f || anyF q v neg fs
end

mutual
  /-- Boolean semantics of a filter tree: what the property says a filter means -/
  def sem (q : Quirks) (v : View) : Filter → Bool
    | .leaf l n => matchLeaf q v l != n
    | .grp isAnd fs n => (if isAnd then semAll q v fs else semAny q v fs) != n
  def semAll (q : Quirks) (v : View) : List Filter → Bool
    | [] => true
    | f :: fs => sem q v f && semAll q v fs
  def semAny (q : Quirks) (v : View) : List Filter → Bool
    | [] => false
    | f :: fs => sem q v f || semAny q v fs
end

/-- the request's filter list is a conjunction -/
def matchAll (q : Quirks) (v : View) (fs : List Filter) : Bool := fs.all (matchF q v false)
def semList (q : Quirks) (v : View) (fs : List Filter) : Bool := fs.all (sem q v)

end Lmd
