/-
  Lmd.Commands — COMMAND requests: how a client connection collects them (`parseRequestsFromReader`,
  `ClientConnection.processRequests`, `sendRemainingCommands`, `SendCommands`), how one peer forwards its
  share (`Peer.SendCommandsWithRetry`, `Peer.SendCommands`, the command branch of `Peer.query`) and what
  the scripted backend sees.

  The connection layer is a pure function from the list of requests read from the connection to a list of
  *events* (flush the queue, answer request i, parse error); the peer layer is a function on the peer
  state machine of `Lmd.Peer`.  The two meet in `Lmd.flushQueue`.
-/
import Lmd.PeerLoop
import Lmd.Parse

namespace Lmd

/-! ## the request line -/

/-- `reRequestCommand = ^COMMAND +(\[\d+\].*)$` on the trimmed first line (which starts with `COMMAND `) -/
def isCommandLine (first : String) : Bool :=
  match first.toList with
  | 'C' :: 'O' :: 'M' :: 'M' :: 'A' :: 'N' :: 'D' :: ' ' :: rest =>
    match rest.dropWhile (· == ' ') with
    | '[' :: more =>
      let digits := more.takeWhile isDigit
      !digits.isEmpty && (more.dropWhile isDigit).head? == some ']' && !(more.contains '\n')
    | _ => false
  | _ => false

/-- the headers of a command are parsed like those of a GET request, on a request without table
    (`Filter`, `Stats` and `WaitCondition` need columns and are refused) -/
def parseCommandHeaders (o : ParseOpts) : Request → List String → PM Request
  | req, [] => pure req
  | req, line :: rest =>
    let line := trimSpace line
    if line == "" then pure req
    else
      match cut ':' line with
      | (hdr, some _) =>
        let h := goLower hdr
        if h == "filter" || h == "stats" || h == "waitcondition" then throw (.bad "header not supported for commands")
        else do
          let req ← parseHeaderLine o { name := "", cols := [] } req line
          parseCommandHeaders o req rest
      | (_, none) => throw (.bad "syntax error")

/-! ## the connection layer -/

/-- one request as the connection loop sees it -/
inductive CReq
  | cmd (line : String) (backends : List String) (keepAlive : Bool)   -- `backends` as written in the header
  | get (idx : Nat) (keepAlive : Bool)                                -- the idx-th chunk of the session, a GET that parses
  | bad (idx : Nat)                                                   -- does not parse
  | blank                                                             -- an empty first line: `NewRequest` returns nothing
  deriving Repr, DecidableEq, Inhabited

def CReq.isCmd : CReq → Bool
  | .cmd .. => true
  | _ => false

def CReq.keepAlive : CReq → Bool
  | .cmd _ _ k => k
  | .get _ k => k
  | _ => false

def CReq.withKeepAlive (k : Bool) : CReq → CReq
  | .cmd l b _ => .cmd l b k
  | .get i _ => .get i k
  | r => r

/-- the queue `commandsByPeer`: peers in first-use order, each with its commands in the order received -/
abbrev Queue := List (String × List String)

def Queue.add (q : Queue) (peer : String) (c : String) : Queue :=
  if q.any (·.1 == peer) then q.map (fun (p, cs) => if p == peer then (p, cs ++ [c]) else (p, cs))
  else q ++ [(peer, [c])]

/-- `ExpandRequestedBackends`: no header = every configured peer; names that are not configured select nothing -/
def expandBackends (peers : List String) (backends : List String) : List String :=
  if backends.isEmpty then peers else (backends.filter peers.contains).eraseDups

def Queue.addAll (q : Queue) (targets : List String) (c : String) : Queue :=
  targets.foldl (fun q p => q.add p c) q

inductive Event
  | flush (q : Queue)        -- `sendRemainingCommands` with a non-empty queue
  | answer (idx : Nat)       -- the GET request of chunk idx is answered
  | parseError (idx : Nat)   -- chunk idx does not parse: an error text, the connection ends
  | emptyRequest             -- nothing to read on a fresh connection: "bad request: empty request"
  deriving Repr, DecidableEq, Inhabited

/-- `parseRequestsFromReader`: commands are read until a request that is not a command (which is included),
    the end of the input, or an empty first line.  Returns the batch, what is left, and whether the end of the
    input was hit (then the last request loses its keep-alive) -/
def readBatch : List CReq → List CReq × List CReq × Bool
  | [] => ([], [], true)
  | .blank :: rest => ([], rest, false)
  | r :: rest =>
    if r.isCmd then
      let (b, left, eof) := readBatch rest
      (r :: b, left, eof)
    else ([r], rest, false)

def dropLastKeepAlive : List CReq → List CReq
  | [] => []
  | [r] => [r.withKeepAlive false]
  | r :: rest => r :: dropLastKeepAlive rest

/-- `processRequests` on one batch that parsed: the events and the connection's keep-alive flag afterwards -/
def processBatch (peers : List String) : List CReq → Queue → Bool → List Event × Bool
  | [], q, ka => (if q.isEmpty then [] else [.flush q], ka)
  | .cmd line backends k :: rest, q, _ => processBatch peers rest (q.addAll (expandBackends peers backends) line) k
  | .get idx k :: rest, q, _ =>
    let pre := if q.isEmpty then [] else [Event.flush q]
    if k then
      let (ev, ka) := processBatch peers rest [] k
      (pre ++ [.answer idx] ++ ev, ka)
    else (pre ++ [.answer idx], false)
  | _ :: rest, q, ka => processBatch peers rest q ka

/-- `ClientConnection.answer`: batch after batch while the connection is keep-alive -/
def sessionEvents (peers : List String) : Nat → List CReq → Bool → List Event
  | 0, _, _ => []
  | fuel + 1, reqs, ka =>
    let (batch, left, eof) := readBatch reqs
    match batch.find? (fun r => match r with | .bad _ => true | _ => false) with
    | some (.bad idx) => [.parseError idx]
    | _ =>
      if batch.isEmpty then
        if eof then [] else if ka then sessionEvents peers fuel left ka else [.emptyRequest]
      else
        let batch := if eof then dropLastKeepAlive batch else batch
        let (ev, ka') := processBatch peers batch [] ka
        if ka' then ev ++ sessionEvents peers fuel left ka' else ev

/-! ## the peer layer -/

/-- what the scripted backend does with commands -/
structure CmdBackend where
  reply : String := ""                   -- written after every command it reads ("" = nothing)
  batches : List (List String) := []     -- the commands received, one list per connection
  deriving Inhabited, Repr

inductive SendResult
  | ok
  | rejected (code : Int) (msg : String)   -- `PeerCommandError`: the backend answered `code: msg`
  | garbage (msg : String)                 -- an answer without colon
  | connErr                                -- no connection (`PeerError`, `ConnectionError`)
  deriving Repr, DecidableEq, Inhabited

/-- the backend reads the commands of one connection one after the other; it stops reading when its mode
    (after the count-down of this very request) closes connections -/
def backendReads : List String → BackendSt → List String → Nat → BackendSt × List String × Nat
  | [], b, got, n => (b, got, n)
  | c :: rest, b, got, n =>
    let (b, _) := b.hit
    if b.mode == "closeearly" || b.mode == "refuse" then (b, got ++ [c], n)
    else backendReads rest b (got ++ [c]) (n + 1)

/-- the reply bytes are trimmed and split at the first colon (`Peer.query`, command branch) -/
def parseCommandReply (resp : String) : SendResult :=
  let t := trimSpace resp
  if t == "" then .ok
  else
    match cut ':' t with
    | (code, some msg) => .rejected ((atoi? code).getD 0) (trimSpace msg)
    | (msg, none) => .garbage msg

/-- `Peer.SendCommands`: one connection, the commands joined by an empty line -/
def sendCommands (w : World) (now : Int) (p : PeerSt) (b : BackendSt) (cb : CmdBackend) (cmds : List String) :
    PeerSt × BackendSt × CmdBackend × SendResult :=
  -- the connection attempts are those of every query (`Lmd.query` on a backend that would answer)
  let probe := { b with mode := (if b.mode == "refuse" then "refuse" else "ok"), failAfter := none }
  let (p, _, e) := query w now p probe
  match e with
  | some _ => (p, b, cb, .connErr)
  | none =>
    let (b, got, answered) := backendReads cmds b [] 0
    let cb := { cb with batches := cb.batches ++ [got] }
    let resp := String.join (List.replicate answered (if cb.reply == "" then "" else cb.reply ++ "\n"))
    match parseCommandReply resp with
    | .ok =>
      -- ScheduleImmediateUpdate, and a full delta where the backend has no last_update column
      let p := { p with lastUpdate := 0, lastFullHostUpdate := 0, lastFullServiceUpdate := 0 }
      let p := if (p.flags &&& flagBit w.schema "HasLastUpdateColumn") == 0 then { p with forceFull := true } else p
      (p, b, cb, .ok)
    | .garbage msg => (p.fail w now msg, b, cb, .garbage msg)
    | r => (p, b, cb, r)

/-- what happens around a waiting sender: the update loop may run, the backend may change -/
inductive EnvStep
  | tick
  | mode (m : String)
  | tickMode (m : String)     -- the update loop runs, then the backend changes (within one sleep of the sender)
  deriving Repr, DecidableEq, Inhabited

inductive CmdOutcome
  | sent
  | rejected (code : Int) (msg : String)
  | lastError                -- answered with the peer's last error (down, broken, unusable reply)
  | retriesExceeded
  | stillWaiting             -- the sender is still polling when the client gives up (`PeerCommandTimeout`)
  deriving Repr, DecidableEq, Inhabited

def applyEnv (w : World) (now : Int) (p : PeerSt) (b : BackendSt) : EnvStep → PeerSt × BackendSt
  | .tick => let r := tick w now p b; (r.p, r.b)
  | .mode m => (p, { b with mode := m })
  | .tickMode m => let r := tick w now p b; (r.p, { r.b with mode := m })

/-- `Peer.SendCommandsWithRetry`; `env` is what happens during each of its one-second sleeps.  Also returns
    the part of `env` that was not consumed -/
def sendWithRetry (w : World) (now : Int) : Nat → List EnvStep → Nat → PeerSt → BackendSt → CmdBackend → List String →
    PeerSt × BackendSt × CmdBackend × CmdOutcome × List EnvStep
  | 0, env, _, p, b, cb, _ => (p, b, cb, .stillWaiting, env)
  | fuel + 1, env, retries, p, b, cb, cmds =>
    match p.status with
    | .down | .broken => (p, b, cb, .lastError, env)
    | .warning | .pending =>
      (match env with
       | [] => (p, b, cb, .stillWaiting, [])
       | e :: env =>
         let (p, b) := applyEnv w now p b e
         sendWithRetry w now fuel env retries p b cb cmds)
    | .up | .syncing =>
      let (p, b, cb, r) := sendCommands w now p b cb cmds
      match r with
      | .ok => (p, b, cb, .sent, env)
      | .rejected c m => (p, b, cb, .rejected c m, env)
      | .garbage _ => (p, b, cb, .lastError, env)
      | .connErr =>
        if retries > 0 then (p, b, cb, .retriesExceeded, env)
        else
          (match env with
           | [] => sendWithRetry w now fuel [] (retries + 1) p b cb cmds
           | e :: env =>
             let (p, b) := applyEnv w now p b e
             sendWithRetry w now fuel env (retries + 1) p b cb cmds)

/-- the entry of `SendCommandsWithRetry`: the peer was asked, it leaves the idle mode; what is left of the
    environment script happens after the sender is done -/
def peerSend (w : World) (now : Int) (env : List EnvStep) (p : PeerSt) (b : BackendSt) (cb : CmdBackend) (cmds : List String) :
    PeerSt × BackendSt × CmdBackend × CmdOutcome :=
  let p := { p with lastQuery := now, idling := false }
  let (p, b, cb, o, left) := sendWithRetry w now (env.length + 3) env 0 p b cb cmds
  let (p, b) := left.foldl (fun (pb : PeerSt × BackendSt) e => applyEnv w now pb.1 pb.2 e) (p, b)
  (p, b, cb, o)

end Lmd
