/-
  Lmd.Regex — a reference regular-expression engine (Brzozowski derivatives, total) for the subset of
  RE2 syntax the generators use: literals, `.`, classes with ranges/negation, `* + ?` (greedy or
  lazy), alternation, groups, `^ $`, the escapes `\d \D \s \S \w \W` and escaped punctuation, and a
  leading `(?i)`.  Everything else is reported as `unsupported` (the harness then does not compare
  the case against the model) or `invalid` (where Go's `regexp.Compile` fails as well).
-/
import Lmd.Basic

namespace Lmd

/-- character class: union of inclusive ranges, optionally negated -/
structure CClass where
  neg : Bool
  ranges : List (Char × Char)
  deriving Repr, Inhabited, DecidableEq

inductive RE
  | none
  | eps
  | cls (c : CClass)
  | cat (a b : RE)
  | alt (a b : RE)
  | star (a : RE)
  | bol
  | eol
  deriving Repr, Inhabited, DecidableEq

namespace RE

def inRanges (c : Char) : List (Char × Char) → Bool
  | [] => false
  | (lo, hi) :: rs => (lo ≤ c && c ≤ hi) || inRanges c rs

/-- does the class accept `c`?  With `fold`, a character is accepted when any member of its
    case orbit is in the (un-negated) set — Go's `(?i)` semantics on the declared alphabet. -/
def _root_.Lmd.CClass.accepts (fold : Bool) (k : CClass) (c : Char) : Bool :=
  let hit := inRanges c k.ranges || (fold && (inRanges (lowerChar c) k.ranges || inRanges (upperChar c) k.ranges))
  if k.neg then !hit else hit

/-- can `r` match the empty string at a position that is at the start / at the end of the text? -/
def nullable (atStart atEnd : Bool) : RE → Bool
  | none => false
  | eps => true
  | cls _ => false
  | cat a b => nullable atStart atEnd a && nullable atStart atEnd b
  | alt a b => nullable atStart atEnd a || nullable atStart atEnd b
  | star _ => true
  | bol => atStart
  | eol => atEnd

def mkCat : RE → RE → RE
  | none, _ => none
  | _, none => none
  | eps, b => b
  | a, eps => a
  | a, b => cat a b

def mkAlt : RE → RE → RE
  | none, b => b
  | a, none => a
  | a, b => if a = b then a else alt a b

/-- derivative with respect to one character read at a position (`atStart` = first character) -/
def deriv (fold : Bool) (atStart : Bool) (c : Char) : RE → RE
  | none => none
  | eps => none
  | cls k => if k.accepts fold c then eps else none
  | cat a b =>
    let d := mkCat (deriv fold atStart c a) b
    if nullable atStart false a then mkAlt d (deriv fold atStart c b) else d
  | alt a b => mkAlt (deriv fold atStart c a) (deriv fold atStart c b)
  | star a => mkCat (deriv fold atStart c a) (star a)
  | bol => none
  | eol => none

def runL (fold : Bool) : Bool → RE → List Char → Bool
  | atStart, r, [] => nullable atStart true r
  | atStart, r, c :: cs => runL fold false (deriv fold atStart c r) cs

/-- whole-string match -/
def fullMatch (fold : Bool) (r : RE) (s : List Char) : Bool := runL fold true r s

def anyChar : RE := cls { neg := true, ranges := [] }

/-- unanchored search, the semantics of Go's `Regexp.MatchString` -/
def search (fold : Bool) (r : RE) (s : String) : Bool :=
  fullMatch fold (cat (star anyChar) (cat r (star anyChar))) s.toList

end RE

/-- a compiled pattern -/
structure Regex where
  fold : Bool
  re : RE
  deriving Repr, Inhabited

def Regex.matches (r : Regex) (s : String) : Bool := RE.search r.fold r.re s

inductive RegexParse
  | ok (r : Regex)
  | invalid       -- Go's regexp.Compile rejects it, too
  | unsupported   -- valid or unknown RE2 syntax outside the modelled subset
  deriving Inhabited

namespace RegexParser

inductive PErr | invalid | unsupported
  deriving Inhabited

abbrev P := Except PErr

def digitCls : CClass := { neg := false, ranges := [('0', '9')] }
def spaceCls : CClass := { neg := false, ranges := [('\t', '\n'), (Char.ofNat 0x0C, '\r'), (' ', ' ')] }
def wordCls : CClass := { neg := false, ranges := [('0', '9'), ('A', 'Z'), ('a', 'z'), ('_', '_')] }
def dotCls : CClass := { neg := true, ranges := [('\n', '\n')] }

def isPunct (c : Char) : Bool :=
  c.toNat < 128 && !(c.isAlphanum) && c.toNat ≥ 33

/-- escape outside a class: returns the class it denotes -/
def escapeCls (c : Char) : P CClass :=
  match c with
  | 'd' => pure digitCls
  | 'D' => pure { digitCls with neg := true }
  | 's' => pure spaceCls
  | 'S' => pure { spaceCls with neg := true }
  | 'w' => pure wordCls
  | 'W' => pure { wordCls with neg := true }
  | 'n' => pure { neg := false, ranges := [('\n', '\n')] }
  | 't' => pure { neg := false, ranges := [('\t', '\t')] }
  | 'r' => pure { neg := false, ranges := [('\r', '\r')] }
  | c => if isPunct c then pure { neg := false, ranges := [(c, c)] } else throw .unsupported

/-- parse the inside of `[...]` after the optional `^`; `first` allows a literal `]` in first position -/
def parseClassItems : Nat → Bool → List Char → List (Char × Char) → P (List (Char × Char) × List Char)
  | 0, _, _, _ => throw .unsupported
  | _ + 1, _, [], _ => throw .invalid
  | fuel + 1, first, ']' :: rest, acc =>
    if first then parseClassAfter fuel ']' rest acc else pure (acc.reverse, rest)
  | _ + 1, _, '[' :: ':' :: _, _ => throw .unsupported
  | fuel + 1, _, '\\' :: e :: rest, acc =>
    match e with
    | 'd' => parseClassItems fuel false rest (digitCls.ranges ++ acc)
    | 's' => parseClassItems fuel false rest (spaceCls.ranges ++ acc)
    | 'w' => parseClassItems fuel false rest (wordCls.ranges ++ acc)
    | 'n' => parseClassAfter fuel '\n' rest acc
    | 't' => parseClassAfter fuel '\t' rest acc
    | 'r' => parseClassAfter fuel '\r' rest acc
    | c => if isPunct c then parseClassAfter fuel c rest acc else throw .unsupported
  | _ + 1, _, ['\\'], _ => throw .invalid
  | fuel + 1, _, c :: rest, acc => parseClassAfter fuel c rest acc
where
  /-- after a single class character `lo`: either a range `lo-hi` or a single member -/
  parseClassAfter : Nat → Char → List Char → List (Char × Char) → P (List (Char × Char) × List Char)
  | 0, _, _, _ => throw .unsupported
  | _ + 1, lo, '-' :: ']' :: rest, acc => pure ((('-', '-') :: (lo, lo) :: acc).reverse, rest)
  | fuel + 1, lo, '-' :: '\\' :: e :: rest, acc =>
    if isPunct e then (if lo ≤ e then parseClassItems fuel false rest ((lo, e) :: acc) else throw .invalid)
    else throw .unsupported
  | fuel + 1, lo, '-' :: hi :: rest, acc =>
    if lo ≤ hi then parseClassItems fuel false rest ((lo, hi) :: acc) else throw .invalid
  | fuel + 1, lo, rest, acc => parseClassItems fuel false rest ((lo, lo) :: acc)

mutual
  /-- alternation level; stops at `)` or end of input -/
  def parseAlt : Nat → List Char → P (RE × List Char)
    | 0, _ => throw .unsupported
    | fuel + 1, cs => do
      let (a, rest) ← parseCat fuel cs RE.eps
      match rest with
      | '|' :: rest' =>
        let (b, rest'') ← parseAlt fuel rest'
        pure (RE.alt a b, rest'')
      | _ => pure (a, rest)

  /-- concatenation level -/
  def parseCat : Nat → List Char → RE → P (RE × List Char)
    | 0, _, _ => throw .unsupported
    | _ + 1, [], acc => pure (acc, [])
    | _ + 1, '|' :: rest, acc => pure (acc, '|' :: rest)
    | _ + 1, ')' :: rest, acc => pure (acc, ')' :: rest)
    | fuel + 1, cs, acc => do
      let (a, rest) ← parseAtom fuel cs
      let (a', rest') ← parseRep a rest
      parseCat fuel rest' (RE.mkCat acc a')

  /-- one atom -/
  def parseAtom : Nat → List Char → P (RE × List Char)
    | 0, _ => throw .unsupported
    | _ + 1, [] => throw .invalid
    | fuel + 1, '(' :: '?' :: ':' :: rest => parseGroup fuel rest
    | _ + 1, '(' :: '?' :: _ => throw .unsupported
    | fuel + 1, '(' :: rest => parseGroup fuel rest
    | _ + 1, '*' :: _ => throw .invalid
    | _ + 1, '+' :: _ => throw .invalid
    | _ + 1, '?' :: _ => throw .invalid
    | _ + 1, '{' :: _ => throw .unsupported
    | _ + 1, '^' :: rest => pure (RE.bol, rest)
    | _ + 1, '$' :: rest => pure (RE.eol, rest)
    | _ + 1, '.' :: rest => pure (RE.cls dotCls, rest)
    | _ + 1, ['\\'] => throw .invalid
    | _ + 1, '\\' :: e :: rest => do
      let k ← escapeCls e
      pure (RE.cls k, rest)
    | fuel + 1, '[' :: '^' :: rest => do
      let (rs, rest') ← parseClassItems fuel true rest []
      pure (RE.cls { neg := true, ranges := rs }, rest')
    | fuel + 1, '[' :: rest => do
      let (rs, rest') ← parseClassItems fuel true rest []
      pure (RE.cls { neg := false, ranges := rs }, rest')
    | _ + 1, c :: rest => pure (RE.cls { neg := false, ranges := [(c, c)] }, rest)

  def parseGroup : Nat → List Char → P (RE × List Char)
    | 0, _ => throw .unsupported
    | fuel + 1, cs => do
      let (a, rest) ← parseAlt fuel cs
      match rest with
      | ')' :: rest' => pure (a, rest')
      | _ => throw .invalid

  /-- postfix operators: one of `* + ?`, optionally followed by a lazy `?`; a second repetition is an error -/
  def parseRep (a : RE) : List Char → P (RE × List Char)
    | c :: rest =>
      if c == '*' || c == '+' || c == '?' then
        let r := if c == '*' then RE.star a else if c == '+' then RE.mkCat a (RE.star a) else RE.mkAlt RE.eps a
        let r := match a with
          | RE.bol | RE.eol => if c == '+' then a else if c == '*' || c == '?' then RE.eps else r
          | _ => r
        let rest := match rest with
          | '?' :: rest' => rest'
          | _ => rest
        match rest with
        | '*' :: _ => throw .invalid
        | '+' :: _ => throw .invalid
        | '?' :: _ => throw .invalid
        | '{' :: _ => throw .unsupported
        | _ => pure (r, rest)
      else if c == '{' then throw .unsupported
      else pure (a, c :: rest)
    | [] => pure (a, [])
end

def parseTop (cs : List Char) : P RE := do
  let (r, rest) ← parseAlt (2 * cs.length + 4) cs
  match rest with
  | [] => pure r
  | _ => throw .invalid   -- unexpected `)`

end RegexParser

/-- compile a pattern the way `regexp.Compile` is used by lmd (`(?i)` may have been prefixed) -/
def compileRegex (pat : String) : RegexParse :=
  let cs := pat.toList
  let (fold, body) :=
    match cs with
    | '(' :: '?' :: 'i' :: ')' :: rest => (true, rest)
    | _ => (false, cs)
  match RegexParser.parseTop body with
  | .ok r => .ok { fold := fold, re := r }
  | .error .invalid => .invalid
  | .error .unsupported => .unsupported

end Lmd
