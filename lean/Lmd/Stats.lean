/-
  Lmd.Stats — Stats queries: accumulators (`Filter.ApplyValue`), per-row counting (`DataRow.CountStats`),
  the grouping optimiser (`optimizeStatsGroups`, `removeFirstStatsFilter`), merging over backends
  (`Response.MergeStats`), final values (`finalStatsApply`) and the flat arithmetic specification.
-/
import Lmd.Query

namespace Lmd

/-! ## accumulators -/

inductive AccKind | counter | sum | avg | min | max
  deriving DecidableEq, Repr, Inhabited

/-- one slot of a stats result: `stats` (milli units for aggregates, plain count for counters) and `statsCount` -/
structure Acc where
  kind : AccKind
  stats : Int
  count : Nat
  deriving DecidableEq, Repr, Inhabited

/-- `createLocalStatsCopy` -/
def Acc.init (k : AccKind) : Acc := { kind := k, stats := if k == .min then -1000 else 0, count := 0 }

/-- `Filter.ApplyValue(val, count)`; counters count in units, aggregates in milli -/
def Acc.apply (a : Acc) (val : Int) (cnt : Nat) : Acc :=
  match a.kind with
  | .counter => { a with stats := a.stats + cnt, count := a.count + cnt }
  | .sum | .avg => { a with stats := a.stats + val, count := a.count + cnt }
  | .min => { a with stats := if cnt > 0 && (a.count == 0 || a.stats > val) then val else a.stats, count := a.count + cnt }
  | .max => { a with stats := if cnt > 0 && (a.count == 0 || a.stats < val) then val else a.stats, count := a.count + cnt }

def AggKind.acc : AggKind → AccKind
  | .sum => .sum | .avg => .avg | .min => .min | .max => .max

def StatsEntry.accKind : StatsEntry → AccKind
  | .counter _ => .counter
  | .agg k _ _ => k.acc

/-- `DataRow.GetFloat` in milli units; `none` where a Go getter panics.  A value which is not a number goes
    through `interface2float64`: a string counts as the number it spells (else 0), every other value as 0 -/
def getFloat (v : View) (c : Column) : Option Int :=
  match v.get c with
  | .f m => some m
  | .i x => some (x * 1000)
  | .s s => some ((parseMilli? s).getD 0)
  | .crash _ => none
  | _ => some 0

/-! ## the grouped form the optimiser builds -/

/-- a node of `Request.StatsGrouped` (a Go `*Filter` in stats position) -/
inductive SNode
  | counter (pos : Nat) (f : Filter)                              -- counter: leaf or And/Or group
  | agg (pos : Nat) (k : AggKind) (col : Column)
  | sgroup (cond : Leaf) (neg : Bool) (subs : List SNode)         -- StatsGroup made from a leaf first term
  | sgroupG (isAnd : Bool) (neg : Bool) (subs : List SNode)       -- StatsGroup made from a *group* first term:
                                                                  -- its children were overwritten by the sub stats
  deriving Inhabited

/-- `Filter.Equals` on leaves: column identity, operator, string value, float value (not: customTag, isEmpty) -/
def Leaf.equalsGo (a b : Leaf) : Bool :=
  a.col.name == b.col.name && a.col.name != "empty" && a.op == b.op && a.sval == b.sval && a.num == b.num &&
  a.tag == b.tag && a.isEmpty == b.isEmpty

mutual
  /-- `Filter.Equals` -/
  def Filter.equalsGo : Filter → Filter → Bool
    | .leaf a na, .leaf b nb => a.equalsGo b && na == nb
    | .grp ia fa na, .grp ib fb nb => ia == ib && na == nb && Filter.equalsGoList fa fb
    | _, _ => false
  def Filter.equalsGoList : List Filter → List Filter → Bool
    | [], [] => true
    | a :: as, b :: bs => Filter.equalsGo a b && Filter.equalsGoList as bs
    | _, _ => false
end

/-- `isGroupableStats`: a non-negated `StatsAnd` counter with at least two terms whose first term is a leaf -/
def groupable : SNode → Option (Nat × Bool × Filter × List Filter × Bool)
  | .counter pos (.grp true (.leaf l n :: g :: rest) false) => some (pos, true, .leaf l n, g :: rest, false)
  | _ => none

/-- `removeFirstStatsFilter`: strip the first term; a single remaining term replaces the group
    (the group's own operator and negation are dropped) -/
def removeFirst (pos : Nat) (isAnd : Bool) (rest : List Filter) (neg : Bool) : SNode :=
  match rest with
  | [single] => .counter pos single
  | _ => .counter pos (.grp isAnd rest neg)

def setAt {α} (l : List α) (i : Nat) (a : α) : List α := l.set i a

structure OptState where
  grouped : List SNode := []
  last : Option Nat := none     -- index of `lastGroup` in `grouped`

/-- `optimizeStatsGroupsRecurse(lastGroup)`, given the recursive optimiser -/
def recurseLast (rec : List SNode → Option (List SNode)) (st : OptState) : OptState :=
  match st.last with
  | none => st
  | some gi =>
    match st.grouped[gi]? with
    | some (.sgroup c n subs) =>
      (match rec subs with
       | some subs' => { st with grouped := setAt st.grouped gi (.sgroup c n subs') }
       | none => st)
    | some (.sgroupG a n subs) =>
      (match rec subs with
       | some subs' => { st with grouped := setAt st.grouped gi (.sgroupG a n subs') }
       | none => st)
    | _ => st

/-- the loop body of `optimizeStatsGroups` over `stats` -/
def optLoop (rec : List SNode → Option (List SNode)) : List SNode → OptState → OptState
  | [], st => st
  | stat :: rest, st =>
    match groupable stat with
    | none => optLoop rec rest { st with grouped := st.grouped ++ [stat] }
    | some (pos, isAnd, first, others, neg) =>
      -- append to the previous group?
      let appended : Option OptState :=
        match st.last with
        | none => none
        | some gi =>
          match st.grouped[gi]?, first with
          | some (.sgroup c n subs), .leaf fl fn =>
            if c.col.name == fl.col.name && c.col.name != "empty" && c.op == fl.op && c.sval == fl.sval && n == fn &&
               c.tag == fl.tag && c.isEmpty == fl.isEmpty then
              some { st with grouped := setAt st.grouped gi (.sgroup c n (subs ++ [removeFirst pos isAnd others neg])) }
            else none
          | _, _ => none
      match appended with
      | some st' => optLoop rec rest st'
      | none =>
        let st := recurseLast rec st
        match rest with
        | [] => optLoop rec rest { st with grouped := st.grouped ++ [stat] }
        | next :: _ =>
          let firstIsOr := match first with | .grp false _ _ => true | _ => false
          match groupable next with
          | none => optLoop rec rest { st with grouped := st.grouped ++ [stat] }
          | some (_, _, nfirst, _, _) =>
            if firstIsOr || !Filter.equalsGo nfirst first then
              optLoop rec rest { st with grouped := st.grouped ++ [stat] }
            else
              let sub := removeFirst pos isAnd others neg
              let group := match first with
                | .leaf fl fn => SNode.sgroup fl fn [sub]
                | .grp a _ n => SNode.sgroupG a n [sub]
              optLoop rec rest { grouped := st.grouped ++ [group], last := some st.grouped.length }

/-- `optimizeStatsGroups(stats, renumber=false)`; positions are assigned beforehand -/
def optimizeNodes : Nat → List SNode → Option (List SNode)
  | 0, _ => none
  | fuel + 1, stats =>
    if stats.length ≤ 1 then none
    else
      let st := optLoop (optimizeNodes fuel) stats {}
      some (recurseLast (optimizeNodes fuel) st).grouped

/-- number the flat entries (`renumber`) -/
def numberStats : Nat → List StatsEntry → List SNode
  | _, [] => []
  | i, .counter f :: rest => .counter i f :: numberStats (i + 1) rest
  | i, .agg k c _ :: rest => .agg i k c :: numberStats (i + 1) rest

mutual
  def Filter.size : Filter → Nat
    | .leaf _ _ => 1
    | .grp _ fs _ => 1 + Filter.sizeList fs
  def Filter.sizeList : List Filter → Nat
    | [] => 0
    | f :: fs => Filter.size f + Filter.sizeList fs
end

def StatsEntry.size : StatsEntry → Nat
  | .counter f => f.size
  | .agg .. => 1

/-- `Request.StatsGrouped` (`none` = `nil`: evaluate the flat list) -/
def optimizeStats (stats : List StatsEntry) : Option (List SNode) :=
  optimizeNodes ((stats.map StatsEntry.size).foldl (· + ·) 0 + stats.length + 2) (numberStats 0 stats)

/-! ## counting -/

abbrev Accs := List Acc

def Accs.bump (accs : Accs) (pos : Nat) (f : Acc → Acc) : Accs :=
  match accs[pos]? with
  | some a => accs.set pos (f a)
  | none => accs

mutual
  /-- a stats node used as a filter by `MatchFilter` (only needed for `sgroupG`) -/
  def SNode.asFilter : SNode → Filter
    | .counter _ f => f
    | .agg _ _ col => .leaf { col := col, op := .gcn } false      -- an aggregate as a filter never matches
    | .sgroup c n _ => .leaf c n
    | .sgroupG a n subs => .grp a (SNode.asFilters subs) n
  def SNode.asFilters : List SNode → List Filter
    | [] => []
    | s :: ss => s.asFilter :: SNode.asFilters ss
end

mutual
  /-- `DataRow.CountStats(stats, result)` on the grouped form; `none` where `GetFloat` panics -/
  def countNodes (q : Quirks) (v : View) : List SNode → Accs → Option Accs
    | [], accs => some accs
    | n :: ns, accs =>
      match countNode q v n accs with
      | some accs' => countNodes q v ns accs'
      | none => none
  def countNode (q : Quirks) (v : View) : SNode → Accs → Option Accs
    | .counter pos f, accs =>
      if matchF q v false f then some (accs.bump pos (fun a => { a with stats := a.stats + 1, count := a.count + 1 })) else some accs
    | .agg pos _ col, accs =>
      match getFloat v col with
      | some m => some (accs.bump pos (fun a => a.apply m 1))
      | none => none
    | .sgroup c n subs, accs =>
      if matchF q v false (.leaf c n) then countNodes q v subs accs else some accs
    | .sgroupG a n subs, accs =>
      if matchF q v false (.grp a (SNode.asFilters subs) n) then countNodes q v subs accs else some accs
end

/-- flat counting of one row: `CountStats(req.Stats, …)`; `pushDown := false` is the specification -/
def countFlat (q : Quirks) (pushDown : Bool) (v : View) : List StatsEntry → Nat → Accs → Option Accs
  | [], _, accs => some accs
  | .counter f :: rest, pos, accs =>
    let hit := if pushDown then matchF q v false f else sem q v f
    countFlat q pushDown v rest (pos + 1) (if hit then accs.bump pos (fun a => { a with stats := a.stats + 1, count := a.count + 1 }) else accs)
  | .agg _ col _ :: rest, pos, accs =>
    match getFloat v col with
    | some m => countFlat q pushDown v rest (pos + 1) (accs.bump pos (fun a => a.apply m 1))
    | none => none

/-! ## per backend, merge, final -/

abbrev StatsMap := List (String × Accs)     -- group key → slots, first-seen order

def StatsMap.upsert (m : StatsMap) (key : String) (init : Accs) (f : Accs → Option Accs) : Option StatsMap :=
  match m.find? (·.1 == key) with
  | some (_, accs) => (f accs).map fun accs' => m.map (fun (k, a) => if k == key then (k, accs') else (k, a))
  | none => (f init).map fun accs' => m ++ [(key, accs')]

structure StatsMode where
  q : Quirks
  useIndex : Bool
  pushDown : Bool
  grouped : Bool      -- use `StatsGrouped` (ParseOptimize) when the optimiser produced one

def foldRows (step : StatsMap → Row → Option StatsMap) : List Row → StatsMap → Option StatsMap
  | [], m => some m
  | r :: rs, m =>
    match step m r with
    | some m' => foldRows step rs m'
    | none => none

/-- `gatherStatsResult` for one backend; `none` = the process would crash -/
def gatherStats (m : StatsMode) (cx : Ctx) (t : Table) (req : Request) (reqCols : List Column) : Option StatsMap :=
  let rows := tableRows cx t
  let cands := if m.useIndex then preFiltered cx t rows req.filter else rows
  let init : Accs := req.stats.map (fun s => Acc.init s.accKind)
  let grouped := if m.grouped then optimizeStats req.stats else none
  let step := fun (acc : StatsMap) (r : Row) =>
    let v := mkView cx t r
    let ok := (if m.pushDown then matchAll m.q v req.filter else semList m.q v req.filter) && checkAuth cx t req.authUser r
    if !ok then some acc
    else
      let key := joinWith sep0 (reqCols.map (fun c => (v.get c).keyString))
      acc.upsert key init fun accs =>
        match grouped with
        | some nodes => countNodes m.q v nodes accs
        | none => countFlat m.q m.pushDown v req.stats 0 accs
  foldRows step cands []

/-- `Response.MergeStats`: the first backend's slots are taken as they are, later ones are applied -/
def mergeStats (a b : StatsMap) : StatsMap :=
  b.foldl (fun acc (key, slots) =>
    match acc.find? (·.1 == key) with
    | none => acc ++ [(key, slots)]
    | some _ => acc.map fun (k, cur) =>
        if k == key then (k, (cur.zip slots).map (fun (c, s) => c.apply s.stats s.count)) else (k, cur)) a

/-- the printed value of a slot: `(numerator, denominator)`; counters in units, aggregates in milli -/
def Acc.final (a : Acc) : Int × Nat :=
  if a.count == 0 then (0, 1)
  else match a.kind with
    | .avg => (a.stats, a.count)
    | _ => (a.stats, 1)

structure StatsResult where
  rows : List (String × Accs)     -- sorted by key for comparison
  failed : List (String × String)
  crash : Bool := false
  deriving Inhabited

def statsQuery (m : StatsMode) (s : Schema) (ds : Dataset) (t : Table) (req : Request) : StatsResult :=
  let sel := selectBackends ds t req
  let avail := sel.peers.filter (fun b => backendAvailable b t)
  let failed := sel.failed ++ (sel.peers.filter (fun b => !backendAvailable b t)).map (fun b => (b.id, s!"peer is down: {b.err}"))
  let reqCols := req.columns.map t.colWithFallback
  let per := avail.map fun b => gatherStats m { schema := s, ds := ds, b := b } t req reqCols
  if per.any Option.isNone then { rows := [], failed := failed, crash := true }
  else
    let merged := (per.filterMap id).foldl mergeStats []
    let merged := if req.columns.isEmpty && merged.isEmpty then [("", req.stats.map (fun st => Acc.init st.accKind))] else merged
    { rows := merged, failed := failed }

/-! ## the arithmetic specification of a slot -/

/-- what a stats slot *should* print over the matching rows' values (`vals` in milli; for counters the number of hits) -/
def specFinal (k : AccKind) (vals : List Int) : Int × Nat :=
  match k, vals with
  | .counter, vs => (vs.length, 1)
  | _, [] => (0, 1)
  | .sum, vs => (vs.foldl (· + ·) 0, 1)
  | .avg, vs => (vs.foldl (· + ·) 0, vs.length)
  | .min, v :: vs => (vs.foldl min v, 1)
  | .max, v :: vs => (vs.foldl max v, 1)

/-- the specification of a whole Stats query: full scan, Boolean semantics, flat evaluation,
    arithmetic aggregates; one line per distinct key over the union of all selected, available backends -/
def statsSpec (s : Schema) (ds : Dataset) (t : Table) (req : Request) : List (String × List (Int × Nat)) :=
  let sel := selectBackends ds t req
  let avail := sel.peers.filter (fun b => backendAvailable b t)
  let reqCols := req.columns.map t.colWithFallback
  let q := Quirks.none
  let views : List (String × View) := avail.flatMap fun b =>
    let cx : Ctx := { schema := s, ds := ds, b := b }
    ((tableRows cx t).filter (fun r => semList q (mkView cx t r) req.filter && checkAuth cx t req.authUser r)).map fun r =>
      let v := mkView cx t r
      (joinWith sep0 (reqCols.map (fun c => (v.get c).keyString)), v)
  let keys := (views.map (·.1)).eraseDups
  let keys := if req.columns.isEmpty && keys.isEmpty then [""] else keys
  keys.map fun k =>
    let vs := (views.filter (·.1 == k)).map (·.2)
    (k, req.stats.map fun st =>
      match st with
      | .counter f => specFinal .counter ((vs.filter (fun v => sem q v f)).map (fun _ => 0))
      | .agg kind col _ => specFinal kind.acc (vs.filterMap (fun v => getFloat v col)))

end Lmd
