/-
  Lmd.Store — the cached dataset: backends, tables, rows, value coercion (`interface2*`), the primary
  key indexes, cross references (`SetReferences`), lower-case shadow columns and virtual columns.
-/
import Lmd.Filter

namespace Lmd
open Lean (Json JsonNumber)

/-- a cached row: the locally stored columns by name (already coerced to the column type) -/
structure Row where
  cells : List (String × Val)
  deriving Inhabited

inductive PeerState | up | warning | down | broken | pending | syncing
  deriving DecidableEq, Repr, Inhabited

def PeerState.num : PeerState → Int
  | .up => 0 | .warning => 1 | .down => 2 | .broken => 3 | .pending => 4 | .syncing => 5

structure Backend where
  id : String
  name : String
  flags : Nat := 0
  state : PeerState := .up
  err : String := ""
  hasData : Bool := true
  tables : List (String × List Row) := []
  section_ : String := ""
  addr : String := ""
  deriving Inhabited

structure Dataset where
  backends : List Backend
  serviceAuthLoose : Bool := true
  groupAuthLoose : Bool := false
  deriving Inhabited

def Backend.rows (b : Backend) (table : String) : List Row :=
  match b.tables.find? (·.1 == table) with
  | some (_, rs) => rs
  | none => []

/-! ### coercion of backend JSON values (`interface2int8`, `interface2int64`, …) -/

/-- a JSON number as milli units, truncated toward zero beyond three fraction digits -/
def jsonNumMilli (n : JsonNumber) : Int :=
  -- value = mantissa * 10^-exponent
  if n.exponent ≤ 3 then n.mantissa * (10 ^ (3 - n.exponent) : Nat)
  else Int.tdiv n.mantissa ((10 ^ (n.exponent - 3) : Nat) : Int)

def jsonToMilli : Json → Int
  | .num n => jsonNumMilli n
  | .bool true => 1000
  | .str s => (parseMilli? s).getD 0
  | _ => 0

def jsonToStr : Json → String
  | .str s => s
  | .null => ""
  | .num n => milliToGo (jsonNumMilli n)
  | .bool b => if b then "true" else "false"
  | j => j.compress

def jsonToStrList : Json → List String
  | .arr a => a.toList.map jsonToStr
  | .str s => if s == "" then [] else [s]
  | .num n => if jsonNumMilli n == 0 then [] else [milliToGo (jsonNumMilli n)]
  | _ => []

def jsonToIntList : Json → List Int
  | .arr a => a.toList.map (fun j => milliTrunc (jsonToMilli j))
  | _ => []

def jsonToMembers : Json → List (String × String)
  | .arr a => a.toList.map fun j =>
      match j with
      | .arr p => if p.size == 2 then (jsonToStr p[0]!, jsonToStr p[1]!) else ("", "")
      | _ => ("", "")
  | _ => []

/-- what `DataRow.UpdateValues` stores for a backend value of a column of this type -/
def coerce (t : DataType) (j : Json) : Val :=
  match t with
  | .str | .strLarge | .json => .s (jsonToStr j)
  | .int => .i (checkInt8 (milliTrunc (jsonToMilli j)))
  | .int64 => .i (milliTrunc (jsonToMilli j))
  | .float => .f (jsonToMilli j)
  | .strList => .sl (jsonToStrList j)
  | .int64List => .il (jsonToIntList j)
  | .svcMemberList => .ml (jsonToMembers j)
  | .ifaceList => match j with | .arr a => .jl a.toList | _ => .jl []
  | .customVar => .cv [] []

/-! ### local values -/

def Row.cell? (r : Row) (n : String) : Option Val := (r.cells.find? (·.1 == n)).map (·.2)

/-- value of a `LocalStore` column, including the lower-case shadow columns of `setLowerCaseCache` -/
def localVal (t : Table) (r : Row) (c : Column) : Val :=
  if hasSuffix c.name "_lc" then
    match t.col? (trimSuffix c.name "_lc") with
    | some base =>
      match r.cell? base.name with
      | some (.s v) => .s (goLower v)
      | _ => .s ""
    | none => (r.cell? c.name).getD c.dtype.zero
  else (r.cell? c.name).getD c.dtype.zero

def Row.str (t : Table) (r : Row) (n : String) : String :=
  match t.col? n with
  | some c => (localVal t r c).asString
  | none => ""

def Row.strList (r : Row) (n : String) : List String :=
  match r.cell? n with
  | some (.sl v) => v
  | _ => []

def Row.int (r : Row) (n : String) : Int :=
  match r.cell? n with
  | some (.i v) => v
  | _ => 0

/-! ### indexes and references -/

/-- the primary key strings of a row (`GetID` / `GetID2`) -/
def Row.key (t : Table) (r : Row) : List String := t.primaryKey.map (r.str t)

/-- `DataStore.index` / `index2`: the *last* inserted row with that key wins -/
def findByKey (t : Table) (rows : List Row) (key : List String) : Option Row :=
  (rows.reverse.find? (fun r => r.key t == key))

structure Ctx where
  schema : Schema
  ds : Dataset
  b : Backend

def Ctx.table (cx : Ctx) (n : String) : Table := (cx.schema.table? n).getD { name := n, cols := [] }

/-- the referenced row of `SetReferences` for reference table `rt` -/
def refRow (cx : Ctx) (t : Table) (r : Row) (rt : String) : Option Row :=
  match t.refs.find? (·.table == rt) with
  | none => none
  | some ref =>
    let key := ref.cols.map (r.str t)
    findByKey (cx.table rt) (cx.b.rows rt) key

/-! ### virtual columns -/

def flagNames (s : Schema) (flags : Nat) : List String :=
  (s.flags.filter (fun (_, bit) => (flags &&& bit) != 0)).map (·.1)

/-- typed value of a virtual column (`getVirtualRowValue` + `cast2Type`) for the modelled ones;
    `none` = not modelled (the driver reports the request as unsupported) -/
def virtVal (cx : Ctx) (t : Table) (r : Row) (c : Column) : Option Val :=
  let b := cx.b
  let key := trimPrefix (trimPrefix (trimPrefix c.name "host_") "peer_") "peer_"
  match c.name with
  | "peer_key" | "host_peer_key" => some (.s b.id)
  | "peer_name" | "host_peer_name" => some (.s b.name)
  | "peer_section" | "section" => some (.s b.section_)
  | "empty" => some (.s "")
  | "custom_variables" | "host_custom_variables" =>
    match t.col? "custom_variable_names" with
    | some nc =>
      if nc.optional != 0 && !hasFlag b.flags nc.optional then some (.cv [] [])
      else some (.cv (r.strList "custom_variable_names") (r.strList "custom_variable_values"))
    | none => some (.cv [] [])
  | "state_order" =>
    let st := r.int "state"
    some (.i (if st == 2 then 4 else st))
  | "has_long_plugin_output" => some (.i (if r.str t "long_plugin_output" != "" then 1 else 0))
  | "total_services" => some (.i (r.int "num_services"))
  | "members_with_state" =>
    -- `VirtualColMembersWithState`: every member with the state of the object of that name; a member that is not found
    -- leaves its slot empty (null)
    let num := fun (x : Int) => Json.num ⟨x, 0⟩
    if t.name == "hostgroups" then
      let ht := cx.table "hosts"
      some (.jl ((r.strList "members").map fun n =>
        match (b.rows "hosts").reverse.find? (fun h => h.str ht "name" == n) with
        | some h => Json.arr #[.str n, num (h.int "state"), num (h.int "has_been_checked")]
        | none => Json.null))
    else if t.name == "servicegroups" then
      let st := cx.table "services"
      let members := match r.cell? "members" with | some (.ml ms) => ms | _ => []
      some (.jl (members.map fun (hn, d) =>
        match (b.rows "services").reverse.find? (fun x => x.str st "host_name" == hn && x.str st "description" == d) with
        | some x => Json.arr #[.str hn, .str d, num (x.int "state"), num (x.int "has_been_checked")]
        | none => Json.null))
    else none
  | "comments_with_info" | "downtimes_with_info" =>
    -- `VirtualColCommentsWithInfo` / `VirtualColDowntimesWithInfo` (hosts, services): the entries named in the object's id
    -- list, looked up in the comments / downtimes table of the same backend; an id that is not found is left out
    let num := fun (x : Int) => Json.num ⟨x, 0⟩
    let isC := c.name == "comments_with_info"
    let tn := if isC then "comments" else "downtimes"
    let et := cx.table tn
    let ids := match r.cell? tn with | some (.il v) => v | _ => []
    some (.jl (ids.filterMap fun id =>
      match (b.rows tn).reverse.find? (fun x => x.int "id" == id) with
      | some x =>
        some (Json.arr (if isC then
          #[num id, .str (x.str et "author"), .str (x.str et "comment"), num (x.int "entry_time"), num (x.int "entry_type"),
            num (x.int "expires"), num (x.int "expire_time")]
        else
          #[num id, .str (x.str et "author"), .str (x.str et "comment"), num (x.int "entry_time"), num (x.int "start_time"),
            num (x.int "end_time"), num (x.int "fixed"), num (x.int "duration"), num (x.int "triggered_by")]))
      | none => none))
  | "services_with_state" | "services_with_info" =>
    -- `VirtualColServicesWithInfo` (hosts): the services named in the host's `services` list
    let num := fun (x : Int) => Json.num ⟨x, 0⟩
    if t.name == "hosts" then
      let st := cx.table "services"
      let hn := r.str t "name"
      some (.jl ((r.strList "services").map fun d =>
        match (b.rows "services").reverse.find? (fun x => x.str st "host_name" == hn && x.str st "description" == d) with
        | some x =>
          let base := #[Json.str d, num (x.int "state"), num (x.int "has_been_checked")]
          Json.arr (if c.name == "services_with_info" then base.push (.str (x.str st "plugin_output")) else base)
        | none => Json.null))
    else none
  | _ =>
    if t.virt == .backends then
      match key with
      | "key" => some (.s b.id)
      | "name" => some (.s b.name)
      | "addr" => some (.s b.addr)
      | "status" => some (.i b.state.num)
      | "last_error" => some (.s b.err)
      | "parent" => some (.s "")
      | "flags" => some (.sl (flagNames cx.schema b.flags))
      | _ => none
    else none

/-- the value a Go getter returns for column `c` of row `r` (references and virtual columns resolved) -/
def getVal (cx : Ctx) (t : Table) (r : Row) (c : Column) : Val :=
  -- `isMissingOptionalColumn`: an optional column the backend does not provide reads as the empty value
  if c.optional != 0 && !hasFlag cx.b.flags c.optional then c.dtype.emptyVal else
  match c.storage with
  | .loc => localVal t r c
  | .virt => (virtVal cx t r c).getD (.crash s!"virtual column {c.name} not modelled")
  | .ref =>
    match refRow cx t r c.refTable with
    | none => c.dtype.emptyVal
    | some rr =>
      let rt := cx.table c.refTable
      match rt.col? c.refCol with
      | none => .crash "refcol"
      | some rc =>
        match rc.storage with
        | .loc => localVal rt rr rc
        | .virt => (virtVal cx rt rr rc).getD (.crash s!"virtual column {rc.name} not modelled")
        | .ref => .crash "nested ref"

def mkView (cx : Ctx) (t : Table) (r : Row) : View := { get := getVal cx t r, flags := cx.b.flags }

/-! ### the rows of a table, including the virtual by-group tables (`GetGroupByData`) -/

def groupByRows (cx : Ctx) (t : Table) : List Row :=
  match t.name with
  | "hostsbygroup" =>
    (cx.b.rows "hosts").flatMap fun h =>
      (h.strList "groups").map fun g => { cells := [("name", .s (h.str (cx.table "hosts") "name")), ("hostgroup_name", .s g)] }
  | "servicesbygroup" =>
    (cx.b.rows "services").flatMap fun s =>
      (s.strList "groups").map fun g =>
        { cells := [("host_name", .s (s.str (cx.table "services") "host_name")),
                    ("description", .s (s.str (cx.table "services") "description")), ("servicegroup_name", .s g)] }
  | "servicesbyhostgroup" =>
    (cx.b.rows "services").flatMap fun s =>
      let hostGroups := match refRow cx (cx.table "services") s "hosts" with
        | some h => h.strList "groups"
        | none => []
      hostGroups.map fun g =>
        { cells := [("host_name", .s (s.str (cx.table "services") "host_name")),
                    ("description", .s (s.str (cx.table "services") "description")), ("hostgroup_name", .s g)] }
  | _ => []

/-- rows of the store a query on table `t` scans for this backend -/
def tableRows (cx : Ctx) (t : Table) : List Row :=
  match t.virt with
  | .none => cx.b.rows t.name
  | .groupby => groupByRows cx t
  | .backends => [{ cells := [] }]
  | .columns => []

/-! ### the assumption on backend data under which group index pre-selection is complete -/

/-- a host lists group `g` iff the hostgroup `g` lists the host, a service lists service group `g` iff
    that group lists the service, and every service's host exists (so that `host_groups` resolves) -/
def groupsConsistent (s : Schema) (b : Backend) : Bool :=
  let ht := (s.table? "hosts").getD { name := "hosts", cols := [] }
  let st := (s.table? "services").getD { name := "services", cols := [] }
  let hgt := (s.table? "hostgroups").getD { name := "hostgroups", cols := [] }
  let sgt := (s.table? "servicegroups").getD { name := "servicegroups", cols := [] }
  let hosts := b.rows "hosts"
  let svcs := b.rows "services"
  let hgs := b.rows "hostgroups"
  let sgs := b.rows "servicegroups"
  let memberOf := fun (h : String) (g : String) => hgs.any (fun gr => gr.str hgt "name" == g && (gr.strList "members").contains h)
  let svcMemberOf := fun (h d g : String) => sgs.any (fun gr => gr.str sgt "name" == g &&
    (match gr.cell? "members" with | some (.ml ms) => ms.contains (h, d) | _ => false))
  hosts.all (fun h => (h.strList "groups").all (fun g => memberOf (h.str ht "name") g)) &&
  hgs.all (fun gr => (gr.strList "members").all (fun m =>
    match findByKey ht hosts [m] with
    | some h => (h.strList "groups").contains (gr.str hgt "name")
    | none => true)) &&
  svcs.all (fun sv => (sv.strList "groups").all (fun g => svcMemberOf (sv.str st "host_name") (sv.str st "description") g)) &&
  sgs.all (fun gr =>
    (match gr.cell? "members" with | some (.ml ms) => ms | _ => []).all (fun (h, d) =>
      match findByKey st svcs [h, d] with
      | some sv => (sv.strList "groups").contains (gr.str sgt "name")
      | none => true)) &&
  svcs.all (fun sv => (findByKey ht hosts [sv.str st "host_name"]).isSome)

end Lmd
