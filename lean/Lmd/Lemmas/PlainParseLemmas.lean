/-
  Lmd.Lemmas.PlainParseLemmas — the request parser gives the same request with and without
  `ParseOptimize` (up to filter un-nesting) on texts whose filter terms use no
  regular-expression operator and no case-insensitive substring operator.
-/
import Lmd.Parse

namespace Lmd.PlainParse

/-- operators the optimising parser never rewrites: everything except `~ !~ ~~ !~~` (regular
    expressions) and `ilike iunlike` (moved to the lower-case columns on hosts / services) -/
def plainOp : Op → Bool
  | .re | .nre | .reNc | .nreNc | .ctNc | .nctNc => false
  | _ => true

theorem parseOp_plain_not_regex {s : String} {op : Op} {b : Bool} (h : parseOp s = some (op, b))
    (hp : plainOp op = true) : b = false := by
  unfold parseOp at h
  split at h <;> simp only [Option.some.injEq, Prod.mk.injEq, reduceCtorEq] at h <;>
    obtain ⟨rfl, rfl⟩ := h <;> first | rfl | (simp [plainOp] at hp)

theorem setFilterValue_op {l l' : Leaf} {raw : String} (h : setFilterValue l raw = .ok l') :
    l'.op = l.op := by
  unfold setFilterValue at h
  simp only [pure, Except.pure, throw, throwThe, MonadExceptOf.throw] at h
  repeat' split at h
  all_goals first | (cases h; rfl) | (cases h)

theorem setLowerCaseColumn_plain (t : Table) (l : Leaf) (hp : plainOp l.op = true) :
    setLowerCaseColumn t l = l := by
  unfold setLowerCaseColumn
  split
  · rfl
  · cases h : l.op <;> simp [plainOp, h] at hp ⊢

/-- the value of a header line, read as `<field> <operator> <value>`, has a plain operator (or
    no operator at all) -/
def PlainValue (value : String) : Prop :=
  ∀ c o r, splitN ' ' 3 value = c :: o :: r → ∀ op b, parseOp o = some (op, b) → plainOp op = true

theorem parseFilterLeaf_plain (q : Quirks) (sd : Bool) (t : Table) (value : String)
    (h : PlainValue value) :
    parseFilterLeaf { optimize := true, q := q, specDots := false } t value =
      parseFilterLeaf { optimize := false, q := q, specDots := sd } t value := by
  unfold parseFilterLeaf
  split
  · rename_i colName opText rest heq
    cases hparse : parseOp opText with
    | none => simp only []
    | some p =>
      obtain ⟨op, isRegex⟩ := p
      have hp := h _ _ _ heq _ _ hparse
      have hb := parseOp_plain_not_regex hparse hp
      subst hb
      have hne : (op == Op.ctNc || op == Op.nctNc) = false := by
        revert hp; cases op <;> decide
      simp only [bind, Except.bind, hne, Bool.false_eq_true, if_false, if_true]
      generalize hsv : setFilterValue _ _ = res
      cases res with
      | error e => rfl
      | ok l' =>
        have hop : l'.op = op := setFilterValue_op hsv
        simp only []
        rw [setLowerCaseColumn_plain t l' (by rw [hop]; exact hp)]
  · simp only []

theorem plainValue_default : PlainValue "state != 9999" := by
  intro c o r h op b hp
  have hs : splitN ' ' 3 "state != 9999" = ["state", "!=", "9999"] := by decide
  rw [hs] at h
  simp only [List.cons.injEq] at h
  obtain ⟨_, rfl, _⟩ := h
  have : parseOp "!=" = some (.ne, false) := by decide
  rw [this] at hp
  simp only [Option.some.injEq, Prod.mk.injEq] at hp
  obtain ⟨rfl, _⟩ := hp
  rfl

theorem parseStats_plain (q : Quirks) (sd : Bool) (t : Table) (value : String)
    (stack : List StatsEntry) (h : PlainValue value) :
    parseStats { optimize := true, q := q, specDots := false } t value stack =
      parseStats { optimize := false, q := q, specDots := sd } t value stack := by
  unfold parseStats
  rw [parseFilterLeaf_plain q sd t value h]

theorem statsGroupOp_plain (q : Quirks) (sd : Bool) (t : Table) (isAnd : Bool) (value : String)
    (stack : List StatsEntry) :
    statsGroupOp { optimize := true, q := q, specDots := false } t isAnd value stack =
      statsGroupOp { optimize := false, q := q, specDots := sd } t isAnd value stack := by
  unfold statsGroupOp
  rw [parseStats_plain q sd t _ stack plainValue_default]

/-- the value part of a header line -/
def argsOf (line : String) : String :=
  match cut ':' line with
  | (_, some rest) => trimLeftSpaces rest
  | (_, none) => ""

theorem parseHeaderLine_plain (q : Quirks) (sd : Bool) (t : Table) (req : Request) (line : String)
    (h : PlainValue (argsOf line)) :
    parseHeaderLine { optimize := true, q := q, specDots := false } t req line =
      parseHeaderLine { optimize := false, q := q, specDots := sd } t req line := by
  unfold parseHeaderLine
  split
  · rfl
  · rename_i hdr rest heq
    have ha : argsOf line = trimLeftSpaces rest := by simp only [argsOf, heq]
    rw [ha] at h
    simp only [parseFilterLeaf_plain q sd t _ h, parseStats_plain q sd t _ _ h,
      statsGroupOp_plain q sd t]

/-- every line of the text has a plain value -/
def PlainLines (lines : List String) : Prop := ∀ line ∈ lines, PlainValue (argsOf (trimSpace line))

theorem parseHeaderLines_plain (q : Quirks) (sd : Bool) (t : Table) :
    ∀ (lines : List String) (req : Request), PlainLines lines →
      parseHeaderLines { optimize := true, q := q, specDots := false } t req lines =
        parseHeaderLines { optimize := false, q := q, specDots := sd } t req lines
  | [], req, _ => rfl
  | line :: rest, req, h => by
    rw [parseHeaderLines, parseHeaderLines]
    split
    · rfl
    · rw [parseHeaderLine_plain q sd t req _ (h line (by simp))]
      simp only [bind, Except.bind]
      cases parseHeaderLine { optimize := false, q := q, specDots := sd } t req (trimSpace line) with
      | error e => rfl
      | ok req' =>
        exact parseHeaderLines_plain q sd t rest req' (fun l hl => h l (List.mem_cons_of_mem _ hl))

/-- every header line of the request text has a plain value -/
def PlainText (text : String) : Prop := PlainLines (splitLines text).tail

/-- on a plain text the optimising parser returns the request of the plain parser with its filter
    list un-nested -/
theorem parseRequest_plain (s : Schema) (q : Quirks) (sd : Bool) (text : String) (ro rp : Request)
    (hplain : PlainText text)
    (ho : parseRequest s { optimize := true, q := q, specDots := false } text = .ok ro)
    (hp : parseRequest s { optimize := false, q := q, specDots := sd } text = .ok rp) :
    ro = { rp with filter := optimizeIndentation (Filter.depthList rp.filter + 1) rp.filter } := by
  unfold parseRequest at ho hp
  unfold PlainText at hplain
  split at ho
  · cases ho
  · rename_i first lines heq
    rw [heq] at hp hplain
    simp only [List.tail_cons] at hplain
    simp only [bind, Except.bind] at ho hp
    cases hact : parseAction first with
    | error e => rw [hact] at ho; cases ho
    | ok tname =>
      rw [hact] at ho hp
      simp only [] at ho hp
      cases ht : s.table? tname with
      | none => rw [ht] at ho; cases ho
      | some t =>
        rw [ht] at ho hp
        simp only [] at ho hp
        rw [parseHeaderLines_plain q sd t lines _ hplain] at ho
        cases hl : parseHeaderLines { optimize := false, q := q, specDots := sd } t { table := tname } lines with
        | error e => rw [hl] at ho; cases ho
        | ok req =>
          rw [hl] at ho hp
          simp only [Bool.false_eq_true, if_false, if_true] at ho hp
          split at hp
          · cases hp
          · rename_i hs
            rw [if_neg hs] at ho
            cases ho; cases hp
            rfl

end Lmd.PlainParse
