/-
  Lmd.Lemmas.Auth — helper lemmas for C08 (authorisation) and C04 (backend selection):
  the member loop of the group checks, the "last row wins" index lookup, de-duplication,
  and the independence of the per-backend row loop from the other backends of the dataset.
-/
import Lmd.Query

namespace Lmd.Lemmas

/-! ### the member loop -/

/-- strict mode: all members must be authorised and there must be at least one member -/
theorem groupLoop_false {α : Type} (auth : α → Bool) :
    ∀ ms : List α, groupLoop false auth ms = (!ms.isEmpty && ms.all auth)
  | [] => by simp [groupLoop]
  | [m] => by simp [groupLoop]
  | m :: m' :: ms => by
    have ih := groupLoop_false auth (m' :: ms)
    simp only [groupLoop, Bool.false_eq_true, if_false, ih]
    simp

/-- loose mode: one authorised member is enough -/
theorem groupLoop_true {α : Type} (auth : α → Bool) :
    ∀ ms : List α, groupLoop true auth ms = ms.any auth
  | [] => by simp [groupLoop]
  | [m] => by simp [groupLoop]
  | m :: m' :: ms => by
    have ih := groupLoop_true auth (m' :: ms)
    simp only [groupLoop, if_true, ih]
    simp

/-! ### the primary index: the last row with the key -/

theorem find?_reverse_eq_some {α : Type} (p : α → Bool) (l : List α) (a : α) :
    l.reverse.find? p = some a ↔
      ∃ pre post, l = pre ++ a :: post ∧ p a = true ∧ ∀ x ∈ post, p x = false := by
  rw [List.find?_eq_some_iff_append]
  constructor
  · rintro ⟨hp, as, bs, hl, hbs⟩
    refine ⟨bs.reverse, as.reverse, ?_, hp, ?_⟩
    · have := congrArg List.reverse hl
      simpa using this
    · intro x hx
      have := hbs x (by simpa using hx)
      simpa using this
  · rintro ⟨pre, post, hl, hp, hpost⟩
    refine ⟨hp, post.reverse, pre.reverse, ?_, ?_⟩
    · subst hl; simp
    · intro x hx
      have := hpost x (by simpa using hx)
      simp [this]

/-- `findByKey` returns the last row of the store whose primary key is `key` -/
theorem findByKey_eq_some (t : Table) (rows : List Row) (key : List String) (r : Row) :
    findByKey t rows key = some r ↔
      ∃ pre post, rows = pre ++ r :: post ∧ r.key t = key ∧ ∀ x ∈ post, x.key t ≠ key := by
  unfold findByKey
  rw [find?_reverse_eq_some]
  simp

/-- `findByKey` finds nothing exactly when no row has the key -/
theorem findByKey_eq_none (t : Table) (rows : List Row) (key : List String) :
    findByKey t rows key = none ↔ ∀ x ∈ rows, x.key t ≠ key := by
  unfold findByKey
  simp

/-! ### de-duplication -/

theorem nodup_eraseDups {α : Type} [BEq α] [LawfulBEq α] :
    ∀ (n : Nat) (l : List α), l.length ≤ n → l.eraseDups.Nodup
  | _, [], _ => by simp
  | 0, _ :: _, h => by simp at h
  | n + 1, a :: as, h => by
    rw [List.eraseDups_cons, List.nodup_cons]
    constructor
    · simp [List.mem_eraseDups]
    · apply nodup_eraseDups n
      have := List.length_filter_le (fun b => !b == a) as
      simp at h
      omega

/-! ### the row loop of one backend does not look at the other backends -/

/-- two contexts that differ at most in the list of backends of the dataset -/
structure SameView (cx cx' : Ctx) : Prop where
  schema : cx.schema = cx'.schema
  b : cx.b = cx'.b
  sal : cx.ds.serviceAuthLoose = cx'.ds.serviceAuthLoose
  gal : cx.ds.groupAuthLoose = cx'.ds.groupAuthLoose

variable {cx cx' : Ctx}

theorem table_congr (h : SameView cx cx') (n : String) : cx.table n = cx'.table n := by
  simp only [Ctx.table, h.schema]

theorem refRow_congr (h : SameView cx cx') (t : Table) (r : Row) (rt : String) :
    refRow cx t r rt = refRow cx' t r rt := by
  simp only [refRow, table_congr h, h.b]

theorem virtVal_congr (h : SameView cx cx') (t : Table) (r : Row) (c : Column) :
    virtVal cx t r c = virtVal cx' t r c := by
  simp only [virtVal, h.schema, h.b, table_congr h]

theorem getVal_congr (h : SameView cx cx') (t : Table) (r : Row) (c : Column) :
    getVal cx t r c = getVal cx' t r c := by
  simp only [getVal, refRow_congr h, virtVal_congr h, table_congr h, h.b]

theorem mkView_congr (h : SameView cx cx') (t : Table) (r : Row) :
    mkView cx t r = mkView cx' t r := by
  have : getVal cx t r = getVal cx' t r := funext (getVal_congr h t r)
  simp only [mkView, this, h.b]

theorem groupByRows_congr (h : SameView cx cx') (t : Table) :
    groupByRows cx t = groupByRows cx' t := by
  simp only [groupByRows, refRow_congr h, table_congr h, h.b]

theorem tableRows_congr (h : SameView cx cx') (t : Table) :
    tableRows cx t = tableRows cx' t := by
  simp only [tableRows, groupByRows_congr h, h.b]

theorem leafIndexKeys_congr (h : SameView cx cx') (k : IndexKind) (t : Table) (l : Leaf) :
    leafIndexKeys cx k t l = leafIndexKeys cx' k t l := by
  simp only [leafIndexKeys, table_congr h, h.b]

theorem preFiltered_congr (h : SameView cx cx') (t : Table) (rows : List Row) (fs : List Filter) :
    preFiltered cx t rows fs = preFiltered cx' t rows fs := by
  have : ∀ k, leafIndexKeys cx k t = leafIndexKeys cx' k t := fun k => funext (leafIndexKeys_congr h k t)
  simp only [preFiltered, this]

theorem isAuthorizedFor_congr (h : SameView cx cx') (u a b : String) :
    isAuthorizedFor cx u a b = isAuthorizedFor cx' u a b := by
  simp only [isAuthorizedFor, table_congr h, h.b, h.sal]

theorem isAuthorizedForHostGroup_congr (h : SameView cx cx') (u g : String) :
    isAuthorizedForHostGroup cx u g = isAuthorizedForHostGroup cx' u g := by
  simp only [isAuthorizedForHostGroup, table_congr h, h.b, h.gal, isAuthorizedFor_congr h]

theorem isAuthorizedForServiceGroup_congr (h : SameView cx cx') (u g : String) :
    isAuthorizedForServiceGroup cx u g = isAuthorizedForServiceGroup cx' u g := by
  simp only [isAuthorizedForServiceGroup, table_congr h, h.b, h.gal, isAuthorizedFor_congr h]

theorem checkAuth_congr (h : SameView cx cx') (t : Table) (u : String) (r : Row) :
    checkAuth cx t u r = checkAuth cx' t u r := by
  simp only [checkAuth, isAuthorizedFor_congr h, isAuthorizedForHostGroup_congr h,
    isAuthorizedForServiceGroup_congr h]

theorem gatherRows_congr (h : SameView cx cx') (m : EvalMode) (t : Table) (req : Request) :
    gatherRows m cx t req = gatherRows m cx' t req := by
  have h1 : checkAuth cx t req.authUser = checkAuth cx' t req.authUser := funext (checkAuth_congr h t _)
  have h2 : mkView cx t = mkView cx' t := funext (mkView_congr h t)
  simp only [gatherRows, tableRows_congr h, preFiltered_congr h, h1, h2, h.b]

end Lmd.Lemmas

/-! ### a small concrete dataset for the non-vacuity examples -/

namespace Lmd.Demo
open Lmd

def strCol (n : String) : Column := { name := n, dtype := .str, storage := .loc }
def listCol (n : String) : Column := { name := n, dtype := .strList, storage := .loc }

def hostsT : Table :=
  { name := "hosts", cols := [strCol "name", listCol "contacts", listCol "groups"], primaryKey := ["name"] }
def servicesT : Table :=
  { name := "services", cols := [strCol "host_name", strCol "description", listCol "contacts"],
    primaryKey := ["host_name", "description"], refs := [{ table := "hosts", cols := ["host_name"] }] }
def hostgroupsT : Table :=
  { name := "hostgroups", cols := [strCol "name", listCol "members"], primaryKey := ["name"] }
def contactsT : Table :=
  { name := "contacts", cols := [strCol "name"], primaryKey := ["name"] }

def schema : Schema := { tables := [hostsT, servicesT, hostgroupsT, contactsT] }

def host (n : String) (contacts groups : List String) : Row :=
  { cells := [("name", .s n), ("contacts", .sl contacts), ("groups", .sl groups)] }
def svc (h d : String) (contacts : List String) : Row :=
  { cells := [("host_name", .s h), ("description", .s d), ("contacts", .sl contacts)] }
def hostgroup (n : String) (members : List String) : Row :=
  { cells := [("name", .s n), ("members", .sl members)] }

/-- host `h1` belongs to alice, `h2` to bob; service `(h2, s2)` names alice; group `g` has both hosts -/
def hostH1 : Row := host "h1" ["alice"] ["g"]
def hostH2 : Row := host "h2" ["bob"] ["g"]

def backendA : Backend :=
  { id := "a", name := "Site A",
    tables := [("hosts", [hostH1, hostH2]),
               ("services", [svc "h1" "s1" [], svc "h2" "s2" ["alice"]]),
               ("hostgroups", [hostgroup "g" ["h1", "h2"], hostgroup "empty" []]),
               ("contacts", [{ cells := [("name", .s "alice")] }, { cells := [("name", .s "bob")] }])] }

/-- a second backend that is down and has no data -/
def backendB : Backend :=
  { id := "b", name := "Site B", state := .down, err := "connection refused", hasData := false }

def ds (groupLoose : Bool) : Dataset :=
  { backends := [backendA, backendB], serviceAuthLoose := false, groupAuthLoose := groupLoose }

def cx (groupLoose : Bool) : Ctx := { schema := schema, ds := ds groupLoose, b := backendA }

end Lmd.Demo
