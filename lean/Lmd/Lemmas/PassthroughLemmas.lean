/-
  Lmd.Lemmas.PassthroughLemmas — helper lemmas for property C16 (pass-through tables are forwarded
  and merged faithfully): the plan (`planColumns`, `planSort`) as a function of one column list, the
  splice (`insertAt` folded over increasing positions) as a "weave" of LMD-side values and backend
  cells, the key comparison `ptLe` as a total preorder on keys of one shape, the merge as a sort of
  the spliced rows, and the Stats fold as a grouping by key with one accumulator fold per slot.
-/
import Lmd.Passthrough

namespace Lmd.PT

open Lean (Json)

/-! ## 1. the plan as a function of one column list -/

/-- the names the backend is asked for: the columns that are not LMD-side, in order -/
def backendOf (cs : List Column) : List String := (cs.filter (·.storage != .virt)).map (·.name)

/-- the LMD-side columns of a column list with their positions, counted from `i` -/
def virtualsOf : List Column → Nat → List (Column × Nat)
  | [], _ => []
  | c :: cs, i => if c.storage == .virt then (c, i) :: virtualsOf cs (i + 1) else virtualsOf cs (i + 1)

/-- `columnsIndex` of a column list, counted from `i` -/
def indexOf : List Column → Nat → List (String × Nat)
  | [], _ => []
  | c :: cs, i => (c.name, i) :: indexOf cs (i + 1)

/-- the sort columns that have to be added to the row: those whose name is neither among the names seen
    so far nor the name of an earlier sort column, in the order of the `Sort:` headers -/
def newSortCols (seen : List String) : List SortField → List Column
  | [] => []
  | sf :: rest =>
    match sf.col with
    | none => newSortCols seen rest
    | some c => if c.name ∈ seen then newSortCols seen rest else c :: newSortCols (seen ++ [c.name]) rest

theorem backendOf_append (a b : List Column) : backendOf (a ++ b) = backendOf a ++ backendOf b := by
  simp [backendOf]

theorem virtualsOf_append (a b : List Column) (i : Nat) :
    virtualsOf (a ++ b) i = virtualsOf a i ++ virtualsOf b (i + a.length) := by
  induction a generalizing i with
  | nil => simp [virtualsOf]
  | cons c cs ih =>
    simp only [List.cons_append, virtualsOf, List.length_cons]
    have : i + 1 + cs.length = i + (cs.length + 1) := by omega
    split <;> simp [ih, this]

theorem indexOf_append (a b : List Column) (i : Nat) :
    indexOf (a ++ b) i = indexOf a i ++ indexOf b (i + a.length) := by
  induction a generalizing i with
  | nil => simp [indexOf]
  | cons c cs ih =>
    have : i + 1 + cs.length = i + (cs.length + 1) := by omega
    simp [indexOf, ih, this]

theorem length_backendOf_add_virtualsOf (cs : List Column) (i : Nat) :
    (backendOf cs).length + (virtualsOf cs i).length = cs.length := by
  induction cs generalizing i with
  | nil => simp [backendOf, virtualsOf]
  | cons c cs ih =>
    have := ih (i + 1)
    simp only [backendOf, List.length_map] at this ⊢
    by_cases h : c.storage = .virt
    · simp [virtualsOf, h]; omega
    · simp [virtualsOf, h]; omega

theorem mem_indexOf (cs : List Column) (i : Nat) (x : String × Nat) :
    x ∈ indexOf cs i ↔ ∃ k c, cs[k]? = some c ∧ x = (c.name, i + k) := by
  induction cs generalizing i with
  | nil => simp [indexOf]
  | cons c cs ih =>
    simp only [indexOf, List.mem_cons, ih]
    constructor
    · rintro (h | ⟨k, c', hk, hx⟩)
      · exact ⟨0, c, by simp, by simpa using h⟩
      · exact ⟨k + 1, c', by simpa using hk, by rw [hx]; congr 1; omega⟩
    · rintro ⟨k, c', hk, hx⟩
      cases k with
      | zero => left; simp at hk; subst hk; simpa using hx
      | succ k => right; exact ⟨k, c', by simpa using hk, by rw [hx]; congr 1; omega⟩

/-- `planColumns` appends the three lists of the column list to the plan -/
theorem planColumns_eq (cs : List Column) (i : Nat) (p : PTPlan) :
    planColumns cs i p =
      { backendCols := p.backendCols ++ backendOf cs, virtuals := p.virtuals ++ virtualsOf cs i,
        index := p.index ++ indexOf cs i, sortIdx := p.sortIdx } := by
  induction cs generalizing i p with
  | nil => simp [planColumns, backendOf, virtualsOf, indexOf]
  | cons c cs ih =>
    rw [planColumns]
    by_cases h : c.storage = .virt
    · simp [ih, h, backendOf, virtualsOf, indexOf]
    · simp [ih, h, backendOf, virtualsOf, indexOf]

/-- the plan describes the column list `all`: what is asked, what is spliced where, where names point -/
structure PlanOf (p : PTPlan) (all : List Column) : Prop where
  backend : p.backendCols = backendOf all
  virtuals : p.virtuals = virtualsOf all 0
  index : p.index = indexOf all 0

theorem planOf_planColumns (cs : List Column) : PlanOf (planColumns cs 0 {}) cs := by
  rw [planColumns_eq]; constructor <;> simp

theorem PlanOf.lookup_some {p : PTPlan} {all : List Column} (h : PlanOf p all) {n : String} {j : Nat}
    (hl : p.lookup n = some j) : ∃ c, all[j]? = some c ∧ c.name = n := by
  unfold PTPlan.lookup at hl
  rw [Option.map_eq_some_iff] at hl
  obtain ⟨x, hx, hj⟩ := hl
  have hmem := List.mem_of_find?_eq_some hx
  have hp := List.find?_some hx
  rw [List.mem_reverse, h.index, mem_indexOf] at hmem
  obtain ⟨k, c, hk, hxe⟩ := hmem
  subst hxe
  simp only [Nat.zero_add] at hj hp
  subst hj
  exact ⟨c, hk, by simpa using hp⟩

theorem PlanOf.lookup_none {p : PTPlan} {all : List Column} (h : PlanOf p all) (n : String) :
    p.lookup n = none ↔ n ∉ all.map (·.name) := by
  unfold PTPlan.lookup
  rw [Option.map_eq_none_iff, List.find?_eq_none]
  constructor
  · intro hn hmem
    rw [List.mem_map] at hmem
    obtain ⟨c, hc, hcn⟩ := hmem
    obtain ⟨k, hk, hke⟩ := List.getElem_of_mem hc
    have : (c.name, 0 + k) ∈ p.index.reverse := by
      rw [List.mem_reverse, h.index, mem_indexOf]
      exact ⟨k, c, by simp [List.getElem?_eq_getElem hk, hke], rfl⟩
    have := hn _ this
    simp [hcn] at this
  · intro hn x hx
    rw [List.mem_reverse, h.index, mem_indexOf] at hx
    obtain ⟨k, c, hk, hxe⟩ := hx
    subst hxe
    intro hcn
    apply hn
    rw [List.mem_map]
    exact ⟨c, List.mem_of_getElem? hk, by simpa using hcn⟩

/-- the plan after a sort column that is not in the row yet has been added -/
def snocPlan (p : PTPlan) (c : Column) : PTPlan :=
  let j := p.backendCols.length + p.virtuals.length
  if c.storage == .virt then
    { backendCols := p.backendCols, virtuals := p.virtuals ++ [(c, j)], index := p.index ++ [(c.name, j)],
      sortIdx := p.sortIdx ++ [j] }
  else
    { backendCols := p.backendCols ++ [c.name], virtuals := p.virtuals, index := p.index ++ [(c.name, j)],
      sortIdx := p.sortIdx ++ [j] }

theorem planSort_cons_none {sf : SortField} (rest : List SortField) (p : PTPlan) (hc : sf.col = none) :
    planSort (sf :: rest) p = planSort rest p := by
  rw [planSort]; simp only [hc]

theorem planSort_cons_found {sf : SortField} {c : Column} {j : Nat} (rest : List SortField) (p : PTPlan)
    (hc : sf.col = some c) (hl : p.lookup c.name = some j) :
    planSort (sf :: rest) p = planSort rest { p with sortIdx := p.sortIdx ++ [j] } := by
  rw [planSort]; simp only [hc, hl]

theorem planSort_cons_new {sf : SortField} {c : Column} (rest : List SortField) (p : PTPlan)
    (hc : sf.col = some c) (hl : p.lookup c.name = none) :
    planSort (sf :: rest) p = planSort rest (snocPlan p c) := by
  rw [planSort]; simp only [hc, hl, snocPlan]

theorem snocPlan_sortIdx (p : PTPlan) (c : Column) :
    (snocPlan p c).sortIdx = p.sortIdx ++ [p.backendCols.length + p.virtuals.length] := by
  unfold snocPlan; split <;> rfl

/-- adding one column at the end of the described list -/
theorem PlanOf.snoc {p : PTPlan} {all : List Column} (h : PlanOf p all) (c : Column) :
    PlanOf (snocPlan p c) (all ++ [c]) := by
  have hlen : p.backendCols.length + p.virtuals.length = all.length := by
    rw [h.backend, h.virtuals]; exact length_backendOf_add_virtualsOf all 0
  unfold snocPlan
  by_cases hv : c.storage = .virt
  · constructor
    · simp [hv, h.backend, backendOf]
    · have hlen' : p.backendCols.length + (virtualsOf all 0).length = all.length := by
        rw [← h.virtuals]; exact hlen
      simp [hv, h.virtuals, virtualsOf_append, virtualsOf, hlen']
    · simp [hv, h.index, indexOf_append, indexOf, hlen]
  · constructor
    · simp [hv, h.backend, backendOf]
    · simp [hv, h.virtuals, virtualsOf_append, virtualsOf]
    · simp [hv, h.index, indexOf_append, indexOf, hlen]

/-- a sort field's position `j` points at a column of that name in `all` -/
def Points (all : List Column) (sf : SortField) (j : Nat) : Prop :=
  ∃ c c', sf.col = some c ∧ all[j]? = some c' ∧ c'.name = c.name

theorem Points.mono {all : List Column} {sf : SortField} {j : Nat} (h : Points all sf j) (more : List Column) :
    Points (all ++ more) sf j := by
  obtain ⟨c, c', h1, h2, h3⟩ := h
  refine ⟨c, c', h1, ?_, h3⟩
  have hj : j < all.length := by
    rcases Nat.lt_or_ge j all.length with h | h
    · exact h
    · rw [List.getElem?_eq_none h] at h2; cases h2
  rw [List.getElem?_append_left hj]; exact h2

/-- position by position, the recorded indices point at columns named like the sort fields -/
def AllPoint (all : List Column) : List SortField → List Nat → Prop
  | [], [] => True
  | sf :: s, j :: js => Points all sf j ∧ AllPoint all s js
  | _, _ => False

/-- `planSort` extends the described column list by the new sort columns and records one position per
    sort field that has a column; every position points at a column with the sort field's name -/
theorem planSort_spec (sort : List SortField) (p : PTPlan) (all : List Column) (h : PlanOf p all) :
    PlanOf (planSort sort p) (all ++ newSortCols (all.map (·.name)) sort) ∧
    ∃ idxs, (planSort sort p).sortIdx = p.sortIdx ++ idxs ∧
      AllPoint (all ++ newSortCols (all.map (·.name)) sort) (sort.filter (·.col.isSome)) idxs := by
  induction sort generalizing p all with
  | nil => simpa [planSort, newSortCols, AllPoint] using h
  | cons sf rest ih =>
    cases hc : sf.col with
    | none =>
      rw [planSort_cons_none rest p hc]
      simp only [newSortCols, hc]
      obtain ⟨h1, idxs, h2, h3⟩ := ih p all h
      refine ⟨h1, idxs, h2, ?_⟩
      simpa [List.filter_cons, hc] using h3
    | some c =>
      cases hl : p.lookup c.name with
      | some j =>
        rw [planSort_cons_found rest p hc hl]
        have hmem : c.name ∈ all.map (·.name) := by
          apply Decidable.byContradiction
          intro hn
          rw [← h.lookup_none] at hn
          rw [hn] at hl; cases hl
        simp only [newSortCols, hc, hmem, if_true]
        have h' : PlanOf { p with sortIdx := p.sortIdx ++ [j] } all := ⟨h.backend, h.virtuals, h.index⟩
        obtain ⟨h1, idxs, h2, h3⟩ := ih _ all h'
        refine ⟨h1, j :: idxs, by simp [h2], ?_⟩
        simp only [List.filter_cons, hc, Option.isSome_some, if_true]
        refine ⟨?_, h3⟩
        obtain ⟨c', hc1, hc2⟩ := h.lookup_some hl
        exact Points.mono ⟨c, c', hc, hc1, hc2⟩ _
      | none =>
        rw [planSort_cons_new rest p hc hl]
        have hmem : c.name ∉ all.map (·.name) := (h.lookup_none _).mp hl
        simp only [newSortCols, hc, hmem, if_false]
        have h' := h.snoc c
        have hlen : p.backendCols.length + p.virtuals.length = all.length := by
          rw [h.backend, h.virtuals]; exact length_backendOf_add_virtualsOf all 0
        have hall : (all ++ [c]).map (·.name) = all.map (·.name) ++ [c.name] := by simp
        have ih' := ih _ (all ++ [c]) h'
        rw [hall, List.append_assoc, List.singleton_append] at ih'
        obtain ⟨h1, idxs, h2, h3⟩ := ih'
        refine ⟨h1, (p.backendCols.length + p.virtuals.length) :: idxs, ?_, ?_⟩
        · rw [h2, snocPlan_sortIdx]; simp
        · simp only [List.filter_cons, hc, Option.isSome_some, if_true]
          refine ⟨⟨c, c, hc, ?_, rfl⟩, h3⟩
          rw [hlen]; simp

/-! ### the new sort columns -/

theorem newSortCols_not_seen (seen : List String) (s : List SortField) :
    ∀ c ∈ newSortCols seen s, c.name ∉ seen := by
  induction s generalizing seen with
  | nil => simp [newSortCols]
  | cons sf rest ih =>
    intro c hc
    unfold newSortCols at hc
    split at hc
    · exact ih seen c hc
    · split at hc
      · exact ih seen c hc
      · rename_i c' _ hns
        rcases List.mem_cons.mp hc with h | h
        · subst h; exact hns
        · have := ih _ c h
          intro hm; exact this (List.mem_append_left _ hm)

theorem newSortCols_nodup (seen : List String) (s : List SortField) :
    ((newSortCols seen s).map (·.name)).Nodup := by
  induction s generalizing seen with
  | nil => simp [newSortCols]
  | cons sf rest ih =>
    unfold newSortCols
    split
    · exact ih seen
    · split
      · exact ih seen
      · rename_i c' _ hns
        rw [List.map_cons, List.nodup_cons]
        refine ⟨?_, ih _⟩
        intro hm
        rw [List.mem_map] at hm
        obtain ⟨d, hd, hdn⟩ := hm
        have := newSortCols_not_seen _ rest d hd
        apply this
        rw [hdn]; simp

theorem newSortCols_sublist (seen : List String) (s : List SortField) :
    (newSortCols seen s).Sublist (s.filterMap (·.col)) := by
  induction s generalizing seen with
  | nil => simp [newSortCols]
  | cons sf rest ih =>
    unfold newSortCols
    split
    · rename_i h; simp only [List.filterMap_cons, h]; exact ih seen
    · rename_i c' h
      simp only [List.filterMap_cons, h]
      split
      · exact (ih seen).cons _
      · exact (ih _).cons_cons _

theorem newSortCols_cover (seen : List String) (s : List SortField) (sf : SortField) (c : Column)
    (hsf : sf ∈ s) (hc : sf.col = some c) :
    c.name ∈ seen ∨ c.name ∈ (newSortCols seen s).map (·.name) := by
  induction s generalizing seen with
  | nil => cases hsf
  | cons sf' rest ih =>
    rcases List.mem_cons.mp hsf with h | h
    · subst h
      unfold newSortCols
      simp only [hc]
      by_cases hm : c.name ∈ seen
      · exact Or.inl hm
      · right; simp [hm]
    · unfold newSortCols
      split
      · exact ih seen h
      · split
        · exact ih seen h
        · rename_i c' _ hns
          rcases ih (seen ++ [c'.name]) h with h' | h'
          · rcases List.mem_append.mp h' with h'' | h''
            · exact Or.inl h''
            · right; simp only [List.mem_singleton] at h''; simp [h'']
          · right; simp only [List.map_cons, List.mem_cons]; exact Or.inr h'

/-- the sort list that counts for the plan: Stats results are not sorted, so for a Stats request a `Sort:`
    header adds nothing to what the backends are asked for -/
def effSort (req : Request) : List SortField := if req.stats.isEmpty then req.sort else []

theorem effSort_of_stats_nil (req : Request) (h : req.stats = []) : effSort req = req.sort := by
  simp [effSort, h]

theorem effSort_of_stats_ne_nil (req : Request) (h : req.stats ≠ []) : effSort req = [] := by
  have : req.stats.isEmpty = false := by simpa using h
  simp [effSort, this]

theorem effSort_of_sort_nil (req : Request) (h : req.sort = []) : effSort req = [] := by
  simp [effSort, h]

theorem ptPlan_eq (t : Table) (req : Request) :
    ptPlan t req = planSort (effSort req) (planColumns (requestColumns t req) 0 {}) := rfl

/-- the whole row lmd builds for a request: the requested columns, then the new sort columns -/
def allCols (t : Table) (req : Request) : List Column :=
  requestColumns t req ++ newSortCols ((requestColumns t req).map (·.name)) (effSort req)

theorem ptPlan_planOf (t : Table) (req : Request) : PlanOf (ptPlan t req) (allCols t req) :=
  (planSort_spec (effSort req) _ _ (planOf_planColumns _)).1

theorem ptPlan_sortIdx (t : Table) (req : Request) :
    AllPoint (allCols t req) ((effSort req).filter (·.col.isSome)) (ptPlan t req).sortIdx := by
  obtain ⟨idxs, h1, h2⟩ := (planSort_spec (effSort req) _ _ (planOf_planColumns (requestColumns t req))).2
  have : (ptPlan t req).sortIdx = idxs := by
    rw [ptPlan_eq, h1, planColumns_eq]; simp
  rw [this]; exact h2

theorem allCols_of_effSort_nil (t : Table) (req : Request) (h : effSort req = []) :
    allCols t req = requestColumns t req := by
  simp [allCols, h, newSortCols]

theorem allCols_of_sort_nil (t : Table) (req : Request) (h : req.sort = []) :
    allCols t req = requestColumns t req :=
  allCols_of_effSort_nil t req (effSort_of_sort_nil req h)

/-- a Stats request: the plan is the plan of the same request without its `Sort:` headers -/
theorem ptPlan_stats_sort (t : Table) (req : Request) (h : req.stats ≠ []) :
    ptPlan t req = ptPlan t { req with sort := [] } := by
  have h1 : effSort req = [] := effSort_of_stats_ne_nil req h
  have h2 : effSort { req with sort := [] } = [] := effSort_of_sort_nil _ rfl
  rw [ptPlan_eq, ptPlan_eq, h1, h2]
  rfl

/-! ## 2. the splice -/

/-- walk along the columns: an LMD-side column takes the value lmd knows, every other column takes the
    next cell of the backend row; cells that are left over stay at the end -/
def weave (peer : PTPeer) : List Column → List Json → List Json
  | [], rest => rest
  | c :: cs, brow =>
    if c.storage == .virt then ptVirtual peer c :: weave peer cs brow
    else match brow with
      | [] => weave peer cs []
      | b :: bs => b :: weave peer cs bs

/-- number of backend cells a column list consumes -/
def nv (cs : List Column) : Nat := (cs.filter (·.storage != .virt)).length

theorem nv_eq_length_backendOf (cs : List Column) : nv cs = (backendOf cs).length := by
  simp [nv, backendOf]

theorem nv_cons (c : Column) (cs : List Column) :
    nv (c :: cs) = (if c.storage == .virt then 0 else 1) + nv cs := by
  by_cases h : c.storage = .virt <;> simp [nv, h] <;> omega

theorem nv_append (a b : List Column) : nv (a ++ b) = nv a + nv b := by simp [nv]

theorem insertAt_append_left (pre row : List Json) (v : Json) :
    insertAt (pre ++ row) pre.length v = pre ++ [v] ++ row := by
  simp [insertAt]

/-- the key lemma: inserting the LMD-side values one after the other at increasing positions gives the
    weave of the column list with the backend row -/
theorem foldl_insertAt_virtualsOf (peer : PTPeer) (cs : List Column) (pre brow : List Json)
    (h : nv cs ≤ brow.length) :
    spliceRow peer (virtualsOf cs pre.length) (pre ++ brow) = pre ++ weave peer cs brow := by
  induction cs generalizing pre brow with
  | nil => simp [spliceRow, virtualsOf, weave]
  | cons c cs ih =>
    rw [nv_cons] at h
    by_cases hv : c.storage = .virt
    · simp only [hv, beq_self_eq_true, if_true, Nat.zero_add] at h
      have hstep : spliceRow peer (virtualsOf (c :: cs) pre.length) (pre ++ brow) =
          spliceRow peer (virtualsOf cs (pre ++ [ptVirtual peer c]).length) ((pre ++ [ptVirtual peer c]) ++ brow) := by
        simp only [virtualsOf, hv, beq_self_eq_true, if_true, spliceRow, List.foldl_cons, insertAt_append_left,
          List.length_append, List.length_singleton]
      rw [hstep, ih _ _ h]
      simp [weave, hv]
    · have hv' : (c.storage == Storage.virt) = false := by simpa using hv
      simp only [hv', Bool.false_eq_true, if_false] at h
      cases brow with
      | nil => simp at h
      | cons b bs =>
        have hstep : spliceRow peer (virtualsOf (c :: cs) pre.length) (pre ++ b :: bs) =
            spliceRow peer (virtualsOf cs (pre ++ [b]).length) ((pre ++ [b]) ++ bs) := by
          simp [virtualsOf, hv']
        rw [hstep, ih _ _ (by simp at h; omega)]
        simp [weave, hv']

theorem spliceRow_virtualsOf (peer : PTPeer) (cs : List Column) (brow : List Json) (h : nv cs ≤ brow.length) :
    spliceRow peer (virtualsOf cs 0) brow = weave peer cs brow := by
  simpa using foldl_insertAt_virtualsOf peer cs [] brow h

theorem weave_length (peer : PTPeer) (cs : List Column) (brow : List Json) (h : nv cs ≤ brow.length) :
    (weave peer cs brow).length = cs.length + (brow.length - nv cs) := by
  induction cs generalizing brow with
  | nil => simp [weave, nv]
  | cons c cs ih =>
    rw [nv_cons] at h ⊢
    by_cases hv : c.storage = .virt
    · simp only [hv, beq_self_eq_true, if_true, Nat.zero_add] at h ⊢
      simp only [weave, hv, beq_self_eq_true, if_true, List.length_cons, ih brow h]; omega
    · have hv' : (c.storage == Storage.virt) = false := by simpa using hv
      simp only [hv', Bool.false_eq_true, if_false] at h ⊢
      cases brow with
      | nil => simp at h
      | cons b bs =>
        simp only [weave, hv', Bool.false_eq_true, if_false, List.length_cons] at h ⊢
        rw [ih bs (by omega)]; omega

/-- what stands at position `i` of the weave: the LMD-side value of column `i`, or the backend cell whose
    number is the count of backend-side columns before position `i` -/
theorem weave_getElem? (peer : PTPeer) (cs : List Column) (brow : List Json) (h : nv cs ≤ brow.length)
    (i : Nat) (c : Column) (hc : cs[i]? = some c) :
    (weave peer cs brow)[i]? =
      if c.storage == .virt then some (ptVirtual peer c) else brow[nv (cs.take i)]? := by
  induction cs generalizing brow i with
  | nil => simp at hc
  | cons c' cs ih =>
    rw [nv_cons] at h
    by_cases hv : c'.storage = .virt
    · simp only [hv, beq_self_eq_true, if_true, Nat.zero_add] at h
      cases i with
      | zero =>
        simp only [List.getElem?_cons_zero, Option.some.injEq] at hc
        subst hc
        simp [weave, hv]
      | succ i =>
        simp only [List.getElem?_cons_succ] at hc
        simp only [weave, hv, beq_self_eq_true, if_true, List.getElem?_cons_succ, List.take_succ_cons, nv_cons,
          Nat.zero_add]
        exact ih brow h i hc
    · have hv' : (c'.storage == Storage.virt) = false := by simpa using hv
      simp only [hv', Bool.false_eq_true, if_false] at h
      cases brow with
      | nil => simp at h
      | cons b bs =>
        cases i with
        | zero =>
          simp only [List.getElem?_cons_zero, Option.some.injEq] at hc
          subst hc
          simp [weave, hv', nv]
        | succ i =>
          simp only [List.getElem?_cons_succ] at hc
          simp only [weave, hv', Bool.false_eq_true, if_false, List.getElem?_cons_succ, List.take_succ_cons, nv_cons]
          rw [ih bs (by simp at h; omega) i hc]
          split
          · rfl
          · rw [Nat.add_comm 1, List.getElem?_cons_succ]

/-- the weave of two column lists is the weave of the first with the first cells, then the second -/
theorem weave_append (peer : PTPeer) (a b : List Column) (brow : List Json) (h : nv a ≤ brow.length) :
    weave peer (a ++ b) brow = weave peer a (brow.take (nv a)) ++ weave peer b (brow.drop (nv a)) := by
  induction a generalizing brow with
  | nil => simp [weave, nv]
  | cons c cs ih =>
    rw [nv_cons] at h ⊢
    by_cases hv : c.storage = .virt
    · simp only [hv, beq_self_eq_true, if_true, Nat.zero_add] at h ⊢
      simp [weave, hv, ih brow h]
    · have hv' : (c.storage == Storage.virt) = false := by simpa using hv
      simp only [hv', Bool.false_eq_true, if_false] at h ⊢
      cases brow with
      | nil => simp at h
      | cons b' bs =>
        have h' : nv cs ≤ bs.length := by simp at h; omega
        simp only [List.cons_append, weave, hv', Bool.false_eq_true, if_false, Nat.add_comm 1 (nv cs),
          List.take_succ_cons, List.drop_succ_cons, ih bs h']

/-- cutting the weave behind the first column list leaves the weave of that list -/
theorem weave_append_take (peer : PTPeer) (a b : List Column) (brow : List Json) (h : nv a ≤ brow.length) :
    (weave peer (a ++ b) brow).take a.length = weave peer a (brow.take (nv a)) := by
  rw [weave_append peer a b brow h]
  have hl : (weave peer a (brow.take (nv a))).length = a.length := by
    rw [weave_length]
    · simp [Nat.min_eq_left h]
    · simp [Nat.min_eq_left h]
  rw [List.take_append_of_le_length (by omega), ← hl, List.take_length]

/-! ## 3. the key comparison -/

/-- which constructor a pass-through sort key was built with -/
def ktag : PKey → Nat
  | .num _ => 0
  | .str _ => 1
  | .any => 2

/-- one step of the lexicographic comparison, on any strict linear order -/
theorem lex_head_trans {α : Type} [LT α] [DecidableEq α] [DecidableRel (α := α) (· < ·)]
    (tr : ∀ x y z : α, x < y → y < z → x < z) (asym : ∀ x y : α, x < y → ¬ y < x)
    (tri : ∀ x y : α, ¬ x < y → x ≠ y → y < x)
    (desc : Bool) (x y z : α) (r1 r2 r3 : Ordering) (hrec : r1 ≠ .gt → r2 ≠ .gt → r3 ≠ .gt)
    (h1 : (if x = y then r1 else if (decide (x < y)) != desc then Ordering.lt else .gt) ≠ .gt)
    (h2 : (if y = z then r2 else if (decide (y < z)) != desc then Ordering.lt else .gt) ≠ .gt) :
    (if x = z then r3 else if (decide (x < z)) != desc then Ordering.lt else .gt) ≠ .gt := by
  by_cases hxy : x = y
  · subst hxy
    by_cases hyz : x = z
    · subst hyz; simp only [if_true] at h1 h2 ⊢; exact hrec h1 h2
    · simpa [hyz] using h2
  · by_cases hyz : y = z
    · subst hyz; simpa [hxy] using h1
    · simp only [hxy, hyz, if_false] at h1 h2
      cases desc with
      | false =>
        have hlt1 : x < y := by
          apply Decidable.byContradiction; intro hn; simp [hn] at h1
        have hlt2 : y < z := by
          apply Decidable.byContradiction; intro hn; simp [hn] at h2
        have hlt := tr x y z hlt1 hlt2
        have hne : x ≠ z := fun h => asym x z hlt (h ▸ hlt)
        simp [hne, hlt]
      | true =>
        have hn1 : ¬ x < y := by intro hn; simp [hn] at h1
        have hn2 : ¬ y < z := by intro hn; simp [hn] at h2
        have hlt := tr z y x (tri y z hn2 hyz) (tri x y hn1 hxy)
        have hne : x ≠ z := fun h => asym z x hlt (h ▸ hlt)
        have hn3 : ¬ x < z := fun h => asym z x hlt h
        simp [hne, hn3]

theorem lex_head_swap {α : Type} [LT α] [DecidableEq α] [DecidableRel (α := α) (· < ·)]
    (asym : ∀ x y : α, x < y → ¬ y < x) (tri : ∀ x y : α, ¬ x < y → x ≠ y → y < x)
    (desc : Bool) (x y : α) (r : Ordering) :
    (if y = x then r.swap else if (decide (y < x)) != desc then Ordering.lt else .gt) =
      (if x = y then r else if (decide (x < y)) != desc then Ordering.lt else .gt).swap := by
  by_cases hxy : x = y
  · subst hxy; simp
  · have hyx : ¬ y = x := fun h => hxy h.symm
    simp only [hxy, hyx, if_false]
    by_cases hlt : x < y
    · have := asym x y hlt
      cases desc <;> simp [hlt, this]
    · have := tri x y hlt hxy
      cases desc <;> simp [hlt, this]

theorem ptCmp_cons_num (d : Bool) (x y : Int) (rest : List (Bool × PKey × PKey)) :
    ptCmp ((d, .num x, .num y) :: rest) =
      if x = y then ptCmp rest else if (decide (x < y)) != d then .lt else .gt := by
  simp [ptCmp]

theorem ptCmp_cons_str (d : Bool) (x y : String) (rest : List (Bool × PKey × PKey)) :
    ptCmp ((d, .str x, .str y) :: rest) =
      if x = y then ptCmp rest else if (decide (x < y)) != d then .lt else .gt := by
  simp [ptCmp]

theorem str_tri (x y : String) (h : ¬ x < y) (hne : x ≠ y) : y < x := by
  apply Decidable.byContradiction
  intro hn
  exact hne (String.le_antisymm (String.not_lt.mp hn) (String.not_lt.mp h))

/-- exchanging the two key lists exchanges the outcome -/
theorem ptCmp_swap (descs : List Bool) (a b : List PKey) :
    ptCmp (descs.zip (b.zip a)) = (ptCmp (descs.zip (a.zip b))).swap := by
  induction descs generalizing a b with
  | nil => simp [ptCmp]
  | cons d ds ih =>
    cases a with
    | nil => simp [ptCmp]
    | cons x as =>
      cases b with
      | nil => simp [ptCmp]
      | cons y bs =>
        simp only [List.zip_cons_cons]
        cases x <;> cases y <;> try (simp [ptCmp]; done)
        · rw [ptCmp_cons_num, ptCmp_cons_num, ih]
          exact lex_head_swap (fun _ _ h => by omega) (fun _ _ h h' => by omega) d _ _ _
        · rw [ptCmp_cons_str, ptCmp_cons_str, ih]
          exact lex_head_swap (fun _ _ h => String.lt_asymm h) str_tri d _ _ _

/-- on key lists of one shape "not greater" is transitive -/
theorem ptCmp_trans (descs : List Bool) (a b c : List PKey)
    (hab : a.map ktag = b.map ktag) (hbc : b.map ktag = c.map ktag)
    (h1 : ptCmp (descs.zip (a.zip b)) ≠ .gt) (h2 : ptCmp (descs.zip (b.zip c)) ≠ .gt) :
    ptCmp (descs.zip (a.zip c)) ≠ .gt := by
  induction descs generalizing a b c with
  | nil => simp [ptCmp]
  | cons d ds ih =>
    cases a with
    | nil => simp [ptCmp]
    | cons x as =>
      cases b with
      | nil => simp at hab
      | cons y bs =>
        cases c with
        | nil => simp at hbc
        | cons z cs =>
          simp only [List.map_cons, List.cons.injEq] at hab hbc
          simp only [List.zip_cons_cons] at h1 h2 ⊢
          cases x <;> cases y <;> try (simp [ktag] at hab; done)
          all_goals cases z <;> try (simp [ktag] at hbc; done)
          · rw [ptCmp_cons_num] at h1 h2 ⊢
            exact lex_head_trans (fun _ _ _ h h' => by omega) (fun _ _ h => by omega) (fun _ _ h h' => by omega)
              d _ _ _ _ _ _ (ih as bs cs hab.2 hbc.2) h1 h2
          · rw [ptCmp_cons_str] at h1 h2 ⊢
            exact lex_head_trans (fun _ _ _ h h' => String.lt_trans h h') (fun _ _ h => String.lt_asymm h) str_tri
              d _ _ _ _ _ _ (ih as bs cs hab.2 hbc.2) h1 h2
          · simp [ptCmp]

theorem ptLe_total (descs : List Bool) (a b : List PKey) : ptLe descs a b = true ∨ ptLe descs b a = true := by
  unfold ptLe
  rw [ptCmp_swap descs a b]
  cases ptCmp (descs.zip (a.zip b)) <;> simp

theorem ptLe_trans (descs : List Bool) (a b c : List PKey)
    (hab : a.map ktag = b.map ktag) (hbc : b.map ktag = c.map ktag)
    (h1 : ptLe descs a b = true) (h2 : ptLe descs b c = true) : ptLe descs a c = true := by
  unfold ptLe at *
  simp only [bne_iff_ne, ne_eq] at *
  exact ptCmp_trans descs a b c hab hbc h1 h2


theorem ktag_ptKeyOf (dt : DataType) (j j' : Json) : ktag (ptKeyOf dt j) = ktag (ptKeyOf dt j') := by
  cases dt <;> rfl

/-- the keys of all rows of one request have the same shape -/
theorem ptKeys_shape (req : Request) (p : PTPlan) (row row' : List Json) :
    (ptKeys req p row).map ktag = (ptKeys req p row').map ktag := by
  unfold ptKeys
  simp only [List.map_map]
  apply List.map_congr_left
  intro x _
  exact ktag_ptKeyOf _ _ _

/-- sorting with a comparison that is total and transitive on the elements satisfying `P` orders the list -/
theorem pairwise_mergeSort_on {α : Type} {P : α → Prop} {le : α → α → Bool}
    (total : ∀ a b, P a → P b → le a b = true ∨ le b a = true)
    (trans : ∀ a b c, P a → P b → P c → le a b = true → le b c = true → le a c = true)
    (l : List α) (hl : ∀ a ∈ l, P a) :
    (l.mergeSort le).Pairwise (fun a b => le a b = true) := by
  let le' : {a // P a} → {a // P a} → Bool := fun a b => le a.1 b.1
  have hmap : ((l.attachWith P hl).mergeSort le').map Subtype.val = l.mergeSort le := by
    have := List.map_mergeSort (r := le') (s := le) (f := Subtype.val) (l := l.attachWith P hl)
      (fun _ _ _ _ => rfl)
    rw [this, List.attachWith_map_subtype_val]
  have hp : ((l.attachWith P hl).mergeSort le').Pairwise (fun a b => le' a b = true) :=
    List.pairwise_mergeSort
      (fun a b c hab hbc => trans a.1 b.1 c.1 a.2 b.2 c.2 hab hbc)
      (fun a b => by
        cases total a.1 b.1 a.2 b.2 with
        | inl h => simp [le', h]
        | inr h => simp [le', h])
      _
  rw [← hmap, List.pairwise_map]
  exact hp

/-! ## 4. the merge of data rows -/

/-- the reply rows of all answering backends with the LMD-side values spliced in, backend after backend -/
def spliced (t : Table) (req : Request) (peers : List PTPeer) : List (List Json) :=
  (ptAnswering peers).flatMap fun (p, rows) => rows.map (spliceRow p (ptPlan t req).virtuals)

def descsOf (req : Request) : List Bool := (req.sort.filter (·.col.isSome)).map (·.desc)

/-- every spliced row with its sort keys -/
def keyed (t : Table) (req : Request) (peers : List PTPeer) : List (List PKey × List Json) :=
  (spliced t req peers).map fun r => (ptKeys req (ptPlan t req) r, r)

def sortedKeyed (t : Table) (req : Request) (peers : List PTPeer) : List (List PKey × List Json) :=
  if req.sort.isEmpty then keyed t req peers
  else (keyed t req peers).mergeSort (fun a b => ptLe (descsOf req) a.1 b.1)

/-- a row as it is answered: with a `Sort:` header the added sort columns are cut off again -/
def cutRow (t : Table) (req : Request) (r : List Json) : List Json :=
  if req.sort.isEmpty then r
  else if (requestColumns t req).length > 0 then r.take (requestColumns t req).length else r

def cutKeyed (t : Table) (req : Request) (peers : List PTPeer) : List (List PKey × List Json) :=
  (sortedKeyed t req peers).map fun kr => (kr.1, cutRow t req kr.2)

def windowOf (req : Request) {α : Type} (l : List α) : List α :=
  match req.limit with
  | some n => (l.drop req.offset).take n
  | none => l.drop req.offset

theorem ptData_eq (t : Table) (req : Request) (peers : List PTPeer) :
    ptData t req peers =
      { rows := (cutKeyed t req peers).map (·.2), keys := (cutKeyed t req peers).map (·.1),
        total := (cutKeyed t req peers).length,
        window := (windowOf req (cutKeyed t req peers)).map (·.2), failed := ptFailed peers } := by
  have hdrop : ∀ (l : List (List PKey × List Json)),
      (if req.offset > l.length then [] else l.drop req.offset) = l.drop req.offset := by
    intro l; split
    · rw [List.drop_eq_nil_of_le]; omega
    · rfl
  unfold ptData cutKeyed sortedKeyed keyed spliced cutRow windowOf descsOf
  simp only [hdrop]
  cases hs : req.sort.isEmpty
  · simp only [Bool.false_eq_true, if_false]
    cases req.limit <;> simp
  · simp only [if_true]
    cases req.limit <;> simp [Function.comp_def]

theorem cutKeyed_of_sort_nil (t : Table) (req : Request) (peers : List PTPeer) (h : req.sort = []) :
    cutKeyed t req peers = keyed t req peers := by
  simp [cutKeyed, sortedKeyed, cutRow, h]

theorem sortedKeyed_perm (t : Table) (req : Request) (peers : List PTPeer) :
    (sortedKeyed t req peers).Perm (keyed t req peers) := by
  unfold sortedKeyed
  split
  · exact List.Perm.refl _
  · exact List.mergeSort_perm _ _

theorem cutKeyed_perm (t : Table) (req : Request) (peers : List PTPeer) :
    (cutKeyed t req peers).Perm
      ((spliced t req peers).map fun r => (ptKeys req (ptPlan t req) r, cutRow t req r)) := by
  have := (sortedKeyed_perm t req peers).map (fun kr : List PKey × List Json => (kr.1, cutRow t req kr.2))
  unfold cutKeyed
  refine this.trans ?_
  simp [keyed, Function.comp_def]

theorem keyed_shape (t : Table) (req : Request) (peers : List PTPeer) :
    ∀ kr ∈ keyed t req peers, kr.1.map ktag = (ptKeys req (ptPlan t req) []).map ktag := by
  intro kr hkr
  simp only [keyed, List.mem_map] at hkr
  obtain ⟨r, _, rfl⟩ := hkr
  exact ptKeys_shape _ _ _ _

theorem ptLe_nil (descs : List Bool) (b : List PKey) : ptLe descs [] b = true := by
  simp [ptLe, ptCmp]

theorem sortedKeyed_pairwise (t : Table) (req : Request) (peers : List PTPeer) :
    (sortedKeyed t req peers).Pairwise (fun a b => ptLe (descsOf req) a.1 b.1 = true) := by
  unfold sortedKeyed
  split
  · rename_i hs
    have hnil : req.sort = [] := by simpa using hs
    have : ∀ kr ∈ keyed t req peers, kr.1 = [] := by
      intro kr hkr
      simp only [keyed, List.mem_map] at hkr
      obtain ⟨r, _, rfl⟩ := hkr
      simp [ptKeys, hnil]
    rw [List.pairwise_iff_forall_sublist]
    intro a b hab
    have ha : a ∈ keyed t req peers := hab.subset (by simp)
    rw [this a ha]; exact ptLe_nil _ _
  · exact pairwise_mergeSort_on
      (P := fun kr => kr.1.map ktag = (ptKeys req (ptPlan t req) []).map ktag)
      (fun a b _ _ => ptLe_total _ _ _)
      (fun (a b c : List PKey × List Json) ha hb hc h1 h2 => ptLe_trans _ a.1 b.1 c.1 (ha.trans hb.symm) (hb.trans hc.symm) h1 h2)
      _ (keyed_shape t req peers)

theorem cutKeyed_keys (t : Table) (req : Request) (peers : List PTPeer) :
    (cutKeyed t req peers).map (·.1) = (sortedKeyed t req peers).map (·.1) := by
  simp [cutKeyed, Function.comp_def]

/-! ## 5. who answers, who failed -/

/-- a backend contributes rows: it is reachable and its query succeeded -/
def answers (p : PTPeer) : Bool := p.online && p.reply.isSome

theorem ptAnswering_fst (peers : List PTPeer) : (ptAnswering peers).map (·.1) = peers.filter answers := by
  induction peers with
  | nil => rfl
  | cons p ps ih =>
    unfold ptAnswering at ih ⊢
    rw [List.filterMap_cons, List.filter_cons]
    cases ho : p.online <;> cases hr : p.reply <;> simp [answers, ho, hr, ih]

theorem ptAnswering_reply (peers : List PTPeer) : ∀ pr ∈ ptAnswering peers, pr.1 ∈ peers ∧ pr.1.online = true ∧ pr.1.reply = some pr.2 := by
  intro pr h
  unfold ptAnswering at h
  rw [List.mem_filterMap] at h
  obtain ⟨p, hp, hpr⟩ := h
  cases ho : p.online <;> simp only [ho, if_true, Bool.false_eq_true, if_false] at hpr
  · cases hpr
  · rw [Option.map_eq_some_iff] at hpr
    obtain ⟨r, hr, rfl⟩ := hpr
    exact ⟨hp, ho, hr⟩

theorem ptAnswering_eq (peers : List PTPeer) :
    ptAnswering peers = (peers.filter answers).filterMap fun p => p.reply.map fun r => (p, r) := by
  induction peers with
  | nil => rfl
  | cons p ps ih =>
    unfold ptAnswering at ih ⊢
    rw [List.filterMap_cons, List.filter_cons]
    cases ho : p.online <;> cases hr : p.reply <;> simp [answers, ho, hr, ih]

/-- the failed-map entry of a backend that does not answer -/
def failedEntry (p : PTPeer) : String × String := (p.id, if !p.online then p.lastError else p.err)

theorem ptFailed_eq (peers : List PTPeer) :
    ptFailed peers = (peers.filter (fun p => !answers p)).map failedEntry := by
  unfold ptFailed
  induction peers with
  | nil => rfl
  | cons p ps ih =>
    rw [List.filterMap_cons, List.filter_cons, ih]
    cases ho : p.online <;> cases hr : p.reply <;> simp [answers, failedEntry, ho, hr]

theorem ptAnswering_filter (peers : List PTPeer) : ptAnswering (peers.filter answers) = ptAnswering peers := by
  rw [ptAnswering_eq, ptAnswering_eq peers, List.filter_filter]
  simp

theorem ptAnswering_append (a b : List PTPeer) : ptAnswering (a ++ b) = ptAnswering a ++ ptAnswering b := by
  simp [ptAnswering]

theorem ptFailed_append (a b : List PTPeer) : ptFailed (a ++ b) = ptFailed a ++ ptFailed b := by
  simp [ptFailed]

/-! ## 6. merging Stats rows -/

/-- what one reply cell does to one accumulator -/
def slot (k : AccKind) (a : Acc) (v : Json) : Acc :=
  match k with
  | .counter => a.apply (jsonToMilli v) (Int.toNat (milliTrunc (jsonToMilli v)))
  | _ => a.apply (jsonToMilli v) 1

theorem ptApply_nil_accs (kinds : List AccKind) (vals : List Json) : ptApply kinds [] vals = [] := by
  simp [ptApply]

theorem ptApply_cons (k : AccKind) (kinds : List AccKind) (a : Acc) (accs : List Acc) (v : Json) (vals : List Json) :
    ptApply (k :: kinds) (a :: accs) (v :: vals) = slot k a v :: ptApply kinds accs vals := by
  simp only [ptApply, List.zip_cons_cons, List.map_cons, slot, List.cons.injEq, and_true]
  cases k <;> rfl

theorem ptApply_length (kinds : List AccKind) (accs : List Acc) (vals : List Json)
    (h1 : accs.length = kinds.length) (h2 : vals.length = kinds.length) :
    (ptApply kinds accs vals).length = kinds.length := by
  simp [ptApply, h1, h2]

/-- `ptApply` works slot by slot -/
theorem ptApply_getElem? (kinds : List AccKind) (accs : List Acc) (vals : List Json) (i : Nat)
    (k : AccKind) (a : Acc) (v : Json) (hk : kinds[i]? = some k) (ha : accs[i]? = some a) (hv : vals[i]? = some v) :
    (ptApply kinds accs vals)[i]? = some (slot k a v) := by
  induction kinds generalizing accs vals i with
  | nil => simp at hk
  | cons k' ks ih =>
    cases accs with
    | nil => simp at ha
    | cons a' as =>
      cases vals with
      | nil => simp at hv
      | cons v' vs =>
        rw [ptApply_cons]
        cases i with
        | zero => simp at hk ha hv; subst hk ha hv; simp
        | succ i => simp at hk ha hv; simpa using ih as vs i hk ha hv

/-- folding reply rows into the accumulators is one fold per slot -/
theorem foldl_ptApply_getElem? (kinds : List AccKind) (rows : List (List Json)) (accs : List Acc)
    (hacc : accs.length = kinds.length) (hrows : ∀ r ∈ rows, r.length = kinds.length)
    (i : Nat) (k : AccKind) (a : Acc) (hk : kinds[i]? = some k) (ha : accs[i]? = some a) :
    (rows.foldl (ptApply kinds) accs)[i]? =
      some ((rows.map fun r => r.getD i Json.null).foldl (slot k) a) := by
  induction rows generalizing accs a with
  | nil => simpa using ha
  | cons r rs ih =>
    have hr : r.length = kinds.length := hrows r (by simp)
    have hi : i < kinds.length := by
      rcases Nat.lt_or_ge i kinds.length with h | h
      · exact h
      · rw [List.getElem?_eq_none h] at hk; cases hk
    have hv : r[i]? = some (r.getD i Json.null) := by
      rw [List.getD_eq_getElem?_getD, List.getElem?_eq_getElem (by omega)]; simp
    simp only [List.foldl_cons, List.map_cons]
    exact ih _ (ptApply_length _ _ _ hacc hr) (fun r' h' => hrows r' (by simp [h'])) _
      (ptApply_getElem? _ _ _ _ _ _ _ hk ha hv)

theorem slot_kind (k : AccKind) (a : Acc) (v : Json) : (slot k a v).kind = a.kind := by
  cases k <;> simp only [slot, Acc.apply] <;> cases a.kind <;> rfl

/-- a counter accumulator adds the numbers the backends counted -/
theorem fold_slot_counter (a : Acc) (h : a.kind = .counter) (vs : List Json) :
    vs.foldl (slot .counter) a =
      { kind := .counter,
        stats := a.stats + ((vs.map fun v => Int.toNat (milliTrunc (jsonToMilli v))).sum : Nat),
        count := a.count + (vs.map fun v => Int.toNat (milliTrunc (jsonToMilli v))).sum } := by
  induction vs generalizing a with
  | nil => cases a; simp_all
  | cons x xs ih =>
    simp only [List.foldl_cons]
    rw [ih _ (by rw [slot_kind]; exact h)]
    simp only [slot, Acc.apply, h, List.map_cons, List.sum_cons, Acc.mk.injEq, true_and]
    constructor <;> omega

/-- for the other kinds every backend's value is applied once -/
theorem fold_slot_agg (k : AccKind) (hk : k ≠ .counter) (a : Acc) (vs : List Json) :
    vs.foldl (slot k) a = (vs.map jsonToMilli).foldl (fun a m => a.apply m 1) a := by
  induction vs generalizing a with
  | nil => rfl
  | cons x xs ih =>
    simp only [List.foldl_cons, List.map_cons]
    rw [ih]
    cases k <;> first | exact absurd rfl hk | rfl

theorem foldl_add_shift (a : Int) (l : List Int) : l.foldl (· + ·) a = a + l.foldl (· + ·) 0 := by
  induction l generalizing a with
  | nil => simp
  | cons x xs ih =>
    simp only [List.foldl_cons]
    rw [ih (a + x), ih (0 + x)]; omega

theorem fold_sum (a : Acc) (h : a.kind = .sum) (vs : List Int) :
    vs.foldl (fun a v => a.apply v 1) a =
      { kind := .sum, stats := vs.foldl (· + ·) a.stats, count := a.count + vs.length } := by
  induction vs generalizing a with
  | nil => cases a; simp_all
  | cons x xs ih =>
    simp only [List.foldl_cons]
    rw [ih _ (by simp [Acc.apply, h])]
    simp only [Acc.apply, h, List.length_cons, Acc.mk.injEq, true_and]
    omega

theorem fold_avg (a : Acc) (h : a.kind = .avg) (vs : List Int) :
    vs.foldl (fun a v => a.apply v 1) a =
      { kind := .avg, stats := vs.foldl (· + ·) a.stats, count := a.count + vs.length } := by
  induction vs generalizing a with
  | nil => cases a; simp_all
  | cons x xs ih =>
    simp only [List.foldl_cons]
    rw [ih _ (by simp [Acc.apply, h])]
    simp only [Acc.apply, h, List.length_cons, Acc.mk.injEq, true_and]
    omega

theorem fold_min (a : Acc) (h : a.kind = .min) (hc : 0 < a.count) (vs : List Int) :
    vs.foldl (fun a v => a.apply v 1) a =
      { kind := .min, stats := vs.foldl min a.stats, count := a.count + vs.length } := by
  induction vs generalizing a with
  | nil => cases a; simp_all
  | cons x xs ih =>
    simp only [List.foldl_cons]
    rw [ih _ (by simp [Acc.apply, h]) (by simp [Acc.apply, h])]
    have hne : (a.count == 0) = false := by simp; omega
    simp only [Acc.apply, h, List.length_cons, Acc.mk.injEq, true_and, hne]
    refine ⟨?_, by omega⟩
    congr 1
    simp only [Int.min_def]
    by_cases hx : a.stats > x <;> simp [hx] <;> omega

theorem fold_max (a : Acc) (h : a.kind = .max) (hc : 0 < a.count) (vs : List Int) :
    vs.foldl (fun a v => a.apply v 1) a =
      { kind := .max, stats := vs.foldl max a.stats, count := a.count + vs.length } := by
  induction vs generalizing a with
  | nil => cases a; simp_all
  | cons x xs ih =>
    simp only [List.foldl_cons]
    rw [ih _ (by simp [Acc.apply, h]) (by simp [Acc.apply, h])]
    have hne : (a.count == 0) = false := by simp; omega
    simp only [Acc.apply, h, List.length_cons, Acc.mk.injEq, true_and, hne]
    refine ⟨?_, by omega⟩
    congr 1
    simp only [Int.max_def]
    by_cases hx : a.stats < x <;> simp [hx] <;> omega

/-- the printed value of an aggregate slot that was fed the values `ms` is the arithmetic specification -/
theorem final_fold_agg (k : AccKind) (hk : k ≠ .counter) (ms : List Int) :
    (ms.foldl (fun a m => a.apply m 1) (Acc.init k)).final = specFinal k ms := by
  cases k
  · exact absurd rfl hk
  · rw [fold_sum _ (by simp [Acc.init])]; cases ms <;> simp [Acc.final, specFinal, Acc.init]
  · rw [fold_avg _ (by simp [Acc.init])]; cases ms <;> simp [Acc.final, specFinal, Acc.init]
  · cases ms with
    | nil => simp [Acc.final, specFinal, Acc.init]
    | cons v vs =>
      simp only [List.foldl_cons]
      rw [fold_min _ (by simp [Acc.apply, Acc.init]) (by simp [Acc.apply, Acc.init])]
      simp [Acc.final, specFinal, Acc.init, Acc.apply]
  · cases ms with
    | nil => simp [Acc.final, specFinal, Acc.init]
    | cons v vs =>
      simp only [List.foldl_cons]
      rw [fold_max _ (by simp [Acc.apply, Acc.init]) (by simp [Acc.apply, Acc.init])]
      simp [Acc.final, specFinal, Acc.init, Acc.apply]

/-- the printed value of a counter slot is the sum of the backends' (truncated, non-negative) numbers -/
theorem final_fold_counter (vs : List Json) :
    (vs.foldl (slot .counter) (Acc.init .counter)).final =
      ((((vs.map fun v => Int.toNat (milliTrunc (jsonToMilli v))).sum : Nat) : Int), 1) := by
  rw [fold_slot_counter _ (by simp [Acc.init])]
  simp only [Acc.final, Acc.init]
  generalize (vs.map fun v => Int.toNat (milliTrunc (jsonToMilli v))).sum = n
  have hk : (AccKind.counter == AccKind.min) = false := rfl
  simp only [hk, Bool.false_eq_true, if_false, Nat.zero_add, Int.zero_add]
  by_cases hn : n = 0
  · subst hn; simp
  · simp [hn]

/-! ### grouping by the text of the requested columns -/

abbrev Groups := List (List String × List Acc)

/-- the key and the Stats values of a reply row -/
def rowKey (ncol : Nat) (row : List Json) : List String := (row.take ncol).map ptKeyText
def rowVals (ncol : Nat) (row : List Json) : List Json := row.drop ncol
def goodRow (kinds : List AccKind) (ncol : Nat) (row : List Json) : Bool := row.length == ncol + kinds.length

/-- change the accumulators of the group `key` -/
def updGroup (key : List String) (f : List Acc → List Acc) (g : Groups) : Groups :=
  g.map (fun ka => if ka.1 == key then (ka.1, f ka.2) else (ka.1, ka.2))

/-- the loop body of `ptStats` -/
def statsStep (kinds : List AccKind) (ncol : Nat) (acc : Groups × Nat) (row : List Json) : Groups × Nat :=
  if row.length != ncol + kinds.length then (acc.1, acc.2 + 1)
  else
    match acc.1.find? (·.1 == rowKey ncol row) with
    | some _ => (updGroup (rowKey ncol row) (fun a => ptApply kinds a (rowVals ncol row)) acc.1, acc.2)
    | none => (acc.1 ++ [(rowKey ncol row, ptApply kinds (kinds.map Acc.init) (rowVals ncol row))], acc.2)

/-- the groups and the number of skipped rows after all spliced rows have been folded in -/
def statsFold (t : Table) (req : Request) (peers : List PTPeer) : Groups × Nat :=
  (spliced t req peers).foldl
    (statsStep (req.stats.map StatsEntry.accKind) (requestColumns t req).length) ([], 0)

theorem ptStats_eq (t : Table) (req : Request) (peers : List PTPeer) :
    ptStats t req peers =
      { rows := if req.columns.isEmpty && (statsFold t req peers).1.isEmpty
          then [([], (req.stats.map StatsEntry.accKind).map Acc.init)] else (statsFold t req peers).1,
        failed := ptFailed peers, skipped := (statsFold t req peers).2 } := by
  rfl

/-- the spliced rows and the Stats fold of a Stats request do not depend on its `Sort:` headers -/
theorem spliced_stats_sort (t : Table) (req : Request) (peers : List PTPeer) (h : req.stats ≠ []) :
    spliced t req peers = spliced t { req with sort := [] } peers := by
  unfold spliced; rw [ptPlan_stats_sort t req h]

theorem statsFold_stats_sort (t : Table) (req : Request) (peers : List PTPeer) (h : req.stats ≠ []) :
    statsFold t req peers = statsFold t { req with sort := [] } peers := by
  unfold statsFold; rw [spliced_stats_sort t req peers h]; rfl

def glookup (g : Groups) (k : List String) : Option (List Acc) := (g.find? (·.1 == k)).map (·.2)

def gkeys (g : Groups) : List (List String) := g.map (·.1)

theorem glookup_cons (x : List String × List Acc) (xs : Groups) (k : List String) :
    glookup (x :: xs) k = if x.1 = k then some x.2 else glookup xs k := by
  unfold glookup
  rw [List.find?_cons]
  by_cases h : x.1 = k
  · simp [h]
  · have hb : (x.1 == k) = false := by simpa using h
    simp [hb, h]

theorem glookup_none_iff (g : Groups) (k : List String) : glookup g k = none ↔ k ∉ gkeys g := by
  unfold glookup gkeys
  rw [Option.map_eq_none_iff, List.find?_eq_none]
  simp only [List.mem_map, not_exists, not_and]
  constructor
  · intro h x hx hk; exact h x hx (by simp [hk])
  · intro h x hx hk; exact h x hx (by simpa using hk)

theorem glookup_update (g : Groups) (key : List String) (f : List Acc → List Acc) (k : List String) :
    glookup (updGroup key f g) k = if k = key then (glookup g k).map f else glookup g k := by
  induction g with
  | nil => simp [glookup, updGroup]
  | cons x xs ih =>
    unfold updGroup at ih ⊢
    rw [List.map_cons, glookup_cons, glookup_cons, ih]
    by_cases hx : x.1 = key
    · by_cases hk : k = key
      · subst hk; simp [hx]
      · have : ¬ key = k := fun h => hk h.symm
        simp [hx, hk, this]
    · by_cases hxk : x.1 = k
      · have : ¬ k = key := fun h => hx (hxk.trans h)
        simp [hxk, this]
      · simp [hx, hxk]

theorem gkeys_update (g : Groups) (key : List String) (f : List Acc → List Acc) :
    gkeys (updGroup key f g) = gkeys g := by
  unfold gkeys updGroup
  rw [List.map_map]
  apply List.map_congr_left
  intro x _
  simp only [Function.comp]
  split <;> rfl

theorem glookup_append_new (g : Groups) (key : List String) (x : List Acc) (h : glookup g key = none)
    (k : List String) :
    glookup (g ++ [(key, x)]) k = if k = key then some x else glookup g k := by
  by_cases hk : k = key
  · subst hk
    unfold glookup at h ⊢
    rw [Option.map_eq_none_iff] at h
    simp [List.find?_append, h]
  · have : ¬ key = k := fun h => hk h.symm
    unfold glookup
    simp only [List.find?_append, hk, if_false]
    cases List.find? (fun x => x.1 == k) g <;> simp [this]

theorem statsStep_bad (kinds : List AccKind) (ncol : Nat) (acc : Groups × Nat) (row : List Json)
    (h : goodRow kinds ncol row = false) : statsStep kinds ncol acc row = (acc.1, acc.2 + 1) := by
  unfold statsStep
  have : (row.length != ncol + kinds.length) = true := by simpa [goodRow] using h
  simp [this]

theorem statsStep_good (kinds : List AccKind) (ncol : Nat) (acc : Groups × Nat) (row : List Json)
    (h : goodRow kinds ncol row = true) :
    (statsStep kinds ncol acc row).2 = acc.2 ∧
    (∀ k, glookup (statsStep kinds ncol acc row).1 k =
      if k = rowKey ncol row then
        some (ptApply kinds ((glookup acc.1 k).getD (kinds.map Acc.init)) (rowVals ncol row))
      else glookup acc.1 k) ∧
    (gkeys (statsStep kinds ncol acc row).1 =
      if rowKey ncol row ∈ gkeys acc.1 then gkeys acc.1 else gkeys acc.1 ++ [rowKey ncol row]) := by
  have hb : (row.length != ncol + kinds.length) = false := by simpa [goodRow] using h
  unfold statsStep
  simp only [hb, Bool.false_eq_true, if_false]
  cases hf : List.find? (fun x => x.1 == rowKey ncol row) acc.1 with
  | some x =>
    have hl : glookup acc.1 (rowKey ncol row) = some x.2 := by simp [glookup, hf]
    have hmem : rowKey ncol row ∈ gkeys acc.1 := by
      apply Decidable.byContradiction
      intro hn; rw [← glookup_none_iff, hl] at hn; cases hn
    refine ⟨rfl, ?_, ?_⟩
    · intro k
      simp only
      rw [glookup_update]
      by_cases hk : k = rowKey ncol row
      · subst hk; simp [hl]
      · simp [hk]
    · simp only [hmem, if_true]
      exact gkeys_update _ _ _
  | none =>
    have hl : glookup acc.1 (rowKey ncol row) = none := by simp [glookup, hf]
    have hmem : rowKey ncol row ∉ gkeys acc.1 := (glookup_none_iff _ _).mp hl
    refine ⟨rfl, ?_, ?_⟩
    · intro k
      simp only
      rw [glookup_append_new _ _ _ hl]
      by_cases hk : k = rowKey ncol row
      · subst hk; simp [hl]
      · simp [hk]
    · simp only [hmem, if_false]
      simp [gkeys]

/-- one more row for a group: start the accumulators if the group is new, then apply the values -/
def ostep (kinds : List AccKind) (o : Option (List Acc)) (vals : List Json) : Option (List Acc) :=
  some (ptApply kinds (o.getD (kinds.map Acc.init)) vals)

theorem foldl_ostep_some (kinds : List AccKind) (a : List Acc) (vs : List (List Json)) :
    vs.foldl (ostep kinds) (some a) = some (vs.foldl (ptApply kinds) a) := by
  induction vs generalizing a with
  | nil => rfl
  | cons v vs ih => simp only [List.foldl_cons, ostep, Option.getD_some, ih]

/-- the Stats values of the well-formed rows that carry the key `k` -/
def valsOfKey (kinds : List AccKind) (ncol : Nat) (k : List String) (rows : List (List Json)) : List (List Json) :=
  ((rows.filter (goodRow kinds ncol)).filter (fun r => rowKey ncol r == k)).map (rowVals ncol)

/-- the grouping fold, key by key: rows with the same key are applied to one group's accumulators in
    order, rows with another key never touch them; rows of the wrong width are only counted -/
theorem foldl_statsStep (kinds : List AccKind) (ncol : Nat) (rows : List (List Json)) (acc : Groups × Nat) :
    (rows.foldl (statsStep kinds ncol) acc).2 = acc.2 + (rows.filter (fun r => !goodRow kinds ncol r)).length ∧
    (∀ k, glookup (rows.foldl (statsStep kinds ncol) acc).1 k =
      (valsOfKey kinds ncol k rows).foldl (ostep kinds) (glookup acc.1 k)) ∧
    ((gkeys acc.1).Nodup → (gkeys (rows.foldl (statsStep kinds ncol) acc).1).Nodup) := by
  induction rows generalizing acc with
  | nil => simp [valsOfKey]
  | cons r rs ih =>
    simp only [List.foldl_cons]
    obtain ⟨ih1, ih2, ih3⟩ := ih (statsStep kinds ncol acc r)
    cases hg : goodRow kinds ncol r with
    | false =>
      rw [statsStep_bad _ _ _ _ hg] at ih1 ih2 ih3 ⊢
      refine ⟨?_, ?_, ih3⟩
      · rw [ih1]; simp [hg]; omega
      · intro k; rw [ih2]; simp [valsOfKey, hg]
    | true =>
      obtain ⟨s1, s2, s3⟩ := statsStep_good kinds ncol acc r hg
      refine ⟨?_, ?_, ?_⟩
      · rw [ih1, s1]; simp [hg]
      · intro k
        rw [ih2, s2]
        by_cases hk : k = rowKey ncol r
        · subst hk; simp [valsOfKey, hg, ostep]
        · have : ¬ rowKey ncol r = k := fun h => hk h.symm
          simp [valsOfKey, hg, hk, this]
      · intro hnd
        apply ih3
        rw [s3]
        split
        · exact hnd
        · rename_i hmem
          rw [List.nodup_append]
          refine ⟨hnd, by simp, ?_⟩
          intro a ha b hb
          simp only [List.mem_singleton] at hb
          subst hb
          intro hab; subst hab; exact hmem ha

theorem gkeys_foldl_statsStep (kinds : List AccKind) (ncol : Nat) (rows : List (List Json)) (acc : Groups × Nat)
    (k : List String) :
    k ∈ gkeys (rows.foldl (statsStep kinds ncol) acc).1 ↔
      k ∈ gkeys acc.1 ∨ ∃ r ∈ rows, goodRow kinds ncol r = true ∧ rowKey ncol r = k := by
  induction rows generalizing acc with
  | nil => simp
  | cons r rs ih =>
    simp only [List.foldl_cons]
    rw [ih]
    cases hg : goodRow kinds ncol r with
    | false =>
      rw [statsStep_bad _ _ _ _ hg]
      constructor
      · rintro (h | ⟨r', hr', h1, h2⟩)
        · exact Or.inl h
        · exact Or.inr ⟨r', by simp [hr'], h1, h2⟩
      · rintro (h | ⟨r', hr', h1, h2⟩)
        · exact Or.inl h
        · rcases List.mem_cons.mp hr' with h | h
          · subst h; rw [hg] at h1; cases h1
          · exact Or.inr ⟨r', h, h1, h2⟩
    | true =>
      obtain ⟨_, _, s3⟩ := statsStep_good kinds ncol acc r hg
      rw [s3]
      constructor
      · rintro (h | ⟨r', hr', h1, h2⟩)
        · split at h
          · exact Or.inl h
          · rcases List.mem_append.mp h with h | h
            · exact Or.inl h
            · simp only [List.mem_singleton] at h
              exact Or.inr ⟨r, by simp, hg, h.symm⟩
        · exact Or.inr ⟨r', by simp [hr'], h1, h2⟩
      · rintro (h | ⟨r', hr', h1, h2⟩)
        · left; split
          · exact h
          · exact List.mem_append_left _ h
        · rcases List.mem_cons.mp hr' with h | h
          · subst h; left; split
            · rename_i hm; rw [← h2]; exact hm
            · rw [← h2]; simp
          · exact Or.inr ⟨r', h, h1, h2⟩

theorem glookup_foldl_statsStep_nil (kinds : List AccKind) (ncol : Nat) (rows : List (List Json)) (k : List String) :
    glookup (rows.foldl (statsStep kinds ncol) ([], 0)).1 k =
      if valsOfKey kinds ncol k rows = [] then none
      else some ((valsOfKey kinds ncol k rows).foldl (ptApply kinds) (kinds.map Acc.init)) := by
  rw [(foldl_statsStep kinds ncol rows ([], 0)).2.1 k]
  have h0 : glookup ([] : Groups) k = none := rfl
  rw [h0]
  cases hv : valsOfKey kinds ncol k rows with
  | nil => rfl
  | cons v vs =>
    simp only [List.foldl_cons, ostep, Option.getD_none, foldl_ostep_some]
    simp

theorem valsOfKey_length (kinds : List AccKind) (ncol : Nat) (k : List String) (rows : List (List Json)) :
    ∀ v ∈ valsOfKey kinds ncol k rows, v.length = kinds.length := by
  intro v hv
  simp only [valsOfKey, List.mem_map, List.mem_filter] at hv
  obtain ⟨r, ⟨⟨_, hg⟩, _⟩, rfl⟩ := hv
  simp only [goodRow, beq_iff_eq] at hg
  simp [rowVals, hg]

/-- the printed value of slot `i` of a group, from the cells the reply rows carry for that slot -/
def slotFinal (kind : AccKind) (cells : List Json) : Int × Nat :=
  match kind with
  | .counter => ((((cells.map fun v => Int.toNat (milliTrunc (jsonToMilli v))).sum : Nat) : Int), 1)
  | k => specFinal k (cells.map jsonToMilli)

theorem foldl_ptApply_final (kinds : List AccKind) (vals : List (List Json))
    (hvals : ∀ v ∈ vals, v.length = kinds.length) (i : Nat) (kind : AccKind) (hk : kinds[i]? = some kind) :
    ∃ a, (vals.foldl (ptApply kinds) (kinds.map Acc.init))[i]? = some a ∧
      a.final = slotFinal kind (vals.map fun r => r.getD i Json.null) := by
  have ha : (kinds.map Acc.init)[i]? = some (Acc.init kind) := by simp [hk]
  refine ⟨_, foldl_ptApply_getElem? kinds vals _ (by simp) hvals i kind _ hk ha, ?_⟩
  by_cases hc : kind = .counter
  · subst hc; rw [final_fold_counter]; rfl
  · rw [fold_slot_agg kind hc, final_fold_agg kind hc]
    cases kind <;> first | exact absurd rfl hc | rfl

theorem groups_single_key (g : Groups) (h : ∀ k ∈ gkeys g, k = []) (hn : (gkeys g).Nodup) :
    g = [] ∨ ∃ a, g = [([], a)] := by
  cases g with
  | nil => exact Or.inl rfl
  | cons x xs =>
    right
    cases xs with
    | nil =>
      refine ⟨x.2, ?_⟩
      have := h x.1 (by simp [gkeys])
      cases x; simp_all
    | cons y ys =>
      have hx := h x.1 (by simp [gkeys])
      have hy := h y.1 (by simp [gkeys])
      simp [gkeys, hx, hy] at hn

theorem allPoint_iff (all : List Column) (s : List SortField) (js : List Nat) :
    AllPoint all s js ↔ s.length = js.length ∧
      ∀ (k : Nat) (sf : SortField) (j : Nat), s[k]? = some sf → js[k]? = some j → Points all sf j := by
  induction s generalizing js with
  | nil => cases js <;> simp [AllPoint]
  | cons sf s ih =>
    cases js with
    | nil => simp [AllPoint]
    | cons j js =>
      simp only [AllPoint, ih, List.length_cons]
      constructor
      · rintro ⟨hp, hl, hall⟩
        refine ⟨by omega, ?_⟩
        intro k sf' j' h1 h2
        cases k with
        | zero => simp at h1 h2; subst h1 h2; exact hp
        | succ k => simp at h1 h2; exact hall k sf' j' h1 h2
      · rintro ⟨hl, hall⟩
        refine ⟨hall 0 sf j (by simp) (by simp), by omega, ?_⟩
        intro k sf' j' h1 h2
        exact hall (k + 1) sf' j' (by simpa using h1) (by simpa using h2)
