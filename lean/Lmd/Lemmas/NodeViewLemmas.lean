/-
  Lmd.Lemmas.NodeViewLemmas — helper lemmas about the view a cluster node keeps (`NodeView`, `NodeView.check`,
  `onlineFlags`, `sharesOf`, `mapOfShares`, `setEntry` of Lmd/Distributed.lean) for the property C18 (what the nodes
  believe and how they converge).  They sit on top of the lemmas about `redistribute` in
  `Lmd.Lemmas.ClusterLemmas`.
-/
import Lmd.Lemmas.ClusterLemmas
import Lmd.Distributed

namespace Lmd

/-- The invariant of a node's view: the node serves the share that the distribution for its reachable set gives it. -/
structure NodeView.Inv (bs : List String) (v : NodeView) : Prop where
  assigned_eq : v.assigned = (sharesOf v.nNodes v.online bs).getD v.own []

/-- What a node has noted about itself in `nodeBackends` (if anything) is what it serves. -/
def NodeView.OwnEntry (v : NodeView) : Prop :=
  ∀ l, (v.own, l) ∈ v.nodeBackends → l = v.assigned

end Lmd

namespace Lmd.NodeViewL
open Lmd Lmd.ClusterL

/-! ## the reachability flags -/

theorem onlineFlags_length (n : Nat) (R : List Nat) : (onlineFlags n R).length = n := by
  simp [onlineFlags]

theorem onlineFlags_getElem? (n : Nat) (R : List Nat) (j : Nat) :
    (onlineFlags n R)[j]? = if j < n then some (R.contains j) else none := by
  unfold onlineFlags
  by_cases hj : j < n
  · rw [if_pos hj, List.getElem?_eq_getElem (by simpa using hj)]
    simp
  · rw [if_neg hj, List.getElem?_eq_none_iff]
    simp only [List.length_map, List.length_range]
    omega

theorem onlineFlags_true_iff (n : Nat) (R : List Nat) (j : Nat) :
    (onlineFlags n R)[j]? = some true ↔ j < n ∧ j ∈ R := by
  rw [onlineFlags_getElem?]
  by_cases hj : j < n <;> simp [hj]

theorem onlineFlags_false (n : Nat) (R : List Nat) (j : Nat) (hj : j < n) (hR : j ∉ R) :
    (onlineFlags n R)[j]? = some false := by
  rw [onlineFlags_getElem?, if_pos hj]
  simp [hR]

theorem true_mem_onlineFlags (n : Nat) (R : List Nat) : true ∈ onlineFlags n R ↔ ∃ j ∈ R, j < n := by
  constructor
  · intro h
    obtain ⟨j, hj, he⟩ := List.getElem_of_mem h
    have h1 : (onlineFlags n R)[j]? = some true := by rw [List.getElem?_eq_getElem hj, he]
    obtain ⟨h2, h3⟩ := (onlineFlags_true_iff n R j).1 h1
    exact ⟨j, h3, h2⟩
  · rintro ⟨j, hj, hn⟩
    exact List.mem_of_getElem? ((onlineFlags_true_iff n R j).2 ⟨hn, hj⟩)

/-- the positions below `n` that are in `R`, ascending: `R` itself when `R` is ascending without repetition -/
theorem filter_range_eq (n : Nat) (R : List Nat) (hR : R.Pairwise (· < ·)) (hlt : ∀ j ∈ R, j < n) :
    (List.range n).filter R.contains = R := by
  have hp : ((List.range n).filter R.contains).Pairwise (· < ·) := List.pairwise_lt_range.filter _
  have hnd1 : ((List.range n).filter R.contains).Nodup := hp.imp (fun h => Nat.ne_of_lt h)
  have hnd2 : R.Nodup := hR.imp (fun h => Nat.ne_of_lt h)
  have hperm : ((List.range n).filter R.contains).Perm R := by
    rw [List.perm_ext_iff_of_nodup hnd1 hnd2]
    intro a
    simp only [List.mem_filter, List.mem_range, List.contains_iff_mem]
    exact ⟨fun h => h.2, fun h => ⟨hlt a h, h⟩⟩
  exact List.Perm.eq_of_pairwise (le := (· < ·)) (fun a b _ _ h1 h2 => absurd h1 (Nat.lt_asymm h2)) hp hR hperm

/-- the number of reachable nodes of the flags is the length of the list of reachable positions -/
theorem nOnline_onlineFlags (n : Nat) (R : List Nat) (hnd : R.Nodup) (hlt : ∀ j ∈ R, j < n) :
    ((onlineFlags n R).filter id).length = R.length := by
  unfold onlineFlags
  rw [List.filter_map, List.length_map]
  have hnd1 : ((List.range n).filter (id ∘ R.contains)).Nodup := List.nodup_range.filter _
  apply List.Perm.length_eq
  rw [List.perm_ext_iff_of_nodup hnd1 hnd]
  intro a
  simp only [List.mem_filter, List.mem_range, Function.comp_apply, id_eq, List.contains_iff_mem]
  exact ⟨fun h => h.2, fun h => ⟨hlt a h, h⟩⟩

/-! ## the shares -/

theorem sharesOf_length (n : Nat) (R : List Nat) (bs : List String) : (sharesOf n R bs).length = n := by
  rw [sharesOf, redistribute, handOut_length, quotas_length, onlineFlags_length]

/-- a node that is not reachable gets nothing -/
theorem sharesOf_getD_offline (n : Nat) (R : List Nat) (bs : List String) (j : Nat) (h : j ∉ R) :
    (sharesOf n R bs).getD j [] = [] := by
  rw [List.getD_eq_getElem?_getD]
  by_cases hj : j < n
  · have h0 : (onlineFlags n R)[j]? = some false := onlineFlags_false n R j hj h
    obtain ⟨q, hq, hz, _⟩ := quotas_getElem? (onlineFlags n R) bs.length j false h0
    obtain ⟨l, hl, hlen⟩ := handOut_getElem?_length_le (quotas (onlineFlags n R) bs.length) bs j q hq
    rw [hz rfl] at hlen
    rw [sharesOf, redistribute, hl, List.eq_nil_of_length_eq_zero (Nat.le_zero.1 hlen)]
    rfl
  · have : (sharesOf n R bs)[j]? = none := by
      rw [List.getElem?_eq_none_iff, sharesOf_length]; omega
    rw [this]; rfl

/-- a position beyond the configured nodes gets nothing -/
theorem sharesOf_getD_beyond (n : Nat) (R : List Nat) (bs : List String) (j : Nat) (h : n ≤ j) :
    (sharesOf n R bs).getD j [] = [] := by
  rw [List.getD_eq_getElem?_getD]
  have : (sharesOf n R bs)[j]? = none := by
    rw [List.getElem?_eq_none_iff, sharesOf_length]; exact h
  rw [this]; rfl

theorem sharesOf_getElem? (n : Nat) (R : List Nat) (bs : List String) (j : Nat) (hj : j < n) :
    (sharesOf n R bs)[j]? = some ((sharesOf n R bs).getD j []) := by
  rw [List.getD_eq_getElem?_getD, List.getElem?_eq_getElem (by rw [sharesOf_length]; exact hj)]
  rfl

/-- flattening a mapped list may skip the positions that contribute nothing -/
theorem flatten_map_filter {α β : Type} (l : List α) (p : α → Bool) (f : α → List β)
    (h : ∀ a ∈ l, p a = false → f a = []) :
    (l.map f).flatten = ((l.filter p).map f).flatten := by
  induction l with
  | nil => rfl
  | cons a l ih =>
    have ih' := ih (fun b hb => h b (List.mem_cons_of_mem _ hb))
    cases hp : p a with
    | true => simp [hp, ih']
    | false => simp [hp, ih', h a (List.mem_cons_self) hp]

theorem eq_map_range_getD {α : Type} (L : List α) (d : α) : L = (List.range L.length).map (L.getD · d) := by
  apply List.ext_getElem
  · simp
  · intro i h1 h2
    simp [List.getD_eq_getElem?_getD, List.getElem?_eq_getElem h1]

/-- the shares of the reachable nodes, in ascending node order, concatenated, are all the shares concatenated -/
theorem sharesOf_flatten_online (n : Nat) (R : List Nat) (bs : List String) (hR : R.Pairwise (· < ·))
    (hlt : ∀ j ∈ R, j < n) :
    (R.map fun i => (sharesOf n R bs).getD i []).flatten = (sharesOf n R bs).flatten := by
  have h1 := eq_map_range_getD (sharesOf n R bs) []
  rw [sharesOf_length] at h1
  conv => rhs; rw [h1]
  rw [flatten_map_filter (List.range n) R.contains _ (fun a _ ha =>
    sharesOf_getD_offline n R bs a (by simpa using ha)), filter_range_eq n R hR hlt]

/-- with a reachable node the shares concatenated are the configured backends without the empty ids -/
theorem sharesOf_flatten (n : Nat) (R : List Nat) (bs : List String) (h : ∃ j ∈ R, j < n) :
    (sharesOf n R bs).flatten = bs.filter (· ≠ "") := by
  have ht : true ∈ onlineFlags n R := (true_mem_onlineFlags n R).2 h
  rw [sharesOf, redistribute,
    handOut_flatten _ _ (quotas_sum_ge_length (onlineFlags n R) bs.length (nOnline_pos_of_mem ht))]
  congr 1
  funext b
  by_cases hb : b = "" <;> simp [hb]

/-! ## quotas of reachable nodes and the stored map -/

/-- exactly the reachable nodes have a quota -/
theorem quota_pos_iff (flags : List Bool) (B : Nat) (j : Nat) :
    0 < (quotas flags B).getD j 0 ↔ flags[j]? = some true := by
  rw [List.getD_eq_getElem?_getD]
  cases hf : flags[j]? with
  | none =>
    have : (quotas flags B)[j]? = none := by
      rw [List.getElem?_eq_none_iff] at hf ⊢
      rw [quotas_length]; exact hf
    rw [this]; simp
  | some b =>
    obtain ⟨q, hq, h0, h1⟩ := quotas_getElem? flags B j b hf
    rw [hq]
    cases b with
    | false => simp [h0 rfl]
    | true =>
      simp only [Option.getD_some, iff_true]
      obtain ⟨ha, hb⟩ := h1 rfl
      have hpos : 0 < nOnline flags := nOnline_pos_of_mem (List.mem_of_getElem? hf)
      by_cases hc : B ≤ nOnline flags
      · rw [ha hc]; exact Nat.one_pos
      · have hd : 0 < B / nOnline flags := Nat.div_pos (by omega) hpos
        rcases hb (by omega) with h | ⟨h, _⟩ <;> omega

theorem mem_filterMap_ite (l : List Nat) (p : Nat → Prop) [DecidablePred p] (f : Nat → List String)
    (j : Nat) (x : List String) :
    (j, x) ∈ (l.filterMap fun i => if p i then some (i, f i) else none) ↔ j ∈ l ∧ p j ∧ x = f j := by
  rw [List.mem_filterMap]
  constructor
  · rintro ⟨i, hi, he⟩
    split at he
    · next hp =>
      simp only [Option.some.injEq, Prod.mk.injEq] at he
      obtain ⟨rfl, rfl⟩ := he
      exact ⟨hi, hp, rfl⟩
    · cases he
  · rintro ⟨hj, hp, rfl⟩
    exact ⟨j, hj, by rw [if_pos hp]⟩

theorem lookup_filterMap_ite (l : List Nat) (p : Nat → Prop) [DecidablePred p] (f : Nat → List String)
    (j : Nat) :
    (l.filterMap fun i => if p i then some (i, f i) else none).lookup j
      = if j ∈ l ∧ p j then some (f j) else none := by
  induction l with
  | nil => simp
  | cons a l ih =>
    by_cases hp : p a
    · rw [List.filterMap_cons_some (by rw [if_pos hp]), List.lookup_cons]
      by_cases hja : j = a
      · subst hja; simp [hp]
      · have : (j == a) = false := by simpa using hja
        rw [this, ih]
        simp [hja]
    · rw [List.filterMap_cons_none (by rw [if_neg hp]), ih]
      by_cases hja : j = a
      · subst hja; simp [hp]
      · simp [hja]

/-- the entries of the stored map: for every reachable node its share, nothing else -/
theorem mem_mapOfShares (n : Nat) (R : List Nat) (bs : List String) (j : Nat) (x : List String) :
    (j, x) ∈ mapOfShares n R bs ↔ j < n ∧ j ∈ R ∧ x = (sharesOf n R bs).getD j [] := by
  unfold mapOfShares
  simp only
  rw [mem_filterMap_ite, List.mem_range]
  constructor
  · rintro ⟨h1, h2, h3⟩
    exact ⟨h1, ((onlineFlags_true_iff n R j).1 ((quota_pos_iff _ _ j).1 h2)).2, h3⟩
  · rintro ⟨h1, h2, h3⟩
    exact ⟨h1, (quota_pos_iff _ _ j).2 ((onlineFlags_true_iff n R j).2 ⟨h1, h2⟩), h3⟩

theorem lookup_mapOfShares (n : Nat) (R : List Nat) (bs : List String) (j : Nat) :
    (mapOfShares n R bs).lookup j = if j < n ∧ j ∈ R then some ((sharesOf n R bs).getD j []) else none := by
  unfold mapOfShares
  simp only
  rw [lookup_filterMap_ite]
  simp only [List.mem_range]
  have : (j < n ∧ (quotas (onlineFlags n R) bs.length).getD j 0 > 0) ↔ (j < n ∧ j ∈ R) := by
    constructor
    · rintro ⟨h1, h2⟩
      exact ⟨h1, ((onlineFlags_true_iff n R j).1 ((quota_pos_iff _ _ j).1 h2)).2⟩
    · rintro ⟨h1, h2⟩
      exact ⟨h1, (quota_pos_iff _ _ j).2 ((onlineFlags_true_iff n R j).2 ⟨h1, h2⟩)⟩
  simp only [this]

/-! ## `checkNodeAvailability` in parts -/

/-- this node and the partners that answered, ascending -/
def newOnline (v : NodeView) (rs : List PingReply) : List Nat :=
  (v.own :: rs.map (·.pos)).mergeSort (fun a b => a ≤ b)

/-- a partner answered with another identifier than last time -/
def forced (v : NodeView) (rs : List PingReply) : Bool := rs.any (restarted v.seen)

/-- the entries of restarted partners are dropped -/
def dropRestarted (seen : List (Nat × Nat)) (rs : List PingReply) (m : List (Nat × List String)) :
    List (Nat × List String) :=
  rs.foldl (fun m r => if restarted seen r then m.filter (·.1 != r.pos) else m) m

/-- every partner's own list replaces what this node believed about it -/
def storePeers (rs : List PingReply) (m : List (Nat × List String)) : List (Nat × List String) :=
  rs.foldl (fun m r => match r.peers with
    | some l => setEntry m r.pos l
    | none => m) m

/-- the identifiers the partners answered with are noted -/
def newSeen (seen : List (Nat × Nat)) (rs : List PingReply) : List (Nat × Nat) :=
  rs.foldl (fun s r => s.filter (·.1 != r.pos) ++ [(r.pos, r.ident)]) seen

theorem storePeers_cons_some (r : PingReply) (rs : List PingReply) (m : List (Nat × List String))
    (x : List String) (h : r.peers = some x) : storePeers (r :: rs) m = storePeers rs (setEntry m r.pos x) := by
  show storePeers rs (match r.peers with
    | some l => setEntry m r.pos l
    | none => m) = _
  rw [h]

theorem storePeers_cons_none (r : PingReply) (rs : List PingReply) (m : List (Nat × List String))
    (h : r.peers = none) : storePeers (r :: rs) m = storePeers rs m := by
  show storePeers rs (match r.peers with
    | some l => setEntry m r.pos l
    | none => m) = _
  rw [h]

theorem dropRestarted_cons (seen : List (Nat × Nat)) (r : PingReply) (rs : List PingReply)
    (m : List (Nat × List String)) :
    dropRestarted seen (r :: rs) m
      = dropRestarted seen rs (if restarted seen r then m.filter (·.1 != r.pos) else m) := rfl

/-- `NodeView.check` with its parts named -/
theorem check_eq (v : NodeView) (bs : List String) (rs : List PingReply) :
    v.check bs rs =
      if forced v rs || newOnline v rs != v.online then
        { v with seen := newSeen v.seen rs, online := newOnline v rs,
                 nodeBackends := mapOfShares v.nNodes (newOnline v rs) bs,
                 assigned := (sharesOf v.nNodes (newOnline v rs) bs).getD v.own [] }
      else
        { v with seen := newSeen v.seen rs,
                 nodeBackends := storePeers rs (dropRestarted v.seen rs v.nodeBackends) } := rfl

/-- the check when the distribution is computed anew -/
theorem check_recomputed (v : NodeView) (bs : List String) (rs : List PingReply)
    (h : forced v rs = true ∨ newOnline v rs ≠ v.online) :
    v.check bs rs =
        { v with seen := newSeen v.seen rs, online := newOnline v rs,
                 nodeBackends := mapOfShares v.nNodes (newOnline v rs) bs,
                 assigned := (sharesOf v.nNodes (newOnline v rs) bs).getD v.own [] } := by
  rw [check_eq, if_pos]
  rcases h with h | h
  · simp [h]
  · simp [h]

/-- the check when nothing forces a new distribution -/
theorem check_kept (v : NodeView) (bs : List String) (rs : List PingReply)
    (h1 : forced v rs = false) (h2 : newOnline v rs = v.online) :
    v.check bs rs =
        { v with seen := newSeen v.seen rs,
                 nodeBackends := storePeers rs (dropRestarted v.seen rs v.nodeBackends) } := by
  rw [check_eq, if_neg]
  simp [h1, h2]

theorem check_cases (v : NodeView) (rs : List PingReply) :
    (forced v rs = true ∨ newOnline v rs ≠ v.online) ∨ (forced v rs = false ∧ newOnline v rs = v.online) := by
  cases hf : forced v rs with
  | true => exact .inl (.inl rfl)
  | false =>
    by_cases h : newOnline v rs = v.online
    · exact .inr ⟨rfl, h⟩
    · exact .inl (.inr h)

theorem check_own (v : NodeView) (bs : List String) (rs : List PingReply) : (v.check bs rs).own = v.own := by
  rw [check_eq]; split <;> rfl

theorem check_nNodes (v : NodeView) (bs : List String) (rs : List PingReply) :
    (v.check bs rs).nNodes = v.nNodes := by
  rw [check_eq]; split <;> rfl

theorem check_seen (v : NodeView) (bs : List String) (rs : List PingReply) :
    (v.check bs rs).seen = newSeen v.seen rs := by
  rw [check_eq]; split <;> rfl

theorem check_online' (v : NodeView) (bs : List String) (rs : List PingReply) :
    (v.check bs rs).online = newOnline v rs := by
  rcases check_cases v rs with h | ⟨h1, h2⟩
  · rw [check_recomputed v bs rs h]
  · rw [check_kept v bs rs h1 h2]; exact h2.symm

/-! ## the new reachable set -/

theorem mem_newOnline (v : NodeView) (rs : List PingReply) (j : Nat) :
    j ∈ newOnline v rs ↔ j = v.own ∨ ∃ r ∈ rs, r.pos = j := by
  unfold newOnline
  rw [List.mem_mergeSort, List.mem_cons, List.mem_map]

theorem own_mem_newOnline (v : NodeView) (rs : List PingReply) : v.own ∈ newOnline v rs :=
  (mem_newOnline v rs v.own).2 (.inl rfl)

theorem newOnline_ne_nil (v : NodeView) (rs : List PingReply) : newOnline v rs ≠ [] :=
  List.ne_nil_of_mem (own_mem_newOnline v rs)

theorem length_newOnline (v : NodeView) (rs : List PingReply) : (newOnline v rs).length = rs.length + 1 := by
  simp [newOnline, List.length_mergeSort]

theorem newOnline_sorted (v : NodeView) (rs : List PingReply) : (newOnline v rs).Pairwise (· ≤ ·) := by
  have := List.pairwise_mergeSort (le := fun (a b : Nat) => decide (a ≤ b))
    (fun a b c h1 h2 => by simp only [decide_eq_true_eq] at *; omega)
    (fun a b => by simp only [Bool.or_eq_true, decide_eq_true_eq]; omega)
    (v.own :: rs.map (·.pos))
  exact this.imp (fun h => by simpa using h)

/-- answered by exactly the other members of an ascending set that contains this node: that set is the new
    reachable set -/
theorem newOnline_eq_of_perm (v : NodeView) (rs : List PingReply) (R : List Nat) (hR : R.Pairwise (· < ·))
    (hown : v.own ∈ R) (hp : (rs.map (·.pos)).Perm (R.erase v.own)) : newOnline v rs = R := by
  have h1 : (newOnline v rs).Perm R :=
    ((List.mergeSort_perm _ _).trans (hp.cons v.own)).trans (List.perm_cons_erase hown).symm
  exact List.Perm.eq_of_pairwise (le := (· ≤ ·)) (fun a b _ _ h1 h2 => Nat.le_antisymm h1 h2)
    (newOnline_sorted v rs) (hR.imp Nat.le_of_lt) h1

/-! ## the stored lists of the partners -/

theorem mem_setEntry (m : List (Nat × List String)) (k : Nat) (x : List String) (j : Nat) (l : List String) :
    (j, l) ∈ setEntry m k x ↔ ((j, l) ∈ m ∧ j ≠ k) ∨ (j = k ∧ l = x) := by
  simp only [setEntry, List.mem_append, List.mem_filter, bne_iff_ne, ne_eq, List.mem_singleton, Prod.mk.injEq]

/-- entries of nodes that did not answer are left alone by the replies' lists -/
theorem mem_storePeers_other (rs : List PingReply) (m : List (Nat × List String)) (j : Nat) (l : List String)
    (hj : ∀ r ∈ rs, r.pos ≠ j) : (j, l) ∈ storePeers rs m ↔ (j, l) ∈ m := by
  induction rs generalizing m with
  | nil => rfl
  | cons r rs ih =>
    have hr : r.pos ≠ j := hj r List.mem_cons_self
    have ih' := fun m' => ih m' (fun r' hr' => hj r' (List.mem_cons_of_mem _ hr'))
    cases hp : r.peers with
    | none => rw [storePeers_cons_none r rs m hp, ih']
    | some x =>
      rw [storePeers_cons_some r rs m x hp, ih', mem_setEntry]
      constructor
      · rintro (⟨h, _⟩ | ⟨h, _⟩)
        · exact h
        · exact absurd h.symm hr
      · intro h; exact .inl ⟨h, fun h' => hr h'.symm⟩

/-- dropping the entries of restarted partners only removes entries -/
theorem mem_dropRestarted_sub (seen : List (Nat × Nat)) (rs : List PingReply) (m : List (Nat × List String))
    (p : Nat × List String) (h : p ∈ dropRestarted seen rs m) : p ∈ m := by
  induction rs generalizing m with
  | nil => exact h
  | cons r rs ih =>
    rw [dropRestarted_cons] at h
    have := ih _ h
    split at this
    · exact (List.mem_filter.1 this).1
    · exact this

/-- when every reply carries the list `f` gives for its position: the entries after storing the replies' lists -/
theorem mem_storePeers (rs : List PingReply) (f : Nat → List String)
    (hf : ∀ r ∈ rs, r.peers = some (f r.pos)) (m : List (Nat × List String)) (j : Nat) (l : List String) :
    (j, l) ∈ storePeers rs m ↔ if (∃ r ∈ rs, r.pos = j) then l = f j else (j, l) ∈ m := by
  induction rs generalizing m with
  | nil => simp [storePeers]
  | cons r rs ih =>
    have ih' := fun m' => ih (fun r' hr' => hf r' (List.mem_cons_of_mem _ hr')) m'
    have hr := hf r List.mem_cons_self
    have hstep : storePeers (r :: rs) m = storePeers rs (setEntry m r.pos (f r.pos)) :=
      storePeers_cons_some r rs m _ hr
    rw [hstep, ih', mem_setEntry]
    by_cases h1 : ∃ r' ∈ rs, r'.pos = j
    · have h2 : ∃ r' ∈ r :: rs, r'.pos = j := by
        obtain ⟨r', h, h'⟩ := h1
        exact ⟨r', List.mem_cons_of_mem _ h, h'⟩
      rw [if_pos h1, if_pos h2]
    · rw [if_neg h1]
      by_cases h3 : r.pos = j
      · have h2 : ∃ r' ∈ r :: rs, r'.pos = j := ⟨r, List.mem_cons_self, h3⟩
        rw [if_pos h2]
        subst h3
        constructor
        · rintro (⟨_, h⟩ | ⟨_, h⟩)
          · exact absurd rfl h
          · exact h
        · intro h; exact .inr ⟨rfl, h⟩
      · have h2 : ¬ ∃ r' ∈ r :: rs, r'.pos = j := by
          rintro ⟨r', h, h'⟩
          rcases List.mem_cons.1 h with rfl | h
          · exact h3 h'
          · exact h1 ⟨r', h, h'⟩
        rw [if_neg h2]
        constructor
        · rintro (⟨h, _⟩ | ⟨h, _⟩)
          · exact h
          · exact absurd h.symm h3
        · intro h; exact .inl ⟨h, fun h' => h3 h'.symm⟩

/-- a key all of whose entries carry the same value, and that has an entry, is looked up to that value -/
theorem lookup_of_mem_unique (m : List (Nat × List String)) (j : Nat) (x : List String)
    (h : ∀ l, (j, l) ∈ m ↔ l = x) : m.lookup j = some x := by
  cases hl : m.lookup j with
  | none =>
    rw [List.lookup_eq_none_iff] at hl
    have := hl (j, x) ((h x).2 rfl)
    simp at this
  | some y =>
    obtain ⟨l₁, l₂, he, _⟩ := List.lookup_eq_some_iff.1 hl
    have : (j, y) ∈ m := by rw [he]; simp
    rw [(h y).1 this]

/-- a backend of a duplicate-free concatenation is in exactly one of the parts -/
theorem unique_part {ι : Type} (R : List ι) (f : ι → List String) (hR : R.Nodup)
    (hd : ((R.map f).flatten).Nodup) (b : String) (hb : b ∈ (R.map f).flatten) :
    ∃ i ∈ R, b ∈ f i ∧ ∀ j ∈ R, b ∈ f j → j = i := by
  induction R with
  | nil => simp at hb
  | cons a R ih =>
    rw [List.map_cons, List.flatten_cons] at hd hb
    rw [List.nodup_append] at hd
    obtain ⟨_, hd2, hd3⟩ := hd
    rw [List.nodup_cons] at hR
    rcases List.mem_append.1 hb with hb1 | hb2
    · refine ⟨a, List.mem_cons_self, hb1, fun j hj hbj => ?_⟩
      rcases List.mem_cons.1 hj with hja | hj
      · exact hja
      · exact absurd rfl (hd3 b hb1 b (List.mem_flatten.2 ⟨f j, List.mem_map.2 ⟨j, hj, rfl⟩, hbj⟩))
    · obtain ⟨i, hi, hbi, hu⟩ := ih hR.2 hd2 hb2
      refine ⟨i, List.mem_cons_of_mem _ hi, hbi, fun j hj hbj => ?_⟩
      rcases List.mem_cons.1 hj with hja | hj
      · exact absurd rfl (hd3 b (hja ▸ hbj) b hb2)
      · exact hu j hj hbj

end Lmd.NodeViewL
