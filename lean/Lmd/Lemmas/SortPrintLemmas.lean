/-
  Lmd.Lemmas.SortPrintLemmas — string facts for the round trip of one `Sort:` header field (C17):
  case mapping is idempotent and never produces a blank, `cutL`/`cut`/`splitN` on blank-separated
  pieces, and a characterisation of `parseSort` by the shape of `splitN ' ' 3`.
-/
import Lmd.Parse

namespace Lmd.SortPrint
open Lmd

/-! ## characters -/

theorem toNat_ofNat_small (k : Nat) (h : k < 0xD800) : (Char.ofNat k).toNat = k := by
  have hv : k.isValidChar := Or.inl h
  simp [Char.ofNat, hv, Char.ofNatAux, Char.toNat]

theorem blank_toNat : (' ' : Char).toNat = 32 := rfl

theorem toNat_ne_of_ne {c d : Char} (h : c ≠ d) : c.toNat ≠ d.toNat := by
  intro e
  apply h
  rw [← Char.ofNat_toNat c, ← Char.ofNat_toNat d, e]

/-- `unicode.ToLower` applied twice is the same as applied once (on the declared alphabet) -/
theorem lowerChar_idem (c : Char) : lowerChar (lowerChar c) = lowerChar c := by
  unfold lowerChar
  simp only []
  split
  · rename_i h
    have e : (Char.ofNat (c.toNat + 32)).toNat = c.toNat + 32 := toNat_ofNat_small _ (by omega)
    rw [e, if_neg (by omega), if_neg (by omega)]
  · split
    · rename_i h1 h2
      have e : (Char.ofNat (c.toNat + 32)).toNat = c.toNat + 32 := toNat_ofNat_small _ (by omega)
      rw [e, if_neg (by omega), if_neg (by omega)]
    · rfl

/-- `unicode.ToUpper` applied twice is the same as applied once (on the declared alphabet) -/
theorem upperChar_idem (c : Char) : upperChar (upperChar c) = upperChar c := by
  unfold upperChar
  simp only []
  split
  · rename_i h
    have e : (Char.ofNat (c.toNat - 32)).toNat = c.toNat - 32 := toNat_ofNat_small _ (by omega)
    rw [e, if_neg (by omega), if_neg (by omega)]
  · split
    · rename_i h1 h2
      have e : (Char.ofNat (c.toNat - 32)).toNat = c.toNat - 32 := toNat_ofNat_small _ (by omega)
      rw [e, if_neg (by omega), if_neg (by omega)]
    · rfl

/-- lower-casing a character that is not a blank does not give a blank -/
theorem lowerChar_ne_blank {c : Char} (h : c ≠ ' ') : lowerChar c ≠ ' ' := by
  unfold lowerChar
  simp only []
  split
  · rename_i h1
    intro e
    have e2 := congrArg Char.toNat e
    rw [toNat_ofNat_small _ (by omega), blank_toNat] at e2
    omega
  · split
    · rename_i h1 h2
      intro e
      have e2 := congrArg Char.toNat e
      rw [toNat_ofNat_small _ (by omega), blank_toNat] at e2
      omega
    · exact h

/-- upper-casing a character that is not a blank does not give a blank -/
theorem upperChar_ne_blank {c : Char} (h : c ≠ ' ') : upperChar c ≠ ' ' := by
  unfold upperChar
  simp only []
  split
  · rename_i h1
    intro e
    have e2 := congrArg Char.toNat e
    rw [toNat_ofNat_small _ (by omega), blank_toNat] at e2
    omega
  · split
    · rename_i h1 h2
      intro e
      have e2 := congrArg Char.toNat e
      rw [toNat_ofNat_small _ (by omega), blank_toNat] at e2
      omega
    · exact h

/-! ## strings: case mapping -/

theorem goLower_toList (s : String) : (goLower s).toList = s.toList.map lowerChar := by
  simp [goLower]

theorem goUpper_toList (s : String) : (goUpper s).toList = s.toList.map upperChar := by
  simp [goUpper]

/-- `strings.ToLower` twice is `strings.ToLower` once -/
theorem goLower_idem (s : String) : goLower (goLower s) = goLower s := by
  apply String.toList_inj.mp
  simp [goLower_toList, lowerChar_idem]

/-- `strings.ToUpper` twice is `strings.ToUpper` once -/
theorem goUpper_idem (s : String) : goUpper (goUpper s) = goUpper s := by
  apply String.toList_inj.mp
  simp [goUpper_toList, upperChar_idem]

theorem map_noBlank {f : Char → Char} (hf : ∀ c, c ≠ ' ' → f c ≠ ' ') {l : List Char}
    (h : ' ' ∉ l) : ' ' ∉ l.map f := by
  intro hm
  obtain ⟨c, hc, e⟩ := List.mem_map.mp hm
  have : c ≠ ' ' := fun e' => h (e' ▸ hc)
  exact hf c this e

/-- a word without a blank has no blank after lower-casing -/
theorem goLower_noBlank {s : String} (h : ' ' ∉ s.toList) : ' ' ∉ (goLower s).toList := by
  rw [goLower_toList]
  exact map_noBlank (fun _ => lowerChar_ne_blank) h

/-- a word without a blank has no blank after upper-casing -/
theorem goUpper_noBlank {s : String} (h : ' ' ∉ s.toList) : ' ' ∉ (goUpper s).toList := by
  rw [goUpper_toList]
  exact map_noBlank (fun _ => upperChar_ne_blank) h

theorem goUpper_eq_empty {s : String} (h : goUpper s = "") : s = "" := by
  have := congrArg String.toList h
  rw [goUpper_toList] at this
  apply String.toList_inj.mp
  simpa using this

/-! ## cutting at the first separator -/

theorem cutL_noSep {sep : Char} {x : List Char} (h : sep ∉ x) : cutL sep x = (x, none) := by
  induction x with
  | nil => rfl
  | cons c cs ih =>
    have hc : c ≠ sep := fun e => h (by simp [e])
    have hcs : sep ∉ cs := fun m => h (List.mem_cons_of_mem _ m)
    simp [cutL, hc, ih hcs]

theorem cutL_append {sep : Char} {x : List Char} (y : List Char) (h : sep ∉ x) :
    cutL sep (x ++ sep :: y) = (x, some y) := by
  induction x with
  | nil => simp [cutL]
  | cons c cs ih =>
    have hc : c ≠ sep := fun e => h (by simp [e])
    have hcs : sep ∉ cs := fun m => h (List.mem_cons_of_mem _ m)
    simp [cutL, hc, ih hcs]

/-- what `cutL` returns: either the separator does not occur and the input comes back, or the
    input is `before ++ sep :: after` with no separator in `before` -/
theorem cutL_spec (sep : Char) (l : List Char) :
    (sep ∉ l ∧ cutL sep l = (l, none)) ∨
    (∃ a b, l = a ++ sep :: b ∧ sep ∉ a ∧ cutL sep l = (a, some b)) := by
  induction l with
  | nil => left; exact ⟨by simp, rfl⟩
  | cons c cs ih =>
    by_cases hc : c = sep
    · right
      refine ⟨[], cs, by simp [hc], by simp, by simp [cutL, hc]⟩
    · rcases ih with ⟨hn, he⟩ | ⟨a, b, hl, hn, he⟩
      · left
        refine ⟨?_, by simp [cutL, hc, he]⟩
        intro m
        rcases List.mem_cons.mp m with e | m
        · exact hc e.symm
        · exact hn m
      · right
        refine ⟨c :: a, b, by simp [hl], ?_, by simp [cutL, hc, he]⟩
        intro m
        rcases List.mem_cons.mp m with e | m
        · exact hc e.symm
        · exact hn m

theorem cut_eq (sep : Char) (s : String) :
    cut sep s = (String.ofList (cutL sep s.toList).1, (cutL sep s.toList).2.map String.ofList) := rfl

/-- `cut` on a word without the separator -/
theorem cut_noSep {sep : Char} {s : String} (h : sep ∉ s.toList) : cut sep s = (s, none) := by
  rw [cut_eq, cutL_noSep h]
  simp

/-- `cut` on `x ++ sep ++ y` where `x` has no separator -/
theorem cut_append {sep : Char} {x : String} (y : String) (h : sep ∉ x.toList) :
    cut sep (x ++ String.ofList [sep] ++ y) = (x, some y) := by
  rw [cut_eq]
  have : (x ++ String.ofList [sep] ++ y).toList = x.toList ++ sep :: y.toList := by
    simp [String.toList_append]
  rw [this, cutL_append _ h]
  simp

/-- what `cut` returns -/
theorem cut_spec (sep : Char) (s : String) :
    (sep ∉ s.toList ∧ cut sep s = (s, none)) ∨
    (∃ a b : String, s = a ++ String.ofList [sep] ++ b ∧ sep ∉ a.toList ∧ cut sep s = (a, some b)) := by
  rcases cutL_spec sep s.toList with ⟨hn, _⟩ | ⟨a, b, hl, hn, he⟩
  · left; exact ⟨hn, cut_noSep hn⟩
  · right
    refine ⟨String.ofList a, String.ofList b, ?_, by simpa using hn, ?_⟩
    · apply String.toList_inj.mp
      simp [String.toList_append, hl]
    · simp [cut_eq, he]

/-! ## `splitN ' ' 3` -/

theorem blank_str : (" " : String) = String.ofList [' '] := rfl

theorem splitN3_eq (s : String) :
    splitN ' ' 3 s =
      match cut ' ' s with
      | (a, none) => [a]
      | (a, some b) =>
        match cut ' ' b with
        | (b1, none) => [a, b1]
        | (b1, some c) => [a, b1, c] := by
  have e3 : ∀ t, splitN ' ' 3 t = match cut ' ' t with
    | (a, none) => [a]
    | (a, some b) => a :: splitN ' ' 2 b := fun t => by rw [splitN] <;> first | rfl | (intro h; cases h)
  have e2 : ∀ t, splitN ' ' 2 t = match cut ' ' t with
    | (a, none) => [a]
    | (a, some b) => a :: splitN ' ' 1 b := fun t => by rw [splitN] <;> first | rfl | (intro h; cases h)
  rw [e3]
  rcases cut ' ' s with ⟨a, _ | b⟩
  · rfl
  · simp only []
    rw [e2]
    rcases cut ' ' b with ⟨b1, _ | c⟩
    · rfl
    · simp [splitN]

/-- one word: no blank, `splitN` returns it alone -/
theorem splitN3_one {x : String} (h : ' ' ∉ x.toList) : splitN ' ' 3 x = [x] := by
  rw [splitN3_eq, cut_noSep h]

/-- two words -/
theorem splitN3_two {x y : String} (hx : ' ' ∉ x.toList) (hy : ' ' ∉ y.toList) :
    splitN ' ' 3 (x ++ " " ++ y) = [x, y] := by
  rw [splitN3_eq, blank_str, cut_append y hx]
  simp only []
  rw [cut_noSep hy]

/-- three pieces: the first two without a blank, the third is the rest -/
theorem splitN3_three {x y : String} (z : String) (hx : ' ' ∉ x.toList) (hy : ' ' ∉ y.toList) :
    splitN ' ' 3 (x ++ " " ++ (y ++ " " ++ z)) = [x, y, z] := by
  rw [splitN3_eq, blank_str, cut_append _ hx]
  simp only []
  rw [cut_append z hy]

/-- the three shapes `splitN ' ' 3` can return, with what they say about the pieces -/
theorem splitN3_spec (v : String) :
    (' ' ∉ v.toList ∧ splitN ' ' 3 v = [v]) ∨
    (∃ a b : String, ' ' ∉ a.toList ∧ ' ' ∉ b.toList ∧ splitN ' ' 3 v = [a, b]) ∨
    (∃ a b c : String, ' ' ∉ a.toList ∧ ' ' ∉ b.toList ∧ splitN ' ' 3 v = [a, b, c]) := by
  rcases cut_spec ' ' v with ⟨hn, _⟩ | ⟨a, r, hv, ha, _⟩
  · left; exact ⟨hn, splitN3_one hn⟩
  · right
    rcases cut_spec ' ' r with ⟨hr, _⟩ | ⟨b, c, hr, hb, _⟩
    · left
      refine ⟨a, r, ha, hr, ?_⟩
      rw [hv, ← blank_str]; exact splitN3_two ha hr
    · right
      refine ⟨a, b, c, ha, hb, ?_⟩
      rw [hv, hr, ← blank_str]; exact splitN3_three c ha hb

/-! ## `parseSort` by shape -/

/-- the direction word of a `Sort:` header: empty or `asc` is ascending, `desc` is descending -/
def dirOf (d : String) : PM Bool :=
  if d == "" then pure false
  else if equalFold d "asc" then pure false
  else if equalFold d "desc" then pure true
  else throw (ParseErr.bad "unrecognized sort direction")

theorem dirOf_asc : dirOf "asc" = .ok false := by
  have h : equalFold "asc" "asc" = true := by decide
  simp [dirOf, h, pure, Except.pure]

theorem dirOf_desc : dirOf "desc" = .ok true := by
  have h1 : equalFold "desc" "asc" = false := by decide
  have h2 : equalFold "desc" "desc" = true := by decide
  simp [dirOf, h1, h2, pure, Except.pure]

theorem dirOf_empty : dirOf "" = .ok false := by
  simp [dirOf, pure, Except.pure]

theorem dirOf_print (d : Bool) : dirOf (if d then "desc" else "asc") = .ok d := by
  cases d
  · exact dirOf_asc
  · exact dirOf_desc

theorem parseSort_one {v a : String} (hv : v ≠ "") (h : splitN ' ' 3 v = [a]) :
    parseSort v = .ok { name := goLower a, desc := false, args := "" } := by
  unfold parseSort
  simp [hv, h, bind, Except.bind, pure, Except.pure]

theorem parseSort_two {v a b : String} (hv : v ≠ "") (h : splitN ' ' 3 v = [a, b]) :
    parseSort v = (dirOf b).map fun d => { name := goLower a, desc := d, args := "" } := by
  unfold parseSort dirOf
  simp only [hv, h, bind, Except.bind, pure, Except.pure, beq_iff_eq, if_false, throw, throwThe,
    MonadExceptOf.throw]
  by_cases hb : b = "" <;> by_cases h1 : equalFold b "asc" = true <;>
    by_cases h2 : equalFold b "desc" = true <;> simp [hb, h1, h2, Except.map]

theorem parseSort_three {v a b c : String} (hv : v ≠ "") (h : splitN ' ' 3 v = [a, b, c]) :
    parseSort v =
      if a = "custom_variables" ∨ a = "host_custom_variables" then
        (dirOf c).map fun d => { name := goLower a, desc := d, args := goUpper b }
      else .error (ParseErr.bad "invalid sort header") := by
  unfold parseSort dirOf
  simp only [hv, h, bind, Except.bind, pure, Except.pure, beq_iff_eq, if_false, throw, throwThe,
    MonadExceptOf.throw]
  by_cases h1 : a = "custom_variables"
  · simp only [h1, bne_self_eq_false, Bool.false_and, true_or, if_true, Bool.false_eq_true, if_false]
    by_cases hb : c = "" <;> by_cases h3 : equalFold c "asc" = true <;>
      by_cases h4 : equalFold c "desc" = true <;> simp [hb, h3, h4, Except.map]
  · by_cases h2 : a = "host_custom_variables"
    · simp only [h2, bne_self_eq_false, Bool.and_false, or_true, if_true, Bool.false_eq_true, if_false]
      by_cases hb : c = "" <;> by_cases h3 : equalFold c "asc" = true <;>
      by_cases h4 : equalFold c "desc" = true <;> simp [hb, h3, h4, Except.map]
    · simp [h1, h2]

theorem parseSort_empty : parseSort "" = .error (ParseErr.bad "invalid sort header") := by
  unfold parseSort
  simp [bind, Except.bind, throw, throwThe, MonadExceptOf.throw]

theorem map_ok {α β} {x : PM α} {f : α → β} {y : β} (h : x.map f = .ok y) :
    ∃ d, x = .ok d ∧ y = f d := by
  cases x with
  | error e => simp [Except.map] at h
  | ok d => exact ⟨d, rfl, by simpa [Except.map] using h.symm⟩

/-! ## parsing printed fields -/

theorem dirWord_noBlank (d : Bool) : ' ' ∉ (if d then "desc" else "asc" : String).toList := by
  cases d <;> decide

theorem append_blank_ne_empty (x y : String) : x ++ " " ++ y ≠ "" := by
  intro e
  have := congrArg String.toList e
  simp [String.toList_append] at this

/-- `<name> asc|desc` with a lower-case name without blank parses to that name and direction -/
theorem parseSort_plain {n : String} (hn : ' ' ∉ n.toList) (hl : goLower n = n) (d : Bool) :
    parseSort (n ++ " " ++ (if d then "desc" else "asc")) = .ok { name := n, desc := d, args := "" } := by
  rw [parseSort_two (append_blank_ne_empty _ _) (splitN3_two hn (dirWord_noBlank d)), dirOf_print, hl]
  rfl

theorem custom_name_lower {n : String} (hn : n = "custom_variables" ∨ n = "host_custom_variables") :
    goLower n = n := by
  rcases hn with h | h <;> subst h <;> decide

theorem custom_name_noBlank {n : String} (hn : n = "custom_variables" ∨ n = "host_custom_variables") :
    ' ' ∉ n.toList := by
  rcases hn with h | h <;> subst h <;> decide

/-- `custom_variables <VAR> asc|desc` with an upper-case variable name without blank parses to
    that name, variable and direction -/
theorem parseSort_custom {n u : String} (hn : n = "custom_variables" ∨ n = "host_custom_variables")
    (hu : ' ' ∉ u.toList) (hup : goUpper u = u) (d : Bool) :
    parseSort (n ++ " " ++ u ++ " " ++ (if d then "desc" else "asc")) =
      .ok { name := n, desc := d, args := u } := by
  have e : n ++ " " ++ u ++ " " ++ (if d then "desc" else "asc")
      = n ++ " " ++ (u ++ " " ++ (if d then "desc" else "asc")) := by
    simp only [String.append_assoc]
  rw [e, parseSort_three (append_blank_ne_empty _ _) (splitN3_three _ (custom_name_noBlank hn) hu),
    if_pos hn, dirOf_print, hup, custom_name_lower hn]
  rfl

end Lmd.SortPrint
