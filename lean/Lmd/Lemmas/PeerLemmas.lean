/-
  Lmd.Lemmas.PeerLemmas — helper lemmas about the peer state machine (`Lmd.Peer`, `Lmd.PeerLoop`)
  for C13, C11 and C03.

  Layout:
  * `Steps` — the closure of a peer state under the things one request to the backend can do to it
    (record a failure, reset the flags); every `query` is a `Steps`.
  * `Steps2` — additionally: mark broken, `resetErrors` on a peer that holds data, bookkeeping fields;
    every table refresh (`updateFullTable`, `deltaTable`, `updateDelta`, …) is a `Steps2`.
  * `Inv` — `Up → data ∧ no error`, preserved by all of it and by `initAllTables`, `tick`, `clientQuery`.
-/
import Lmd.PeerLoop

namespace Lmd.PeerL
open Lmd

/-! ## `PeerSt.fail` and `PeerSt.recovered` field by field -/

/-- the source index after a failure -/
def nextIdx (p : PeerSt) : Nat := if p.addrIdx + 1 ≥ p.sources.length then 0 else p.addrIdx + 1

/-- the status `setNextAddrFromErr` computes before the stale rule -/
def degraded (p : PeerSt) : PeerState :=
  match p.status with
  | .up | .pending | .syncing => if p.cache.isSome then PeerState.warning else p.status
  | s => s

/-- the stale rule of `setNextAddrFromErr` -/
def staleNow (w : World) (p : PeerSt) (now : Int) : Bool :=
  p.lastOnline < now - w.cfg.staleTimeout || (p.errorCount + 1 > p.sources.length && p.lastOnline ≤ 0)

theorem fail_eq (w : World) (p : PeerSt) (now : Int) (msg : String) :
    p.fail w now msg =
      if staleNow w p now then
        { p with errorCount := p.errorCount + 1, addrIdx := nextIdx p, addr := p.sources.getD (nextIdx p) .self,
                 lastError := msg, status := .down, cache := none }
      else
        { p with errorCount := p.errorCount + 1, addrIdx := nextIdx p, addr := p.sources.getD (nextIdx p) .self,
                 lastError := msg, status := degraded p } := by
  unfold PeerSt.fail staleNow nextIdx degraded
  simp only []
  split <;> rfl

theorem fail_status (w : World) (p : PeerSt) (now : Int) (msg : String) :
    (p.fail w now msg).status = if staleNow w p now then .down else degraded p := by
  rw [fail_eq]; split <;> rfl

theorem fail_cache (w : World) (p : PeerSt) (now : Int) (msg : String) :
    (p.fail w now msg).cache = if staleNow w p now then none else p.cache := by
  rw [fail_eq]; split <;> rfl

theorem fail_lastError (w : World) (p : PeerSt) (now : Int) (msg : String) :
    (p.fail w now msg).lastError = msg := by
  rw [fail_eq]; split <;> rfl

theorem fail_addrIdx (w : World) (p : PeerSt) (now : Int) (msg : String) :
    (p.fail w now msg).addrIdx = nextIdx p := by
  rw [fail_eq]; split <;> rfl

theorem fail_addr (w : World) (p : PeerSt) (now : Int) (msg : String) :
    (p.fail w now msg).addr = p.sources.getD (nextIdx p) .self := by
  rw [fail_eq]; split <;> rfl

theorem fail_errorCount (w : World) (p : PeerSt) (now : Int) (msg : String) :
    (p.fail w now msg).errorCount = p.errorCount + 1 := by
  rw [fail_eq]; split <;> rfl

/-- the fields a failure never touches -/
def rest (p : PeerSt) :=
  (p.sources, p.lastOnline, p.lastUpdate, p.lastFullUpdate, p.lastFullHostUpdate, p.lastFullServiceUpdate,
   p.lastQuery, p.idling, p.lastTpMinute, p.programStart, p.corePid, p.forceFull, p.flags, p.cfgFlags)

theorem fail_rest (w : World) (p : PeerSt) (now : Int) (msg : String) : rest (p.fail w now msg) = rest p := by
  rw [fail_eq]; split <;> rfl

theorem degraded_up {p : PeerSt} (h : degraded p = .up) : p.status = .up ∧ p.cache = none := by
  unfold degraded at h
  cases hs : p.status <;> rw [hs] at h <;> simp at h
  all_goals (cases hc : p.cache <;> simp [hc] at h ⊢)

theorem fail_up {w : World} {p : PeerSt} {now : Int} {msg : String} (h : (p.fail w now msg).status = .up) :
    p.status = .up ∧ p.cache = none := by
  rw [fail_status] at h
  split at h
  · cases h
  · exact degraded_up h

/-! ## what one request does to the peer -/

/-- the peer states reachable through failures and flag resets -/
inductive Steps (w : World) (now : Int) : PeerSt → PeerSt → Prop
  | refl (p : PeerSt) : Steps w now p p
  | fail {p q : PeerSt} (msg : String) : Steps w now p q → Steps w now p (q.fail w now msg)
  | resetFlags {p q : PeerSt} : Steps w now p q → Steps w now p { q with flags := q.cfgFlags }

theorem Steps.trans {w : World} {now : Int} {p q r : PeerSt} (h1 : Steps w now p q) (h2 : Steps w now q r) :
    Steps w now p r := by
  induction h2 with
  | refl => exact h1
  | fail msg _ ih => exact .fail msg ih
  | resetFlags _ ih => exact .resetFlags ih

theorem connect_steps (w : World) (now : Int) (b : BackendSt) :
    ∀ (k : Nat) (retried : Bool) (p : PeerSt), Steps w now p (query.connect w now b k retried p).1
  | 0, _, p => by unfold query.connect; exact .refl p
  | k + 1, retried, p => by
    unfold query.connect
    split
    · split
      · exact .resetFlags (.refl p)
      · exact .refl p
    · exact Steps.trans (.fail _ (.refl p)) (connect_steps w now b k true _)

theorem query_eq (w : World) (now : Int) (p : PeerSt) (b : BackendSt) (handled : Bool) :
    query w now p b handled =
      let cp := query.connect w now b p.sources.length false p
      if cp.2 = false then
        (if handled then cp.1.fail w now "connection failed" else cp.1, b, some .conn)
      else if b.hit.2 then (cp.1, b.hit.1, none)
      else (if handled then cp.1.fail w now "bad response" else cp.1, b.hit.1, some .resp) := by
  unfold query
  simp only []
  cases (query.connect w now b p.sources.length false p).2 <;> simp

/-- every request is a sequence of recorded failures and flag resets -/
theorem query_steps (w : World) (now : Int) (p : PeerSt) (b : BackendSt) (handled : Bool) :
    Steps w now p (query w now p b handled).1 := by
  have hc := connect_steps w now b p.sources.length false p
  rw [query_eq]
  simp only []
  split
  · split
    · exact .fail _ hc
    · exact hc
  · split
    · exact hc
    · split
      · exact .fail _ hc
      · exact hc

/-- a handled request that fails ends with a recorded failure -/
theorem query_failed (w : World) (now : Int) (p : PeerSt) (b : BackendSt)
    (h : (query w now p b true).2.2 ≠ none) :
    ∃ q msg, Steps w now p q ∧ (query w now p b true).1 = q.fail w now msg ∧
      (msg = "connection failed" ∨ msg = "bad response") := by
  have hc := connect_steps w now b p.sources.length false p
  rw [query_eq] at h ⊢
  simp only [] at h ⊢
  split
  · exact ⟨_, _, hc, by simp, .inl rfl⟩
  · rename_i h1
    split
    · rename_i h2; simp [h1, h2] at h
    · exact ⟨_, _, hc, by simp, .inr rfl⟩

theorem hit_tables (b : BackendSt) : b.hit.1.tables = b.tables ∧ b.hit.1.cols = b.cols := by
  unfold BackendSt.hit
  simp only []
  split <;> simp

/-- a request never changes the backend's object set -/
theorem query_tables (w : World) (now : Int) (p : PeerSt) (b : BackendSt) (handled : Bool) :
    (query w now p b handled).2.1.tables = b.tables ∧ (query w now p b handled).2.1.cols = b.cols := by
  rw [query_eq]
  simp only []
  split
  · exact ⟨rfl, rfl⟩
  · split <;> exact hit_tables b

theorem rows_of_tables {b b' : BackendSt} (h : b'.tables = b.tables) (t : String) : b'.rows t = b.rows t := by
  unfold BackendSt.rows; rw [h]

theorem query_rows (w : World) (now : Int) (p : PeerSt) (b : BackendSt) (handled : Bool) (t : String) :
    (query w now p b handled).2.1.rows t = b.rows t :=
  rows_of_tables (query_tables w now p b handled).1 t

/-- without a contact the backend is untouched: a request that is answered was counted by the backend -/
theorem query_ok_hits (w : World) (now : Int) (p : PeerSt) (b : BackendSt) (handled : Bool)
    (h : (query w now p b handled).2.2 = none) : (query w now p b handled).2.1.hits = b.hits + 1 := by
  rw [query_eq] at h ⊢
  simp only [] at h ⊢
  split
  · rename_i h1; simp [h1] at h
  · split
    · unfold BackendSt.hit; simp only []; split <;> rfl
    · rename_i h1 h2; simp [h1, h2] at h

/-! ### what `Steps` preserves -/

/-- the fields neither a failure nor a flag reset touches -/
def rest1 (p : PeerSt) :=
  (p.sources, p.lastOnline, p.lastUpdate, p.lastFullUpdate, p.lastFullHostUpdate, p.lastFullServiceUpdate,
   p.lastQuery, p.idling, p.lastTpMinute, p.programStart, p.corePid, p.forceFull, p.cfgFlags)

theorem rest1_of_rest {p q : PeerSt} (h : rest p = rest q) : rest1 p = rest1 q := by
  simp only [rest, rest1, Prod.mk.injEq] at h ⊢
  obtain ⟨a, b, c, d, e, f, g, h1, i, j, k, l, _, n⟩ := h
  exact ⟨a, b, c, d, e, f, g, h1, i, j, k, l, n⟩

theorem Steps.rest1 {w : World} {now : Int} {p q : PeerSt} (h : Steps w now p q) : rest1 q = rest1 p := by
  induction h with
  | refl => rfl
  | fail msg _ ih => rw [← ih]; exact rest1_of_rest (fail_rest ..)
  | resetFlags _ ih => rw [← ih]; rfl

/-- the published data set after some failures is the old one, or none -/
theorem Steps.cache {w : World} {now : Int} {p q : PeerSt} (h : Steps w now p q) :
    q.cache = p.cache ∨ q.cache = none := by
  induction h with
  | refl => exact .inl rfl
  | fail msg _ ih =>
    rw [fail_cache]
    split
    · exact .inr rfl
    · exact ih
  | resetFlags _ ih => exact ih

/-- failures never make a peer `Up`; if it still is, it was before and it held no data or nothing happened to
    its data and error -/
theorem Steps.up {w : World} {now : Int} {p q : PeerSt} (h : Steps w now p q) (hu : q.status = .up) :
    p.status = .up ∧ (p.cache = none ∨ (q.cache = p.cache ∧ q.lastError = p.lastError)) := by
  induction h with
  | refl => exact ⟨hu, .inr ⟨rfl, rfl⟩⟩
  | @fail q msg h ih =>
    obtain ⟨h1, h2⟩ := fail_up hu
    obtain ⟨h3, h4⟩ := ih h1
    refine ⟨h3, .inl ?_⟩
    rcases h4 with h4 | ⟨h4, _⟩
    · exact h4
    · rw [← h4]; exact h2
  | resetFlags _ ih => exact ih hu

/-- a failure recorded after any number of earlier ones leaves `Up` only on a peer that was `Up` without data -/
theorem Steps.fail_up {w : World} {now : Int} {p q : PeerSt} {msg : String} (h : Steps w now p q)
    (hu : (q.fail w now msg).status = .up) : p.status = .up ∧ p.cache = none := by
  obtain ⟨h1, h2⟩ := PeerL.fail_up hu
  obtain ⟨h3, h4⟩ := h.up h1
  refine ⟨h3, ?_⟩
  rcases h4 with h4 | ⟨h4, _⟩
  · exact h4
  · rw [← h4]; exact h2

/-! ## the invariant -/

/-- a peer that is reported `Up` holds a data set and carries no error -/
def Inv (p : PeerSt) : Prop := p.status = .up → p.cache.isSome ∧ p.lastError = ""

theorem inv_of_not_up {p : PeerSt} (h : p.status ≠ .up) : Inv p := fun hu => absurd hu h

/-- equality of the three fields the invariant reads -/
theorem inv_congr {p q : PeerSt} (h1 : q.status = p.status) (h2 : q.cache = p.cache) (h3 : q.lastError = p.lastError)
    (h : Inv p) : Inv q := by
  unfold Inv at *; rw [h1, h2, h3]; exact h

theorem inv_fail {w : World} {p : PeerSt} {now : Int} {msg : String} (h : Inv p) : Inv (p.fail w now msg) := by
  intro hu
  obtain ⟨h1, h2⟩ := fail_up hu
  have := (h h1).1
  rw [h2] at this; cases this

theorem fail_not_up {w : World} {p : PeerSt} {now : Int} {msg : String} (h : Inv p) : (p.fail w now msg).status ≠ .up := by
  intro hu
  obtain ⟨h1, h2⟩ := fail_up hu
  have := (h h1).1
  rw [h2] at this; cases this

theorem inv_recovered {p : PeerSt} {now : Int} (h : p.cache.isSome) : Inv (p.recovered now) :=
  fun _ => ⟨h, rfl⟩

theorem Steps.inv {w : World} {now : Int} {p q : PeerSt} (h : Steps w now p q) (hp : Inv p) : Inv q := by
  induction h with
  | refl => exact hp
  | fail msg _ ih => exact inv_fail ih
  | resetFlags _ ih => exact ih

theorem query_inv {w : World} {now : Int} {p : PeerSt} {b : BackendSt} {handled : Bool} (h : Inv p) :
    Inv (query w now p b handled).1 := (query_steps w now p b handled).inv h

/-! ## what a table refresh does to the peer -/

/-- the fields that decide availability and idling -/
def core (p : PeerSt) :=
  (p.sources, p.addrIdx, p.addr, p.status, p.cache, p.lastError, p.lastOnline, p.lastQuery, p.idling,
   p.errorCount, p.cfgFlags)

/-- the peer states reachable through failures, bookkeeping (update stamps, flags, the remembered core
    start and pid), the broken mark, and `resetErrors` on a peer that holds data -/
inductive Steps2 (w : World) (now : Int) : PeerSt → PeerSt → Prop
  | refl (p : PeerSt) : Steps2 w now p p
  | fail {p q : PeerSt} (msg : String) : Steps2 w now p q → Steps2 w now p (q.fail w now msg)
  | book {p q q' : PeerSt} : Steps2 w now p q → core q' = core q → Steps2 w now p q'
  | broken {p q : PeerSt} (msg : String) : Steps2 w now p q →
      Steps2 w now p { q with status := .broken, lastError := msg, cache := none }
  | recovered {p q : PeerSt} : Steps2 w now p q → q.cache.isSome → Steps2 w now p (q.recovered now)

theorem Steps2.trans {w : World} {now : Int} {p q r : PeerSt} (h1 : Steps2 w now p q) (h2 : Steps2 w now q r) :
    Steps2 w now p r := by
  induction h2 with
  | refl => exact h1
  | fail msg _ ih => exact .fail msg ih
  | book _ h ih => exact .book ih h
  | broken msg _ ih => exact .broken msg ih
  | recovered _ h ih => exact .recovered ih h

theorem Steps.steps2 {w : World} {now : Int} {p q : PeerSt} (h : Steps w now p q) : Steps2 w now p q := by
  induction h with
  | refl => exact .refl _
  | fail msg _ ih => exact .fail msg ih
  | resetFlags _ ih => exact .book ih rfl

theorem query_steps2 (w : World) (now : Int) (p : PeerSt) (b : BackendSt) (handled : Bool) :
    Steps2 w now p (query w now p b handled).1 := (query_steps w now p b handled).steps2

theorem Steps2.inv {w : World} {now : Int} {p q : PeerSt} (h : Steps2 w now p q) (hp : Inv p) : Inv q := by
  induction h with
  | refl => exact hp
  | fail msg _ ih => exact inv_fail ih
  | book _ h ih =>
    simp only [core, Prod.mk.injEq] at h
    exact inv_congr h.2.2.2.1 h.2.2.2.2.1 h.2.2.2.2.2.1 ih
  | broken msg _ ih => exact inv_of_not_up (by simp)
  | recovered _ h ih => exact inv_recovered h

/-- a table refresh never touches the idle flag, the time of the last client query, or the source list -/
theorem Steps2.frame {w : World} {now : Int} {p q : PeerSt} (h : Steps2 w now p q) :
    q.idling = p.idling ∧ q.lastQuery = p.lastQuery ∧ q.sources = p.sources := by
  induction h with
  | refl => exact ⟨rfl, rfl, rfl⟩
  | @fail q msg _ ih =>
    have := fail_rest w q now msg
    simp only [rest, Prod.mk.injEq] at this
    exact ⟨this.2.2.2.2.2.2.2.1.trans ih.1, this.2.2.2.2.2.2.1.trans ih.2.1, this.1.trans ih.2.2⟩
  | book _ h ih =>
    simp only [core, Prod.mk.injEq] at h
    exact ⟨h.2.2.2.2.2.2.2.2.1.trans ih.1, h.2.2.2.2.2.2.2.1.trans ih.2.1, h.1.trans ih.2.2⟩
  | broken msg _ ih => exact ih
  | recovered _ h ih => exact ih

/-- `withCache` keeps the three fields of the invariant except that data stays data -/
theorem withCache_inv {r : DeltaResult} (h : Inv r.p) : Inv (withCache r) := by
  unfold withCache
  split
  · intro hu; exact ⟨rfl, (h hu).2⟩
  · exact h

theorem withCache_cache_isSome (r : DeltaResult) : (withCache r).cache.isSome = r.p.cache.isSome := by
  unfold withCache
  split
  · rename_i h; simp [h]
  · rfl

theorem withCache_frame (r : DeltaResult) :
    (withCache r).idling = r.p.idling ∧ (withCache r).lastQuery = r.p.lastQuery ∧ (withCache r).status = r.p.status
      ∧ (withCache r).lastError = r.p.lastError ∧ (withCache r).lastUpdate = r.p.lastUpdate
      ∧ (withCache r).lastOnline = r.p.lastOnline := by
  unfold withCache
  split <;> exact ⟨rfl, rfl, rfl, rfl, rfl, rfl⟩

/-- closes the goals a `split` over a refresh function leaves: the peer is the input, or a request's outcome,
    possibly with bookkeeping on top -/
macro "steps2_close" : tactic =>
  `(tactic| first
    | exact Steps2.refl _
    | exact query_steps2 ..
    | exact Steps2.book (query_steps2 ..) rfl
    | exact Steps2.book (Steps2.refl _) rfl
    | exact Steps2.broken _ (query_steps2 ..))

theorem updateFullTable_steps2 (w : World) (now : Int) (p : PeerSt) (b : BackendSt) (c : Cache) (t : String) :
    Steps2 w now p (updateFullTable w now p b c t).p := by
  unfold updateFullTable
  simp only []
  repeat' split
  all_goals steps2_close

theorem updateFullObjects_steps2 (w : World) (now : Int) (p : PeerSt) (b : BackendSt) (c : Cache) (t : String) :
    Steps2 w now p (updateFullObjects w now p b c t).p := by
  unfold updateFullObjects
  simp only []
  repeat' split
  all_goals steps2_close


/-- the time of the last full scan of hosts / services -/
def lastFullOf (p : PeerSt) (tname : String) : Int :=
  if tname == "hosts" then p.lastFullHostUpdate else p.lastFullServiceUpdate

/-- the delta request of `deltaTable` after the scan decided which extra `last_check` values to ask for -/
def plainStep (w : World) (now : Int) (c : Cache) (tname : String) (window : Option (Int × Int)) (flags0 : Nat)
    (p : PeerSt) (b : BackendSt) (extra : List Int) (mark : Bool) : DeltaResult :=
  let tab := (w.schema.table? tname).getD { name := tname, cols := [] }
  let tsCol := tsColumn w flags0
  let executing := tsCol == "last_check" && w.cfg.syncIsExecuting && (flags0 &&& flagBit w.schema "Shinken") == 0
  let q := query w now p b
  match q.2.2 with
  | some _ => { p := q.1, b := q.2.1, cache := c, err := .failed "delta" }
  | none =>
    match applyDelta w q.1.flags tab (c.get tname) (deltaReply (q.2.1.rows tname) tsCol window executing extra) with
    | none => { p := q.1, b := q.2.1, cache := c, err := .failed "unknown object" }
    | some rows =>
      { p := if mark then (if tname == "hosts" then { q.1 with lastFullHostUpdate := now } else { q.1 with lastFullServiceUpdate := now }) else q.1,
        b := q.2.1, cache := c.set tname rows, err := .none }

theorem deltaTable_eq (w : World) (now : Int) (p : PeerSt) (b : BackendSt) (c : Cache) (tname : String)
    (window : Option (Int × Int)) (threshold : Int) :
    deltaTable w now p b c tname window threshold =
      let tab := (w.schema.table? tname).getD { name := tname, cols := [] }
      let byLastCheck := tsColumn w p.flags == "last_check"
      if lastFullOf p tname > now - 60 then
        plainStep w now c tname window p.flags p b [] false
      else
        let q := query w now p b
        match q.2.2 with
        | some _ => { p := q.1, b := q.2.1, cache := c, err := .failed "scan" }
        | none =>
          let scan := (q.2.1.rows tname).map (fun r => (coerceRow tab r, r)) |>.mergeSort (fun a b => keyLe tab a.1 b.1) |>.map (·.2)
          if (c.get tname).length < scan.length then
            { p := { q.1 with status := .broken, lastError := "broken: got more " ++ tname ++ " than expected", cache := none },
              b := q.2.1, cache := c, err := .failed "cache not ready" }
          else
            let cols := scanColumns byLastCheck ((q.1.flags &&& flagBit w.schema "HasLastUpdateColumn") != 0)
            let missing := ((scan.zip (c.get tname)).filter fun (r, old) =>
              replyInt r "last_check" < threshold && scanChanged tab cols old r).map (fun (r, _) => replyInt r "last_check")
            let missing := (missing.mergeSort (· ≤ ·)).eraseDups
            if missing.isEmpty then plainStep w now c tname window p.flags q.1 q.2.1 [] false
            else plainStep w now c tname window p.flags q.1 q.2.1 (if tsFilterLen missing > 150 then missing.take 149 else missing) true := by
  rfl

theorem plainStep_steps2 (w : World) (now : Int) (c : Cache) (tname : String) (window : Option (Int × Int))
    (flags0 : Nat) (p : PeerSt) (b : BackendSt) (extra : List Int) (mark : Bool) :
    Steps2 w now p (plainStep w now c tname window flags0 p b extra mark).p := by
  unfold plainStep
  simp only []
  repeat' split
  all_goals steps2_close

theorem deltaTable_steps2 (w : World) (now : Int) (p : PeerSt) (b : BackendSt) (c : Cache) (t : String)
    (win : Option (Int × Int)) (thr : Int) :
    Steps2 w now p (deltaTable w now p b c t win thr).p := by
  rw [deltaTable_eq]
  simp only []
  split
  · exact plainStep_steps2 ..
  · split
    · exact query_steps2 ..
    · split
      · exact .broken _ (query_steps2 ..)
      · split <;> exact (query_steps2 ..).trans (plainStep_steps2 ..)

theorem entries_steps2 (w : World) (now : Int) :
    ∀ (ts : List String) (p : PeerSt) (b : BackendSt) (c : Cache),
      Steps2 w now p (updateDelta.entries w now ts p b c).p
  | [], p, b, c => by unfold updateDelta.entries; exact .refl p
  | t :: ts, p, b, c => by
    unfold updateDelta.entries
    simp only []
    have q1 := query_steps2 w now p b true
    split
    · exact q1
    · split
      · exact q1.trans (entries_steps2 w now ts _ _ _)
      · have q2 := q1.trans (query_steps2 w now (query w now p b).1 (query w now p b).2.1 true)
        split
        · exact q2
        · split
          · split
            · exact q2.trans (query_steps2 ..)
            · exact (q2.trans (query_steps2 ..)).trans (entries_steps2 w now ts _ _ _)
          · exact q2.trans (entries_steps2 w now ts _ _ _)

/-- the hosts / services step of `updateDelta`: the window `[from - offset, now - offset)`, or everything when
    `from = 0` -/
def winStep (w : World) (now fromT : Int) (p : PeerSt) (b : BackendSt) (c : Cache) (t : String) : DeltaResult :=
  if fromT > 0 then
    deltaTable w now p b c t
      (if fromT > 0 then some (fromT - w.cfg.updateOffset, now - w.cfg.updateOffset) else none) (fromT - w.cfg.updateOffset)
  else deltaTable w now p b c t (some (-(2 ^ 62 : Int), (2 ^ 62 : Int))) (fromT - w.cfg.updateOffset)

theorem updateDelta_eq (w : World) (now : Int) (p : PeerSt) (b : BackendSt) (c : Cache) (fromT : Int) :
    updateDelta w now p b c fromT =
      let r0 := updateFullTable w now p b c "status"
      match r0.err with
      | .none =>
        let r1 := winStep w now fromT r0.p r0.b r0.cache "hosts"
        match r1.err with
        | .none =>
          let r2 := winStep w now fromT r1.p r1.b r1.cache "services"
          match r2.err with
          | .none =>
            let r3 := updateDelta.entries w now ["comments", "downtimes"] r2.p r2.b r2.cache
            match r3.err with
            | .none =>
              if r3.p.cache.isNone then { r3 with err := .failed "peer went offline during the update" }
              else { r3 with p := { (r3.p.recovered now) with lastUpdate := now } }
            | _ => r3
          | _ => r2
        | _ => r1
      | _ => r0 := by
  rfl

theorem winStep_steps2 (w : World) (now fromT : Int) (p : PeerSt) (b : BackendSt) (c : Cache) (t : String) :
    Steps2 w now p (winStep w now fromT p b c t).p := by
  unfold winStep
  split <;> exact deltaTable_steps2 ..

theorem updateDelta_steps2 (w : World) (now : Int) (p : PeerSt) (b : BackendSt) (c : Cache) (fromT : Int) :
    Steps2 w now p (updateDelta w now p b c fromT).p := by
  rw [updateDelta_eq]
  simp only []
  have h0 := updateFullTable_steps2 w now p b c "status"
  generalize updateFullTable w now p b c "status" = r0 at h0 ⊢
  split
  · have h1 := h0.trans (winStep_steps2 w now fromT r0.p r0.b r0.cache "hosts")
    generalize winStep w now fromT r0.p r0.b r0.cache "hosts" = r1 at h1 ⊢
    split
    · have h2 := h1.trans (winStep_steps2 w now fromT r1.p r1.b r1.cache "services")
      generalize winStep w now fromT r1.p r1.b r1.cache "services" = r2 at h2 ⊢
      split
      · have h3 := h2.trans (entries_steps2 w now ["comments", "downtimes"] r2.p r2.b r2.cache)
        generalize updateDelta.entries w now ["comments", "downtimes"] r2.p r2.b r2.cache = r3 at h3 ⊢
        split
        · split
          · exact h3
          · rename_i hc
            refine .book (.recovered h3 ?_) rfl
            cases hx : r3.p.cache <;> simp [hx] at hc ⊢
        · exact h3
      · exact h2
    · exact h1
  · exact h0

/-- a successful delta update ends with `resetErrors` on a peer that holds data -/
theorem updateDelta_ok {w : World} {now : Int} {p : PeerSt} {b : BackendSt} {c : Cache} {fromT : Int}
    (h : (updateDelta w now p b c fromT).err = .none) :
    let r := updateDelta w now p b c fromT
    r.p.status = .up ∧ r.p.lastError = "" ∧ r.p.lastOnline = now ∧ r.p.errorCount = 0 ∧ r.p.lastUpdate = now ∧
      r.p.cache.isSome := by
  rw [updateDelta_eq] at h ⊢
  simp only [] at h ⊢
  generalize updateFullTable w now p b c "status" = r0 at h ⊢
  cases h0 : r0.err <;> simp only [h0] at h ⊢ <;> try (first | cases h | (rw [h0] at h; cases h))
  generalize winStep w now fromT r0.p r0.b r0.cache "hosts" = r1 at h ⊢
  cases h1 : r1.err <;> simp only [h1] at h ⊢ <;> try (first | cases h | (rw [h1] at h; cases h))
  generalize winStep w now fromT r1.p r1.b r1.cache "services" = r2 at h ⊢
  cases h2 : r2.err <;> simp only [h2] at h ⊢ <;> try (first | cases h | (rw [h2] at h; cases h))
  generalize updateDelta.entries w now ["comments", "downtimes"] r2.p r2.b r2.cache = r3 at h ⊢
  cases h3 : r3.err <;> simp only [h3] at h ⊢ <;> try (first | cases h | (rw [h3] at h; cases h))
  split at h
  · cases h
  · rename_i hc
    split
    · rename_i hc'; exact absurd hc' hc
    · refine ⟨rfl, rfl, rfl, rfl, rfl, ?_⟩
      show r3.p.cache.isSome = true
      cases hx : r3.p.cache
      · simp [hx] at hc
      · rfl

end Lmd.PeerL
