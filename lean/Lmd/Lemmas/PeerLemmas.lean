/-
  Lmd.Lemmas.PeerLemmas — helper lemmas about the peer state machine (`Lmd.Peer`, `Lmd.PeerLoop`)
  for C13, C11 and C03.

  Layout:
  * `Steps` — the closure of a peer state under the things one request to the backend can do to it
    (record a failure, reset the flags); every `query` is a `Steps`.
  * `Steps2` — additionally: mark broken, `resetErrors` on a peer that holds data, bookkeeping fields;
    every table refresh (`updateFullTable`, `deltaTable`, `updateDelta`, …) is a `Steps2`.
  * `Inv` — `Up → data ∧ no error`, preserved by all of it and by `initAllTables`, `tick`, `clientQuery`.
-/
import Lmd.PeerLoop

namespace Lmd.PeerL
open Lmd

/-! ## `PeerSt.fail` and `PeerSt.recovered` field by field -/

/-- the source index after a failure -/
def nextIdx (p : PeerSt) : Nat := if p.addrIdx + 1 ≥ p.sources.length then 0 else p.addrIdx + 1

/-- the status `setNextAddrFromErr` computes before the stale rule -/
def degraded (p : PeerSt) : PeerState :=
  match p.status with
  | .up | .pending | .syncing => if p.cache.isSome then PeerState.warning else p.status
  | s => s

/-- the stale rule of `setNextAddrFromErr` -/
def staleNow (w : World) (p : PeerSt) (now : Int) : Bool :=
  p.lastOnline < now - w.cfg.staleTimeout || (p.errorCount + 1 > p.sources.length && p.lastOnline ≤ 0)

theorem fail_eq (w : World) (p : PeerSt) (now : Int) (msg : String) :
    p.fail w now msg =
      if staleNow w p now then
        { p with errorCount := p.errorCount + 1, addrIdx := nextIdx p, addr := p.sources.getD (nextIdx p) .self,
                 lastError := msg, status := .down, cache := none }
      else
        { p with errorCount := p.errorCount + 1, addrIdx := nextIdx p, addr := p.sources.getD (nextIdx p) .self,
                 lastError := msg, status := degraded p } := by
  unfold PeerSt.fail staleNow nextIdx degraded
  simp only []
  split <;> rfl

theorem fail_status (w : World) (p : PeerSt) (now : Int) (msg : String) :
    (p.fail w now msg).status = if staleNow w p now then .down else degraded p := by
  rw [fail_eq]; split <;> rfl

theorem fail_cache (w : World) (p : PeerSt) (now : Int) (msg : String) :
    (p.fail w now msg).cache = if staleNow w p now then none else p.cache := by
  rw [fail_eq]; split <;> rfl

theorem fail_lastError (w : World) (p : PeerSt) (now : Int) (msg : String) :
    (p.fail w now msg).lastError = msg := by
  rw [fail_eq]; split <;> rfl

theorem fail_addrIdx (w : World) (p : PeerSt) (now : Int) (msg : String) :
    (p.fail w now msg).addrIdx = nextIdx p := by
  rw [fail_eq]; split <;> rfl

theorem fail_addr (w : World) (p : PeerSt) (now : Int) (msg : String) :
    (p.fail w now msg).addr = p.sources.getD (nextIdx p) .self := by
  rw [fail_eq]; split <;> rfl

theorem fail_errorCount (w : World) (p : PeerSt) (now : Int) (msg : String) :
    (p.fail w now msg).errorCount = p.errorCount + 1 := by
  rw [fail_eq]; split <;> rfl

/-- the fields a failure never touches -/
def rest (p : PeerSt) :=
  (p.sources, p.lastOnline, p.lastUpdate, p.lastFullUpdate, p.lastFullHostUpdate, p.lastFullServiceUpdate,
   p.lastQuery, p.idling, p.lastTpMinute, p.programStart, p.corePid, p.forceFull, p.flags, p.cfgFlags)

theorem fail_rest (w : World) (p : PeerSt) (now : Int) (msg : String) : rest (p.fail w now msg) = rest p := by
  rw [fail_eq]; split <;> rfl

theorem degraded_up {p : PeerSt} (h : degraded p = .up) : p.status = .up ∧ p.cache = none := by
  unfold degraded at h
  cases hs : p.status <;> rw [hs] at h <;> simp at h
  all_goals (cases hc : p.cache <;> simp [hc] at h ⊢)

theorem fail_up {w : World} {p : PeerSt} {now : Int} {msg : String} (h : (p.fail w now msg).status = .up) :
    p.status = .up ∧ p.cache = none := by
  rw [fail_status] at h
  split at h
  · cases h
  · exact degraded_up h

/-! ## what one request does to the peer -/

/-- the peer states reachable through failures and flag resets -/
inductive Steps (w : World) (now : Int) : PeerSt → PeerSt → Prop
  | refl (p : PeerSt) : Steps w now p p
  | fail {p q : PeerSt} (msg : String) : Steps w now p q → Steps w now p (q.fail w now msg)
  | resetFlags {p q : PeerSt} : Steps w now p q → Steps w now p { q with flags := q.cfgFlags }

theorem Steps.trans {w : World} {now : Int} {p q r : PeerSt} (h1 : Steps w now p q) (h2 : Steps w now q r) :
    Steps w now p r := by
  induction h2 with
  | refl => exact h1
  | fail msg _ ih => exact .fail msg ih
  | resetFlags _ ih => exact .resetFlags ih

theorem connect_steps (w : World) (now : Int) (b : BackendSt) :
    ∀ (k : Nat) (retried : Bool) (p : PeerSt), Steps w now p (query.connect w now b k retried p).1
  | 0, _, p => by unfold query.connect; exact .refl p
  | k + 1, retried, p => by
    unfold query.connect
    split
    · split
      · exact .resetFlags (.refl p)
      · exact .refl p
    · exact Steps.trans (.fail _ (.refl p)) (connect_steps w now b k true _)

theorem query_eq (w : World) (now : Int) (p : PeerSt) (b : BackendSt) (handled : Bool) :
    query w now p b handled =
      let cp := query.connect w now b p.sources.length false p
      if cp.2 = false then
        (if handled then cp.1.fail w now "connection failed" else cp.1, b, some .conn)
      else if b.hit.2 then (cp.1, b.hit.1, none)
      else (if handled then cp.1.fail w now "bad response" else cp.1, b.hit.1, some .resp) := by
  unfold query
  simp only []
  cases (query.connect w now b p.sources.length false p).2 <;> simp

/-- every request is a sequence of recorded failures and flag resets -/
theorem query_steps (w : World) (now : Int) (p : PeerSt) (b : BackendSt) (handled : Bool) :
    Steps w now p (query w now p b handled).1 := by
  have hc := connect_steps w now b p.sources.length false p
  rw [query_eq]
  simp only []
  split
  · split
    · exact .fail _ hc
    · exact hc
  · split
    · exact hc
    · split
      · exact .fail _ hc
      · exact hc

/-- a handled request that fails ends with a recorded failure -/
theorem query_failed (w : World) (now : Int) (p : PeerSt) (b : BackendSt)
    (h : (query w now p b true).2.2 ≠ none) :
    ∃ q msg, Steps w now p q ∧ (query w now p b true).1 = q.fail w now msg ∧
      (msg = "connection failed" ∨ msg = "bad response") := by
  have hc := connect_steps w now b p.sources.length false p
  rw [query_eq] at h ⊢
  simp only [] at h ⊢
  split
  · exact ⟨_, _, hc, by simp, .inl rfl⟩
  · rename_i h1
    split
    · rename_i h2; simp [h1, h2] at h
    · exact ⟨_, _, hc, by simp, .inr rfl⟩

theorem hit_tables (b : BackendSt) : b.hit.1.tables = b.tables ∧ b.hit.1.cols = b.cols := by
  unfold BackendSt.hit
  simp only []
  split <;> simp

/-- a request never changes the backend's object set -/
theorem query_tables (w : World) (now : Int) (p : PeerSt) (b : BackendSt) (handled : Bool) :
    (query w now p b handled).2.1.tables = b.tables ∧ (query w now p b handled).2.1.cols = b.cols := by
  rw [query_eq]
  simp only []
  split
  · exact ⟨rfl, rfl⟩
  · split <;> exact hit_tables b

theorem rows_of_tables {b b' : BackendSt} (h : b'.tables = b.tables) (t : String) : b'.rows t = b.rows t := by
  unfold BackendSt.rows; rw [h]

theorem query_rows (w : World) (now : Int) (p : PeerSt) (b : BackendSt) (handled : Bool) (t : String) :
    (query w now p b handled).2.1.rows t = b.rows t :=
  rows_of_tables (query_tables w now p b handled).1 t

/-- without a contact the backend is untouched: a request that is answered was counted by the backend -/
theorem query_ok_hits (w : World) (now : Int) (p : PeerSt) (b : BackendSt) (handled : Bool)
    (h : (query w now p b handled).2.2 = none) : (query w now p b handled).2.1.hits = b.hits + 1 := by
  rw [query_eq] at h ⊢
  simp only [] at h ⊢
  split
  · rename_i h1; simp [h1] at h
  · split
    · unfold BackendSt.hit; simp only []; split <;> rfl
    · rename_i h1 h2; simp [h1, h2] at h

/-! ### what `Steps` preserves -/

/-- the fields neither a failure nor a flag reset touches -/
def rest1 (p : PeerSt) :=
  (p.sources, p.lastOnline, p.lastUpdate, p.lastFullUpdate, p.lastFullHostUpdate, p.lastFullServiceUpdate,
   p.lastQuery, p.idling, p.lastTpMinute, p.programStart, p.corePid, p.forceFull, p.cfgFlags)

theorem rest1_of_rest {p q : PeerSt} (h : rest p = rest q) : rest1 p = rest1 q := by
  simp only [rest, rest1, Prod.mk.injEq] at h ⊢
  obtain ⟨a, b, c, d, e, f, g, h1, i, j, k, l, _, n⟩ := h
  exact ⟨a, b, c, d, e, f, g, h1, i, j, k, l, n⟩

theorem Steps.rest1 {w : World} {now : Int} {p q : PeerSt} (h : Steps w now p q) : rest1 q = rest1 p := by
  induction h with
  | refl => rfl
  | fail msg _ ih => rw [← ih]; exact rest1_of_rest (fail_rest ..)
  | resetFlags _ ih => rw [← ih]; rfl

/-- the fields that decide availability and idling -/
def core (p : PeerSt) :=
  (p.sources, p.addrIdx, p.addr, p.status, p.cache, p.lastError, p.lastOnline, p.lastQuery, p.idling,
   p.errorCount, p.cfgFlags)

/-- the peer states reachable through failures and bookkeeping (update stamps, flags, the remembered core
    start and pid): what the requests of a rebuild do to the peer before the new set is published -/
inductive StepsB (w : World) (now : Int) : PeerSt → PeerSt → Prop
  | refl (p : PeerSt) : StepsB w now p p
  | fail {p q : PeerSt} (msg : String) : StepsB w now p q → StepsB w now p (q.fail w now msg)
  | book {p q q' : PeerSt} : StepsB w now p q → core q' = core q → StepsB w now p q'

theorem StepsB.trans {w : World} {now : Int} {p q r : PeerSt} (h1 : StepsB w now p q) (h2 : StepsB w now q r) :
    StepsB w now p r := by
  induction h2 with
  | refl => exact h1
  | fail msg _ ih => exact .fail msg ih
  | book _ h ih => exact .book ih h

theorem Steps.toB {w : World} {now : Int} {p q : PeerSt} (h : Steps w now p q) : StepsB w now p q := by
  induction h with
  | refl => exact .refl _
  | fail msg _ ih => exact .fail msg ih
  | resetFlags _ ih => exact .book ih rfl

theorem query_stepsB (w : World) (now : Int) (p : PeerSt) (b : BackendSt) (handled : Bool) :
    StepsB w now p (query w now p b handled).1 := (query_steps w now p b handled).toB

theorem core_fields {p q : PeerSt} (h : core q = core p) :
    q.status = p.status ∧ q.cache = p.cache ∧ q.lastError = p.lastError ∧ q.idling = p.idling ∧
      q.lastQuery = p.lastQuery ∧ q.sources = p.sources ∧ q.lastOnline = p.lastOnline := by
  simp only [core, Prod.mk.injEq] at h
  obtain ⟨a, _, _, d, e, f, g, h1, i, _, _⟩ := h
  exact ⟨d, e, f, i, h1, a, g⟩

/-- the published data set after some failures is the old one, or none -/
theorem StepsB.cache {w : World} {now : Int} {p q : PeerSt} (h : StepsB w now p q) :
    q.cache = p.cache ∨ q.cache = none := by
  induction h with
  | refl => exact .inl rfl
  | fail msg _ ih =>
    rw [fail_cache]
    split
    · exact .inr rfl
    · exact ih
  | book _ h ih => rw [(core_fields h).2.1]; exact ih

/-- failures never make a peer `Up`; if it still is, it was before and it held no data or nothing happened to
    its data and error -/
theorem StepsB.up {w : World} {now : Int} {p q : PeerSt} (h : StepsB w now p q) (hu : q.status = .up) :
    p.status = .up ∧ (p.cache = none ∨ (q.cache = p.cache ∧ q.lastError = p.lastError)) := by
  induction h with
  | refl => exact ⟨hu, .inr ⟨rfl, rfl⟩⟩
  | @fail q msg h ih =>
    obtain ⟨h1, h2⟩ := fail_up hu
    obtain ⟨h3, h4⟩ := ih h1
    refine ⟨h3, .inl ?_⟩
    rcases h4 with h4 | ⟨h4, _⟩
    · exact h4
    · rw [← h4]; exact h2
  | book _ h ih =>
    have hc := core_fields h
    rw [hc.1] at hu
    rw [hc.2.1, hc.2.2.1]
    exact ih hu

/-- a failure recorded after any number of earlier ones leaves `Up` only on a peer that was `Up` without data -/
theorem StepsB.fail_up {w : World} {now : Int} {p q : PeerSt} {msg : String} (h : StepsB w now p q)
    (hu : (q.fail w now msg).status = .up) : p.status = .up ∧ p.cache = none := by
  obtain ⟨h1, h2⟩ := PeerL.fail_up hu
  obtain ⟨h3, h4⟩ := h.up h1
  refine ⟨h3, ?_⟩
  rcases h4 with h4 | ⟨h4, _⟩
  · exact h4
  · rw [← h4]; exact h2

/-! ## the invariant -/

/-- a peer that is reported `Up` holds a data set and carries no error -/
def Inv (p : PeerSt) : Prop := p.status = .up → p.cache.isSome ∧ p.lastError = ""

theorem inv_of_not_up {p : PeerSt} (h : p.status ≠ .up) : Inv p := fun hu => absurd hu h

/-- equality of the three fields the invariant reads -/
theorem inv_congr {p q : PeerSt} (h1 : q.status = p.status) (h2 : q.cache = p.cache) (h3 : q.lastError = p.lastError)
    (h : Inv p) : Inv q := by
  unfold Inv at *; rw [h1, h2, h3]; exact h

theorem inv_fail {w : World} {p : PeerSt} {now : Int} {msg : String} (h : Inv p) : Inv (p.fail w now msg) := by
  intro hu
  obtain ⟨h1, h2⟩ := fail_up hu
  have := (h h1).1
  rw [h2] at this; cases this

theorem fail_not_up {w : World} {p : PeerSt} {now : Int} {msg : String} (h : Inv p) : (p.fail w now msg).status ≠ .up := by
  intro hu
  obtain ⟨h1, h2⟩ := fail_up hu
  have := (h h1).1
  rw [h2] at this; cases this

theorem inv_recovered {p : PeerSt} {now : Int} (h : p.cache.isSome) : Inv (p.recovered now) :=
  fun _ => ⟨h, rfl⟩

theorem Steps.inv {w : World} {now : Int} {p q : PeerSt} (h : Steps w now p q) (hp : Inv p) : Inv q := by
  induction h with
  | refl => exact hp
  | fail msg _ ih => exact inv_fail ih
  | resetFlags _ ih => exact ih

theorem query_inv {w : World} {now : Int} {p : PeerSt} {b : BackendSt} {handled : Bool} (h : Inv p) :
    Inv (query w now p b handled).1 := (query_steps w now p b handled).inv h

/-! ## what a table refresh does to the peer -/

/-- the peer states reachable through failures, bookkeeping (update stamps, flags, the remembered core
    start and pid), the broken mark, and `resetErrors` on a peer that holds data -/
inductive Steps2 (w : World) (now : Int) : PeerSt → PeerSt → Prop
  | refl (p : PeerSt) : Steps2 w now p p
  | fail {p q : PeerSt} (msg : String) : Steps2 w now p q → Steps2 w now p (q.fail w now msg)
  | book {p q q' : PeerSt} : Steps2 w now p q → core q' = core q → Steps2 w now p q'
  | broken {p q : PeerSt} (msg : String) : Steps2 w now p q →
      Steps2 w now p { q with status := .broken, lastError := msg, cache := none }
  | recovered {p q : PeerSt} : Steps2 w now p q → q.cache.isSome → Steps2 w now p (q.recovered now)

theorem Steps2.trans {w : World} {now : Int} {p q r : PeerSt} (h1 : Steps2 w now p q) (h2 : Steps2 w now q r) :
    Steps2 w now p r := by
  induction h2 with
  | refl => exact h1
  | fail msg _ ih => exact .fail msg ih
  | book _ h ih => exact .book ih h
  | broken msg _ ih => exact .broken msg ih
  | recovered _ h ih => exact .recovered ih h

theorem StepsB.steps2 {w : World} {now : Int} {p q : PeerSt} (h : StepsB w now p q) : Steps2 w now p q := by
  induction h with
  | refl => exact .refl _
  | fail msg _ ih => exact .fail msg ih
  | book _ h ih => exact .book ih h

theorem Steps.steps2 {w : World} {now : Int} {p q : PeerSt} (h : Steps w now p q) : Steps2 w now p q :=
  h.toB.steps2

theorem query_steps2 (w : World) (now : Int) (p : PeerSt) (b : BackendSt) (handled : Bool) :
    Steps2 w now p (query w now p b handled).1 := (query_steps w now p b handled).steps2

theorem Steps2.inv {w : World} {now : Int} {p q : PeerSt} (h : Steps2 w now p q) (hp : Inv p) : Inv q := by
  induction h with
  | refl => exact hp
  | fail msg _ ih => exact inv_fail ih
  | book _ h ih =>
    simp only [core, Prod.mk.injEq] at h
    exact inv_congr h.2.2.2.1 h.2.2.2.2.1 h.2.2.2.2.2.1 ih
  | broken msg _ ih => exact inv_of_not_up (by simp)
  | recovered _ h ih => exact inv_recovered h

/-- a table refresh never touches the idle flag, the time of the last client query, or the source list -/
theorem Steps2.frame {w : World} {now : Int} {p q : PeerSt} (h : Steps2 w now p q) :
    q.idling = p.idling ∧ q.lastQuery = p.lastQuery ∧ q.sources = p.sources := by
  induction h with
  | refl => exact ⟨rfl, rfl, rfl⟩
  | @fail q msg _ ih =>
    have := fail_rest w q now msg
    simp only [rest, Prod.mk.injEq] at this
    exact ⟨this.2.2.2.2.2.2.2.1.trans ih.1, this.2.2.2.2.2.2.1.trans ih.2.1, this.1.trans ih.2.2⟩
  | book _ h ih =>
    simp only [core, Prod.mk.injEq] at h
    exact ⟨h.2.2.2.2.2.2.2.2.1.trans ih.1, h.2.2.2.2.2.2.2.1.trans ih.2.1, h.1.trans ih.2.2⟩
  | broken msg _ ih => exact ih
  | recovered _ h ih => exact ih

/-- `withCache` keeps the three fields of the invariant except that data stays data -/
theorem withCache_inv {r : DeltaResult} (h : Inv r.p) : Inv (withCache r) := by
  unfold withCache
  split
  · intro hu; exact ⟨rfl, (h hu).2⟩
  · exact h

theorem withCache_cache_isSome (r : DeltaResult) : (withCache r).cache.isSome = r.p.cache.isSome := by
  unfold withCache
  split
  · rename_i h; simp [h]
  · rfl

theorem withCache_frame (r : DeltaResult) :
    (withCache r).idling = r.p.idling ∧ (withCache r).lastQuery = r.p.lastQuery ∧ (withCache r).status = r.p.status
      ∧ (withCache r).lastError = r.p.lastError ∧ (withCache r).lastUpdate = r.p.lastUpdate
      ∧ (withCache r).lastOnline = r.p.lastOnline := by
  unfold withCache
  split <;> exact ⟨rfl, rfl, rfl, rfl, rfl, rfl⟩

/-- closes the goals a `split` over a refresh function leaves: the peer is the input, or a request's outcome,
    possibly with bookkeeping on top -/
macro "steps2_close" : tactic =>
  `(tactic| first
    | exact Steps2.refl _
    | exact query_steps2 ..
    | exact Steps2.book (query_steps2 ..) rfl
    | exact Steps2.book (Steps2.refl _) rfl
    | exact Steps2.broken _ (query_steps2 ..))

theorem updateFullTable_steps2 (w : World) (now : Int) (p : PeerSt) (b : BackendSt) (c : Cache) (t : String) :
    Steps2 w now p (updateFullTable w now p b c t).p := by
  unfold updateFullTable
  simp only []
  repeat' split
  all_goals steps2_close

theorem updateFullObjects_steps2 (w : World) (now : Int) (p : PeerSt) (b : BackendSt) (c : Cache) (t : String) :
    Steps2 w now p (updateFullObjects w now p b c t).p := by
  unfold updateFullObjects
  simp only []
  repeat' split
  all_goals steps2_close


/-- the time of the last full scan of hosts / services -/
def lastFullOf (p : PeerSt) (tname : String) : Int :=
  if tname == "hosts" then p.lastFullHostUpdate else p.lastFullServiceUpdate

/-- the delta request of `deltaTable` after the scan decided which extra `last_check` values to ask for -/
def plainStep (w : World) (now : Int) (c : Cache) (tname : String) (window : Option (Int × Int)) (flags0 : Nat)
    (p : PeerSt) (b : BackendSt) (extra : List Int) (mark : Bool) : DeltaResult :=
  let tab := (w.schema.table? tname).getD { name := tname, cols := [] }
  let tsCol := tsColumn w flags0
  let executing := tsCol == "last_check" && w.cfg.syncIsExecuting && (flags0 &&& flagBit w.schema "Shinken") == 0
  let q := query w now p b
  match q.2.2 with
  | some _ => { p := q.1, b := q.2.1, cache := c, err := .failed "delta" }
  | none =>
    match applyDelta w q.1.flags tab (c.get tname) (deltaReply (q.2.1.rows tname) tsCol window executing extra) with
    | none => { p := q.1, b := q.2.1, cache := c, err := .failed "unknown object" }
    | some rows =>
      { p := if mark then (if tname == "hosts" then { q.1 with lastFullHostUpdate := now } else { q.1 with lastFullServiceUpdate := now }) else q.1,
        b := q.2.1, cache := c.set tname rows, err := .none }

theorem deltaTable_eq (w : World) (now : Int) (p : PeerSt) (b : BackendSt) (c : Cache) (tname : String)
    (window : Option (Int × Int)) (threshold : Int) :
    deltaTable w now p b c tname window threshold =
      let tab := (w.schema.table? tname).getD { name := tname, cols := [] }
      let byLastCheck := tsColumn w p.flags == "last_check"
      if lastFullOf p tname > now - 60 then
        plainStep w now c tname window p.flags p b [] false
      else
        let q := query w now p b
        match q.2.2 with
        | some _ => { p := q.1, b := q.2.1, cache := c, err := .failed "scan" }
        | none =>
          let scan := (q.2.1.rows tname).map (fun r => (coerceRow tab r, r)) |>.mergeSort (fun a b => keyLe tab a.1 b.1) |>.map (·.2)
          if (c.get tname).length < scan.length then
            { p := { q.1 with status := .broken, lastError := "broken: got more " ++ tname ++ " than expected", cache := none },
              b := q.2.1, cache := c, err := .failed "cache not ready" }
          else
            let cols := scanColumns byLastCheck ((q.1.flags &&& flagBit w.schema "HasLastUpdateColumn") != 0)
            let missing := ((scan.zip (c.get tname)).filter fun (r, old) =>
              replyInt r "last_check" < threshold && scanChanged tab cols old r).map (fun (r, _) => replyInt r "last_check")
            let missing := (missing.mergeSort (· ≤ ·)).eraseDups
            if missing.isEmpty then plainStep w now c tname window p.flags q.1 q.2.1 [] false
            else plainStep w now c tname window p.flags q.1 q.2.1 (if tsFilterLen missing > 150 then missing.take 149 else missing) true := by
  rfl

theorem plainStep_steps2 (w : World) (now : Int) (c : Cache) (tname : String) (window : Option (Int × Int))
    (flags0 : Nat) (p : PeerSt) (b : BackendSt) (extra : List Int) (mark : Bool) :
    Steps2 w now p (plainStep w now c tname window flags0 p b extra mark).p := by
  unfold plainStep
  simp only []
  repeat' split
  all_goals steps2_close

theorem deltaTable_steps2 (w : World) (now : Int) (p : PeerSt) (b : BackendSt) (c : Cache) (t : String)
    (win : Option (Int × Int)) (thr : Int) :
    Steps2 w now p (deltaTable w now p b c t win thr).p := by
  rw [deltaTable_eq]
  simp only []
  split
  · exact plainStep_steps2 ..
  · split
    · exact query_steps2 ..
    · split
      · exact .broken _ (query_steps2 ..)
      · split <;> exact (query_steps2 ..).trans (plainStep_steps2 ..)

theorem entries_steps2 (w : World) (now : Int) :
    ∀ (ts : List String) (p : PeerSt) (b : BackendSt) (c : Cache),
      Steps2 w now p (updateDelta.entries w now ts p b c).p
  | [], p, b, c => by unfold updateDelta.entries; exact .refl p
  | t :: ts, p, b, c => by
    unfold updateDelta.entries
    simp only []
    have q1 := query_steps2 w now p b true
    split
    · exact q1
    · split
      · exact q1.trans (entries_steps2 w now ts _ _ _)
      · have q2 := q1.trans (query_steps2 w now (query w now p b).1 (query w now p b).2.1 true)
        split
        · exact q2
        · split
          · split
            · exact q2.trans (query_steps2 ..)
            · exact (q2.trans (query_steps2 ..)).trans (entries_steps2 w now ts _ _ _)
          · exact q2.trans (entries_steps2 w now ts _ _ _)

/-- the hosts / services step of `updateDelta`: the window `[from - offset, now - offset)`, or everything when
    `from = 0` -/
def winStep (w : World) (now fromT : Int) (p : PeerSt) (b : BackendSt) (c : Cache) (t : String) : DeltaResult :=
  if fromT > 0 then
    deltaTable w now p b c t
      (if fromT > 0 then some (fromT - w.cfg.updateOffset, now - w.cfg.updateOffset) else none) (fromT - w.cfg.updateOffset)
  else deltaTable w now p b c t (some (-(2 ^ 62 : Int), (2 ^ 62 : Int))) (fromT - w.cfg.updateOffset)

theorem updateDelta_eq (w : World) (now : Int) (p : PeerSt) (b : BackendSt) (c : Cache) (fromT : Int) :
    updateDelta w now p b c fromT =
      let r0 := updateFullTable w now p b c "status"
      match r0.err with
      | .none =>
        let r1 := winStep w now fromT r0.p r0.b r0.cache "hosts"
        match r1.err with
        | .none =>
          let r2 := winStep w now fromT r1.p r1.b r1.cache "services"
          match r2.err with
          | .none =>
            let r3 := updateDelta.entries w now ["comments", "downtimes"] r2.p r2.b r2.cache
            match r3.err with
            | .none =>
              if r3.p.cache.isNone then { r3 with err := .failed "peer went offline during the update" }
              else { r3 with p := { (r3.p.recovered now) with lastUpdate := now } }
            | _ => r3
          | _ => r2
        | _ => r1
      | _ => r0 := by
  rfl

theorem winStep_steps2 (w : World) (now fromT : Int) (p : PeerSt) (b : BackendSt) (c : Cache) (t : String) :
    Steps2 w now p (winStep w now fromT p b c t).p := by
  unfold winStep
  split <;> exact deltaTable_steps2 ..

theorem updateDelta_steps2 (w : World) (now : Int) (p : PeerSt) (b : BackendSt) (c : Cache) (fromT : Int) :
    Steps2 w now p (updateDelta w now p b c fromT).p := by
  rw [updateDelta_eq]
  simp only []
  have h0 := updateFullTable_steps2 w now p b c "status"
  generalize updateFullTable w now p b c "status" = r0 at h0 ⊢
  split
  · have h1 := h0.trans (winStep_steps2 w now fromT r0.p r0.b r0.cache "hosts")
    generalize winStep w now fromT r0.p r0.b r0.cache "hosts" = r1 at h1 ⊢
    split
    · have h2 := h1.trans (winStep_steps2 w now fromT r1.p r1.b r1.cache "services")
      generalize winStep w now fromT r1.p r1.b r1.cache "services" = r2 at h2 ⊢
      split
      · have h3 := h2.trans (entries_steps2 w now ["comments", "downtimes"] r2.p r2.b r2.cache)
        generalize updateDelta.entries w now ["comments", "downtimes"] r2.p r2.b r2.cache = r3 at h3 ⊢
        split
        · split
          · exact h3
          · rename_i hc
            refine .book (.recovered h3 ?_) rfl
            cases hx : r3.p.cache <;> simp [hx] at hc ⊢
        · exact h3
      · exact h2
    · exact h1
  · exact h0

/-- a successful delta update ends with `resetErrors` on a peer that holds data -/
theorem updateDelta_ok {w : World} {now : Int} {p : PeerSt} {b : BackendSt} {c : Cache} {fromT : Int}
    (h : (updateDelta w now p b c fromT).err = .none) :
    let r := updateDelta w now p b c fromT
    r.p.status = .up ∧ r.p.lastError = "" ∧ r.p.lastOnline = now ∧ r.p.errorCount = 0 ∧ r.p.lastUpdate = now ∧
      r.p.cache.isSome := by
  rw [updateDelta_eq] at h ⊢
  simp only [] at h ⊢
  generalize updateFullTable w now p b c "status" = r0 at h ⊢
  cases h0 : r0.err <;> simp only [h0] at h ⊢ <;> try (first | cases h | (rw [h0] at h; cases h))
  generalize winStep w now fromT r0.p r0.b r0.cache "hosts" = r1 at h ⊢
  cases h1 : r1.err <;> simp only [h1] at h ⊢ <;> try (first | cases h | (rw [h1] at h; cases h))
  generalize winStep w now fromT r1.p r1.b r1.cache "services" = r2 at h ⊢
  cases h2 : r2.err <;> simp only [h2] at h ⊢ <;> try (first | cases h | (rw [h2] at h; cases h))
  generalize updateDelta.entries w now ["comments", "downtimes"] r2.p r2.b r2.cache = r3 at h ⊢
  cases h3 : r3.err <;> simp only [h3] at h ⊢ <;> try (first | cases h | (rw [h3] at h; cases h))
  split at h
  · cases h
  · rename_i hc
    split
    · rename_i hc'; exact absurd hc' hc
    · refine ⟨rfl, rfl, rfl, rfl, rfl, ?_⟩
      show r3.p.cache.isSome = true
      cases hx : r3.p.cache
      · simp [hx] at hc
      · rfl

/-- the refresh of the hosts / services that use a changed timeperiod -/
def periodOne (w : World) (now : Int) (name : String) (p : PeerSt) (b : BackendSt) (c : Cache) (tname : String) : DeltaResult :=
  let t := (w.schema.table? tname).getD { name := tname, cols := [] }
  let q := query w now p b
  match q.2.2 with
  | some _ => { p := q.1, b := q.2.1, cache := c, err := .failed "period refresh" }
  | none =>
    let rows := (q.2.1.rows tname).filter (fun r => replyStr r "check_period" == name || replyStr r "notification_period" == name)
    match applyDelta w q.1.flags t (c.get tname) rows with
    | none => { p := q.1, b := q.2.1, cache := c, err := .failed "unknown object" }
    | some rs => { p := q.1, b := q.2.1, cache := c.set tname rs, err := .none }

theorem periods_cons (w : World) (now : Int) (name : String) (rest : List String) (p : PeerSt) (b : BackendSt) (c : Cache) :
    updateTimeperiods.periods w now (name :: rest) p b c =
      let r := periodOne w now name p b c "hosts"
      match r.err with
      | .none =>
        let r := periodOne w now name r.p r.b r.cache "services"
        match r.err with
        | .none => updateTimeperiods.periods w now rest r.p r.b r.cache
        | _ => r
      | _ => r := by
  rw [updateTimeperiods.periods]
  rfl

theorem periodOne_steps2 (w : World) (now : Int) (name : String) (p : PeerSt) (b : BackendSt) (c : Cache) (t : String) :
    Steps2 w now p (periodOne w now name p b c t).p := by
  unfold periodOne
  simp only []
  repeat' split
  all_goals steps2_close

theorem periods_steps2 (w : World) (now : Int) :
    ∀ (ns : List String) (p : PeerSt) (b : BackendSt) (c : Cache),
      Steps2 w now p (updateTimeperiods.periods w now ns p b c).p
  | [], p, b, c => by unfold updateTimeperiods.periods; exact .refl p
  | n :: ns, p, b, c => by
    rw [periods_cons]
    simp only []
    have h1 := periodOne_steps2 w now n p b c "hosts"
    generalize periodOne w now n p b c "hosts" = r1 at h1 ⊢
    split
    · have h2 := h1.trans (periodOne_steps2 w now n r1.p r1.b r1.cache "services")
      generalize periodOne w now n r1.p r1.b r1.cache "services" = r2 at h2 ⊢
      split
      · exact h2.trans (periods_steps2 w now ns _ _ _)
      · exact h2
    · exact h1

theorem updateTimeperiods_steps2 (w : World) (now : Int) (p : PeerSt) (b : BackendSt) (c : Cache) :
    Steps2 w now p (updateTimeperiods w now p b c).p := by
  unfold updateTimeperiods
  simp only []
  have h1 := query_steps2 w now p b true
  split
  · exact h1
  · split
    · exact h1
    · exact h1.trans ((Steps2.book (.refl _) rfl :
        Steps2 w now (query w now p b).1 { (query w now p b).1 with lastTpMinute := (now / 60) % 60 }).trans (periods_steps2 ..))

theorem updateFullList_steps2 (w : World) (now : Int) :
    ∀ (ts : List String) (p : PeerSt) (b : BackendSt) (c : Cache), Steps2 w now p (updateFullList w now ts p b c).p
  | [], p, b, c => by unfold updateFullList; exact .refl p
  | t :: ts, p, b, c => by
    unfold updateFullList
    simp only []
    have h1 : Steps2 w now p (if t == "timeperiods" then updateTimeperiods w now p b c
      else if t == "hosts" || t == "services" then updateFullObjects w now p b c t
      else updateFullTable w now p b c t).p := by
      split
      · exact updateTimeperiods_steps2 ..
      · split
        · exact updateFullObjects_steps2 ..
        · exact updateFullTable_steps2 ..
    generalize (if t == "timeperiods" then updateTimeperiods w now p b c
      else if t == "hosts" || t == "services" then updateFullObjects w now p b c t
      else updateFullTable w now p b c t) = r at h1 ⊢
    split
    · exact h1.trans (updateFullList_steps2 w now ts _ _ _)
    · exact h1

/-! ## `InitAllTables` -/

/-- `checkAvailableTables`: one unhandled request on the columns table, not for Icinga2 -/
def availStep (w : World) (now : Int) (p : PeerSt) (b : BackendSt) (flags : Nat) : PeerSt × BackendSt × Nat :=
  if (flags &&& flagBit w.schema "Icinga2") != 0 then (p, b, flags)
  else
    let q := query w now p b (handled := false)
    match q.2.2 with
    | none => (q.1, q.2.1, flags ||| columnFlags w.schema q.2.1)
    | some _ => (q.1, q.2.1, flags)

/-- the `requestLocaltime` step -/
def localtimeStep (w : World) (now : Int) (p : PeerSt) (b : BackendSt) : PeerSt × BackendSt × Option FetchErr :=
  if (p.flags &&& flagBit w.schema "HasLocaltimeColumn") != 0 then query w now p b else (p, b, none)

/-- the table set `InitAllTables` starts to build: the status table -/
def cache0 (w : World) (statusRows : List ReplyRow) : Cache :=
  [("status", syncTable ((w.schema.table? "status").getD { name := "status", cols := [] }) statusRows)]

/-- `InitAllTables` stamps the update times first -/
def initP0 (p : PeerSt) (now : Int) : PeerSt :=
  { p with lastUpdate := now, lastFullUpdate := now, lastFullServiceUpdate := now, lastFullHostUpdate := now }

/-- what `InitAllTables` remembers from the status row: flags, core start, core pid -/
def initP1 (a : PeerSt × BackendSt × Nat) (st : ReplyRow) : PeerSt :=
  { a.1 with flags := a.2.2, programStart := replyInt st "program_start", corePid := replyInt st "nagios_pid" }

/-- `initTable`: a peer that is neither pending nor syncing is marked syncing -/
def syncingStep (p1 : PeerSt) : PeerSt :=
  if p1.status != .pending && p1.status != .syncing then { p1 with status := .syncing, lastError := "reconnecting..." } else p1

theorem initAllTablesRaw_eq (w : World) (now : Int) (p : PeerSt) (b : BackendSt) :
    initAllTablesRaw w now p b =
      let q := query w now (initP0 p now) b
      match q.2.2 with
      | some _ => { p := q.1, b := q.2.1, err := .failed "status" }
      | none =>
        match q.2.1.rows "status" with
        | [] => { p := { q.1 with status := .down, lastError := "peered partner not ready yet", cache := none }, b := q.2.1,
                  err := .failed "peered partner not ready yet" }
        | st :: _ =>
          let a := availStep w now q.1 q.2.1 (q.1.flags ||| versionFlag w.schema (replyStr st "livestatus_version"))
          let p2 : PeerSt := syncingStep (initP1 a st)
          let l := initAllTablesRaw.loop w now (updateTables.drop 1) p2 a.2.1 (cache0 w (q.2.1.rows "status"))
          match l.2.2 with
          | none => { p := l.1, b := l.2.1, err := .failed "table" }
          | some c =>
            let lt := localtimeStep w now l.1 l.2.1
            match lt.2.2 with
            | some _ => { p := lt.1, b := lt.2.1, err := .failed "localtime" }
            | none =>
              { p := if !(lt.1.status == .up) then PeerSt.recovered { lt.1 with cache := some (rebuildLists c) } now
                     else { lt.1 with cache := some (rebuildLists c) },
                b := lt.2.1, err := .none } := by
  rfl

/-! ### the table loop of `InitAllTables` -/

/-- the table description a store is built with -/
def tableOf (w : World) (t : String) : Table := (w.schema.table? t).getD { name := t, cols := [] }

/-- the set `InitAllTables` builds aside from the backend's object set `b` (before the id lists are rebuilt) -/
def freshCache (w : World) (b : BackendSt) : Cache :=
  (updateTables.drop 1).foldl (fun c t => c.set t (syncTable (tableOf w t) (b.rows t))) (cache0 w (b.rows "status"))

theorem loop_spec (w : World) (now : Int) :
    ∀ (ts : List String) (p : PeerSt) (b : BackendSt) (c : Cache),
      StepsB w now p (initAllTablesRaw.loop w now ts p b c).1 ∧
      (initAllTablesRaw.loop w now ts p b c).2.1.tables = b.tables ∧
      (∀ c', (initAllTablesRaw.loop w now ts p b c).2.2 = some c' →
          c' = ts.foldl (fun c t => c.set t (syncTable (tableOf w t) (b.rows t))) c) ∧
      ((initAllTablesRaw.loop w now ts p b c).2.2 = none →
          ∃ q msg, StepsB w now p q ∧ (initAllTablesRaw.loop w now ts p b c).1 = q.fail w now msg ∧
            (msg = "connection failed" ∨ msg = "bad response"))
  | [], p, b, c => by
    unfold initAllTablesRaw.loop
    exact ⟨.refl p, rfl, (fun c' h => by cases h; rfl), (fun h => by cases h)⟩
  | t :: ts, p, b, c => by
    unfold initAllTablesRaw.loop
    simp only []
    have hq := query_stepsB w now p b true
    have ht := (query_tables w now p b true).1
    have hf := query_failed w now p b
    generalize query w now p b = q at hq ht hf ⊢
    cases he : q.2.2 with
    | some e =>
      simp only []
      refine ⟨hq, ht, (fun c' h => by cases h), (fun _ => ?_)⟩
      obtain ⟨q', msg, h1, h2, h3⟩ := hf (by rw [he]; simp)
      exact ⟨q', msg, h1.toB, h2, h3⟩
    | none =>
      simp only []
      have hrows : q.2.1.rows t = b.rows t := rows_of_tables ht t
      rw [hrows]
      generalize hp' : (if (t == "timeperiods") = true then
          ({ ({ q.1 with lastUpdate := now, lastFullUpdate := now } : PeerSt) with lastTpMinute := (now / 60) % 60 } : PeerSt)
        else { q.1 with lastUpdate := now, lastFullUpdate := now }) = p'
      have hb : StepsB w now q.1 p' := by
        rw [← hp']; split <;> exact .book (.refl _) rfl
      obtain ⟨i1, i2, i3, i4⟩ := loop_spec w now ts p' q.2.1 (c.set t (syncTable ((w.schema.table? t).getD { name := t, cols := [] }) (b.rows t)))
      refine ⟨(hq.trans hb).trans i1, i2.trans ht, fun c' h => ?_, fun h => ?_⟩
      · rw [i3 c' h, List.foldl_cons]
        congr 1
        funext c0 t0
        rw [rows_of_tables ht t0]
      · obtain ⟨q', msg, h1, h2, h3⟩ := i4 h
        exact ⟨q', msg, (hq.trans hb).trans h1, h2, h3⟩

theorem availStep_spec (w : World) (now : Int) (p : PeerSt) (b : BackendSt) (flags : Nat) :
    StepsB w now p (availStep w now p b flags).1 ∧ (availStep w now p b flags).2.1.tables = b.tables := by
  unfold availStep
  simp only []
  split
  · exact ⟨.refl p, rfl⟩
  · split <;> exact ⟨query_stepsB .., (query_tables ..).1⟩

theorem localtimeStep_spec (w : World) (now : Int) (p : PeerSt) (b : BackendSt) :
    StepsB w now p (localtimeStep w now p b).1 ∧ (localtimeStep w now p b).2.1.tables = b.tables ∧
      ((localtimeStep w now p b).2.2 ≠ none →
        ∃ q msg, StepsB w now p q ∧ (localtimeStep w now p b).1 = q.fail w now msg ∧
          (msg = "connection failed" ∨ msg = "bad response")) := by
  unfold localtimeStep
  split
  · refine ⟨query_stepsB .., (query_tables ..).1, fun h => ?_⟩
    obtain ⟨q', msg, h1, h2, h3⟩ := query_failed w now p b h
    exact ⟨q', msg, h1.toB, h2, h3⟩
  · exact ⟨.refl p, rfl, fun h => absurd rfl h⟩

/-- how a failed rebuild leaves the peer, relative to the state `p` it started from: the old set or none,
    an error text, and not `Up` (unless it was `Up` without data, which `Inv` excludes) -/
def FailEnd (p r : PeerSt) : Prop :=
  (r.cache = p.cache ∨ r.cache = none) ∧ r.lastError ≠ "" ∧ (r.status = .up → p.status = .up ∧ p.cache = none)

theorem msg_ne {msg : String} (h : msg = "connection failed" ∨ msg = "bad response") : msg ≠ "" := by
  rcases h with h | h <;> rw [h] <;> decide

theorem failEnd_fail {w : World} {now : Int} {p q : PeerSt} {msg : String} (h : StepsB w now p q)
    (hm : msg = "connection failed" ∨ msg = "bad response") : FailEnd p (q.fail w now msg) := by
  refine ⟨?_, ?_, fun hu => h.fail_up hu⟩
  · rw [fail_cache]; split
    · exact .inr rfl
    · exact h.cache
  · rw [fail_lastError]; exact msg_ne hm

theorem failEnd_via {w : World} {now : Int} {p p2 q : PeerSt} {msg : String}
    (hc : p2.cache = p.cache ∨ p2.cache = none) (hs : p2.status ≠ .up) (h : StepsB w now p2 q)
    (hm : msg = "connection failed" ∨ msg = "bad response") : FailEnd p (q.fail w now msg) := by
  refine ⟨?_, ?_, fun hu => absurd (h.fail_up hu).1 hs⟩
  · rw [fail_cache]; split
    · exact .inr rfl
    · rcases h.cache with h1 | h1
      · rw [h1]; exact hc
      · exact .inr h1
  · rw [fail_lastError]; exact msg_ne hm

/-- everything the property theorems need to know about `InitAllTables` before its deferred clean-up -/
theorem initAllTablesRaw_spec (w : World) (now : Int) (p : PeerSt) (b : BackendSt) :
    (initAllTablesRaw w now p b).b.tables = b.tables ∧
    ((initAllTablesRaw w now p b).err = .none →
      (initAllTablesRaw w now p b).p.cache = some (rebuildLists (freshCache w b)) ∧
      (initAllTablesRaw w now p b).p.status = .up ∧ (initAllTablesRaw w now p b).p.lastError = "" ∧
      (initAllTablesRaw w now p b).p.lastOnline = now ∧ (initAllTablesRaw w now p b).p.errorCount = 0) ∧
    ((initAllTablesRaw w now p b).err ≠ .none → FailEnd p (initAllTablesRaw w now p b).p) := by
  rw [initAllTablesRaw_eq]
  simp only []
  have hb0 : StepsB w now p (initP0 p now) := .book (.refl p) rfl
  have hq := hb0.trans (query_stepsB w now (initP0 p now) b true)
  have ht := (query_tables w now (initP0 p now) b true).1
  have hf := query_failed w now (initP0 p now) b
  generalize query w now (initP0 p now) b = q at hq ht hf ⊢
  cases he : q.2.2 with
  | some e =>
    simp only []
    refine ⟨ht, (fun h => by cases h), fun _ => ?_⟩
    obtain ⟨q', msg, h1, h2, h3⟩ := hf (by rw [he]; simp)
    rw [h2]
    exact failEnd_fail (hb0.trans h1.toB) h3
  | none =>
    simp only []
    cases hr : q.2.1.rows "status" with
    | nil =>
      simp only []
      exact ⟨ht, (fun h => by cases h), fun _ => ⟨.inr rfl, (by simp), fun h => by cases h⟩⟩
    | cons st rest =>
      simp only []
      obtain ⟨ha, hta⟩ := availStep_spec w now q.1 q.2.1 (q.1.flags ||| versionFlag w.schema (replyStr st "livestatus_version"))
      generalize availStep w now q.1 q.2.1 (q.1.flags ||| versionFlag w.schema (replyStr st "livestatus_version")) = a at ha hta ⊢
      have h1 : StepsB w now p (initP1 a st) := (hq.trans ha).trans (.book (.refl _) rfl)
      generalize initP1 a st = p1 at h1 ⊢
      have hc2 : (syncingStep p1).cache = p.cache ∨ (syncingStep p1).cache = none := by
        unfold syncingStep; split <;> exact h1.cache
      have hs2 : (syncingStep p1).status ≠ .up := by
        unfold syncingStep; split
        · simp
        · rename_i hcond
          intro hu; rw [hu] at hcond; simp at hcond
      generalize syncingStep p1 = p2 at hc2 hs2 ⊢
      obtain ⟨l1, l2, l3, l4⟩ := loop_spec w now (updateTables.drop 1) p2 a.2.1 (cache0 w (st :: rest))
      generalize initAllTablesRaw.loop w now (updateTables.drop 1) p2 a.2.1 (cache0 w (st :: rest)) = l at l1 l2 l3 l4 ⊢
      cases hl : l.2.2 with
      | none =>
        refine ⟨(l2.trans hta).trans ht, (fun h => by cases h), fun _ => ?_⟩
        obtain ⟨q', msg, g1, g2, g3⟩ := l4 hl
        rw [g2]
        exact failEnd_via hc2 hs2 g1 g3
      | some c =>
        obtain ⟨t1, t2, t3⟩ := localtimeStep_spec w now l.1 l.2.1
        generalize localtimeStep w now l.1 l.2.1 = lt at t1 t2 t3 ⊢
        have htab : lt.2.1.tables = b.tables := ((t2.trans l2).trans hta).trans ht
        cases hlt : lt.2.2 with
        | some e =>
          simp only []
          refine ⟨htab, (fun h => by cases h), fun _ => ?_⟩
          obtain ⟨q', msg, g1, g2, g3⟩ := t3 (by rw [hlt]; simp)
          rw [g2]
          exact failEnd_via hc2 hs2 (l1.trans g1) g3
        | none =>
          simp only []
          have hnu : lt.1.status ≠ .up := fun hu => hs2 ((l1.trans t1).up hu).1
          refine ⟨htab, fun _ => ?_, fun h => absurd rfl h⟩
          have hcond : (!(lt.1.status == PeerState.up)) = true := by simp [hnu]
          rw [if_pos hcond]
          refine ⟨?_, rfl, rfl, rfl, rfl⟩
          show some (rebuildLists c) = _
          rw [l3 c hl]
          unfold freshCache
          have e1 : st :: rest = b.rows "status" := by rw [← hr]; exact rows_of_tables ht _
          rw [e1]
          congr 3
          funext c0 t0
          rw [rows_of_tables (hta.trans ht) t0]


/-! ### the deferred clean-up of `InitAllTables` -/

/-- the deferred clean-up applies: the rebuild failed and a data set is still published -/
def cleanupApplies (r : InitResult) : Prop := r.err ≠ .none ∧ r.p.cache.isSome = true

instance (r : InitResult) : Decidable (cleanupApplies r) :=
  inferInstanceAs (Decidable (r.err ≠ .none ∧ r.p.cache.isSome = true))

/-- `InitAllTables` is the raw rebuild, except that a failed rebuild which still publishes a data set gets the
    remembered core start and pid of the peer it started from -/
theorem initAllTables_eq (w : World) (now : Int) (p : PeerSt) (b : BackendSt) :
    initAllTables w now p b =
      if cleanupApplies (initAllTablesRaw w now p b) then
        { initAllTablesRaw w now p b with
          p := { (initAllTablesRaw w now p b).p with programStart := p.programStart, corePid := p.corePid } }
      else initAllTablesRaw w now p b := by
  unfold initAllTables
  simp only []
  generalize initAllTablesRaw w now p b = r
  split
  · rename_i he
    rw [if_neg (fun h : cleanupApplies r => h.1 he)]
  · rename_i he
    by_cases hc : r.p.cache.isSome = true
    · rw [if_pos hc, if_pos (show cleanupApplies r from ⟨fun h => he h, hc⟩)]
    · rw [if_neg hc, if_neg (fun h : cleanupApplies r => hc h.2)]

theorem initAllTables_err (w : World) (now : Int) (p : PeerSt) (b : BackendSt) :
    (initAllTables w now p b).err = (initAllTablesRaw w now p b).err := by
  rw [initAllTables_eq]; split <;> rfl

theorem initAllTables_b (w : World) (now : Int) (p : PeerSt) (b : BackendSt) :
    (initAllTables w now p b).b = (initAllTablesRaw w now p b).b := by
  rw [initAllTables_eq]; split <;> rfl

/-- every field of the peer except the remembered core start and pid -/
def restI (p : PeerSt) :=
  (core p, p.lastUpdate, p.lastFullUpdate, p.lastFullHostUpdate, p.lastFullServiceUpdate, p.lastTpMinute,
   p.forceFull, p.flags)

/-- the clean-up touches nothing but the remembered core start and pid -/
theorem initAllTables_restI (w : World) (now : Int) (p : PeerSt) (b : BackendSt) :
    restI (initAllTables w now p b).p = restI (initAllTablesRaw w now p b).p := by
  rw [initAllTables_eq]; split <;> rfl

theorem initAllTables_core (w : World) (now : Int) (p : PeerSt) (b : BackendSt) :
    core (initAllTables w now p b).p = core (initAllTablesRaw w now p b).p := by
  rw [initAllTables_eq]; split <;> rfl

theorem initAllTables_status (w : World) (now : Int) (p : PeerSt) (b : BackendSt) :
    (initAllTables w now p b).p.status = (initAllTablesRaw w now p b).p.status := by
  rw [initAllTables_eq]; split <;> rfl

theorem initAllTables_cache (w : World) (now : Int) (p : PeerSt) (b : BackendSt) :
    (initAllTables w now p b).p.cache = (initAllTablesRaw w now p b).p.cache := by
  rw [initAllTables_eq]; split <;> rfl

theorem initAllTables_lastError (w : World) (now : Int) (p : PeerSt) (b : BackendSt) :
    (initAllTables w now p b).p.lastError = (initAllTablesRaw w now p b).p.lastError := by
  rw [initAllTables_eq]; split <;> rfl

theorem initAllTables_lastOnline (w : World) (now : Int) (p : PeerSt) (b : BackendSt) :
    (initAllTables w now p b).p.lastOnline = (initAllTablesRaw w now p b).p.lastOnline := by
  rw [initAllTables_eq]; split <;> rfl

theorem initAllTables_errorCount (w : World) (now : Int) (p : PeerSt) (b : BackendSt) :
    (initAllTables w now p b).p.errorCount = (initAllTablesRaw w now p b).p.errorCount := by
  rw [initAllTables_eq]; split <;> rfl

theorem initAllTables_lastUpdate (w : World) (now : Int) (p : PeerSt) (b : BackendSt) :
    (initAllTables w now p b).p.lastUpdate = (initAllTablesRaw w now p b).p.lastUpdate := by
  rw [initAllTables_eq]; split <;> rfl

theorem initAllTables_flags (w : World) (now : Int) (p : PeerSt) (b : BackendSt) :
    (initAllTables w now p b).p.flags = (initAllTablesRaw w now p b).p.flags := by
  rw [initAllTables_eq]; split <;> rfl

theorem initAllTables_idling (w : World) (now : Int) (p : PeerSt) (b : BackendSt) :
    (initAllTables w now p b).p.idling = (initAllTablesRaw w now p b).p.idling ∧
      (initAllTables w now p b).p.lastQuery = (initAllTablesRaw w now p b).p.lastQuery ∧
      (initAllTables w now p b).p.sources = (initAllTablesRaw w now p b).p.sources := by
  rw [initAllTables_eq]; split <;> exact ⟨rfl, rfl, rfl⟩

/-- the remembered core start and pid after a rebuild: those of the peer it started from when the rebuild failed
    with a data set still published, else what the raw rebuild left -/
theorem initAllTables_programStart (w : World) (now : Int) (p : PeerSt) (b : BackendSt) :
    ((initAllTables w now p b).p.programStart =
        if cleanupApplies (initAllTablesRaw w now p b) then p.programStart
        else (initAllTablesRaw w now p b).p.programStart) ∧
    ((initAllTables w now p b).p.corePid =
        if cleanupApplies (initAllTablesRaw w now p b) then p.corePid
        else (initAllTablesRaw w now p b).p.corePid) := by
  rw [initAllTables_eq]; split <;> exact ⟨rfl, rfl⟩

/-- a failed rebuild that still publishes a data set remembers the core start and pid the peer had before -/
theorem initAllTables_failed_remembers {w : World} {now : Int} {p : PeerSt} {b : BackendSt}
    (he : (initAllTables w now p b).err ≠ .none) (hc : (initAllTables w now p b).p.cache.isSome = true) :
    (initAllTables w now p b).p.programStart = p.programStart ∧ (initAllTables w now p b).p.corePid = p.corePid := by
  rw [initAllTables_err] at he
  rw [initAllTables_cache] at hc
  have h : cleanupApplies (initAllTablesRaw w now p b) := ⟨he, hc⟩
  obtain ⟨h1, h2⟩ := initAllTables_programStart w now p b
  rw [h1, h2, if_pos h, if_pos h]
  exact ⟨rfl, rfl⟩

/-- everything the property theorems need to know about `InitAllTables` -/
theorem initAllTables_spec (w : World) (now : Int) (p : PeerSt) (b : BackendSt) :
    (initAllTables w now p b).b.tables = b.tables ∧
    ((initAllTables w now p b).err = .none →
      (initAllTables w now p b).p.cache = some (rebuildLists (freshCache w b)) ∧
      (initAllTables w now p b).p.status = .up ∧ (initAllTables w now p b).p.lastError = "" ∧
      (initAllTables w now p b).p.lastOnline = now ∧ (initAllTables w now p b).p.errorCount = 0) ∧
    ((initAllTables w now p b).err ≠ .none → FailEnd p (initAllTables w now p b).p) := by
  unfold FailEnd
  rw [initAllTables_err, initAllTables_b, initAllTables_cache, initAllTables_status, initAllTables_lastError,
    initAllTables_lastOnline, initAllTables_errorCount]
  exact initAllTablesRaw_spec w now p b

/-! ## the table set as a map -/

theorem find_set_same (t : String) (rs : List Row) :
    ∀ (c : Cache), (c.any fun x => x.1 == t) = true →
      (c.map fun (n, old) => if n == t then (n, rs) else (n, old)).find? (fun x => x.1 == t) = some (t, rs)
  | [], h => by simp at h
  | (n, old) :: xs, h => by
    rw [List.map_cons]
    by_cases hn : (n == t) = true
    · have : n = t := by simpa using hn
      subst this
      rw [List.find?_cons_of_pos]
      · show some (if (n == n) = true then (n, rs) else (n, old)) = _
        simp
      · show ((if (n == n) = true then (n, rs) else (n, old)) : String × List Row).1 == n
        simp
    · simp only [List.any_cons, hn, Bool.false_or] at h
      rw [List.find?_cons_of_neg]
      · exact find_set_same t rs xs h
      · show ¬ (((if (n == t) = true then (n, rs) else (n, old)) : String × List Row).1 == t) = true
        simp only [hn]; simpa using hn

theorem find_set_other (t t' : String) (rs : List Row) (h : t' ≠ t) :
    ∀ (c : Cache),
      ((c.map fun (n, old) => if n == t then (n, rs) else (n, old)).find? (fun x => x.1 == t')).map (·.2) =
        (c.find? (fun x => x.1 == t')).map (·.2)
  | [] => rfl
  | (n, old) :: xs => by
    rw [List.map_cons]
    have hfst : (((if (n == t) = true then (n, rs) else (n, old)) : String × List Row).1) = n := by
      split <;> rfl
    by_cases hn' : (n == t') = true
    · have hnt : (n == t) = false := by
        have : n = t' := by simpa using hn'
        subst this; simp [h]
      rw [List.find?_cons_of_pos (p := fun x => x.1 == t') (a := (n, old)) hn', List.find?_cons_of_pos]
      · show Option.map (·.2) (some (if (n == t) = true then (n, rs) else (n, old))) = _
        simp [hnt]
      · show ((if (n == t) = true then (n, rs) else (n, old)) : String × List Row).1 == t'
        rw [hfst]; exact hn'
    · rw [List.find?_cons_of_neg (p := fun x => x.1 == t') (a := (n, old)) hn', List.find?_cons_of_neg]
      · exact find_set_other t t' rs h xs
      · show ¬ (((if (n == t) = true then (n, rs) else (n, old)) : String × List Row).1 == t') = true
        rw [hfst]; exact hn'

theorem cache_get_eq (c : Cache) (t : String) :
    c.get t = ((c.find? (fun x => x.1 == t)).map (·.2)).getD [] := by
  unfold Cache.get
  cases c.find? (fun x => x.1 == t) <;> rfl

theorem cache_get_set_same (c : Cache) (t : String) (rs : List Row) : (c.set t rs).get t = rs := by
  rw [cache_get_eq]
  unfold Cache.set
  by_cases h : (c.any fun x => x.1 == t) = true
  · rw [if_pos h, find_set_same t rs c h]; rfl
  · rw [if_neg h]
    have hnone : c.find? (fun x => x.1 == t) = none := by
      rw [List.find?_eq_none]
      intro x hx hxt
      exact h (List.any_eq_true.2 ⟨x, hx, hxt⟩)
    simp [List.find?_append, hnone]

theorem cache_get_set_other (c : Cache) (t t' : String) (rs : List Row) (h : t' ≠ t) :
    (c.set t rs).get t' = c.get t' := by
  rw [cache_get_eq, cache_get_eq]
  unfold Cache.set
  by_cases ha : (c.any fun x => x.1 == t) = true
  · rw [if_pos ha, find_set_other t t' rs h c]
  · rw [if_neg ha]
    have : (t == t') = false := by simp [Ne.symm h]
    simp only [List.find?_append, List.find?_cons, this, List.find?_nil, Option.or_none]

theorem foldl_set_get (f : String → List Row) (t : String) :
    ∀ (ts : List String) (c : Cache),
      (ts.foldl (fun c t => c.set t (f t)) c).get t = if t ∈ ts then f t else c.get t
  | [], c => by simp
  | t0 :: ts, c => by
    rw [List.foldl_cons, foldl_set_get f t ts]
    by_cases h : t ∈ ts
    · simp [h]
    · by_cases h0 : t = t0
      · subst h0; simp [h, cache_get_set_same]
      · simp [h, h0, cache_get_set_other _ _ _ _ h0]

/-- every table of the new set is the synchronised object set of the backend -/
theorem freshCache_get (w : World) (b : BackendSt) (t : String) (h : t ∈ updateTables) :
    (freshCache w b).get t = syncTable (tableOf w t) (b.rows t) := by
  unfold freshCache
  rw [foldl_set_get (fun t => syncTable (tableOf w t) (b.rows t))]
  split
  · rfl
  · rename_i hn
    have : t = "status" := by
      simp only [updateTables, List.drop_succ_cons, List.drop_zero, List.mem_cons, List.not_mem_nil, or_false] at h hn
      rcases h with h | h
      · exact h
      · exact absurd h hn
    subst this
    simp [cache0, Cache.get, tableOf]

/-- the id list rebuild touches hosts and services only -/
theorem rebuildLists_get_other (c : Cache) (t : String) (h1 : t ≠ "hosts") (h2 : t ≠ "services") :
    (rebuildLists c).get t = c.get t := by
  unfold rebuildLists
  simp only []
  rw [cache_get_set_other _ _ _ _ h2, cache_get_set_other _ _ _ _ h1]

theorem rebuildLists_get_services (c : Cache) :
    (rebuildLists c).get "services" =
      (buildIdLists "downtimes" (c.get "downtimes")
        (buildIdLists "comments" (c.get "comments") (c.get "hosts") (c.get "services")).1
        (buildIdLists "comments" (c.get "comments") (c.get "hosts") (c.get "services")).2).2 := by
  unfold rebuildLists
  simp only []
  rw [cache_get_set_same]

theorem rebuildLists_get_hosts (c : Cache) :
    (rebuildLists c).get "hosts" =
      (buildIdLists "downtimes" (c.get "downtimes")
        (buildIdLists "comments" (c.get "comments") (c.get "hosts") (c.get "services")).1
        (buildIdLists "comments" (c.get "comments") (c.get "hosts") (c.get "services")).2).1 := by
  unfold rebuildLists
  simp only []
  rw [cache_get_set_other _ _ _ _ (by decide), cache_get_set_same]



/-! ## the update loop body -/

theorem initAllTables_inv {w : World} {now : Int} {p : PeerSt} {b : BackendSt} (h : Inv p) :
    Inv (initAllTables w now p b).p := by
  obtain ⟨_, h2, h3⟩ := initAllTables_spec w now p b
  by_cases he : (initAllTables w now p b).err = .none
  · obtain ⟨a, b1, c, _⟩ := h2 he
    intro _
    exact ⟨by rw [a]; rfl, c⟩
  · obtain ⟨_, _, c⟩ := h3 he
    intro hu
    obtain ⟨c1, c2⟩ := c hu
    have := (h c1).1
    rw [c2] at this; cases this

theorem handleBroken_inv {w : World} {now : Int} {p : PeerSt} {b : BackendSt} (h : Inv p) :
    Inv (handleBroken w now p b).p := by
  unfold handleBroken
  simp only []
  have hq : Inv (query w now p b).1 := query_inv h
  repeat' split
  all_goals first | exact hq | exact initAllTables_inv hq

/-- `updateIdleStatus` -/
def idleStep (w : World) (now : Int) (p : PeerSt) : PeerSt :=
  if !p.idling && ((p.lastQuery == 0 && w.mainRestart < now - w.cfg.idleTimeout) ||
      (p.lastQuery > 0 && p.lastQuery < now - w.cfg.idleTimeout)) then { p with idling := true } else p

/-- `initTablesIfRestartRequiredError` -/
def finishStep (w : World) (now : Int) (p : PeerSt) (b : BackendSt) (ran : Bool) (err : StepErr) : TickResult :=
  match err with
  | .restartRequired =>
    let r := initAllTables w now p b
    { p := r.p, b := r.b, ran := ran, err := r.err }
  | e => { p := p, b := b, ran := ran, err := e }

/-- the once-a-minute refresh of timeperiods and groups -/
def tpStep (w : World) (now : Int) (p : PeerSt) (b : BackendSt) (cache0 : Option Cache) :
    Option TickResult × PeerSt × BackendSt × Option Cache :=
  match cache0 with
  | some c =>
    if !p.idling && p.lastTpMinute != (now / 60) % 60 then
      let r := updateFullList w now ["timeperiods", "hostgroups", "servicegroups"] { p with lastTpMinute := (now / 60) % 60 } b c
      match r.err with
      | .none =>
        let lt := localtimeStep w now (withCache r) r.b
        (match lt.2.2 with
         | some _ => (some (finishStep w now lt.1 lt.2.1 false (.failed "localtime")), lt.1, lt.2.1, some r.cache)
         | none => (none, lt.1, lt.2.1, some r.cache))
      | e => (some (finishStep w now (withCache r) r.b false e), r.p, r.b, some r.cache)
    else (none, p, b, some c)
  | none => (none, p, b, none)

/-- the delta run of the loop body -/
def deltaRun (w : World) (now : Int) (p : PeerSt) (b : BackendSt) (c : Cache) (fromT : Int) : TickResult :=
  let r := updateDelta w now p b c fromT
  finishStep w now (withCache r) r.b true r.err

/-- the rebuild run of the loop body -/
def initRun (w : World) (now : Int) (p : PeerSt) (b : BackendSt) : TickResult :=
  let r := initAllTables w now p b
  finishStep w now r.p r.b true r.err

/-- when the next update run is due: the idle interval applies while the peer idles -/
def nextDue (w : World) (lastUpdate : Int) (p : PeerSt) : Int :=
  lastUpdate + (if p.idling then w.cfg.idleInterval else w.cfg.updateInterval)

/-- the run of an `Up` / `Syncing` peer that holds data: the periodic full update when it is due, else a delta -/
def upRun (w : World) (now lastUpdate : Int) (p : PeerSt) (b : BackendSt) (c : Cache) : TickResult :=
  if !p.idling && w.cfg.fullUpdateInterval > 0 && now > p.lastFullUpdate + w.cfg.fullUpdateInterval then
    let r := updateFullList w now updateTables p b c
    match r.err with
    | .none =>
      if r.p.cache.isNone then finishStep w now (withCache r) r.b true (.failed "peer went offline during the update")
      else finishStep w now { ((withCache r).recovered now) with lastUpdate := now, lastFullUpdate := now } r.b true .none
    | e => finishStep w now (withCache r) r.b true e
  else
    let fp : Int × PeerSt := if p.forceFull then ((0 : Int), { p with forceFull := false }) else (lastUpdate, p)
    deltaRun w now fp.2 b c fp.1

/-- the per-state dispatch of `periodicUpdate` -/
def dispatch (w : World) (now lastUpdate : Int) (status0 : PeerState) (p : PeerSt) (b : BackendSt)
    (cache1 : Option Cache) : TickResult :=
  match status0 with
  | .broken =>
    let r := handleBroken w now p b
    finishStep w now r.p r.b true r.err
  | .down | .pending => initRun w now p b
  | .warning =>
    (match cache1 with
     | none => initRun w now p b
     | some c => deltaRun w now p b c lastUpdate)
  | .up | .syncing =>
    (match cache1 with
     | none => initRun w now p b
     | some c => upRun w now lastUpdate p b c)

/-- nothing happens before the next run is due; then the update time is stamped and the state decides -/
def mainStep (w : World) (now lastUpdate : Int) (status0 : PeerState) (p : PeerSt) (b : BackendSt)
    (cache1 : Option Cache) : TickResult :=
  if now < nextDue w lastUpdate p then { p := p, b := b, ran := false, err := .none }
  else dispatch w now lastUpdate status0 { p with lastUpdate := now } b cache1

theorem tick_eq (w : World) (now : Int) (p : PeerSt) (b : BackendSt) :
    tick w now p b =
      match tpStep w now (idleStep w now p) b p.cache with
      | (some res, _, _, _) => res
      | (none, p', b', cache1) => mainStep w now p.lastUpdate p.status p' b' cache1 := by
  rfl

theorem idleStep_inv {w : World} {now : Int} {p : PeerSt} (h : Inv p) : Inv (idleStep w now p) := by
  unfold idleStep; split
  · exact h
  · exact h

theorem finishStep_inv {w : World} {now : Int} {p : PeerSt} {b : BackendSt} {ran : Bool} {err : StepErr}
    (h : Inv p) : Inv (finishStep w now p b ran err).p := by
  unfold finishStep
  split
  · exact initAllTables_inv h
  · exact h

theorem updateFullList_inv {w : World} {now : Int} {ts : List String} {p : PeerSt} {b : BackendSt} {c : Cache}
    (h : Inv p) : Inv (updateFullList w now ts p b c).p := (updateFullList_steps2 w now ts p b c).inv h

theorem updateDelta_inv {w : World} {now : Int} {p : PeerSt} {b : BackendSt} {c : Cache} {fromT : Int}
    (h : Inv p) : Inv (updateDelta w now p b c fromT).p := (updateDelta_steps2 w now p b c fromT).inv h

theorem localtimeStep_inv {w : World} {now : Int} {p : PeerSt} {b : BackendSt} (h : Inv p) :
    Inv (localtimeStep w now p b).1 := (localtimeStep_spec w now p b).1.steps2.inv h

theorem tpStep_inv {w : World} {now : Int} {p : PeerSt} {b : BackendSt} {c0 : Option Cache} (h : Inv p) :
    (∀ res, (tpStep w now p b c0).1 = some res → Inv res.p) ∧ Inv (tpStep w now p b c0).2.1 := by
  unfold tpStep
  split
  · split
    · simp only []
      have h0 : Inv ({ p with lastTpMinute := (now / 60) % 60 } : PeerSt) := h
      have hr := updateFullList_inv (w := w) (now := now) (ts := ["timeperiods", "hostgroups", "servicegroups"])
        (b := b) (c := (by assumption)) h0
      generalize updateFullList w now ["timeperiods", "hostgroups", "servicegroups"] _ b _ = r at hr
      split
      · have hl := localtimeStep_inv (w := w) (now := now) (b := r.b) (withCache_inv hr)
        split
        · exact ⟨(fun res hres => by cases hres; exact finishStep_inv hl), hl⟩
        · exact ⟨(fun res hres => by cases hres), hl⟩
      · exact ⟨(fun res hres => by cases hres; exact finishStep_inv (withCache_inv hr)), hr⟩
    · exact ⟨(fun res hres => by cases hres), h⟩
  · exact ⟨(fun res hres => by cases hres), h⟩

theorem deltaRun_inv {w : World} {now : Int} {p : PeerSt} {b : BackendSt} {c : Cache} {fromT : Int} (h : Inv p) :
    Inv (deltaRun w now p b c fromT).p := finishStep_inv (withCache_inv (updateDelta_inv h))

theorem initRun_inv {w : World} {now : Int} {p : PeerSt} {b : BackendSt} (h : Inv p) :
    Inv (initRun w now p b).p := finishStep_inv (initAllTables_inv h)

theorem upRun_inv {w : World} {now lastUpdate : Int} {p : PeerSt} {b : BackendSt} {c : Cache} (h : Inv p) :
    Inv (upRun w now lastUpdate p b c).p := by
  unfold upRun
  split
  · simp only []
    have hr := updateFullList_inv (w := w) (now := now) (ts := updateTables) (b := b) (c := c) h
    generalize updateFullList w now updateTables p b c = r at hr
    split
    · split
      · exact finishStep_inv (withCache_inv hr)
      · rename_i hc
        refine finishStep_inv ?_
        have : (withCache r).cache.isSome := by
          rw [withCache_cache_isSome]
          cases hx : r.p.cache
          · simp [hx] at hc
          · rfl
        exact fun _ => ⟨this, rfl⟩
    · exact finishStep_inv (withCache_inv hr)
  · refine deltaRun_inv ?_
    split
    · exact h
    · exact h

theorem dispatch_inv {w : World} {now lastUpdate : Int} {s0 : PeerState} {p : PeerSt} {b : BackendSt}
    {c1 : Option Cache} (h : Inv p) : Inv (dispatch w now lastUpdate s0 p b c1).p := by
  unfold dispatch
  split
  · exact finishStep_inv (handleBroken_inv h)
  · exact initRun_inv h
  · exact initRun_inv h
  · split
    · exact initRun_inv h
    · exact deltaRun_inv h
  · split
    · exact initRun_inv h
    · exact upRun_inv h
  · split
    · exact initRun_inv h
    · exact upRun_inv h

theorem mainStep_inv {w : World} {now lastUpdate : Int} {s0 : PeerState} {p : PeerSt} {b : BackendSt}
    {c1 : Option Cache} (h : Inv p) : Inv (mainStep w now lastUpdate s0 p b c1).p := by
  unfold mainStep
  split
  · exact h
  · exact dispatch_inv (p := { p with lastUpdate := now }) h

theorem tick_inv {w : World} {now : Int} {p : PeerSt} {b : BackendSt} (h : Inv p) : Inv (tick w now p b).p := by
  rw [tick_eq]
  obtain ⟨h1, h2⟩ := tpStep_inv (w := w) (now := now) (b := b) (c0 := p.cache) (idleStep_inv (w := w) (now := now) h)
  generalize tpStep w now (idleStep w now p) b p.cache = tp at h1 h2
  obtain ⟨res, p', b', c1⟩ := tp
  cases res with
  | some res => exact h1 res rfl
  | none => exact mainStep_inv h2

/-! ## client queries and idling -/

/-- `ResumeFromIdle`: an `Up` peer with data refreshes the timeperiods and runs a delta update at once; any other
    peer is made due for its next run -/
def resume (w : World) (now : Int) (p : PeerSt) (b : BackendSt) : PeerSt × BackendSt :=
  match p.status, p.cache with
  | .up, some c =>
    let r := updateFullList w now ["timeperiods"] p b c
    (match r.err with
     | .none =>
       (match (withCache r).cache with
        | some c' =>
          let r2 := updateDelta w now (withCache r) r.b c' (withCache r).lastUpdate
          (withCache r2, r2.b)
        | none => (withCache r, r.b))
     | _ => (withCache r, r.b))
  | _, _ => ({ p with lastUpdate := now - w.cfg.updateInterval }, b)

theorem clientQuery_eq (w : World) (now : Int) (p : PeerSt) (b : BackendSt) :
    clientQuery w now p b =
      if p.idling then
        ({ (resume w now { p with lastQuery := now, idling := false } b).1 with lastQuery := now },
         (resume w now { p with lastQuery := now, idling := false } b).2)
      else ({ p with lastQuery := now }, b) := by
  rfl

theorem resume_inv {w : World} {now : Int} {p : PeerSt} {b : BackendSt} (h : Inv p) : Inv (resume w now p b).1 := by
  unfold resume
  split
  · rename_i c _ _
    simp only []
    have hr := updateFullList_inv (w := w) (now := now) (ts := ["timeperiods"]) (b := b) (c := c) h
    generalize updateFullList w now ["timeperiods"] p b c = r at hr
    split
    · split
      · exact withCache_inv (updateDelta_inv (withCache_inv hr))
      · exact withCache_inv hr
    · exact withCache_inv hr
  · exact h

/-- `ResumeFromIdle` leaves the idle flag alone -/
theorem resume_idling (w : World) (now : Int) (p : PeerSt) (b : BackendSt) : (resume w now p b).1.idling = p.idling := by
  unfold resume
  split
  · rename_i c _ _
    simp only []
    have hr := (updateFullList_steps2 w now ["timeperiods"] p b c).frame.1
    generalize updateFullList w now ["timeperiods"] p b c = r at hr
    split
    · split
      · rename_i c' _
        rw [(withCache_frame _).1, (updateDelta_steps2 ..).frame.1, (withCache_frame _).1, hr]
      · rw [(withCache_frame _).1, hr]
    · rw [(withCache_frame _).1, hr]
  · rfl

theorem clientQuery_inv {w : World} {now : Int} {p : PeerSt} {b : BackendSt} (h : Inv p) :
    Inv (clientQuery w now p b).1 := by
  rw [clientQuery_eq]
  split
  · exact resume_inv (p := { p with lastQuery := now, idling := false }) h
  · exact h

/-! ## when the loop body leaves the backend alone -/

/-- the peer idles after this run's `updateIdleStatus` -/
def idlesAt (w : World) (now : Int) (p : PeerSt) : Bool :=
  p.idling || ((p.lastQuery == 0 && w.mainRestart < now - w.cfg.idleTimeout) ||
      (p.lastQuery > 0 && p.lastQuery < now - w.cfg.idleTimeout))

theorem idleStep_idling (w : World) (now : Int) (p : PeerSt) : (idleStep w now p).idling = idlesAt w now p := by
  unfold idleStep idlesAt
  cases hi : p.idling <;> simp [hi]
  split <;> simp_all

theorem idleStep_fields (w : World) (now : Int) (p : PeerSt) :
    (idleStep w now p).lastTpMinute = p.lastTpMinute ∧ (idleStep w now p).status = p.status ∧
      (idleStep w now p).cache = p.cache ∧ (idleStep w now p).lastUpdate = p.lastUpdate := by
  unfold idleStep; split <;> exact ⟨rfl, rfl, rfl, rfl⟩

/-- no request is sent while the minute refresh is not due (idling, same minute, or no data) and the next run
    is not due either -/
theorem tick_quiet (w : World) (now : Int) (p : PeerSt) (b : BackendSt)
    (htp : idlesAt w now p = true ∨ p.lastTpMinute = (now / 60) % 60 ∨ p.cache = none)
    (hdue : now < p.lastUpdate + (if idlesAt w now p then w.cfg.idleInterval else w.cfg.updateInterval)) :
    tick w now p b = { p := idleStep w now p, b := b, ran := false, err := .none } := by
  rw [tick_eq]
  have htp' : tpStep w now (idleStep w now p) b p.cache = (none, idleStep w now p, b, p.cache) := by
    unfold tpStep
    cases hc : p.cache with
    | none => rfl
    | some c =>
      simp only []
      have : (!(idleStep w now p).idling && (idleStep w now p).lastTpMinute != (now / 60) % 60) = false := by
        rw [idleStep_idling, (idleStep_fields w now p).1]
        rcases htp with h | h | h
        · simp [h]
        · simp [h]
        · rw [hc] at h; cases h
      rw [if_neg (by simp [this])]
  rw [htp']
  simp only []
  unfold mainStep nextDue
  rw [idleStep_idling, if_pos hdue]

/-! ## source rotation arithmetic -/

theorem fail_sources (w : World) (p : PeerSt) (now : Int) (msg : String) : (p.fail w now msg).sources = p.sources := by
  have := fail_rest w p now msg
  simp only [rest, Prod.mk.injEq] at this
  exact this.1

theorem next_mod {p : PeerSt} (h : p.addrIdx < p.sources.length) :
    nextIdx p = (p.addrIdx + 1) % p.sources.length := by
  unfold nextIdx
  split
  · have : p.addrIdx + 1 = p.sources.length := by omega
    rw [this, Nat.mod_self]
  · rw [Nat.mod_eq_of_lt (by omega)]

theorem mod_two {a n : Nat} (h : a < 2 * n) : a % n = if a < n then a else a - n := by
  split
  · rename_i h1; exact Nat.mod_eq_of_lt h1
  · rename_i h1
    rw [Nat.mod_eq_sub_mod (by omega), Nat.mod_eq_of_lt (by omega)]

/-- starting at `i`, each `j < n` is reached after exactly one number of steps in `1..n` -/
theorem rotation_arith {i j n : Nat} (hi : i < n) (hj : j < n) :
    ∃ k, 1 ≤ k ∧ k ≤ n ∧ (i + k) % n = j ∧ ∀ k', 1 ≤ k' → k' ≤ n → (i + k') % n = j → k' = k := by
  refine ⟨if i < j then j - i else j + n - i, ?_, ?_, ?_, ?_⟩
  · split <;> omega
  · split <;> omega
  · rw [mod_two (by split <;> omega)]
    split <;> split <;> omega
  · intro k' h1 h2 h3
    rw [mod_two (by omega)] at h3
    split at h3 <;> split <;> omega

/-! ## restart detection -/

/-- the reply of a full refresh as `UpdateFullTable` orders it -/
def sortedReply (w : World) (t : String) (rows : List ReplyRow) : List ReplyRow :=
  (rows.map (fun r => (coerceRow (tableOf w t) r, r))).mergeSort (fun a b => keyLe (tableOf w t) a.1 b.1) |>.map (·.2)

theorem sortedReply_length (w : World) (t : String) (rows : List ReplyRow) : (sortedReply w t rows).length = rows.length := by
  simp [sortedReply, List.length_mergeSort]

theorem sortedReply_singleton (w : World) (t : String) (r : ReplyRow) : sortedReply w t [r] = [r] := by
  simp [sortedReply]

theorem query_programStart (w : World) (now : Int) (p : PeerSt) (b : BackendSt) (handled : Bool) :
    (query w now p b handled).1.programStart = p.programStart ∧ (query w now p b handled).1.corePid = p.corePid := by
  have := (query_steps w now p b handled).rest1
  simp only [rest1, Prod.mk.injEq] at this
  exact ⟨this.2.2.2.2.2.2.2.2.2.1, this.2.2.2.2.2.2.2.2.2.2.1⟩

theorem updateFullTable_eq (w : World) (now : Int) (p : PeerSt) (b : BackendSt) (c : Cache) (t : String) :
    updateFullTable w now p b c t =
      if (dynamicCols w.schema p.flags t).isEmpty then { p := p, b := b, cache := c, err := .none }
      else
        let q := query w now p b
        match q.2.2 with
        | some _ => { p := q.1, b := q.2.1, cache := c, err := .failed "full" }
        | none =>
          let reply := sortedReply w t (q.2.1.rows t)
          if reply.length != (c.get t).length then { p := q.1, b := q.2.1, cache := c, err := .restartRequired }
          else if t == "status" &&
              (match reply with
               | [st] => q.1.programStart != 0 && q.1.corePid != 0 &&
                   (replyInt st "program_start" != q.1.programStart || replyInt st "nagios_pid" != q.1.corePid)
               | _ => false) then
            { p := q.1, b := q.2.1, cache := c, err := .restartRequired }
          else
            { p := if t == "status" then
                  { q.1 with flags := q.1.flags ||| (match reply with
                      | st :: _ => versionFlag w.schema (replyStr st "livestatus_version") | [] => 0) }
                else q.1,
              b := q.2.1,
              cache := c.set t (((c.get t).zip reply).map fun (old, r) => updateRow (dynamicCols w.schema p.flags t) true old r),
              err := .none } := by
  unfold updateFullTable sortedReply tableOf
  simp only [ite_self]
  rfl

/-- a status refresh that sees another core start or pid asks for a rebuild and writes nothing -/
theorem updateFullTable_restart_status (w : World) (now : Int) (p : PeerSt) (b : BackendSt) (c : Cache) (st : ReplyRow)
    (hdyn : (dynamicCols w.schema p.flags "status").isEmpty = false)
    (hq : (query w now p b).2.2 = none) (hrow : b.rows "status" = [st])
    (hps : p.programStart ≠ 0) (hpid : p.corePid ≠ 0)
    (hdiff : replyInt st "program_start" ≠ p.programStart ∨ replyInt st "nagios_pid" ≠ p.corePid) :
    updateFullTable w now p b c "status" =
      { p := (query w now p b).1, b := (query w now p b).2.1, cache := c, err := .restartRequired } := by
  rw [updateFullTable_eq, hdyn]
  simp only [Bool.false_eq_true, if_false, hq]
  rw [query_rows, hrow, sortedReply_singleton, (query_programStart w now p b true).1, (query_programStart w now p b true).2]
  split
  · rfl
  · rw [if_pos]
    simp only [bne_iff_ne, ne_eq, Bool.and_eq_true, Bool.or_eq_true, beq_self_eq_true, true_and]
    exact ⟨⟨hps, hpid⟩, hdiff⟩

/-- a full refresh whose reply has another number of rows than the table holds asks for a rebuild and writes nothing -/
theorem updateFullTable_restart_count (w : World) (now : Int) (p : PeerSt) (b : BackendSt) (c : Cache) (t : String)
    (hdyn : (dynamicCols w.schema p.flags t).isEmpty = false)
    (hq : (query w now p b).2.2 = none) (hlen : (b.rows t).length ≠ (c.get t).length) :
    updateFullTable w now p b c t =
      { p := (query w now p b).1, b := (query w now p b).2.1, cache := c, err := .restartRequired } := by
  rw [updateFullTable_eq, hdyn]
  simp only [Bool.false_eq_true, if_false, hq]
  rw [query_rows, sortedReply_length, if_pos (by simpa using hlen)]

theorem updateFullObjects_restart_count (w : World) (now : Int) (p : PeerSt) (b : BackendSt) (c : Cache) (t : String)
    (hq : (query w now p b).2.2 = none) (hlen : (b.rows t).length ≠ (c.get t).length) :
    updateFullObjects w now p b c t =
      { p := (query w now p b).1, b := (query w now p b).2.1, cache := c, err := .restartRequired } := by
  unfold updateFullObjects
  simp only [hq]
  rw [query_rows, if_pos (by simpa using hlen)]

theorem updateTimeperiods_restart_count (w : World) (now : Int) (p : PeerSt) (b : BackendSt) (c : Cache)
    (hq : (query w now p b).2.2 = none) (hlen : (b.rows "timeperiods").length ≠ (c.get "timeperiods").length) :
    updateTimeperiods w now p b c =
      { p := (query w now p b).1, b := (query w now p b).2.1, cache := c, err := .restartRequired } := by
  unfold updateTimeperiods
  simp only [hq]
  rw [query_rows, if_pos (by simpa [List.length_mergeSort] using hlen)]


/-! ## `composeTimestampFilter` -/

/-- a timestamp lies in one of the blocks -/
def inBlocks (bs : List (Int × Int)) (t : Int) : Prop := ∃ blk ∈ bs, blk.1 ≤ t ∧ t ≤ blk.2

theorem go_mem (t : Int) : ∀ (xs : List Int) (lo hi : Int), lo ≤ hi →
    (inBlocks (tsBlocks.go lo hi xs) t ↔ (lo ≤ t ∧ t ≤ hi) ∨ t ∈ xs)
  | [], lo, hi, _ => by
    unfold tsBlocks.go inBlocks
    simp
  | x :: xs, lo, hi, h => by
    unfold tsBlocks.go
    split
    · rename_i hx
      have hx' : hi = x - 1 := by simpa using hx
      rw [go_mem t xs lo x (by omega)]
      simp only [List.mem_cons]
      constructor
      · rintro (h1 | h1)
        · by_cases ht : t = x
          · exact .inr (.inl ht)
          · exact .inl ⟨h1.1, by omega⟩
        · exact .inr (.inr h1)
      · rintro (h1 | h1 | h1)
        · exact .inl ⟨h1.1, by omega⟩
        · exact .inl ⟨by omega, by omega⟩
        · exact .inr h1
    · have ih := go_mem t xs x x (Int.le_refl x)
      unfold inBlocks at ih ⊢
      simp only [List.mem_cons, exists_eq_or_imp]
      rw [ih]
      constructor
      · rintro (h1 | h1 | h1)
        · exact .inl h1
        · exact .inr (.inl (by omega))
        · exact .inr (.inr h1)
      · rintro (h1 | h1 | h1)
        · exact .inl h1
        · exact .inr (.inl ⟨by omega, by omega⟩)
        · exact .inr (.inr h1)

theorem go_length : ∀ (xs : List Int) (lo hi : Int), (tsBlocks.go lo hi xs).length ≤ xs.length + 1
  | [], lo, hi => by unfold tsBlocks.go; simp
  | x :: xs, lo, hi => by
    unfold tsBlocks.go
    split
    · have := go_length xs lo x; simp only [List.length_cons]; omega
    · have := go_length xs x x; simp only [List.length_cons]; omega

/-- blocks of a strictly ascending list: in order, well formed, and never adjacent (so no two could be merged) -/
theorem go_separated : ∀ (xs : List Int) (lo hi : Int), lo ≤ hi → (∀ x ∈ xs, hi < x) → xs.Pairwise (· < ·) →
    (tsBlocks.go lo hi xs).Pairwise (fun a b => a.2 + 1 < b.1) ∧
      (∀ blk ∈ tsBlocks.go lo hi xs, lo ≤ blk.1 ∧ blk.1 ≤ blk.2)
  | [], lo, hi, h, _, _ => by
    unfold tsBlocks.go
    simp [h]
  | x :: xs, lo, hi, h, hlt, hp => by
    unfold tsBlocks.go
    have hx : hi < x := hlt x List.mem_cons_self
    rw [List.pairwise_cons] at hp
    split
    · obtain ⟨i1, i2⟩ := go_separated xs lo x (by omega) hp.1 hp.2
      exact ⟨i1, i2⟩
    · rename_i hne
      have hne' : hi ≠ x - 1 := by simpa using hne
      obtain ⟨i1, i2⟩ := go_separated xs x x (Int.le_refl x) hp.1 hp.2
      refine ⟨List.pairwise_cons.2 ⟨fun blk hb => ?_, i1⟩, fun blk hb => ?_⟩
      · have := (i2 blk hb).1
        show hi + 1 < blk.1
        omega
      · rcases List.mem_cons.1 hb with hb | hb
        · subst hb; exact ⟨Int.le_refl _, h⟩
        · have := i2 blk hb
          exact ⟨by omega, this.2⟩


/-! ## `prepareDataUpdateSet` -/

/-- the backend has `last_update` and the table stores it -/
def hasLU (w : World) (flags : Nat) (tab : Table) : Bool :=
  (flags &&& flagBit w.schema "HasLastUpdateColumn") != 0 && (tab.col? "last_update").isSome

/-- the table stores `last_check` -/
def hasLC (tab : Table) : Bool := (tab.col? "last_check").isSome

/-- `checkChangedIntValues` over the dynamic columns: some int / int64 column of the reply differs from the cache -/
def intChanged (dyn : List Column) (old : Row) (r : ReplyRow) : Bool :=
  dyn.any fun col =>
    match col.dtype with
    | .int => checkInt8 (replyInt r col.name) != old.int col.name
    | .int64 => replyInt r col.name != old.int col.name
    | _ => false

/-- what happens to a cached row that a reply row addresses: `none` = skipped, `some true` = every delivered
    dynamic column is copied, `some false` = only the numeric ones -/
def decision (w : World) (flags : Nat) (tab : Table) (old : Row) (r : ReplyRow) : Option Bool :=
  let luChanged := replyInt r "last_update" != old.int "last_update"
  let lcChanged := replyInt r "last_check" != old.int "last_check"
  let ic := intChanged (dynamicCols w.schema flags tab.name) old r
  if hasLU w flags tab && hasLC tab then (if luChanged || lcChanged || ic then some true else none)
  else if hasLU w flags tab then (if luChanged || ic then some true else none)
  else if !hasLC tab then some true
  else some (lcChanged || ic)

/-- the cached row after a reply row addressed it -/
def rowAfter (w : World) (flags : Nat) (tab : Table) (old : Row) (r : ReplyRow) : Row :=
  match decision w flags tab old r with
  | none => old
  | some full => updateRow (dynamicCols w.schema flags tab.name) full old r

/-- one reply row applied to the rows of the table -/
def deltaStep (w : World) (flags : Nat) (tab : Table) (rows : List Row) (x : Nat × ReplyRow) : List Row :=
  match rows[x.1]? with
  | none => rows
  | some old => rows.set x.1 (rowAfter w flags tab old x.2)

/-- the reply sorted by primary key, as `insertDeltaDataResult` receives it -/
def sortedDelta (tab : Table) (reply : List ReplyRow) : List (Row × ReplyRow) :=
  (reply.map fun r => (coerceRow tab r, r)).mergeSort (fun a b => keyLe tab a.1 b.1)

/-- the cached row a reply row addresses through the index: the last row carrying its key -/
def lookup (tab : Table) (cached : List Row) (r : ReplyRow) : Option (Nat × ReplyRow) :=
  match (cached.zipIdx.reverse.find? (fun (c, _) => c.key tab == replyKey tab r)) with
  | some (_, i) => some (i, r)
  | none => none

/-- which cached row every reply row addresses: by position when the reply has as many rows as the table, else by key -/
def addressed (tab : Table) (cached : List Row) (reply : List ReplyRow) : Option (List (Nat × ReplyRow)) :=
  if (sortedDelta tab reply).length == cached.length then
    some ((List.range (sortedDelta tab reply).length).zip ((sortedDelta tab reply).map (·.2)))
  else (sortedDelta tab reply).mapM fun x => lookup tab cached x.2

theorem set_same (rows : List Row) (i : Nat) (old : Row) (h : rows[i]? = some old) : rows.set i old = rows := by
  apply List.ext_getElem?
  intro j
  by_cases hj : i = j
  · subst hj
    rw [List.getElem?_set_self (by
      rcases Nat.lt_or_ge i rows.length with hl | hl
      · exact hl
      · rw [List.getElem?_eq_none hl] at h; cases h), h]
  · rw [List.getElem?_set_ne hj]

theorem applyDelta_eq (w : World) (flags : Nat) (tab : Table) (cached : List Row) (reply : List ReplyRow) :
    applyDelta w flags tab cached reply =
      (addressed tab cached reply).map fun upd => upd.foldl (deltaStep w flags tab) cached := by
  unfold applyDelta
  simp only []
  have hstep : ∀ (rows : List Row) (x : Nat × ReplyRow),
      (match rows[x.1]? with
        | none => rows
        | some old =>
          match (if ((flags &&& flagBit w.schema "HasLastUpdateColumn" != 0 && (tab.col? "last_update").isSome) &&
                (tab.col? "last_check").isSome) = true then
              if (replyInt x.2 "last_update" != old.int "last_update" || replyInt x.2 "last_check" != old.int "last_check" ||
                ((dynamicCols w.schema flags tab.name).any fun col =>
                match col.dtype with
                | .int => checkInt8 (replyInt x.2 col.name) != old.int col.name
                | .int64 => replyInt x.2 col.name != old.int col.name
                | _ => false)) = true
              then some true else none
            else if (flags &&& flagBit w.schema "HasLastUpdateColumn" != 0 && (tab.col? "last_update").isSome) = true then
              if (replyInt x.2 "last_update" != old.int "last_update" ||
                ((dynamicCols w.schema flags tab.name).any fun col =>
                match col.dtype with
                | .int => checkInt8 (replyInt x.2 col.name) != old.int col.name
                | .int64 => replyInt x.2 col.name != old.int col.name
                | _ => false)) = true then some true else none
            else if (!(tab.col? "last_check").isSome) = true then some true
            else some (replyInt x.2 "last_check" != old.int "last_check" ||
              (dynamicCols w.schema flags tab.name).any fun col =>
                match col.dtype with
                | .int => checkInt8 (replyInt x.2 col.name) != old.int col.name
                | .int64 => replyInt x.2 col.name != old.int col.name
                | _ => false)) with
          | none => rows
          | some full => rows.set x.1 (updateRow (dynamicCols w.schema flags tab.name) full old x.2)) =
        deltaStep w flags tab rows x := by
    intro rows x
    unfold deltaStep rowAfter
    cases hx : rows[x.1]? with
    | none => rfl
    | some old =>
      simp only []
      show (match decision w flags tab old x.2 with
        | none => rows
        | some full => rows.set x.1 (updateRow (dynamicCols w.schema flags tab.name) full old x.2)) = _
      cases decision w flags tab old x.2 with
      | none => simp only []; exact (set_same rows x.1 old hx).symm
      | some full => rfl
  have hfold : ∀ (upd : List (Nat × ReplyRow)) (rows : List Row),
      upd.foldl (fun rows (x : Nat × ReplyRow) =>
        match rows[x.1]? with
        | none => rows
        | some old =>
          match (if ((flags &&& flagBit w.schema "HasLastUpdateColumn" != 0 && (tab.col? "last_update").isSome) &&
                (tab.col? "last_check").isSome) = true then
              if (replyInt x.2 "last_update" != old.int "last_update" || replyInt x.2 "last_check" != old.int "last_check" ||
                ((dynamicCols w.schema flags tab.name).any fun col =>
                match col.dtype with
                | .int => checkInt8 (replyInt x.2 col.name) != old.int col.name
                | .int64 => replyInt x.2 col.name != old.int col.name
                | _ => false)) = true
              then some true else none
            else if (flags &&& flagBit w.schema "HasLastUpdateColumn" != 0 && (tab.col? "last_update").isSome) = true then
              if (replyInt x.2 "last_update" != old.int "last_update" ||
                ((dynamicCols w.schema flags tab.name).any fun col =>
                match col.dtype with
                | .int => checkInt8 (replyInt x.2 col.name) != old.int col.name
                | .int64 => replyInt x.2 col.name != old.int col.name
                | _ => false)) = true then some true else none
            else if (!(tab.col? "last_check").isSome) = true then some true
            else some (replyInt x.2 "last_check" != old.int "last_check" ||
              (dynamicCols w.schema flags tab.name).any fun col =>
                match col.dtype with
                | .int => checkInt8 (replyInt x.2 col.name) != old.int col.name
                | .int64 => replyInt x.2 col.name != old.int col.name
                | _ => false)) with
          | none => rows
          | some full => rows.set x.1 (updateRow (dynamicCols w.schema flags tab.name) full old x.2)) rows =
        upd.foldl (deltaStep w flags tab) rows := by
    intro upd
    induction upd with
    | nil => intro rows; rfl
    | cons x xs ih => intro rows; rw [List.foldl_cons, List.foldl_cons, hstep, ih]
  show (match addressed tab cached reply with
    | none => none
    | some upd => some (upd.foldl _ cached)) = _
  cases addressed tab cached reply with
  | none => rfl
  | some upd => exact congrArg some (hfold upd cached)

/-! ### the fold over the addressed rows -/

theorem deltaStep_length (w : World) (flags : Nat) (tab : Table) (rows : List Row) (x : Nat × ReplyRow) :
    (deltaStep w flags tab rows x).length = rows.length := by
  unfold deltaStep
  split
  · rfl
  · exact List.length_set

theorem deltaStep_other (w : World) (flags : Nat) (tab : Table) (rows : List Row) (x : Nat × ReplyRow) (j : Nat)
    (h : x.1 ≠ j) : (deltaStep w flags tab rows x)[j]? = rows[j]? := by
  unfold deltaStep
  split
  · rfl
  · exact List.getElem?_set_ne h

theorem deltaStep_self (w : World) (flags : Nat) (tab : Table) (rows : List Row) (x : Nat × ReplyRow) (old : Row)
    (h : rows[x.1]? = some old) : (deltaStep w flags tab rows x)[x.1]? = some (rowAfter w flags tab old x.2) := by
  unfold deltaStep
  rw [h]
  simp only []
  apply List.getElem?_set_self
  rcases Nat.lt_or_ge x.1 rows.length with hl | hl
  · exact hl
  · rw [List.getElem?_eq_none hl] at h; cases h

theorem foldl_deltaStep_length (w : World) (flags : Nat) (tab : Table) :
    ∀ (upd : List (Nat × ReplyRow)) (rows : List Row), (upd.foldl (deltaStep w flags tab) rows).length = rows.length
  | [], _ => rfl
  | x :: xs, rows => by rw [List.foldl_cons, foldl_deltaStep_length w flags tab xs, deltaStep_length]

theorem foldl_deltaStep_other (w : World) (flags : Nat) (tab : Table) (j : Nat) :
    ∀ (upd : List (Nat × ReplyRow)) (rows : List Row), (∀ x ∈ upd, x.1 ≠ j) →
      (upd.foldl (deltaStep w flags tab) rows)[j]? = rows[j]?
  | [], _, _ => rfl
  | x :: xs, rows, h => by
    rw [List.foldl_cons, foldl_deltaStep_other w flags tab j xs _ (fun y hy => h y (List.mem_cons_of_mem _ hy)),
      deltaStep_other _ _ _ _ _ _ (h x List.mem_cons_self)]

/-- `x` is the only entry of `upd` that addresses its row, and it occurs once -/
def OnlyOnce (upd : List (Nat × ReplyRow)) (x : Nat × ReplyRow) : Prop :=
  ∃ pre post, upd = pre ++ x :: post ∧ (∀ y ∈ pre, y.1 ≠ x.1) ∧ (∀ y ∈ post, y.1 ≠ x.1)

theorem foldl_deltaStep_once (w : World) (flags : Nat) (tab : Table) (upd : List (Nat × ReplyRow)) (rows : List Row)
    (x : Nat × ReplyRow) (old : Row) (hx : OnlyOnce upd x) (hold : rows[x.1]? = some old) :
    (upd.foldl (deltaStep w flags tab) rows)[x.1]? = some (rowAfter w flags tab old x.2) := by
  obtain ⟨pre, post, rfl, h1, h2⟩ := hx
  rw [List.foldl_append, List.foldl_cons, foldl_deltaStep_other w flags tab x.1 post _ h2]
  apply deltaStep_self
  rw [foldl_deltaStep_other w flags tab x.1 pre _ h1]
  exact hold

theorem onlyOnce_of_nodup : ∀ (upd : List (Nat × ReplyRow)) (x : Nat × ReplyRow), (upd.map (·.1)).Nodup → x ∈ upd →
    OnlyOnce upd x
  | [], _, _, h => by cases h
  | y :: ys, x, hn, hm => by
    rw [List.map_cons, List.nodup_cons] at hn
    rcases List.mem_cons.1 hm with rfl | hm
    · refine ⟨[], ys, rfl, (fun _ h => by cases h), fun z hz he => ?_⟩
      exact hn.1 (by rw [← he]; exact List.mem_map_of_mem hz)
    · obtain ⟨pre, post, e, h1, h2⟩ := onlyOnce_of_nodup ys x hn.2 hm
      refine ⟨y :: pre, post, by rw [e]; rfl, fun z hz => ?_, h2⟩
      rcases List.mem_cons.1 hz with hzy | hz
      · intro he
        rw [hzy] at he
        exact hn.1 (by rw [he]; exact List.mem_map_of_mem hm)
      · exact h1 z hz

/-! ### which rows are addressed -/

theorem sortedDelta_perm (tab : Table) (reply : List ReplyRow) : ((sortedDelta tab reply).map (·.2)).Perm reply := by
  unfold sortedDelta
  have := (List.mergeSort_perm (reply.map fun r => (coerceRow tab r, r)) (fun a b => keyLe tab a.1 b.1)).map (·.2)
  simpa [Function.comp_def] using this

theorem sortedDelta_length (tab : Table) (reply : List ReplyRow) : (sortedDelta tab reply).length = reply.length := by
  simp [sortedDelta, List.length_mergeSort]

theorem mapM_some_mem {α β : Type} (f : α → Option β) :
    ∀ (l : List α) (ys : List β), l.mapM f = some ys →
      (∀ y ∈ ys, ∃ a ∈ l, f a = some y) ∧ List.length ys = l.length
  | [], ys, h => by
    simp at h; subst h
    exact ⟨(fun _ h => by cases h), rfl⟩
  | a :: l, ys, h => by
    rw [List.mapM_cons] at h
    cases hfa : f a with
    | none => simp [hfa] at h
    | some y =>
      cases hl : l.mapM f with
      | none => simp [hfa, hl] at h
      | some ys' =>
        simp [hfa, hl] at h
        subst h
        obtain ⟨i1, i2⟩ := mapM_some_mem f l ys' hl
        refine ⟨fun z hz => ?_, by simp [i2]⟩
        rcases List.mem_cons.1 hz with rfl | hz
        · exact ⟨a, List.mem_cons_self, hfa⟩
        · obtain ⟨a', h1, h2⟩ := i1 z hz
          exact ⟨a', List.mem_cons_of_mem _ h1, h2⟩

theorem lookup_spec {tab : Table} {cached : List Row} {r : ReplyRow} {y : Nat × ReplyRow}
    (h : lookup tab cached r = some y) :
    y.2 = r ∧ ∃ c, cached[y.1]? = some c ∧ c.key tab = replyKey tab r := by
  unfold lookup at h
  split at h
  · rename_i c i hf
    cases h
    have hm := List.mem_of_find?_eq_some hf
    have hp := List.find?_some hf
    rw [List.mem_reverse, List.mk_mem_zipIdx_iff_getElem?] at hm
    exact ⟨rfl, c, hm, by simpa using hp⟩
  · cases h

theorem mapM_lookup_snd (tab : Table) (cached : List Row) :
    ∀ (l : List (Row × ReplyRow)) (upd : List (Nat × ReplyRow)),
      l.mapM (fun x => lookup tab cached x.2) = some upd → upd.map (·.2) = l.map (·.2)
  | [], upd, h => by simp at h; subst h; rfl
  | a :: l, upd, h => by
    rw [List.mapM_cons] at h
    cases hfa : lookup tab cached a.2 with
    | none => simp [hfa] at h
    | some y =>
      cases hl : l.mapM (fun x => lookup tab cached x.2) with
      | none => simp [hfa, hl] at h
      | some ys' =>
        simp [hfa, hl] at h
        subst h
        rw [List.map_cons, List.map_cons, mapM_lookup_snd tab cached l ys' hl, (lookup_spec hfa).1]

/-- what `addressed` returns: every reply row exactly once; by position when the reply has as many rows as the
    table — then every row is addressed exactly once —, else each reply row with a cached row carrying its key -/
theorem addressed_spec {tab : Table} {cached : List Row} {reply : List ReplyRow} {upd : List (Nat × ReplyRow)}
    (h : addressed tab cached reply = some upd) :
    (upd.map (·.2)).Perm reply ∧
    (reply.length = cached.length → upd.map (·.1) = List.range cached.length) ∧
    (reply.length ≠ cached.length → ∀ x ∈ upd, ∃ c, cached[x.1]? = some c ∧ c.key tab = replyKey tab x.2) := by
  unfold addressed at h
  split at h
  · rename_i hl
    have hl' : (sortedDelta tab reply).length = cached.length := by simpa using hl
    cases h
    have hlen : (List.range (sortedDelta tab reply).length).length = ((sortedDelta tab reply).map (·.2)).length := by simp
    refine ⟨?_, fun _ => ?_, fun hne => ?_⟩
    · rw [List.map_snd_zip (by rw [hlen]; exact Nat.le_refl _)]; exact sortedDelta_perm tab reply
    · rw [List.map_fst_zip (by rw [hlen]; exact Nat.le_refl _), hl']
    · rw [sortedDelta_length] at hl'; exact absurd hl' hne
  · rename_i hl
    have hl' : (sortedDelta tab reply).length ≠ cached.length := by simpa using hl
    have hsnd := mapM_lookup_snd tab cached _ _ h
    have hmem := (mapM_some_mem _ _ _ h).1
    refine ⟨by rw [hsnd]; exact sortedDelta_perm tab reply, fun he => ?_, fun _ x hx => ?_⟩
    · rw [sortedDelta_length] at hl'; exact absurd he hl'
    · obtain ⟨a, _, ha⟩ := hmem x hx
      obtain ⟨e, c, h1, h2⟩ := lookup_spec ha
      exact ⟨c, h1, by rw [e]; exact h2⟩

/-! ### `UpdateValues` / `UpdateValuesNumberOnly` cell by cell -/

theorem cell_setCell_same (r : Row) (n : String) (v : Val) : (r.setCell n v).cell? n = some v := by
  unfold Row.setCell Row.cell?
  simp only [List.find?_append]
  have : (r.cells.filter (fun x => x.1 != n)).find? (fun x => x.1 == n) = none := by
    rw [List.find?_eq_none]
    intro x hx
    have := (List.mem_filter.1 hx).2
    simpa using this
  rw [this]
  simp

theorem cell_setCell_other (r : Row) (n n' : String) (v : Val) (h : n' ≠ n) :
    (r.setCell n v).cell? n' = r.cell? n' := by
  unfold Row.setCell Row.cell?
  simp only [List.find?_append, List.find?_filter]
  have h1 : (List.find? (fun x => x.1 == n') [(n, v)]) = none := by
    simp [h.symm]
  have h2 : r.cells.find? (fun a => decide ((a.1 != n) = true ∧ (a.1 == n') = true)) = r.cells.find? (fun a => a.1 == n') := by
    congr 1
    funext a
    by_cases ha : a.1 = n'
    · simp [ha, h]
    · simp [ha]
  rw [h1, h2]
  simp

/-- the step `updateRow` folds over the columns -/
def writeCol (full : Bool) (reply : ReplyRow) (r : Row) (c : Column) : Row :=
  if full || isNumericCol c then
    match reply.find? (·.1 == c.name) with
    | some (_, j) => r.setCell c.name (coerce c.dtype j)
    | none => r
  else r

theorem updateRow_eq (cols : List Column) (full : Bool) (old : Row) (reply : ReplyRow) :
    updateRow cols full old reply = cols.foldl (writeCol full reply) old := rfl

theorem writeCol_other (full : Bool) (reply : ReplyRow) (r : Row) (c : Column) (n : String) (h : c.name ≠ n) :
    (writeCol full reply r c).cell? n = r.cell? n := by
  unfold writeCol
  split
  · split
    · exact cell_setCell_other _ _ _ _ h.symm
    · rfl
  · rfl

/-- a cell no written column is named after keeps its value -/
theorem updateRow_cell_untouched (full : Bool) (reply : ReplyRow) (n : String) :
    ∀ (cols : List Column) (old : Row),
      (∀ c ∈ cols, c.name = n → (full || isNumericCol c) = false ∨ reply.find? (·.1 == n) = none) →
      (updateRow cols full old reply).cell? n = old.cell? n
  | [], _, _ => rfl
  | c :: cs, old, h => by
    rw [updateRow_eq, List.foldl_cons, ← updateRow_eq,
      updateRow_cell_untouched full reply n cs _ (fun d hd => h d (List.mem_cons_of_mem _ hd))]
    by_cases hc : c.name = n
    · unfold writeCol
      rcases h c List.mem_cons_self hc with h1 | h1
      · rw [h1]; rfl
      · rw [hc, h1]; split <;> rfl
    · exact writeCol_other _ _ _ _ _ hc

/-- a written column (all of them for a full update, the numeric ones else) that the reply delivers holds the
    coerced delivered value afterwards, when column names are unique -/
theorem updateRow_cell_written (full : Bool) (reply : ReplyRow) (c : Column) (k : String) (j : Lean.Json) :
    ∀ (cols : List Column) (old : Row), (cols.map (·.name)).Nodup → c ∈ cols →
      (full || isNumericCol c) = true → reply.find? (·.1 == c.name) = some (k, j) →
      (updateRow cols full old reply).cell? c.name = some (coerce c.dtype j)
  | [], _, _, hm, _, _ => by cases hm
  | d :: ds, old, hn, hm, hw, hr => by
    rw [List.map_cons, List.nodup_cons] at hn
    rw [updateRow_eq, List.foldl_cons, ← updateRow_eq]
    rcases List.mem_cons.1 hm with rfl | hm
    · rw [updateRow_cell_untouched full reply c.name ds _ (fun e he hne => absurd (by rw [← hne]; exact List.mem_map_of_mem he) hn.1)]
      unfold writeCol
      rw [hw, hr]
      exact cell_setCell_same _ _ _
    · exact updateRow_cell_written full reply c k j ds _ hn.2 hm hw hr


/-! ### the full / numbers-only decision -/

theorem decision_noLU {w : World} {flags : Nat} {tab : Table} (old : Row) (r : ReplyRow)
    (h1 : hasLU w flags tab = false) (h2 : hasLC tab = true) :
    decision w flags tab old r =
      some (replyInt r "last_check" != old.int "last_check" || intChanged (dynamicCols w.schema flags tab.name) old r) := by
  unfold decision
  simp [h1, h2]

theorem intChanged_false {dyn : List Column} {old : Row} {r : ReplyRow} (h : intChanged dyn old r = false) :
    ∀ col ∈ dyn, (col.dtype = .int → checkInt8 (replyInt r col.name) = old.int col.name) ∧
      (col.dtype = .int64 → replyInt r col.name = old.int col.name) := by
  intro col hc
  unfold intChanged at h
  rw [List.any_eq_false] at h
  have := h col hc
  constructor
  · intro hd; rw [hd] at this; simpa using this
  · intro hd; rw [hd] at this; simpa using this

/-! ### the delta run of a loop pass -/

/-- A loop pass over an awake peer that is `Up` with data, in the same minute as the last timeperiod refresh,
    whose next run is due, without periodic full updates pending and without a forced full fetch, is a delta run
    from the previous update time. -/
theorem tick_delta (w : World) (now : Int) (p : PeerSt) (b : BackendSt) (c : Cache)
    (hc : p.cache = some c) (hs : p.status = .up) (hidle : idlesAt w now p = false)
    (hmin : p.lastTpMinute = (now / 60) % 60) (hdue : ¬ now < p.lastUpdate + w.cfg.updateInterval)
    (hfull : ¬ (w.cfg.fullUpdateInterval > 0 ∧ now > p.lastFullUpdate + w.cfg.fullUpdateInterval))
    (hforce : p.forceFull = false) :
    tick w now p b = deltaRun w now { p with lastUpdate := now } b c p.lastUpdate := by
  have hidling : p.idling = false := by
    unfold idlesAt at hidle
    cases hi : p.idling
    · rfl
    · rw [hi] at hidle; simp at hidle
  have hstep : idleStep w now p = p := by
    have h1 := idleStep_idling w now p
    unfold idleStep at h1 ⊢
    split
    · rename_i hcond
      rw [if_pos hcond] at h1
      rw [hidle] at h1; cases h1
    · rfl
  rw [tick_eq, hstep]
  have htp : tpStep w now p b p.cache = (none, p, b, some c) := by
    unfold tpStep
    rw [hc]
    simp only []
    rw [if_neg (by simp [hidling, hmin])]
  rw [htp]
  simp only []
  have hnd : nextDue w p.lastUpdate p = p.lastUpdate + w.cfg.updateInterval := by
    unfold nextDue; rw [hidling]; simp
  unfold mainStep
  rw [hnd, if_neg hdue]
  have e1 : ({ p with lastUpdate := now } : PeerSt).idling = false := hidling
  have e2 : ({ p with lastUpdate := now } : PeerSt).lastFullUpdate = p.lastFullUpdate := rfl
  have e3 : ({ p with lastUpdate := now } : PeerSt).forceFull = false := hforce
  generalize ({ p with lastUpdate := now } : PeerSt) = p' at e1 e2 e3 ⊢
  rw [hs]
  unfold dispatch
  simp only []
  unfold upRun
  have hcond : (!p'.idling && decide (w.cfg.fullUpdateInterval > 0) &&
      decide (now > p'.lastFullUpdate + w.cfg.fullUpdateInterval)) = false := by
    rw [e1, e2]
    by_cases h1 : w.cfg.fullUpdateInterval > 0
    · by_cases h2 : now > p.lastFullUpdate + w.cfg.fullUpdateInterval
      · exact absurd ⟨h1, h2⟩ hfull
      · simp [h2]
    · simp [h1]
  rw [if_neg (by rw [hcond]; simp)]
  simp only [e3, Bool.false_eq_true, if_false]

/-- a delta run whose update succeeds publishes the updated tables and leaves the update time at `now` -/
theorem deltaRun_of_ok {w : World} {now : Int} {p : PeerSt} {b : BackendSt} {c : Cache} {fromT : Int}
    (h : (updateDelta w now p b c fromT).err = .none) :
    (deltaRun w now p b c fromT).p = withCache (updateDelta w now p b c fromT) ∧
      (deltaRun w now p b c fromT).err = .none ∧ (deltaRun w now p b c fromT).p.lastUpdate = now := by
  have hp : (deltaRun w now p b c fromT).p = withCache (updateDelta w now p b c fromT) := by
    unfold deltaRun finishStep
    simp only [h]
  have he : (deltaRun w now p b c fromT).err = .none := by
    unfold deltaRun finishStep
    simp only [h]
  refine ⟨hp, he, ?_⟩
  rw [hp, (withCache_frame _).2.2.2.2.1]
  exact (updateDelta_ok h).2.2.2.2.1


/-! ### the delta request and the full scan -/

theorem deltaReply_mem (rows : List ReplyRow) (tsCol : String) (lo hi : Int) (executing : Bool) (extra : List Int)
    (r : ReplyRow) :
    r ∈ deltaReply rows tsCol (some (lo, hi)) executing extra ↔
      r ∈ rows ∧ ((lo ≤ replyInt r tsCol ∧ replyInt r tsCol < hi) ∨
        (executing = true ∧ replyInt r "is_executing" = 1) ∨ replyInt r "last_check" ∈ extra) := by
  unfold deltaReply
  rw [List.mem_filter]
  apply and_congr_right
  intro _
  simp [or_assoc]

/-- `getMissingTimestamps`: the `last_check` values of the objects whose scan columns differ from the cache and whose
    `last_check` lies before the window, sorted, without duplicates -/
def scanMissing (w : World) (tname : String) (flags0 flags1 : Nat) (threshold : Int) (backend : List ReplyRow)
    (cached : List Row) : List Int :=
  let tab := tableOf w tname
  let cols := scanColumns (tsColumn w flags0 == "last_check") ((flags1 &&& flagBit w.schema "HasLastUpdateColumn") != 0)
  ((((sortedReply w tname backend).zip cached).filter fun (r, old) =>
      replyInt r "last_check" < threshold && scanChanged tab cols old r).map (fun (r, _) => replyInt r "last_check")
    |>.mergeSort (· ≤ ·)).eraseDups

theorem scanMissing_mem (w : World) (tname : String) (flags0 flags1 : Nat) (threshold : Int) (backend : List ReplyRow)
    (cached : List Row) (v : Int) :
    v ∈ scanMissing w tname flags0 flags1 threshold backend cached ↔
      ∃ x ∈ (sortedReply w tname backend).zip cached, replyInt x.1 "last_check" = v ∧ v < threshold ∧
        scanChanged (tableOf w tname)
          (scanColumns (tsColumn w flags0 == "last_check") ((flags1 &&& flagBit w.schema "HasLastUpdateColumn") != 0))
          x.2 x.1 = true := by
  unfold scanMissing
  simp only [List.mem_eraseDups, List.mem_mergeSort, List.mem_map, List.mem_filter, Bool.and_eq_true, decide_eq_true_eq]
  constructor
  · rintro ⟨x, ⟨hx, h1, h2⟩, rfl⟩
    exact ⟨x, hx, rfl, h1, h2⟩
  · rintro ⟨x, hx, rfl, h1, h2⟩
    exact ⟨x, ⟨hx, h1, h2⟩, rfl⟩

/-- the hosts / services step when the full scan is due and answered with no more objects than cached -/
theorem deltaTable_scan (w : World) (now : Int) (p : PeerSt) (b : BackendSt) (c : Cache) (tname : String)
    (window : Option (Int × Int)) (threshold : Int)
    (hdue : ¬ lastFullOf p tname > now - 60) (hq : (query w now p b).2.2 = none)
    (hlen : ¬ (c.get tname).length < (b.rows tname).length) :
    deltaTable w now p b c tname window threshold =
      let q := query w now p b
      let missing := scanMissing w tname p.flags q.1.flags threshold (b.rows tname) (c.get tname)
      if missing.isEmpty then plainStep w now c tname window p.flags q.1 q.2.1 [] false
      else plainStep w now c tname window p.flags q.1 q.2.1 (if tsFilterLen missing > 150 then missing.take 149 else missing) true := by
  rw [deltaTable_eq]
  simp only []
  rw [if_neg hdue]
  simp only [hq]
  have hrows := query_rows w now p b true tname
  rw [hrows]
  have hl : ¬ (c.get tname).length <
      (List.map (fun x => x.2) ((List.map (fun r => (coerceRow ((w.schema.table? tname).getD { name := tname, cols := [] }) r, r))
        (b.rows tname)).mergeSort fun a b => keyLe ((w.schema.table? tname).getD { name := tname, cols := [] }) a.1 b.1)).length := by
    simpa [List.length_mergeSort] using hlen
  rw [if_neg hl]
  rfl

theorem nodup_name_eq : ∀ {cols : List Column}, (cols.map (·.name)).Nodup → ∀ {c d : Column}, c ∈ cols → d ∈ cols →
    c.name = d.name → c = d
  | [], _, _, _, hc, _, _ => by cases hc
  | x :: xs, hn, c, d, hc, hd, he => by
    rw [List.map_cons, List.nodup_cons] at hn
    rcases List.mem_cons.1 hc with hc | hc <;> rcases List.mem_cons.1 hd with hd | hd
    · rw [hc, hd]
    · exact absurd (by rw [← hc, he]; exact List.mem_map_of_mem hd) hn.1
    · exact absurd (by rw [← hd, ← he]; exact List.mem_map_of_mem hc) hn.1
    · exact nodup_name_eq hn.2 hc hd he


/-! ### a run that finds nothing to do -/

/-- an empty reply addresses nothing -/
theorem applyDelta_nil (w : World) (flags : Nat) (tab : Table) (cached : List Row) :
    applyDelta w flags tab cached [] = some cached := by
  rw [applyDelta_eq]
  simp only [addressed, sortedDelta, List.map_nil, List.mergeSort_nil, List.length_nil, List.range_zero, List.zip_nil_left]
  split <;> rfl

/-- the hosts / services step against a backend without such objects, the full scan not being due -/
theorem winStep_quiet (w : World) (now fromT : Int) (p : PeerSt) (b : BackendSt) (c : Cache) (t : String)
    (hlast : lastFullOf p t > now - 60) (hq : (query w now p b).2.2 = none) (hrows : b.rows t = []) :
    winStep w now fromT p b c t =
      { p := (query w now p b).1, b := (query w now p b).2.1, cache := c.set t (c.get t), err := .none } := by
  have h : ∀ win thr, deltaTable w now p b c t win thr =
      { p := (query w now p b).1, b := (query w now p b).2.1, cache := c.set t (c.get t), err := .none } := by
    intro win thr
    rw [deltaTable_eq]
    simp only []
    rw [if_pos hlast]
    unfold plainStep
    simp only [hq]
    rw [query_rows, hrows]
    have : deltaReply [] (tsColumn w p.flags) win
        (tsColumn w p.flags == "last_check" && w.cfg.syncIsExecuting && (p.flags &&& flagBit w.schema "Shinken") == 0) [] = [] := rfl
    rw [this, applyDelta_nil]
    simp only [Bool.false_eq_true, if_false]
  unfold winStep
  split <;> exact h _ _

/-- the world of the examples: no schema (every table has no columns), default configuration -/
def exWorld0 : World := { cfg := {}, schema := { tables := [] }, mainRestart := 100 }

/-- a backend that answers, with one status row and no other objects -/
def exBackend0 : BackendSt :=
  { tables := [("status", [[("program_start", Lean.Json.num 5), ("nagios_pid", Lean.Json.num 7)]])], cols := [] }

/-- an awake peer that is `Up` with an (empty) table set, last updated at 120 -/
def exPeer0 : PeerSt :=
  { status := .up, cache := some [], lastError := "", lastOnline := 120, lastUpdate := 120, lastFullHostUpdate := 120,
    lastFullServiceUpdate := 120, lastFullUpdate := 120, lastQuery := 125, lastTpMinute := 2 }

/-- a delta update that succeeds -/
theorem exDelta_ok : (updateDelta exWorld0 130 { exPeer0 with lastUpdate := 130 } exBackend0 [] 120).err = .none := by
  rw [updateDelta_eq]
  have h0 : updateFullTable exWorld0 130 { exPeer0 with lastUpdate := 130 } exBackend0 [] "status" =
      { p := { exPeer0 with lastUpdate := 130 }, b := exBackend0, cache := [], err := .none } := by
    rw [updateFullTable_eq]; rfl
  simp only [h0]
  rw [winStep_quiet exWorld0 130 120 _ exBackend0 [] "hosts" (by decide) (by decide) rfl]
  simp only []
  rw [winStep_quiet exWorld0 130 120 _ _ _ "services" (by decide) (by decide) (by rw [query_rows]; rfl)]
  simp only []
  decide

/-- the loop pass at 130 over `exPeer0` is a successful delta run, and leaves a peer whose next pass at 140 is a
    delta run again -/
theorem exTick_fields :
    exPeer0.cache = some [] ∧ exPeer0.status = .up ∧ idlesAt exWorld0 130 exPeer0 = false ∧
    exPeer0.lastTpMinute = ((130 : Int) / 60) % 60 ∧ ¬ (130 : Int) < exPeer0.lastUpdate + exWorld0.cfg.updateInterval ∧
    ¬ (exWorld0.cfg.fullUpdateInterval > 0 ∧ (130 : Int) > exPeer0.lastFullUpdate + exWorld0.cfg.fullUpdateInterval) ∧
    exPeer0.forceFull = false ∧
    (∃ c', (tick exWorld0 130 exPeer0 exBackend0).p.cache = some c') ∧
    (tick exWorld0 130 exPeer0 exBackend0).p.status = .up ∧
    idlesAt exWorld0 140 (tick exWorld0 130 exPeer0 exBackend0).p = false ∧
    (tick exWorld0 130 exPeer0 exBackend0).p.lastTpMinute = ((140 : Int) / 60) % 60 ∧
    ¬ (140 : Int) < (tick exWorld0 130 exPeer0 exBackend0).p.lastUpdate + exWorld0.cfg.updateInterval ∧
    (tick exWorld0 130 exPeer0 exBackend0).p.forceFull = false := by
  have a1 : exPeer0.cache = some [] := rfl
  have a2 : exPeer0.status = .up := rfl
  have a3 : idlesAt exWorld0 130 exPeer0 = false := by decide
  have a4 : exPeer0.lastTpMinute = ((130 : Int) / 60) % 60 := by decide
  have a5 : ¬ (130 : Int) < exPeer0.lastUpdate + exWorld0.cfg.updateInterval := by decide
  have a6 : ¬ (exWorld0.cfg.fullUpdateInterval > 0 ∧ (130 : Int) > exPeer0.lastFullUpdate + exWorld0.cfg.fullUpdateInterval) := by decide
  have a7 : exPeer0.forceFull = false := rfl
  refine ⟨a1, a2, a3, a4, a5, a6, a7, ?_⟩
  rw [tick_delta exWorld0 130 exPeer0 exBackend0 [] a1 a2 a3 a4 a5 a6 a7]
  have e120 : exPeer0.lastUpdate = 120 := rfl
  rw [e120]
  obtain ⟨hp, _, _⟩ := deltaRun_of_ok exDelta_ok
  rw [hp]
  -- evaluate the update: the same steps as in `exDelta_ok`
  rw [updateDelta_eq]
  have h0 : updateFullTable exWorld0 130 { exPeer0 with lastUpdate := 130 } exBackend0 [] "status" =
      { p := { exPeer0 with lastUpdate := 130 }, b := exBackend0, cache := [], err := .none } := by
    rw [updateFullTable_eq]; rfl
  simp only [h0]
  rw [winStep_quiet exWorld0 130 120 _ exBackend0 [] "hosts" (by decide) (by decide) rfl]
  simp only []
  rw [winStep_quiet exWorld0 130 120 _ _ _ "services" (by decide) (by decide) (by rw [query_rows]; rfl)]
  simp only []
  refine ⟨?_, by decide, by decide, by decide, by decide, by decide⟩
  exact Option.isSome_iff_exists.1 (by decide)

end Lmd.PeerL
